"""C04 — every analytic gradient is the derivative of the value it accompanies."""
import math

import numpy

from lib import common as C
from lib import gpgen
from py2v import gen

PROP = "C04"
PROPS_FILES = ["Props/C04_kernels.v", "Props/C04_acq.v", "Props/C04_gp.v", "Props/C04_poly.v", "Props/C04_handir.v", "Props/C04_acq_gauss.v", "Props/C04_loglik.v", "Props/C04_loglik_se.v", "Props/C04_loglik_matern.v"]
ASSUMPTIONS = [
  "real arithmetic (Coq R, Coquelicot is_derive); rounding outside the model",
  "log marginal likelihood gradient is proved IN FULL (Props/C04_loglik.v): Coq's R is given the MathComp realFieldType structure (Lib/RStruct.v), the derivative of the determinant, Jacobi's formula "
  "d ln det K = tr(K^-1 dK) and d(K^-1) = -K^-1 dK K^-1 are proved for matrices of differentiable real functions (Lib/RMxDeriv.v), the envelope identity P' a = 0 is the C02 lemma instantiated at R; the theorem "
  "is stated on the regenerated value (GenLogLik / GenGP: noise, nugget, zero mean) and the regenerated gradient; for the SquareExponential, C2 and C4 Matern kernels the differentiability hypothesis is DISCHARGED by composing with C04_kernels (Props/C04_loglik_se.v, Props/C04_loglik_matern.v: the regenerated kernel matrix as a function of the "
  "hyperparameter vector, the regenerated tensor fed to the regenerated gradient, also for the translated loops grad_linear / grad_logdom); remaining hypotheses: positive length scale at the point of differentiation, the Cholesky contract (L L' = K, lower triangular, positive diagonal) near theta, P' K^-1 P invertible; the older C04_loglik_grad_partial stays (superseded)",
  "axioms of the likelihood theorems: the four standard-library real-number / classical axioms plus ClassicalEpsilon.constructive_indefinite_description (standard library; needed for the choiceType structure on R)",
  "EI gradient: the clamp max(0, .) is never active (z Phi(z) + pdf(z) > 0 for all z, proved from the Gaussian tail in Lib/Gauss.v / Proofs/AcqGauss.v), so the generated gradient is the derivative unconditionally (Props/C04_acq_gauss.v)",
  "logistic success probability: gradient proved below the exponent cap (kappa (mean - threshold) < 40)",
  "the product-model gradient and the likelihood-gradient loop, written by hand in the first rounds, are now also TRANSLATED from the source loops (range loops, boolean masks, per-element stores) and the hand-written forms are proved equal to the translated ones (Props/C04_handir.v)",
  "C0 Matern has no gradient in the library (not a DifferentiableCovariance)",
]
TRUSTED = ["tools/py2v translator (dual-rendering self-check on every run; the two hand-written IR units are proved equal to their translated counterparts)"]
LEVEL_TEXT = ("Coquelicot is_derive theorems stated on the value/gradient pairs regenerated from the source on every run: kernels w.r.t. inputs for all "
              "point pairs (coincident points by a squeeze argument) and w.r.t. every hyperparameter, multitask product rule, GP mean and variance "
              "(symmetric K^-1, translation invariance), EI, augmented penalty, product rule for penalised EI, logistic / CDF / product success "
              "probabilities (n-factor product rule by induction), cost-scaled multitask quotient rule, Parzen ratio, log-likelihood (in full: determinant derivative, Jacobi's formula, derivative of the inverse, GLS envelope step) in linear "
              "and log parameterisation; joint entry points are projections of the same terms; Richardson finite-difference search on the running code")
LEVEL_NOTE = ("likelihood gradient proved in full (Jacobi's formula and the derivative of the inverse proved over real matrices); the EI clamp is proved inactive, the logistic cap as stated; translator trusted after self-check; axioms: standard-library "
              "real-number axioms (sig_not_dec, sig_forall_dec, functional_extensionality_dep, classic; constructive_indefinite_description for the matrix theorems over R)")
TECHNIQUE = "Coquelicot derivative proofs on value/gradient pairs regenerated from source (translator) + Richardson finite-difference search"
DESIGN_REF = "DESIGN.md section 7, C04"


def generate(ctx):
  return gen.generate(ctx, ["GenCovariance", "GenMultitask", "GenAcq"], selfcheck_reps=2)


def richardson(f, x, j, h):
  def d(hh):
    xp, xm = x.copy(), x.copy()
    xp[j] += hh
    xm[j] -= hh
    return (f(xp) - f(xm)) / (2 * hh)
  return (4 * d(h / 2) - d(h)) / 3


def compare(name, analytic, f, x, inp, tol=1e-4, hvec=None, fscale=1.0):
  """analytic: array of d f / d x_j for every coordinate j of x (f scalar).
  hvec[j]: the natural unit of coordinate j (a length scale of the inputs, the size of a hyperparameter), fscale: the natural unit of f.  The
  step ladder is taken in those units and the error is normalised by max(1e-3 * fscale / hvec[j], |g_j|): the reading of "equals the numerical
  derivative" (DESIGN 11.5) is stated for problems of size one and carried to any other size by the change of units under which the property
  is invariant.  With hvec = 1, fscale = 1 this is the comparison as it always was."""
  hv = numpy.ones(len(x)) if hvec is None else numpy.asarray(hvec, dtype=float) * numpy.ones(len(x))
  best = None
  for h in (1e-2, 3e-3, 1e-3, 3e-4, 1e-4, 3e-5, 1e-5):
    num = numpy.array([richardson(f, x, j, h * hv[j]) for j in range(len(x))])
    err = numpy.abs(num - analytic) / numpy.maximum(1e-3 * fscale / hv, numpy.abs(analytic))
    e = float(err.max())
    if best is None or e < best[0]:
      best = (e, num)
    if e <= tol:
      return None
  return dict(signature=f"C04:{name}", what=f"{name}: analytic gradient differs from the Richardson-extrapolated central difference", input=inp,
              observed=numpy.asarray(analytic).tolist(), expected=best[1].tolist(), oracle="Richardson central differences, step ladder 1e-2..1e-5 in the problem's own units")


def rescale(gi, s, t):
  """The same problem in other units: outputs measured in units of 1/s (values * s, variances * s^2: noise, process variance), inputs in units
  of 1/t (points, evaluation points and length scales * t).  Every value / gradient pair of the property is covariant under this change
  (means * s, variances * s^2, EI * s, probabilities and the EI-per-cost ratio unchanged, the likelihood shifted by a constant; gradients
  / t), so a pair that is right at size one is right at every size - unless the code carries an absolute constant."""
  cov = dict(gi["cov"])
  cov["hp"] = [cov["hp"][0] * s * s] + [v * t for v in cov["hp"][1:]]
  return dict(gi, cov=cov, points=[[v * t for v in row] for row in gi["points"]], xs=[[v * t for v in row] for row in gi["xs"]],
              values=[v * s for v in gi["values"]], noise=[v * s * s for v in gi["noise"]])


def oracle(inp):
  fam = inp["family"]
  gi = inp["gp"]
  units = inp.get("units") or {}
  us, ut = float(units.get("out", 1.0)), float(units.get("inp", 1.0))   # size of the outputs / of the inputs (1, 1: the problem as generated)
  if units:
    gi = rescale(gi, us, ut)
    inp = dict(inp, thr=[v * us for v in inp["thr"]])
  rng = numpy.random.RandomState(inp["seed"])
  if fam == "kernel":
    cov = gpgen.make_cov(gi["cov"])
    dim = cov.dim if gi["cov"]["cls"] != "multitask" else len(gi["cov"]["hp"]) - 1
    x = numpy.array(gi["xs"][0][:dim] if len(gi["xs"][0]) >= dim else gi["xs"][0], dtype=float)
    z = numpy.array(gi["points"][0], dtype=float)
    if inp.get("coincident"):
      z = x.copy()
    g = cov.grad_covariance(x[None, :], z[None, :])[0]
    r = compare("kernel:grad_covariance", g, lambda p: float(cov.covariance(p[None, :], z[None, :])[0]), x, inp, hvec=ut, fscale=us * us)
    if r and not (inp.get("coincident") and gi["cov"]["cls"] != "SquareExponential" and False):
      return r
    hp = numpy.array(cov.hyperparameters, dtype=float)
    hg = cov.hyperparameter_grad_covariance(x[None, :], z[None, :])[0]
    def fh(h):
      c2 = gpgen.make_cov(dict(gi["cov"], hp=list(h)))
      return float(c2.covariance(x[None, :], z[None, :])[0])
    hpunits = [us * us] + [ut] * (len(hp) - 1)
    r = compare("kernel:hyperparameter_grad_covariance", hg, fh, hp, inp, hvec=hpunits, fscale=us * us)
    if r:
      return r
    pts = numpy.array(gi["points"], dtype=float)
    T = cov.build_kernel_grad_tensor(pts, x[None, :])[0]            # (n, dim)
    for jrow in (0, len(pts) - 1):
      r = compare("kernel:build_kernel_grad_tensor", T[jrow], lambda p: float(cov.build_kernel_matrix(pts, p[None, :])[0, jrow]), x, inp, hvec=ut, fscale=us * us)
      if r:
        return r
    H = cov.build_kernel_hparam_grad_tensor(pts)                    # (n, n, nh)
    def fm(h):
      return float(gpgen.make_cov(dict(gi["cov"], hp=list(h))).build_kernel_matrix(pts)[0, 1])
    return compare("kernel:build_kernel_hparam_grad_tensor", H[0, 1], fm, hp, inp, hvec=hpunits, fscale=us * us)
  gp = gpgen.make_gp(gi)
  x = numpy.array(gi["xs"][0], dtype=float)
  if inp.get("on_data"):
    x = gp.points_sampled[0].copy()
  if inp.get("far"):
    x = x + 3.0 * ut
  if inp.get("very_far"):          # tens of length scales away from every observation (kernel sums of the order of 1e-10 and below)
    x = x + float(inp["very_far"])
  if inp.get("zero_coord") is not None:   # a coordinate that is exactly 0.0 (a bound, a one-hot entry): pow(0, k) terms of polynomial means
    x[int(inp["zero_coord"]) % len(x)] = 0.0
  if fam == "gp":
    r = compare("gp:grad_mean", gp.compute_grad_mean_of_points(x[None, :])[0], lambda p: float(gp.compute_mean_of_points(p[None, :])[0]), x, inp, hvec=ut, fscale=us)
    if r:
      return r
    r = compare("gp:grad_variance", gp.compute_grad_variance_of_points(x[None, :])[0], lambda p: float(gp.compute_variance_of_points(p[None, :])[0]), x, inp, hvec=ut, fscale=us * us)
    if r:
      return r
    m, v, gm, gv = gp.compute_mean_variance_grad_of_points(x[None, :])
    if not (numpy.allclose(gm[0], gp.compute_grad_mean_of_points(x[None, :])[0], rtol=1e-9, atol=1e-12 * us / ut) and numpy.allclose(gv[0], gp.compute_grad_variance_of_points(x[None, :])[0], rtol=1e-9, atol=1e-12 * us * us / ut)):
      return dict(signature="C04:gp:joint-differs", what="joint mean/variance/gradient entry point differs from the separate ones", input=inp, observed=None, expected=None, oracle="equality of entry points")
    from libsigopt.compute.gaussian_process_sum import GaussianProcessSum
    gp2 = gpgen.make_gp(dict(gi, values=list(reversed(gi["values"]))))
    s = GaussianProcessSum([gp, gp2], [0.3, 0.7])
    r = compare("gpsum:grad_mean", s.compute_grad_mean_of_points(x[None, :])[0], lambda p: float(s.compute_mean_of_points(p[None, :])[0]), x, inp, hvec=ut, fscale=us)
    if r:
      return r
    return compare("gpsum:grad_variance", s.compute_grad_variance_of_points(x[None, :])[0], lambda p: float(s.compute_variance_of_points(p[None, :])[0]), x, inp, hvec=ut, fscale=us * us)
  if fam in ("ei", "aei", "eiwf", "maf"):
    from libsigopt.compute.expected_improvement import AugmentedExpectedImprovement, ExpectedImprovement, ExpectedImprovementWithFailures
    from libsigopt.compute.multitask_acquisition_function import MultitaskAcquisitionFunction
    from libsigopt.compute.probabilistic_failures import ProbabilisticFailures, ProbabilisticFailuresCDF, ProductOfListOfProbabilisticFailures
    if fam == "ei":
      af = ExpectedImprovement(gp)
    elif fam == "aei":
      af = AugmentedExpectedImprovement(gp)
    elif fam == "eiwf":
      pf = ProductOfListOfProbabilisticFailures([ProbabilisticFailures(gp, inp["thr"][0]), ProbabilisticFailuresCDF(gp, inp["thr"][1])])
      af = ExpectedImprovementWithFailures(gp, pf)
    else:
      af = MultitaskAcquisitionFunction(ExpectedImprovement(gp))
      x = x.copy()
      x[-1] = inp["cost"]
    val = float(af.evaluate_at_point_list(x[None, :])[0])
    if val < 1e-12 * us:
      return None   # underflow region: the value is numerically zero (in the units of the outputs) and finite differences carry no information
    g = af.evaluate_grad_at_point_list(x[None, :])[0]
    jv, jg = af.joint_function_gradient_eval(x[None, :])
    if not (numpy.allclose(jv[0], val, rtol=1e-9, atol=1e-300) and numpy.allclose(jg[0], g, rtol=1e-9, atol=1e-300)):
      return dict(signature=f"C04:{fam}:joint-differs", what="joint value-and-gradient entry point differs from the separate ones", input=inp,
                  observed=[float(jv[0]), jg[0].tolist()], expected=[val, g.tolist()], oracle="equality of entry points")
    scale = max(val, 1e-12 * us)
    r = compare(f"{fam}:grad", g / scale, lambda p: float(af.evaluate_at_point_list(p[None, :])[0]) / scale, x, inp, hvec=ut)
    return r
  if fam == "pf":
    from libsigopt.compute.probabilistic_failures import ProbabilisticFailures, ProbabilisticFailuresCDF, ProductOfListOfProbabilisticFailures
    models = [ProbabilisticFailures(gp, inp["thr"][0]), ProbabilisticFailuresCDF(gp, inp["thr"][1])]
    models.append(ProductOfListOfProbabilisticFailures(list(models) + [ProbabilisticFailures(gp, inp["thr"][1])]))
    if inp.get("zero_factor"):
      # a factor that is exactly 0.0 in double precision (threshold 1e4 below the posterior mean: norm.cdf underflows to 0, so does its
      # gradient): the product and its true gradient are 0; a leave-one-out product formed by division is 0/0 there
      far = ProbabilisticFailuresCDF(gp, float(gp.compute_mean_of_points(x[None, :])[0]) - 1e4 * us)
      assert float(far.compute_probability_of_success(x[None, :])[0]) == 0.0
      models.append(ProductOfListOfProbabilisticFailures([models[0], far, models[1]]))
    for k, m in enumerate(models):
      if k == 0 and m.kappa * (float(gp.compute_mean_of_points(x[None, :])[0]) - inp["thr"][0]) > 39.0:
        continue
      g = m.compute_grad_probability_of_success(x[None, :])[0]
      if not numpy.all(numpy.isfinite(g)):
        return dict(signature=f"C04:pf:{type(m).__name__}:non-finite-gradient", what="gradient of a success probability is not finite", input=inp,
                    observed=numpy.asarray(g).tolist(), expected="finite", oracle="finiteness")
      r = compare(f"pf:{type(m).__name__}", g, lambda p: float(m.compute_probability_of_success(p[None, :])[0]), x, inp, hvec=ut)
      if r:
        return r
      jv, jg = m.joint_function_gradient_eval(x[None, :])
      if not numpy.allclose(jg[0], g, rtol=1e-9, atol=1e-300):
        return dict(signature="C04:pf:joint-differs", what="joint entry point of a success-probability model differs", input=inp, observed=None, expected=None, oracle="equality")
    return None
  if fam == "spe":
    from libsigopt.compute.sigopt_parzen_estimator import SigOptParzenEstimator
    dim = len(gi["points"][0])
    pts = rng.uniform(0, 1, size=(12, dim))
    vals = rng.uniform(-1, 1, size=12)
    kl, kg = gpgen.make_cov(dict(cls=inp["kl"], hp=[1.0] + [0.3] * dim)), gpgen.make_cov(dict(cls=inp["kg"], hp=[1.0] + [0.4] * dim))
    spe = SigOptParzenEstimator(lower_covariance=kl, greater_covariance=kg, points_sampled_points=pts, points_sampled_values=vals, gamma=inp["gamma"])
    g = spe.evaluate_grad_expected_improvement(x[None, :])[0]
    return compare("spe:grad_ratio", g, lambda p: float(spe.evaluate_expected_improvement(p[None, :])[2][0]), x, inp)
  if fam == "loglik":
    from libsigopt.compute.log_likelihood import GaussianProcessLogMarginalLikelihood
    ll = GaussianProcessLogMarginalLikelihood(gpgen.make_cov(gi["cov"]), gp.historical_data, gi.get("mean_idx"), log_domain=inp["log_domain"],
                                              use_auto_noise=inp["auto_noise"], scaling_factor=inp["sf"])
    h0 = numpy.array(ll.hyperparameters, dtype=float)
    if inp["auto_noise"]:
      # the default nugget 1e-10 makes K numerically singular (finite differences of the likelihood are then rounding noise):
      # move to a nugget of the order of the noise before differentiating
      h0[-1] = numpy.log(1e-2 * us * us) if inp["log_domain"] else 1e-2 * us * us
      ll.hyperparameters = h0
    g = ll.compute_grad_log_likelihood()
    def f(h):
      ll.hyperparameters = h
      v = float(ll.compute_log_likelihood())
      return v
    # units of the hyperparameters: the process variance and the nugget are variances, the rest are lengths; in the log parameterisation every step is a ratio already
    hunits = None if inp["log_domain"] else [us * us] + [ut] * (len(gi["cov"]["hp"]) - 1) + ([us * us] if inp["auto_noise"] else [])
    r = compare("loglik:grad", g, f, h0, inp, tol=2e-4, hvec=hunits)
    ll.hyperparameters = h0
    return r
  raise ValueError(fam)


def gen_input(rng):
  fam = rng.choice(["kernel", "kernel", "gp", "ei", "aei", "eiwf", "maf", "pf", "spe", "loglik"])
  diffable = True
  gi = gpgen.gen_gp_input(rng, differentiable=diffable, well_conditioned=True, allow_multitask=(fam in ("kernel", "gp", "ei")), max_n=8)
  inp = dict(family=fam, gp=gi, seed=rng.randrange(10 ** 6), on_data=rng.random() < 0.15, far=rng.random() < 0.1, coincident=rng.random() < 0.15,
             thr=[rng.uniform(-0.5, 0.5), rng.uniform(-0.5, 0.5)], cost=rng.choice([0.1, 0.5, 1.0]), kl=rng.choice(gpgen.DIFF), kg=rng.choice(gpgen.DIFF),
             gamma=rng.choice([0.25, 0.5, 0.3]), log_domain=rng.random() < 0.5, auto_noise=rng.random() < 0.3, sf=rng.choice([1.0, 0.1]))
  if fam == "pf":
    inp["zero_factor"] = rng.random() < 0.4
  if fam == "gp" and rng.random() < 0.4:
    inp["zero_coord"] = rng.randrange(8)
    if gi["mean_idx"] is None or rng.random() < 0.5:   # a linear or a custom polynomial mean
      d = len(gi["points"][0])
      gi["mean_idx"] = rng.choice([[[0] * d] + [[int(a == b) for a in range(d)] for b in range(d)], [[0] * d, [2] + [0] * (d - 1)], [[1] + [0] * (d - 1)]])
  if fam == "spe" and rng.random() < 0.5:
    inp["very_far"] = rng.choice([7.5, 8.0, 8.4, 8.7, 9.0, 9.5, 10.0]) / math.sqrt(len(gi["points"][0]))
  if fam == "maf" and len(gi["points"][0]) < 2:
    inp["family"] = "ei"
  if fam != "spe" and rng.random() < 0.5:
    # the same well-conditioned problem in other units (see rescale): objective values of size 1e-9 .. 1e4 (process variance 1e-18 .. 1e8, predicted
    # standard deviations far below / above anything an absolute constant in the code would have been tuned for), inputs of size 1e-2 .. 1e2
    inp["units"] = dict(out=10.0 ** rng.uniform(-9, 4), inp=(1.0 if inp["family"] == "maf" or rng.random() < 0.5 else 10.0 ** rng.uniform(-2, 2)))
  return inp


def correspondence(ctx):
  """Tie K for the one hand-written model in this property's cone: the polynomial builders of python_utils (Model/Poly.v)."""
  from lib import poly_corr
  return poly_corr.correspondence(ctx)


def search(ctx, hints, broken):
  fails, n = [], 0
  for _ in range(ctx.n(260, 4000) * (2 if broken else 1)):
    inp = gen_input(ctx.rng)
    n += 1
    try:
      r = oracle(inp)
    except numpy.linalg.LinAlgError:
      continue
    if r:
      fails.append(r)
      if len(fails) >= 3:
        break
  return dict(evaluations=n, failures=fails, oracle="Richardson-extrapolated central differences in a well-conditioned regime (noise >= 1e-3 of the process variance scale, length scales 0.15-0.5 of the input scale), "
                     "steps and the floor of the error normalisation max(1e-3, |g|) taken in the problem's own units (outputs 1e-9..1e4, inputs 1e-2..1e2), tolerance 1e-4")


def replay(ctx, payload):
  return oracle(payload["input"])

# --- second build round: additions to the claimed level
LEVEL_TEXT += ("; the polynomial part of the GP mean gradient is discharged: every entry of build_grad_polynomial_tensor is the partial derivative of the "
               "corresponding entry of build_polynomial_matrix (Model/Poly.v, tied by exact correspondence)")
TECHNIQUE += " + in-Coq differential correspondence for the polynomial builders"

# --- gap round (seeded C04_m7): additions to the claimed level
LEVEL_TEXT += ("; the finite-difference oracle works in the problem's own units: half of the cases are the generated well-conditioned problem re-expressed with outputs of size "
               "1e-9 .. 1e4 (values * s, noise and process variance * s^2, thresholds * s) and inputs of size 1e-2 .. 1e2 (points and length scales * t), the step ladder, the floor "
               "of the error normalisation and the underflow cut-off of EI-type values are scaled with them (every value / gradient pair of the property is covariant under this "
               "change of units, so only an absolute constant in the code can tell the difference)")
ASSUMPTIONS.append("reading of 'equals the numerical derivative' (DESIGN 11.5) carried to other magnitudes by the change of units: steps 1e-2..1e-5 times the input unit, error normalised by "
                   "max(1e-3 * output unit / input unit, |g|), EI-type values below 1e-12 output units skipped")
