"""C15 — pending-point bookkeeping and request data stay consistent over any history."""
import numpy

from lib import common as C
from lib import c15_util as U

PROP = "C15"
PROPS_FILES = ["Props/C15.v"]
ASSUMPTIONS = [
  "exact arithmetic over Q; correspondence inputs are small integers / dyadic rationals so every double operation compared exactly is exact "
  "(constant_liar_mean values and the weighted noise sums of a GP sum are compared to 1e-12 relative)",
  "append operations of the theorems carry lie locations of the model's dimension (HistoricalData asserts it; the Parzen estimator "
  "extends its lie list before numpy.concatenate raises on a column mismatch - modelled, outside the guarded theorems)",
  "a GaussianProcess always holds at least one observation (asserted by its constructor)",
  "aliasing clauses (caller's acquisition function, models and request data unchanged) are decided by deep comparison around every call, "
  "not by a theorem (a pure model cannot alias)",
  "the optimisers inside constant liar and search are arbitrary functions of the acquisition function they are handed (stubbed in the harness); "
  "in addition the searcher runs the constant-liar loop with its real DE / Adam optimisers at reduced effort and requires every pick to be a point "
  "evaluated while the copied acquisition function held the lies at the previous picks (the optimisers return the best point they evaluated: C07)",
  "GP endpoint, 'their model' of the endpoint clause is the predictor of the acquisition function the optimiser is handed (every component of a sum "
  "of GPs); the GPs under the failure model (constraint metrics, epsilon-constraint thresholds) get lies only under constant liar - under qEI "
  "they stay as built (modelled: feed_failure_gp, C15_failure_model_gps; parallel EI with failures samples them at its pending set, the multitask "
  "fall-back reaches the predictor only, as the constant-liar loop does for its own picks)",
  "GP endpoint with qEI parallelism on a multitask request (parallel EI unavailable): the pending points are appended by append_lie_locations, so the "
  "lie value is the worst value of the model's own data, not the lie value the view computes for constant liar (modelled and proved as such)",
]
TRUSTED = ["tools/props/C15.py + tools/lib/c15_util.py: case generators, stub optimisers, deep-snapshot comparison, Q-literal printer",
           "Model/LiesCorr.v check function"]
LEVEL_TEXT = ("Coq theorems by induction over arbitrary operation sequences (state invariants of three state machines: GP lie data with "
              "its memoised best index, the sum of GPs with its three memoised sums, the Parzen estimator's lie lists) and over the "
              "constant-liar (GP, GP sum, and the Parzen routine on an estimator that already holds pending-point lies: stash / lie / recover) "
              "and search loops with an arbitrary optimiser; the Parzen endpoint keeps the pending points as lies through its sampler; the models are tied to the code by random operation sequences "
              "run against the real objects with every accessor output compared inside Coq, and the decidable forms of the invariants are "
              "evaluated on the implementation's own outputs")
LEVEL_NOTE = ("Exact arithmetic over Q; immutability of caller-owned objects is a runtime deep comparison; the endpoint clause is proved for the "
              "model of the wiring (all four parallelism x multitask combinations) and checked on real endpoint calls with recording stubs")
TECHNIQUE = "Coq proof (state-machine invariants, induction over op sequences) on executable model + in-Coq differential correspondence"
DESIGN_REF = "DESIGN.md section 7, C15"

HEADER = ("From Coq Require Import List QArith Bool.\nFrom LV Require Import Model.Lies Model.LiesCorr.\nOpen Scope Q_scope.")


# ------------------------------------------------------------------------------------------ Coq printers


def pt(p):
  return C.listlit(p, C.qlit)


def pts(ps):
  return C.listlit(ps, pt)


def vec(v):
  return C.listlit(v, C.qlit)


def hist(dim, p, v, n):
  return f"(mkHist {C.nlit(dim)} {pts(p)} {vec(v)} {vec(n)})"


def out_lit(o):
  k = o[0]
  if k == "none":
    return "ONone"
  if k == "nat":
    return f"(ONat {C.nlit(o[1])})"
  if k == "pts":
    return f"(OPts {pts(o[1])})"
  if k == "vec":
    return f"(OVec {vec(o[1])})"
  if k == "val":
    return f"(OVal {C.qlit(o[1])})"
  if k == "err":
    if o[1] not in ("AssertionError", "ValueError", "IndexError"):
      raise C.TieBroken(f"implementation raised an error class outside the model: {o[1]}")
    return f"(OErr {o[1]})"
  if k == "stash":
    return f"(OStash {pts(o[1])} {pts(o[2])})"
  raise ValueError(k)


def pred_op_lit(op, dim, prefix):
  k = op[0]
  if k == "append":
    return f"({prefix}Append {pts(op[1])} {op[2]})"
  if k == "append_bad":
    return f"({prefix}Append {pts([[1.0] * (dim + 1)] * op[1])} {op[2]})"
  return prefix + {"num": "Num", "pts": "Pts", "vals": "Vals", "noise": "Noise", "best": "Best", "predict": "Predict"}[k]


def pz_lit(dim, s):
  return f"(mkPz {C.nlit(dim)} {pts(s['lower'])} {pts(s['greater'])} {pts(s['lower_lies'])} {pts(s['greater_lies'])})"


def pop_lit(r):
  if r[0] == "append":
    return f"(PAppend {pts(r[1])} {C.blit(r[2])})"
  if r[0] == "recover":
    return f"(PRecover {pts(r[1])} {pts(r[2])})"
  return {"clear": "PClear", "stash": "PStash"}[r[0]]


# ------------------------------------------------------------------------------------------ generators


class Fresh:
  """distinct coordinates, so that no two rows of a GP coincide (the factorisation stays well conditioned)"""

  def __init__(self, rng, real=False):
    self.rng, self.used, self.real = rng, set(), real

  def point(self, dim):
    while True:                               # the range widens as it fills, so this always terminates quickly
      w = 20 + 2 * len(self.used)
      k = self.rng.randint(-w, w)
      if k not in self.used:
        self.used.add(k)
        break
    rest = [float(self.rng.randint(-3, 3)) for _ in range(dim - 1)]
    if self.real:
      return [k + self.rng.uniform(-0.2, 0.2)] + [x + self.rng.uniform(-0.5, 0.5) for x in rest]
    return [float(k)] + rest


def gen_values(rng, n, real):
  if real:
    scale = 10.0 ** rng.randint(-3, 3)
    return [rng.gauss(0, 1) * scale for _ in range(n)]
  v = [float(rng.randint(-6, 9)) for _ in range(n)]
  if n > 1 and rng.random() < 0.4:          # ties at the extremes
    v[rng.randrange(n)] = max(v) if rng.random() < 0.5 else min(v)
  return v


def gen_noise(rng, n, real):
  if real:
    return [10.0 ** rng.uniform(-6, -1) for _ in range(n)]
  return [rng.choice([0.5, 0.25, 0.125, 0.0625]) for _ in range(n)]


MAXOPS = [12]     # longest generated history (30 in the thorough tier)


def gen_pred_ops(rng, fresh, dim, real, allow_mean=True, n_ops=None):
  ops = []
  for _ in range(n_ops or rng.randint(3, MAXOPS[0])):
    r = rng.random()
    if r < 0.34:
      k = rng.choice([0, 1, 1, 1, 2, 3])
      m = rng.choice(["LieMin"] * 7 + ["LieMax"] * 2 + (["LieMean"] if allow_mean else ["LieMin"]))
      ops.append(["append", [fresh.point(dim) for _ in range(k)], m])
    elif r < 0.40:
      ops.append(["append_bad", rng.randint(1, 2), "LieMin"])
    elif r < 0.47:
      ops.append(["predict", [rng.randint(-20, 20) + 0.5] + [0.25] * (dim - 1)])
    else:
      ops.append([rng.choice(["num", "pts", "vals", "noise", "best", "best", "vals"])])
  return ops


FINAL_READS = [["num"], ["pts"], ["vals"], ["noise"], ["best"]]


def gen_input(rng, kind, real=False):
  dim = rng.choice([1, 1, 2])
  fresh = Fresh(rng, real)
  n = rng.randint(2, 4) if not real else rng.randint(2, 7)
  base = dict(dim=dim, pts=[fresh.point(dim) for _ in range(n)])
  tik = rng.choice([None, None, 0.003, 0.05])     # auto-noise models carry a nugget; what they report must not depend on it
  if kind == "gp":
    return dict(base, vals=gen_values(rng, n, real), noise=gen_noise(rng, n, real), ops=gen_pred_ops(rng, fresh, dim, real), tik=tik)
  if kind == "sum":
    m = rng.choice([2, 2, 3])
    w = [rng.choice([0.5, 0.25, 1.0, 2.0]) for _ in range(m)] if not real else [rng.uniform(0.05, 2) for _ in range(m)]
    return dict(base, comps=[dict(vals=gen_values(rng, n, real), noise=gen_noise(rng, n, real)) for _ in range(m)], weights=w,
                ops=gen_pred_ops(rng, fresh, dim, real), tik=tik)
  if kind == "pz":
    n = rng.randint(10, 13)
    p = [fresh.point(dim) for _ in range(n)]
    v = list(range(n)) if not real else [rng.gauss(0, 1) for _ in range(n)]
    rng.shuffle(v)
    ops = []
    for _ in range(rng.randint(3, MAXOPS[0] + 2)):
      r = rng.random()
      if r < 0.4:
        ops.append(["append", [fresh.point(dim) for _ in range(rng.choice([0, 1, 1, 2, 3]))], rng.random() < 0.4])
      elif r < 0.55:
        ops.append(["clear"])
      elif r < 0.75:
        ops.append(["stash"])
      elif r < 0.93:
        ops.append(["recover", rng.randint(0, 5)])
      else:
        ops.append(["recover_lists", [fresh.point(dim) for _ in range(rng.randint(0, 2))], [fresh.point(dim) for _ in range(rng.randint(0, 2))]])
    if not real and rng.random() < 0.12:                     # malformed stream: a lie of the wrong length somewhere
      ops.insert(rng.randint(0, len(ops)), ["append_bad", rng.randint(1, 2), rng.random() < 0.5])
    return dict(dim=dim, pts=p, vals=[float(x) for x in v], gamma=rng.choice([0.25, 0.5, 0.3]), ops=ops)
  if kind == "pzcl":     # the Parzen constant liar on an estimator that already holds lies (what pending points leave behind)
    n = rng.randint(10, 13)
    p = [fresh.point(dim) for _ in range(n)]
    v = list(range(n)) if not real else [rng.gauss(0, 1) for _ in range(n)]
    rng.shuffle(v)
    inp = dict(dim=dim, pts=p, vals=[float(x) for x in v], gamma=rng.choice([0.25, 0.5, 0.3]), n=rng.randint(1, 4),
               pre_lower=[fresh.point(dim) for _ in range(rng.choice([0, 0, 0, 1, 2]))],
               pre_greater=[fresh.point(dim) for _ in range(rng.choice([0, 1, 1, 2, 3]))])
    if real:
      inp["picks"] = [fresh.point(dim) for _ in range(inp["n"])]
    return inp
  if kind in ("clgp", "clsum"):
    inp = dict(base, n=rng.randint(1, 4), warm=rng.random() < 0.5, tik=tik, af_kind=rng.choice(["ei", "ei", "multitask", "aei"]))
    if kind == "clgp":
      inp.update(vals=gen_values(rng, n, real), noise=gen_noise(rng, n, real))
    else:
      m = rng.choice([2, 3])
      inp.update(comps=[dict(vals=gen_values(rng, n, real), noise=gen_noise(rng, n, real)) for _ in range(m)],
                 weights=[rng.choice([0.5, 0.25, 1.0, 2.0]) if not real else rng.uniform(0.05, 2) for _ in range(m)])
    if real:
      inp["picks"] = [fresh.point(dim) for _ in range(inp["n"])]
    return inp
  if kind == "search":
    lo = [float(rng.choice([0, -4, 8])) for _ in range(dim)]
    hi = [l + float(rng.choice([1, 2, 4, 8])) for l in lo]
    if real:
      hi = [l + rng.uniform(0.5, 9) for l in lo]
    def inside():
      return [l + (h - l) * (rng.randint(0, 8) / 8.0 if not real else rng.random()) for l, h in zip(lo, hi)]
    gp_pts, seen = [], set()
    while len(gp_pts) < 3:
      p = inside()
      if tuple(p) not in seen:
        seen.add(tuple(p))
        gp_pts.append(p)
    inp = dict(dim=dim, lo=lo, hi=hi, pts=gp_pts, vals=gen_values(rng, 3, real), noise=[0.25] * 3,
               repulsors=[inside() for _ in range(rng.randint(0, 3))], dist0=float(dim) * rng.choice([0.04, 0.01, 0.0025]),
               n=rng.randint(1, 4), seed=rng.randrange(2 ** 31))
    if real:
      inp["picks"] = [inside() for _ in range(inp["n"])]
    return inp
  raise ValueError(kind)


# ------------------------------------------------------------------------------------------ implementation -> Coq case


def observe(kind, inp):
  """Run the implementation on one input; returns (coq case term, observation dict)."""
  d = inp["dim"]
  if kind in ("gp", "sum"):
    p = U.mk_gp(d, inp["pts"], inp["vals"], inp["noise"], inp.get("tik")) if kind == "gp" else U.mk_sum(inp)
    ops = inp["ops"] + FINAL_READS
    outs = [U.predictor_op(p, d, op) for op in ops]
    tol = any(op[0] == "append" and op[2] == "LieMean" for op in ops)
    ops_l = C.listlit([pred_op_lit(op, d, "G" if kind == "gp" else "S") for op in ops])
    outs_l = C.listlit(outs, out_lit)
    if kind == "gp":
      fin = hist(d, outs[-4][1], outs[-3][1], outs[-2][1])
      term = f"CGp {C.blit(tol)} {hist(d, inp['pts'], inp['vals'], inp['noise'])} {ops_l} {outs_l} {fin}"
    else:
      comps = C.listlit([hist(d, inp["pts"], c["vals"], c["noise"]) for c in inp["comps"]])
      term = f"CSum true {C.blit(tol)} {comps} {vec(inp['weights'])} {ops_l} {outs_l}"
    return term, dict(outs=outs)
  if kind == "pz":
    init, outs, snaps, resolved = U.run_parzen(inp)
    term = (f"CPz {pz_lit(d, init)} {C.listlit(resolved, pop_lit)} {C.listlit(outs, out_lit)} "
            f"{C.listlit([pz_lit(d, s) for s in snaps])} {C.blit(not any(op[0] == 'append_bad' for op in inp['ops']))}")
    return term, dict(init=init, outs=outs, snaps=snaps)
  if kind in ("clgp", "clsum"):
    r = U.run_constant_liar(inp)
    seen = C.listlit([hist(d, s["pts"], s["vals"], s["noise"]) for s in r["seen"]])
    if kind == "clgp":
      term = f"CCLGp {hist(d, inp['pts'], inp['vals'], inp['noise'])} {C.nlit(inp['n'])} {pts(r['picks'])} {seen} {C.blit(r['unchanged'])}"
    else:
      comps = C.listlit([hist(d, inp["pts"], c["vals"], c["noise"]) for c in inp["comps"]])
      term = f"CCLSum {comps} {vec(inp['weights'])} {C.nlit(inp['n'])} {pts(r['picks'])} {seen} {C.blit(r['unchanged'])}"
    return term, r
  if kind == "pzcl":
    r = U.run_pz_constant_liar(inp)
    term = (f"CPzCL {pz_lit(d, r['init'])} {C.nlit(inp['n'])} {pts(r['picks'])} {C.listlit([pz_lit(d, x) for x in r['seen']])} "
            f"{pz_lit(d, r['final'])}")
    return term, r
  if kind == "search":
    r = U.run_search(inp)
    st = lambda s: f"(mkSearch {pts(s['repulsors'])} {C.qlit(s['dist'])})"
    term = (f"CSearch {vec(inp['lo'])} {vec(inp['hi'])} {st(r['init'])} {vec(r['draws'])} {C.nlit(inp['n'])} {pts(r['picks'])} "
            f"{C.listlit(r['seen'], st)} {st(r['final'])}")
    return term, r
  raise ValueError(kind)


def nontrivial(kind, inp):
  if kind in ("gp", "sum"):
    ops = inp["ops"]
    first_append = next((i for i, op in enumerate(ops) if op[0] == "append" and op[1]), None)
    return first_append is not None and any(op[0] in ("vals", "noise", "best") for op in ops[:first_append])   # a read BEFORE an append
  if kind == "pz":
    ks = [op[0] for op in inp["ops"]]
    return "stash" in ks and "recover" in ks and any(op[0] == "append" and op[1] for op in inp["ops"])
  if kind == "pzcl":
    return bool(inp["pre_lower"] or inp["pre_greater"])      # the estimator holds lies before the call
  return inp["n"] >= 2


KINDS = ["gp", "gp", "sum", "sum", "sum", "pz", "pz", "clgp", "clsum", "search", "pzcl"]


def correspondence(ctx):
  n = ctx.n(700, 6000)
  MAXOPS[0] = ctx.n(12, 30)
  cases, meta, seen, dist = [], [], set(), {}
  nontriv = 0
  for _ in range(n):
    kind = ctx.rng.choice(KINDS)
    inp = gen_input(ctx.rng, kind)
    term, obs = observe(kind, inp)
    cases.append(term)
    meta.append((kind, inp, obs))
    dist[kind] = dist.get(kind, 0) + 1
    for op in inp.get("ops", []):
      key = f"{kind}:{op[0]}" + (f":{op[2]}" if op[0] == "append" and kind != "pz" else "")
      dist[key] = dist.get(key, 0) + 1
    h = C.canon_hash([kind, inp])
    if h not in seen and nontrivial(kind, inp):
      nontriv += 1
    seen.add(h)
  ep_cases, ep_meta, ep_dis = endpoint_cases(ctx, ctx.n(60, 300))
  for t, m in zip(ep_cases, ep_meta):
    cases.append(t)
    meta.append(m)
    dist[m[0]] = dist.get(m[0], 0) + 1
  bad = C.run_cases("C15", HEADER, "case", "check", cases, shard=60)
  dis = list(ep_dis)
  for i in bad:
    kind, inp, obs = meta[i]
    what = f"C15 correspondence case {i} ({kind}): implementation differs from Model.Lies / its specification"
    if kind == "sum":
      try:   # which machine does the code follow?
        alt = C.run_cases("C15alt", HEADER, "case", "check", [cases[i].replace("CSum true", "CSum false", 1)])
        if not alt:
          what += " - it behaves like the machine WITHOUT the cache reset in append_lie_data"
      except Exception:
        pass
    dis.append(dict(what=what, kind=kind, input=inp, observed=C.jsonable(obs)))
  return dict(evaluations=len(cases), distinct_nontrivial=nontriv,
              rule="GP / GP-sum histories of 3-12 ops (3-30 in the thorough tier; +5 final reads) over 2-4 integer-valued observations in 1-2 dims: appends of 0-3 distinct "
                   "locations (min/max/mean lie, wrong-dimension blocks), every accessor, predictions; Parzen histories of 3-14 ops over 10-13 "
                   "points (append lower/greater, clear, stash, recover of any earlier stash or explicit lists, malformed lies); constant liar "
                   "(n<=4, GP and GP-sum predictors, caches warm or cold; the Parzen constant liar on estimators already holding 0-2 lower and 0-3 "
                   "greater lies) and search (n<=4) with state-dependent stub optimisers; the real Parzen endpoint through create_spe_suggestions / "
                   "draw_samples / constant liar (one batch of the rejection sampler, multistart stubbed) with 0-3 pending points; real endpoint "
                   "calls with recording stubs (what the optimiser is handed, at the moment it is called): random requests plus a fixed sweep of "
                   "the GP endpoint with qEI on multitask requests (1-3 pending points x failures x plain / augmented EI, failure models, sums "
                   "of GPs) and its neighbours; non-trivial = an accessor read precedes a non-empty append (GP, sum), stash+recover+append "
                   "(Parzen), >=2 picks (loops); distinct by hash of the canonical input",
              samples=[dict(kind=k, input=i) for k, i, _ in meta[:3]], distribution=dist, disagreements=dis)


# ------------------------------------------------------------------------------------------ endpoint clause


def gen_endpoint(rng, exact=False, endpoint=None, force=None):
  """force: dict overriding the drawn options - tasks (bool), par, npend, nopt, ncon, failures ('none' | 'some'), num_to_sample"""
  force = force or {}
  ep = endpoint or rng.choice(["gp", "gp", "gp", "spe", "search"])
  ncomp = rng.randint(1, 3)
  comps = []
  for _ in range(ncomp):
    t = rng.choice(["double", "double", "int"] if (ep == "search" and exact) else ["double", "double", "int", "categorical"])
    if t == "double":
      lo = float(rng.choice([0, -4, 8]))
      comps.append({"var_type": "double", "elements": [lo, lo + float(rng.choice([2, 4, 8]))]})
    elif t == "int":
      lo = rng.choice([0, -2, 3])
      comps.append({"var_type": "int", "elements": [lo, lo + rng.choice([4, 8])]})
    else:
      comps.append({"var_type": "categorical", "elements": sorted(rng.sample([1, 2, 3, 5, 8], rng.randint(2, 3)))})

  def point():
    row = []
    for c in comps:
      e = c["elements"]
      if c["var_type"] == "double":
        row.append(e[0] + (e[1] - e[0]) * rng.randint(0, 32) / 32.0)
      elif c["var_type"] == "int":
        row.append(float(rng.randint(e[0], e[1])))
      else:
        row.append(float(rng.choice(e)))
    return row

  n = rng.randint(12, 16)
  points, seen, tries = [], set(), 0
  while len(points) < n + 3:
    q = point()
    tries += 1
    if tuple(q) not in seen or tries > 200:     # small discrete domains: repeats are allowed once distinct rows run out
      seen.add(tuple(q))
      points.append(q)
  npend = force.get("npend", rng.choice([0, 1, 2, 3]))
  pending, points = points[n:n + npend], points[:n]
  if ep == "search":
    nopt, ncon = 0, rng.randint(1, 2)
  else:
    nopt, ncon = force.get("nopt", rng.choice([1, 1, 2])), force.get("ncon", rng.choice([0, 0, 1]))
  nm = nopt + ncon + rng.choice([0, 1])
  values = [[float(rng.randint(-5, 9)) if exact else rng.gauss(0, 3) for _ in range(nm)] for _ in range(n)]
  idx = list(range(nm))
  rng.shuffle(idx)
  opt, con = idx[:nopt], idx[nopt:nopt + ncon]
  thr = [None] * nm
  for c in con:
    col = sorted(v[c] for v in values)
    thr[c] = col[len(col) // 3]
  tasks = [0.25, 1.0] if (ep != "search" and force.get("tasks", rng.random() < 0.25)) else []
  par = force.get("par", rng.choice(["constant_liar", "constant_liar", "qei"]))
  failures = [rng.random() < 0.15 for _ in range(n)]
  if force.get("failures") == "none":
    failures = [False] * n
  elif force.get("failures") == "some" and not any(failures):
    failures[rng.randrange(n)] = failures[rng.randrange(n)] = True
  # parallel EI proposes one point per call; where qEI falls back to the constant-liar optimiser (multitask) a batch is legitimate
  nts = force.get("num_to_sample", 1 if (par == "qei" and not tasks) else rng.randint(1, 3))
  return dict(endpoint=ep, components=comps, points=points, values=values,
              value_vars=[[rng.choice([0.0, 0.0, 0.01])] * nm for _ in range(n)],
              failures=failures, pending=pending,
              objectives=[rng.choice(["maximize", "minimize"]) for _ in range(nm)], optimized=opt, constraint=con, thresholds=thr,
              budget=n if ep == "spe" else n * rng.choice([1, 1, 2, 4, 10]), num_to_sample=nts,
              parallelism=par, task_options=tasks, task_costs=[rng.choice(tasks) for _ in range(n)] if tasks else [],
              pending_task_costs=[rng.choice(tasks) for _ in range(npend)] if tasks else [], seed=rng.randrange(2 ** 31),
              # categorical parameters whose length scales are still the unfitted default [None, ...] in the caller's hyperparameter records (C15_m14)
              cat_ls_default=any(c["var_type"] == "categorical" for c in comps) and rng.random() < 0.5)


def cube_bounds(inp):
  return [float(min(c["elements"])) for c in inp["components"]], [float(max(c["elements"])) for c in inp["components"]]


def qei_fallback_sweep(rng, exact):
  """The GP endpoint where qEI is requested but parallel EI cannot be used (multitask): 1-3 pending points x failures / none x
  (optimised, constraint) metric counts - plain / augmented EI, EI with failure models (constraint metrics, epsilon constraint), sums of
  GPs (two optimised metrics in the convex-combination phase; the budget is drawn, so three draws each) - plus the neighbours of that
  branch: the same request without tasks (parallel EI), without pending points, and under constant liar."""
  out = []
  for npend in (1, 2, 3):
    for fl in ("none", "some"):
      for nopt, ncon in ((1, 0), (1, 1), (1, 2), (2, 0), (2, 0), (2, 0), (2, 1)):
        out.append(gen_endpoint(rng, exact=exact, endpoint="gp",
                                force=dict(tasks=True, par="qei", npend=npend, nopt=nopt, ncon=ncon, failures=fl)))
  for tasks, par, npend in ((False, "qei", 2), (True, "qei", 0), (True, "constant_liar", 2), (False, "qei", 0)):
    for nopt, ncon in ((1, 0), (1, 1), (2, 0)):
      out.append(gen_endpoint(rng, exact=exact, endpoint="gp", force=dict(tasks=tasks, par=par, npend=npend, nopt=nopt, ncon=ncon)))
  return out


def spe_pending_sweep(rng, exact):
  """The Parzen endpoint with 1-3 (and no) open suggestions, single suggestions and batches: what the sampler's own constant-liar pick
  leaves of the pending-point lies."""
  return [gen_endpoint(rng, exact=exact, endpoint="spe", force=dict(npend=npend, num_to_sample=nts, tasks=False))
          for npend in (1, 2, 3, 0) for nts in (1, 3)]


def endpoint_tag(inp):
  return f"endpoint:{inp['endpoint']}:{inp['parallelism']}" + (":multitask" if inp["task_options"] else "")


def endpoint_cases(ctx, n):
  cases, meta, dis = [], [], []
  inputs = qei_fallback_sweep(ctx.rng, True) + spe_pending_sweep(ctx.rng, True) + [gen_endpoint(ctx.rng, exact=True) for _ in range(n)]
  for inp in inputs:
    r = U.run_endpoint(inp)
    tagk = endpoint_tag(inp)
    if r["error"] or not r["request_unchanged"]:
      dis.append(dict(what=f"C15 endpoint call {tagk}: " + (r["error"] or f"request data modified at {r.get('request_diff')}"), kind="endpoint",
                      input=inp, observed=C.jsonable({k: v for k, v in r.items() if k in ("error", "trace", "request_diff")})))
      continue
    pend_t, pend = U.expected_pending(inp, True), U.expected_pending(inp, False)
    qei = inp["parallelism"] == "qei"
    af = r["af"]
    for b in r["gp_builds"]:
      if af is None and qei:
        continue
      if not isinstance(b["lie"], float):
        continue
      d = len(b["pts"][0])
      # the role of this GP in what the optimiser was handed, and its data AT THAT MOMENT (not when it was built)
      if af is not None and b["id"] in af["predictor_ids"]:
        objective, seen = True, af["predictor_data"][af["predictor_ids"].index(b["id"])]
      elif af is not None and b["id"] in af["failure_ids"]:
        objective, seen = False, af["failure_data"][af["failure_ids"].index(b["id"])]
      else:                       # the search endpoint (its failure-model GPs), or a GP the optimiser is not handed: as built
        objective, seen = False, b["data"]
      afd = af or dict(qei=False, pending_set=None)
      term = (f"CFeedGp {C.blit(qei)} {C.blit(bool(inp['task_options']))} {C.blit(objective)} {hist(d, b['pts'], b['vals'], b['noise'])} "
              f"{pts(pend_t)} {C.qlit(b['lie'])} {hist(d, seen['pts'], seen['vals'], seen['noise'])} "
              f"{pts(afd['pending_set'] or [])} {C.blit(afd['qei'])}")
      cases.append(term)
      meta.append((tagk + (":gp-model" if objective else ":failure-gp") + (":pending" if pend_t else ""), inp, dict(build=b, af=af)))
    if af is not None and af["multitask_wrapper"] and not af["wrapper_sees_predictor"]:
      dis.append(dict(what=f"C15 endpoint call {tagk}: the cost-scaled wrapper and the acquisition function it wraps hold different predictors",
                      kind="endpoint", input=inp, observed=C.jsonable(af)))
    if r["parzen"] and "at_sampling" in r["parzen"]:
      d = len(r["parzen"]["formed"]["lower"][0])
      cases.append(f"CFeedPz {pz_lit(d, r['parzen']['formed'])} {pts(pend)} {pz_lit(d, r['parzen']['at_sampling'])}")
      meta.append((tagk + ":parzen-model", inp, r["parzen"]))
    if r["parzen"] and "after_sampling" in r["parzen"] and "cl_pick" in r["parzen"]:
      z = r["parzen"]
      d = len(z["formed"]["lower"][0])
      cases.append(f"CSpeSampling {pz_lit(d, z['formed'])} {pts(pend)} {pt(z['cl_pick'])} {pz_lit(d, z['cl_seen'])} "
                   f"{pz_lit(d, z['after_sampling'])} {C.listlit([pz_lit(d, x) for x in z['evals_after_pick']])}")
      meta.append((tagk + ":parzen-sampling" + (":pending" if pend else ""), inp, {k: z[k] for k in ("cl_seen", "after_sampling", "cl_pick")}))
    if r["search"] and not any(c["var_type"] == "categorical" for c in inp["components"]):
      lo, hi = cube_bounds(inp)
      cases.append(f"CFeedSearch {vec(lo)} {vec(hi)} {pts(inp['points'])} {pts(inp['pending'])} {pts(r['search']['repulsors'])}")
      meta.append((tagk + ":search-repulsors", inp, r["search"]))
  return cases, meta, dis


# ------------------------------------------------------------------------------------------ independent oracle


def _fail(kind, inp, what, observed, expected, sig=None):
  return dict(signature=sig or f"C15:{kind}:{what}", what=f"{kind}: {what}", input=dict(kind=kind, **inp), observed=C.jsonable(observed),
              expected=C.jsonable(expected), oracle="plain-Python bookkeeping (lists, builtin max/min/sum), shares no code with the library or the Coq model")


def _close(a, b, rtol=1e-12, atol=0.0):
  a, b = numpy.asarray(a, dtype=float), numpy.asarray(b, dtype=float)
  return a.shape == b.shape and bool(numpy.all(numpy.abs(a - b) <= atol + rtol * numpy.abs(b)))


def oracle_predictor(kind, inp):
  d = inp["dim"]
  p = U.mk_gp(d, inp["pts"], inp["vals"], inp["noise"], inp.get("tik")) if kind == "gp" else U.mk_sum(inp)
  comps = [dict(vals=list(inp["vals"]), noise=list(inp["noise"]))] if kind == "gp" else [dict(vals=list(c["vals"]), noise=list(c["noise"])) for c in inp["comps"]]
  w = [1.0] if kind == "gp" else list(inp["weights"])
  P = [list(x) for x in inp["pts"]]
  last_lie = None
  reads = ["num", "pts", "vals", "noise", "best"]
  for step, op in enumerate(inp["ops"] + [["end"]]):
    if op[0] == "append":
      for c in comps:
        v = {"LieMin": max, "LieMax": min, "LieMean": lambda l: sum(l) / len(l)}[op[2]](c["vals"])
        c["vals"] += [v] * len(op[1])
        c["noise"] += [1e-12] * len(op[1])
      P += [list(x) for x in op[1]]
      if op[1]:
        last_lie = (op[1][-1], sum(wi * c["vals"][-1] for wi, c in zip(w, comps)))
    o = U.predictor_op(p, d, op) if op[0] != "end" else ("none",)
    if op[0] == "append" and o != ("none",):
      return _fail(kind, inp, "valid append raised", o, "no error")
    if op[0] == "append_bad" and o[0] != "err":
      return _fail(kind, inp, "append of wrong-dimension locations accepted", o, "an error, data unchanged")
    ev = [sum(wi * c["vals"][i] for wi, c in zip(w, comps)) for i in range(len(P))]
    en = [sum(wi * wi * c["noise"][i] for wi, c in zip(w, comps)) for i in range(len(P))]
    # a weighted sum may cancel: rounding is bounded relative to the size of its terms, not of the result
    atol = 1e-12 * max(sum(abs(wi * c["vals"][i]) for wi, c in zip(w, comps)) for i in range(len(P)))
    # which accessors are read after this op, and in which order, is part of the history (seeded by the input itself)
    order = list(reads)
    k = (step * 7 + len(P)) % 5
    order = order[k:] + order[:k]
    if op[0] != "end":
      order = order[: 1 + (step * 3 + d) % 5]
    for r in order:
      o = U.predictor_op(p, d, [r])
      exp = dict(num=("nat", len(P)), pts=("pts", P), vals=("vec", ev), noise=("vec", en), best=("val", min(ev)))[r]
      ok = (o[0] == exp[0]) and (o[1] == exp[1] if r == "num" else _close(o[1], exp[1], 1e-12, atol if r in ("vals", "best") else 1e-300))
      if not ok:
        stale = r != "pts" and o[0] == exp[0] and r != "num" and numpy.shape(o[1]) != numpy.shape(exp[1])
        return _fail(kind, inp, f"{'stale ' if stale else ''}{r} after history", dict(after_op=step, read=r, got=o[1]), exp[1])
    if op[0] == "predict" or (op[0] == "append" and op[1]):
      x, v = (op[1], None) if op[0] == "predict" else last_lie
      try:
        m, var = p.compute_mean_and_variance_of_points(U.arr2([x], d))
      except Exception as e:
        return _fail(kind, inp, "prediction raised after history", repr(e), "a prediction")
      if inp.get("tik") is None:
        if v is not None and op[2] != "LieMean" and abs(float(m[0]) - v) > 1e-6 * (1 + abs(v)) + 1e6 * atol:
          return _fail(kind, inp, "model not refactorised: mean at a lie is not the lie value", float(m[0]), v)
      elif kind == "gp":
        # with a nugget on the diagonal the model does not interpolate its lies: compare with a model built afresh from the data it reports
        fresh = U.mk_gp(d, p.points_sampled, p.points_sampled_value, p.points_sampled_noise_variance, inp["tik"])
        fm, fv = fresh.compute_mean_and_variance_of_points(U.arr2([x], d))
        if abs(float(m[0]) - float(fm[0])) > 1e-8 * (1 + abs(float(fm[0]))) or abs(float(var[0]) - float(fv[0])) > 1e-8 * (1 + abs(float(fv[0]))):
          return _fail(kind, inp, "model not refactorised: prediction differs from a model built afresh from the reported data", [float(m[0]), float(var[0])],
                       [float(fm[0]), float(fv[0])])
  return None


def oracle_parzen(inp):
  init, outs, snaps, resolved = U.run_parzen(inp)
  lo, gr = [], []
  stash_log = []
  for i, (op, r, o, s) in enumerate(zip(inp["ops"], resolved, outs, snaps)):
    if op[0] == "append_bad":
      return None   # malformed lie: outside the property
    if op[0] == "append":
      (lo if op[2] else gr).extend([list(x) for x in op[1]])
    elif op[0] == "clear":
      lo, gr = [], []
    elif op[0] == "stash":
      stash_log.append(([list(x) for x in lo], [list(x) for x in gr]))
      if (o[1], o[2]) != stash_log[-1]:
        return _fail("pz", inp, "stash does not hold the current lies", dict(after_op=i, got=[o[1], o[2]]), stash_log[-1])
    elif op[0] == "recover":
      lo, gr = ([list(x) for x in y] for y in (stash_log[op[1] % len(stash_log)] if stash_log else ([], [])))
    elif op[0] == "recover_lists":
      lo, gr = [list(x) for x in op[1]], [list(x) for x in op[2]]
    if o[0] == "err":
      return _fail("pz", inp, "valid operation raised", dict(after_op=i, got=o), "no error")
    exp = dict(lower=init["lower"] + lo, greater=init["greater"] + gr, lower_lies=lo, greater_lies=gr)
    if s != exp:
      return _fail("pz", inp, "points are not base points plus current lies", dict(after_op=i, got=s), exp)
  return None


def oracle_constant_liar(kind, inp):
  r = U.run_constant_liar(inp)
  if not r["unchanged"]:
    return _fail(kind, inp, "caller's acquisition function modified", r["detail"], "unchanged (works on a deep copy)")
  if len(r["picks"]) != inp["n"] or len(r["seen"]) != inp["n"]:
    return _fail(kind, inp, "number of picks", len(r["picks"]), inp["n"])
  comps = [inp] if kind == "clgp" else inp["comps"]
  w = [1.0] if kind == "clgp" else inp["weights"]
  n0 = len(inp["pts"])
  for i, s in enumerate(r["seen"]):
    ev = [sum(wi * c["vals"][j] for wi, c in zip(w, comps)) for j in range(n0)] + [sum(wi * max(c["vals"]) for wi, c in zip(w, comps))] * i
    en = [sum(wi * wi * c["noise"][j] for wi, c in zip(w, comps)) for j in range(n0)] + [sum(wi * wi * 1e-12 for wi in w)] * i
    ep = [list(x) for x in inp["pts"]] + r["picks"][:i]
    atol = 1e-12 * max(sum(abs(wi * x) for wi, x in zip(w, col)) for col in zip(*[c["vals"] for c in comps]))
    if s["num"] != n0 + i or s["pts"] != ep or not _close(s["vals"], ev, 1e-12, atol) or not _close(s["noise"], en):
      return _fail(kind, inp, "pick not conditioned on lies at the previous picks", dict(pick=i, saw=s), dict(pts=ep, vals=ev, noise=en))
  if "picks" in inp and r["picks"] != [list(map(float, p)) for p in inp["picks"]]:
    return _fail(kind, inp, "returned points are not the optimiser's answers", r["picks"], inp["picks"])
  return None


def gen_clreal(rng):
  """2-4 picks by the real constant-liar routine (real DE / Adam at reduced effort) over a GP or a sum of GPs on real-valued data"""
  inp = gen_input(rng, rng.choice(["clgp", "clgp", "clsum"]), real=True)
  inp.pop("picks", None)
  inp.pop("af_kind", None)
  inp.update(n=rng.randint(2, 4), seed=rng.randrange(2 ** 31))
  return inp


def oracle_constant_liar_real(inp):
  """The constant-liar routine with its real optimisers: besides the bookkeeping of oracle_constant_liar, each returned pick must be an
  ANSWER OF THE OPTIMISATION THAT RAN AGAINST THE LIES AT THE PREVIOUS PICKS - a point evaluated (by DE or Adam, which return the best
  point they evaluated: C07) while the copied acquisition function held exactly those lies.  A pick computed against an earlier state
  of the model (say, remembered by an optimiser object that outlives its round) is not conditioned on the lies placed since."""
  import numpy as _np
  kind = "clreal"
  r = U.run_constant_liar_real(inp)
  if not r["unchanged"]:
    return _fail(kind, inp, "caller's acquisition function modified", r["detail"], "unchanged (works on a deep copy)")
  k = inp["n"]
  if len(r["picks"]) != k or len(r["rounds"]) != k:
    return _fail(kind, inp, "number of picks", [len(r["picks"]), len(r["rounds"])], k)
  comps = [inp] if "comps" not in inp else inp["comps"]
  w = [1.0] if "comps" not in inp else inp["weights"]
  n0 = len(inp["pts"])
  for i, s in enumerate(r["rounds"]):
    ev = [sum(wi * c["vals"][j] for wi, c in zip(w, comps)) for j in range(n0)] + [sum(wi * max(c["vals"]) for wi, c in zip(w, comps))] * i
    ep = [list(map(float, x)) for x in inp["pts"]] + r["picks"][:i]
    atol = 1e-12 * max(sum(abs(wi * x) for wi, x in zip(w, col)) for col in zip(*[c["vals"] for c in comps]))
    if s["num"] != n0 + i or s["pts"] != ep or not _close(s["vals"], ev, 1e-12, atol) or s["noise"][n0:] != [sum(wi * wi * 1e-12 for wi in w)] * i and not _close(s["noise"][n0:], [sum(wi * wi * 1e-12 for wi in w)] * i):
      return _fail(kind, inp, "pick not conditioned on lies at the previous picks", dict(pick=i, saw={x: s[x] for x in ("num", "pts", "vals", "noise")}), dict(pts=ep, vals=ev))
    row = _np.ascontiguousarray(r["picks"][i], dtype=float).tobytes()
    if row not in s["evaluated"]:
      earlier = [j for j in range(i) if r["picks"][j] == r["picks"][i]]
      return _fail(kind, inp, "pick is not an answer of the optimisation that ran against the lies at the previous picks",
                   dict(pick=i, point=r["picks"][i], repeats_earlier_picks=earlier, evaluated_in_its_round=False,
                        optimiser_objects_new_in_this_round=[s["fresh_es"], s["fresh_gd"]]),
                   "a point evaluated while the model held lies at picks 0..%d" % (i - 1))
  return None


def oracle_pz_constant_liar(inp):
  r = U.run_pz_constant_liar(inp)
  init, k = r["init"], inp["n"]
  if not r["same_object"]:
    return _fail("pzcl", inp, "the optimiser was not handed the caller's estimator", None, "the live estimator")
  if len(r["picks"]) != k or len(r["seen"]) != k:
    return _fail("pzcl", inp, "number of picks", len(r["picks"]), k)
  for i, s in enumerate(r["seen"]):
    exp = dict(lower=init["lower"], greater=init["greater"] + r["picks"][:i], lower_lies=init["lower_lies"], greater_lies=init["greater_lies"] + r["picks"][:i])
    if s != exp:
      return _fail("pzcl", inp, "pick not conditioned on the lies the estimator held plus lies at the previous picks", dict(pick=i, saw=s), exp)
  if r["final"] != init:
    lost = [x for x in init["lower_lies"] + init["greater_lies"] if x not in r["final"]["lower_lies"] + r["final"]["greater_lies"]]
    what = ("the lies the estimator held before the call are gone afterwards" if lost else "the caller's estimator is not handed back as it was")
    return _fail("pzcl", inp, "Parzen constant liar: " + what, r["final"], init)
  if "picks" in inp and r["picks"] != [list(map(float, p)) for p in inp["picks"]]:
    return _fail("pzcl", inp, "returned points are not the optimiser's answers", r["picks"], inp["picks"])
  return None


def oracle_search(inp):
  r = U.run_search(inp)
  lo, hi = numpy.array(inp["lo"]), numpy.array(inp["hi"])
  cube = lambda p: ((numpy.array(p, dtype=float) - lo) / (hi - lo)).tolist()
  if r["final"] != r["init"]:
    return _fail("search", inp, "repulsors or distance value not restored", r["final"], r["init"])
  if not r["unchanged_model"]:
    return _fail("search", inp, "failure model modified", None, "unchanged")
  if len(r["picks"]) != inp["n"]:
    return _fail("search", inp, "number of picks", len(r["picks"]), inp["n"])
  for i, s in enumerate(r["seen"]):
    exp_rep = r["init"]["repulsors"] + [cube(p) for p in r["picks"][:i]]
    exp_d = r["init"]["dist"] if i == 0 else r["draws"][i - 1]
    if not _close(s["repulsors"], exp_rep, 1e-12, 1e-15) or s["dist"] != exp_d:
      return _fail("search", inp, "pick not optimised against repulsors at the previous picks", dict(pick=i, saw=s), dict(repulsors=exp_rep, dist=exp_d))
  if any(dv not in [inp["dim"] * x for x in (0.04, 0.01, 0.0025, 0.0004)] for dv in r["draws"]):
    return _fail("search", inp, "distance value outside the schedule", r["draws"], "dim * {0.04, 0.01, 0.0025, 0.0004}")
  return None


def oracle(kind, inp):
  try:
    if kind in ("gp", "sum"):
      return oracle_predictor(kind, inp)
    if kind == "pz":
      return oracle_parzen(inp)
    if kind in ("clgp", "clsum"):
      return oracle_constant_liar(kind, inp)
    if kind == "search":
      return oracle_search(inp)
    if kind == "pzcl":
      return oracle_pz_constant_liar(inp)
    if kind == "clreal":
      return oracle_constant_liar_real(inp)
    if kind == "endpoint":
      return oracle_endpoint(inp)
  except Exception as e:
    import traceback
    return dict(signature=f"C15:{kind}:raises:{type(e).__name__}", what=f"{kind} raised {type(e).__name__}: {e}", input=dict(kind=kind, **inp),
                observed=traceback.format_exc()[-1200:], expected="a result", oracle="no exception on valid input")
  raise ValueError(kind)


def oracle_endpoint(inp):
  r = U.run_endpoint(inp)
  ep, qei, mt = inp["endpoint"], inp["parallelism"] == "qei", bool(inp["task_options"])
  kind = "endpoint"
  if r["error"]:
    return _fail(kind, inp, f"{ep} endpoint raised", r["error"] + "\n" + r.get("trace", ""), "a response")
  if not r["request_unchanged"]:
    return _fail(kind, inp, "request data modified by the endpoint call", r.get("request_diff"), "points, values, variances, failures, hyperparameters unchanged")
  pend_t, pend = U.expected_pending(inp, True), U.expected_pending(inp, False)
  k = len(pend)
  if k == 0:
    return None

  def lies_ok(data, n_in):
    return (len(data["pts"]) == n_in + k and data["pts"][n_in:] == pend_t and data["noise"][n_in:] == [1e-12] * k
            and len(set(data["vals"][n_in:])) == 1 and len(data["vals"]) == len(data["noise"]) == len(data["pts"]))

  if ep in ("gp", "search") and not qei:
    for b in r["gp_builds"]:
      if not lies_ok(b["data"], len(b["pts"])):
        return _fail(kind, inp, "pending points not appended as lies to a GP model", b["data"], dict(tail_points=pend_t, noise=1e-12))
      single = len(inp["optimized"]) == 1 and not inp["constraint"] and ep == "gp"
      if single and abs(b["data"]["vals"][-1] - max(b["data"]["vals"][:len(b["pts"])])) > 1e-12:
        return _fail(kind, inp, "lie value is not the model's worst observed value", b["data"]["vals"][-1], max(b["data"]["vals"][:len(b["pts"])]))
    if r["af"] is not None:
      built = {b["id"] for b in r["gp_builds"]}
      if not set(r["af"]["predictor_ids"]) <= built or not all(d["pts"][-k:] == pend_t for d in r["af"]["predictor_data"]):
        return _fail(kind, inp, "acquisition function's model does not hold the pending points", r["af"]["predictor_data"], pend_t)
  if ep == "gp" and qei:
    # what the optimiser is handed must account for the pending points: parallel EI with exactly them as its pending set, or (where
    # parallel EI is not used: multitask) a model whose data end with them as lies - the fixed lie noise, and each model's own worst
    # (largest: the models minimise) value
    af = r["af"]
    shown = af and dict({x: af[x] for x in ("qei", "af_class", "pending_set")}, model_points=[len(d["pts"]) for d in af["predictor_data"]],
                        model_tails=[dict(pts=d["pts"][-k:], vals=d["vals"][-k:], noise=d["noise"][-k:]) for d in af["predictor_data"]])
    if af is None:
      return _fail(kind, inp, "no acquisition function reached an optimiser", None, "an optimiser call")
    if af["qei"]:
      if af["pending_set"] != pend_t:
        return _fail(kind, inp, "pending points not given to parallel EI", shown, pend_t)
    else:
      built = {b["id"]: len(b["pts"]) for b in r["gp_builds"]}      # rows each model was built from (a pending point may repeat an observed one)
      for gid, dat in zip(af["predictor_ids"], af["predictor_data"]):
        n_in = built.get(gid, len(dat["pts"]) - k)
        if n_in < 1 or len(dat["pts"]) != n_in + k or dat["pts"][n_in:] != pend_t:
          return _fail(kind, inp, "pending points reach neither the model's data (as lies) nor a parallel-EI pending set", shown,
                       dict(tail_points=pend_t, or_pending_set=pend_t))
        if dat["noise"][n_in:] != [1e-12] * k or not len(dat["vals"]) == len(dat["noise"]) == len(dat["pts"]):
          return _fail(kind, inp, "pending points in the model's data do not carry the lie noise", shown, dict(noise=1e-12))
        if dat["vals"][n_in:] != [max(dat["vals"][:n_in])] * k:
          return _fail(kind, inp, "lie value is not the model's worst observed value", dat["vals"][n_in:], max(dat["vals"][:n_in]))
      if not af["wrapper_sees_predictor"]:
        return _fail(kind, inp, "the cost-scaled wrapper does not hold the model that received the lies", shown, "one predictor")
  if ep == "spe" and r["parzen"] and "at_sampling" in r["parzen"]:
    f, a = r["parzen"]["formed"], r["parzen"]["at_sampling"]
    if a["greater"] != f["greater"] + pend or a["lower"] != f["lower"] or a["greater_lies"] != pend or a["lower_lies"] != []:
      return _fail(kind, inp, "pending points not appended as lies to the Parzen model", a, dict(greater_tail=pend))
  if ep == "spe" and r["parzen"] and "after_sampling" in r["parzen"]:
    # ... and they stay there: the optimiser inside the sampler, every expected-improvement evaluation after its pick and the
    # estimator the sampler leaves behind all hold the formed points plus the pending points as lies
    z = r["parzen"]
    exp = dict(lower=z["formed"]["lower"], greater=z["formed"]["greater"] + pend, lower_lies=[], greater_lies=pend)
    if "cl_seen" in z and z["cl_seen"] != exp:
      return _fail(kind, inp, "the optimiser inside the Parzen sampler does not see the pending points as lies", z["cl_seen"], exp)
    for j, st in enumerate(z.get("evals_after_pick", []) + [z["after_sampling"]]):
      if st != exp:
        return _fail(kind, inp, "pending points no longer among the Parzen model's lies after the sampler's constant-liar pick "
                                "(expected improvement is evaluated on a model without the open suggestions)",
                     dict(evaluation=j, greater_lies=st["greater_lies"], n_greater=len(st["greater"])), dict(greater_lies=pend, n_greater=len(exp["greater"])))
  if ep == "search" and r["search"]:
    comps = inp["components"]
    ohd = sum(len(c["elements"]) if c["var_type"] == "categorical" else 1 for c in comps)
    exp = []
    for p in inp["points"] + inp["pending"]:
      row = []
      for c, x in zip(comps, p):
        e = c["elements"]
        if c["var_type"] == "categorical":
          row += [ohd ** 0.5 if x == v else 0.0 for v in e]
        else:
          row.append((x - min(e)) / (max(e) - min(e)))
      exp.append(row)
    if not _close(r["search"]["repulsors"], exp, 1e-12, 1e-15):
      return _fail(kind, inp, "pending points not among the search repulsors", r["search"]["repulsors"][-k:], exp[-k:])
  return None


def search(ctx, hints, broken):
  fails, n = [], 0
  for h in hints:
    k = "endpoint" if str(h.get("kind", "")).startswith("endpoint") else h.get("kind")   # endpoint cases are labelled endpoint:<view>:<mode>:<model>
    if "input" in h and k in set(KINDS) | {"endpoint"}:
      n += 1
      r = oracle(k, h["input"])
      if r:
        fails.append(r)
  MAXOPS[0] = ctx.n(12, 30)
  budget = ctx.n(1500, 8000) * (2 if broken else 1)
  rng = ctx.rng
  sigs = set(f["signature"] for f in fails)
  for i in range(budget):
    kind = rng.choice(KINDS)
    inp = gen_input(rng, kind, real=rng.random() < 0.7)
    n += 1
    r = oracle(kind, inp)
    if r and r["signature"] not in sigs:
      sigs.add(r["signature"])
      fails.append(r)
      if len(fails) >= 4:
        break
  # the constant-liar routine with its real optimisers (object histories inside the loop: an optimiser that outlives its round)
  for _ in range(ctx.n(60, 600)):
    inp = gen_clreal(rng)
    n += 1
    r = oracle("clreal", inp)
    if r and r["signature"] not in sigs:
      sigs.add(r["signature"])
      fails.append(r)
  # every run: the branch where qEI falls back to the constant-liar optimiser (several pending points, failures, failure models, sums)
  for inp in qei_fallback_sweep(rng, False) + spe_pending_sweep(rng, False) + [gen_endpoint(rng) for _ in range(ctx.n(80, 500))]:
    n += 1
    r = oracle("endpoint", inp)
    if r and r["signature"] not in sigs:
      sigs.add(r["signature"])
      fails.append(r)
  for k in range(ctx.n(24, 240)):   # the other endpoints on the same kind of request: request data untouched (fit, evaluation, best assignments)
    inp = gen_endpoint(rng, endpoint="gp")
    which = ["hyperopt", "ei", "best"][k % 3]
    n += 1
    try:
      r2 = U.run_other_endpoint(inp, which)
    except Exception as e:
      continue   # the request could not even be built for that endpoint: nothing was handed over
    if not r2["request_unchanged"]:
      sig = f"C15:endpoint:{which}:request data modified"
      if sig not in sigs:
        sigs.add(sig)
        fails.append(dict(signature=sig, what=f"endpoint {which}: the caller's request data were modified at {r2['request_diff']}", input=dict(kind="other-endpoint", which=which, **inp),
                          observed=r2["request_diff"], expected="request unchanged", oracle="deep snapshot before / after the call"))
  return dict(evaluations=n, failures=fails, oracle="plain-Python list bookkeeping of expected data; deep snapshots of caller-owned objects; "
              "for the real constant-liar loop: every pick is a point evaluated while the model held the lies at the previous picks")


def replay_other(inp):
  inp = dict(inp)
  which = inp.pop("which")
  inp.pop("kind", None)
  r2 = U.run_other_endpoint(inp, which)
  if r2["request_unchanged"]:
    return None
  return dict(signature=f"C15:endpoint:{which}:request data modified", what=f"endpoint {which}: the caller's request data were modified at {r2['request_diff']}",
              input=dict(kind="other-endpoint", which=which, **inp), observed=r2["request_diff"], expected="request unchanged", oracle="deep snapshot before / after the call")


def replay(ctx, payload):
  if isinstance(payload.get("input"), dict) and payload["input"].get("kind") == "other-endpoint":
    return replay_other(payload["input"])
  inp = dict(payload["input"])
  kind = inp.pop("kind")
  return oracle(kind, inp)
