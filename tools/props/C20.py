"""C20 — schema validation fails only with library errors, exactly when data is invalid."""
import copy
import re
import traceback

from lib import common as C

PROP = "C20"
PROPS_FILES = ["Props/C20.v"]
ASSUMPTIONS = [
  "jsonschema is external: the theorems about validate are relative to the contract 'raises ValidationError iff the value does not "
  "conform (conforms), and the raised record satisfies wf_verr'; the contract itself is compared with jsonschema on every run "
  "(correspondence parts (i) and (ii)), not proved",
  "a JSON schema = a self-contained schema that is valid against its draft's meta-schema (jsonschema raises SchemaError otherwise, "
  "outside the property); unresolvable $ref / $dynamicRef (jsonschema's _WrappedReferencingError) are outside this reading and are "
  "never generated",
  "the Coq model fixes draft 2020-12 semantics (the default when $schema is absent); drafts 2019-09 / 7 / 4 are exercised by the "
  "searcher only; draft 3 is in the model through its boolean `required` (SRequired3, the draft-3 `required` record of wf_verr, the "
  "boolean branch of process_error) and is compared with jsonschema's Draft3Validator on schemas over the keywords that mean the same in "
  "draft 3 and in draft 2020-12 (type names without `any`, properties with the flags, patternProperties, additionalProperties, items "
  "as one schema, minimum / maximum, lengths, item counts, enum, pattern, extends = allOf, annotations) and on values without "
  "integral floats (1.0 is an integer from draft 6 on, not in draft 3); the rest of draft 3 (`any`, divisibleBy, dependencies, "
  "integral floats) is decided by the searcher's oracle only",
  "contract on a draft-3 `required` record (wf_verr, compared with jsonschema's real records on every run): validator_value is True, the "
  "instance is the parent object, the path ends with the missing key, that key is a declared property of the record's schema and is "
  "absent from the instance",
  "JSON values as produced by json.loads: finite floats, ints below the 4300-digit str limit of CPython, nesting depth <= 200",
  "Python's \\w is modelled on ASCII ([A-Za-z0-9_]); non-ASCII word characters in unknown keys are decided by the searcher only",
  "regular-expression matching (pattern) is an oracle supplied per case by Python's re.search",
  "patternProperties: whether a key is matched is an oracle `pm` supplied per case by Python's re: re.search of the '|'-joined patterns, "
  "as jsonschema._utils.find_additional_properties evaluates it (its quirk included: an empty joined string - no pattern, or the single "
  "pattern '' - matches no key); the oracle is indexed by the sorted pattern list (the order of the alternatives is taken not to matter)",
  "contract on the message of an additionalProperties:false error (wf_verr, compared with jsonschema's real records on every run): when all "
  "unknown keys are ASCII identifier-like it is 'Additional properties are not allowed (...)' without patternProperties, and with it "
  "\"'a', 'b' do not match any of the regexes: 'p', ...\" - exactly when all patterns are ASCII (Python's repr of a str is modelled on "
  "ASCII: quote choice, backslash, \\t \\n \\r \\xNN), up to 'regexes: ' otherwise; jsonschema raises the error only when there is an unknown key",
  "the message text of the library's errors is compared for non-emptiness only",
  "'an unknown key with an identifier-like name': every unknown key of the offending object matches \\w+ (weakest reading); with a "
  "non-identifier key next to it (e.g. \"a b'c'\") the regular expression can return a fragment, which is not counted as a violation",
  "jsonschema reports a `false` sub-schema with validator None and an empty path: the correspondence does not compare the path of such records",
]
TRUSTED = ["tools/props/C20.py: case generators, the JSON / schema / ValidationError printers, the independent mini-validator of the searcher",
           "Model/SchemaCorr.v check function"]

DRAFT3 = "http://json-schema.org/draft-03/schema#"
DRAFT4 = "http://json-schema.org/draft-04/schema#"
DRAFT7 = "http://json-schema.org/draft-07/schema#"
DRAFT2019 = "https://json-schema.org/draft/2019-09/schema"
DRAFT2020 = "https://json-schema.org/draft/2020-12/schema"

FAM_HUGE = "multipleOf-float-on-huge-int"
FAM_D3 = "draft3"

KEYS = ["a", "b", "c", "u", "uu", "key_1", "x9", "_", "p", "U2"]
ODD_KEYS = ["b c", "it's", "", "u'x", "☃", "a-b", 'q"r', "u'", "'", "a,b", "'a'", "u", "€1"]
UNI_KEYS = ["é", "ключ", "日本", "naïve_1", "²"]
D3_KEYS = KEYS + ["b c", "it's", "", "a-b", 'q"r', "0", "'", "1st", "[0]"]
STRS = ["", "a", "ab", "abc", "x", "hello world", "u", "aaaaaa", "日本", "é", "☃", "a'b", "0", "12", "xy", "b"]
PATTERNS = ["^a", "b$", "^[a-z]+$", "[0-9]", "^$", "u'", "x|y", "^.{2,3}$"]
# patternProperties patterns of the correspondence: identifier-like ones (returned by the regular expression of process_error after
# the keys), reprs with double quotes / backslash / \t \n \r \xNN escapes, a non-ASCII one whose character is not a word character
# (the model's \w is ASCII)
PPATS = ["^x", "_", "^u+$", "abc", "^zz", "^q_", "\\d", "u'", "it's\"", "a\tb", "☃", "U2", "^[a-c]$", 'q"', "key", "a\nb\r", "\x1f|\x7f"]
PKEYS = ["zz1", "q_a", "xabc", "abcd", "it's\"k", 'q"', "zz", "x_1", "a\tb"]
TYPES = ["null", "boolean", "integer", "number", "string", "array", "object"]
TYPE_CTOR = dict(null="TNull", boolean="TBoolean", integer="TInteger", number="TNumber", string="TString", array="TArray", object="TObject")
KINDS = {"additionalProperties": "VAdditional", "type": "VType", "maxProperties": "VMaxProps", "minProperties": "VMinProps",
         "required": "VRequired", "minimum": "VMinimum", "maximum": "VMaximum", "minLength": "VMinLength", "maxLength": "VMaxLength",
         "minItems": "VMinItems", "maxItems": "VMaxItems", "enum": "VEnum", "pattern": "VPattern", "exclusiveMinimum": "VExMin",
         "oneOf": "VOneOf", "anyOf": "VAnyOf"}
ANNOT = ["title", "description", "default", "$comment", "format", "x-unknown", "examples"]


def _lib():
  from libsigopt.aux import errors as E
  from libsigopt.aux import validate_schema as VS
  return VS, E


# ------------------------------------------------------------------------------------------ generators


def rand_num(rng, wide=False):
  r = rng.random()
  if r < 0.45:
    return rng.randint(-3, 12)
  if r < 0.7:
    return rng.randint(-12, 40) / 4.0
  if r < 0.8:
    return float(rng.randint(-2, 9))
  if r < 0.9:
    return rng.choice([2 ** 70, -10 ** 30, 10 ** 18 + 1, 2 ** 53 + 1])
  if wide:
    return rng.choice([0.1, 1e-7, 3.3e12, -2.5e-3, 1e300, 10 ** 200, -(10 ** 305), rng.gauss(0, 10)])
  return rng.randint(-3, 12)


def rand_str(rng, wide=False):
  if rng.random() < 0.8:
    return rng.choice(STRS)
  alphabet = "abux_09 '-" + ("é日\n\\\"" if wide else "")
  return "".join(rng.choice(alphabet) for _ in range(rng.randint(0, 9)))


def rand_key(rng, wide=False):
  r = rng.random()
  if r < 0.75:
    return rng.choice(KEYS)
  if wide and r < 0.85:
    return rng.choice(UNI_KEYS)
  return rng.choice(ODD_KEYS)


def rand_json(rng, depth, wide=False):
  r = rng.random()
  if depth <= 0 or r < 0.55:
    k = rng.randrange(4)
    if k == 0:
      return rng.choice([None, True, False])
    if k == 1:
      return rand_num(rng, wide)
    if k == 2:
      return rand_str(rng, wide)
    return rng.choice([None, 0, 1, "", [], {}])
  if r < 0.78:
    return [rand_json(rng, depth - 1, wide) for _ in range(rng.randint(0, 3))]
  return {rand_key(rng, wide): rand_json(rng, depth - 1, wide) for _ in range(rng.randint(0, 3))}


def gen_schema(rng, depth, wide=False, pprob=0.0):
  r = rng.random()
  if r < 0.04:
    return True
  if r < 0.07:
    return False
  s = {}
  choices = ["object", "array", "string", "number", "integer", "boolean", "null", None, "multi"]
  weights = [5 if depth > 0 else 1, 3 if depth > 0 else 1, 3, 3, 3, 1, 1, 2, 2]
  t = rng.choices(choices, weights)[0]
  if t == "multi":
    ts = rng.sample(TYPES, rng.randint(1, 3))
    s["type"] = ts
    ft = rng.choice(ts)
  elif t is None:
    ft = rng.choice(TYPES)
  else:
    s["type"] = t
    ft = t
  p = rng.random
  if ft == "object":
    if p() < 0.8:
      s["properties"] = {k: gen_schema(rng, depth - 1, wide, pprob) for k in rng.sample(KEYS, rng.randint(0, 3))}
    if p() < 0.6:
      pool = list(s.get("properties", {})) + [rand_key(rng, wide)]
      s["required"] = list(dict.fromkeys(rng.choice(pool) for _ in range(rng.randint(0, 3))))
    q = p()
    if q < 0.45:
      s["additionalProperties"] = False
    elif q < 0.5:
      s["additionalProperties"] = True
    elif q < 0.62:
      s["additionalProperties"] = gen_schema(rng, depth - 1, wide, pprob)
    if p() < 0.15:
      s["minProperties"] = rng.randint(0, 3)
    if p() < 0.15:
      s["maxProperties"] = rng.randint(0, 3)
    if wide and p() < 0.15:
      s["patternProperties"] = {rng.choice(["^x", "_", "^u+$", "abc"]): rng.choice([{}, True, {"type": "integer"}])}
    if not wide and pprob and p() < pprob:
      s["patternProperties"] = {pat: rng.choice([{}, True, {"type": "integer"}, gen_schema(rng, depth - 1, wide, pprob)])
                                for pat in rng.sample(PPATS, rng.randint(1, 3))}
    if wide and p() < 0.1 and "$schema" not in s:
      s["dependentRequired"] = {rng.choice(KEYS): [rng.choice(KEYS)]}
  elif ft == "array":
    if p() < 0.75:
      s["items"] = gen_schema(rng, depth - 1, wide, pprob)
    if p() < 0.3:
      s["minItems"] = rng.randint(0, 3)
    if p() < 0.3:
      s["maxItems"] = rng.randint(0, 3)
    if wide and p() < 0.15:
      s["uniqueItems"] = True
  elif ft == "string":
    if p() < 0.35:
      s["minLength"] = rng.randint(0, 4)
    if p() < 0.35:
      s["maxLength"] = rng.randint(0, 5)
    if p() < 0.3:
      s["pattern"] = rng.choice(PATTERNS)
    if p() < 0.2:
      s["enum"] = rng.sample(STRS, rng.randint(1, 3))
  elif ft in ("number", "integer"):
    b = lambda: rng.choice([rng.randint(-2, 8), rng.randint(-8, 32) / 4.0, 2 ** 70])
    if p() < 0.4:
      s["minimum"] = b()
    if p() < 0.4:
      s["maximum"] = b()
    if p() < 0.25:
      s["exclusiveMinimum"] = b()
    if p() < 0.15:
      s["exclusiveMaximum"] = b()
    if wide and p() < 0.15:
      s["multipleOf"] = rng.choice([2, 3, 5])
  if p() < 0.08:
    s["enum"] = [rand_json(rng, 1, wide) for _ in range(rng.randint(0, 3))]
  if p() < 0.05:
    s["const"] = rand_json(rng, 1, wide)
  if depth > 0:
    for comb, pr in (("anyOf", 0.12), ("oneOf", 0.12), ("allOf", 0.06)):
      if p() < pr:
        s[comb] = [gen_schema(rng, depth - 1, wide, pprob) for _ in range(rng.randint(1, 3))]
    if p() < 0.05:
      s["not"] = gen_schema(rng, depth - 1, wide, pprob)
  if p() < 0.12:
    k = rng.choice(ANNOT)
    s[k] = [1] if k == "examples" else ("date" if k == "format" else rng.choice(["t", "text"]))
  return s


def gen_schema3(rng, depth, wide=False, flag=False):
  """A draft-3 schema object: the boolean `required` inside the sub-schemas of `properties` (flag=True: this schema IS such a
  sub-schema), mixed with the keywords that mean the same in draft 3 and in draft 2020-12; wide adds what only the searcher's
  oracle reads (`any`, divisibleBy, dependencies, non-ASCII keys).  The key order of every object is shuffled."""
  s = {}
  p = rng.random
  choices = ["object", "array", "string", "number", "integer", "boolean", "null", None, "multi"]
  weights = [7 if depth > 0 else 1, 3 if depth > 0 else 1, 2, 2, 2, 1, 1, 2, 1]
  t = rng.choices(choices, weights)[0]
  if t == "multi":
    ts = rng.sample(TYPES, rng.randint(1, 3))
    s["type"] = ts
    ft = rng.choice(ts)
  elif t is None:
    ft = rng.choice(TYPES)
    if wide and p() < 0.3:
      s["type"] = "any"
  else:
    s["type"] = t
    ft = t
  if ft == "object":
    if p() < 0.9:
      ks = rng.sample(D3_KEYS + (UNI_KEYS if wide else []), rng.randint(1, 3))
      s["properties"] = {k: gen_schema3(rng, depth - 1, wide, flag=True) for k in ks}
    q = p()
    if q < 0.3:
      s["additionalProperties"] = False
    elif q < 0.35:
      s["additionalProperties"] = True
    elif q < 0.45:
      s["additionalProperties"] = gen_schema3(rng, depth - 1, wide)
    if p() < 0.15:
      pats = rng.sample(["^x", "_", "^u+$", "abc"] if wide else PPATS, rng.randint(1, 2))
      s["patternProperties"] = {pat: rng.choice([{}, {"type": "integer"}, gen_schema3(rng, depth - 1, wide)]) for pat in pats}
    if wide and p() < 0.12:
      dep = rng.choice([rng.choice(KEYS), [rng.choice(KEYS), rng.choice(KEYS)], {"properties": {rng.choice(KEYS): {"required": True}}}])
      s["dependencies"] = {rng.choice(KEYS): dep}
  elif ft == "array":
    if p() < 0.8:
      s["items"] = gen_schema3(rng, depth - 1, wide)
    if p() < 0.25:
      s["minItems"] = rng.randint(0, 3)
    if p() < 0.25:
      s["maxItems"] = rng.randint(0, 3)
  elif ft == "string":
    if p() < 0.3:
      s["minLength"] = rng.randint(0, 4)
    if p() < 0.3:
      s["maxLength"] = rng.randint(0, 5)
    if p() < 0.25:
      s["pattern"] = rng.choice(PATTERNS)
    if p() < 0.2:
      s["enum"] = rng.sample(STRS, rng.randint(1, 3))
  elif ft in ("number", "integer"):
    b = lambda: rng.choice([rng.randint(-2, 8), rng.randint(-8, 32) / 4.0, 2 ** 70])
    if p() < 0.4:
      s["minimum"] = b()
    if p() < 0.4:
      s["maximum"] = b()
    if wide and p() < 0.15:
      s["divisibleBy"] = rng.choice([2, 3, 0.5])
  if depth > 0 and p() < 0.1:
    ext = [gen_schema3(rng, depth - 1, wide) for _ in range(rng.randint(1, 2))]
    s["extends"] = ext[0] if len(ext) == 1 and p() < 0.5 else ext
  if p() < 0.12:
    s[rng.choice(["title", "description", "default"])] = rng.choice(["t", "text"])
  if flag:
    r = p()
    if r < 0.55:
      s["required"] = True
    elif r < 0.8:
      s["required"] = False
  elif p() < 0.06:
    s["required"] = True     # outside `properties` nobody reads the flag
  items = list(s.items())
  rng.shuffle(items)
  return dict(items)


def no_integral_floats(v):
  """draft 3 does not take 1.0 for an integer (the model's draft does): the draft-3 correspondence cases carry no such value"""
  if isinstance(v, float) and v == int(v):
    return v + 0.5 if v + 0.5 != int(v + 0.5) else 0.25     # beyond 2**52 every float is integral
  if isinstance(v, list):
    return [no_integral_floats(x) for x in v]
  if isinstance(v, dict):
    return {k: no_integral_floats(x) for k, x in v.items()}
  return v


def gen_draft3_case(rng):
  """(schema, value) for the correspondence: a valid object with dropped properties, wrapped under keys / array items / extends
  (d3_targeted), or a random draft-3 schema whose root is mostly an object with `properties`"""
  if rng.random() < 0.6:
    schema, value = d3_targeted(rng, False)
    return schema, no_integral_floats(value)
  for _ in range(6):
    schema = gen_schema3(rng, rng.randint(1, 3))
    if "properties" in schema:
      break
  items = list(schema.items()) + [("$schema", DRAFT3)]
  rng.shuffle(items)
  schema = dict(items)
  return schema, no_integral_floats(gen_value(rng, schema, 4))


def _near(rng, m):
  if isinstance(m, int) and abs(m) > 2 ** 60:
    return rng.choice([m - 1, m, m + 1, float(m), 0])
  return rng.choice([m - 1, m, m + 1, m + 0.5, m - 0.25, float(m), int(m)])


def gen_value(rng, s, depth, wide=False):
  if not isinstance(s, dict) or rng.random() < 0.04:
    return rand_json(rng, min(depth, 2), wide)
  if "const" in s and rng.random() < 0.7:
    return copy.deepcopy(s["const"])
  if s.get("enum") and rng.random() < 0.7:
    return copy.deepcopy(rng.choice(s["enum"]))
  for comb in ("anyOf", "oneOf", "allOf"):
    if comb in s and rng.random() < 0.5:
      sub = rng.choice(s[comb])
      if isinstance(sub, dict):
        merged = {k: v for k, v in s.items() if k != comb}
        merged.update(sub)
        return gen_value(rng, merged, depth, wide)
  t = s.get("type")
  if isinstance(t, list):
    t = rng.choice(t) if t else None
  if t is None:
    if "properties" in s or "required" in s or "additionalProperties" in s:
      t = "object"
    elif "items" in s or "minItems" in s:
      t = "array"
    elif "minLength" in s or "maxLength" in s or "pattern" in s:
      t = "string"
    elif any(k in s for k in ("minimum", "maximum", "exclusiveMinimum", "exclusiveMaximum", "multipleOf")):
      t = "number"
    else:
      t = rng.choice(TYPES)
  if rng.random() < 0.05:
    t = rng.choice(TYPES)
  if t == "object":
    props = s.get("properties", {}) if isinstance(s.get("properties"), dict) else {}
    d = {}
    for k, sub in props.items():
      if rng.random() < 0.75:
        d[k] = gen_value(rng, sub, depth - 1, wide)
    for k in (s["required"] if isinstance(s.get("required"), list) else []):
      if k not in d and rng.random() < 0.6:
        d[k] = gen_value(rng, props.get(k, {}), depth - 1, wide)
    pp = s.get("patternProperties")
    if not wide and isinstance(pp, dict) and rng.random() < 0.7:
      for _ in range(rng.randint(1, 3)):
        k = rng.choice(KEYS + PKEYS)
        if k not in d:
          subs = [sub for pat, sub in pp.items() if re.search(pat, k)]
          d[k] = gen_value(rng, subs[0], depth - 1, wide) if subs and rng.random() < 0.8 else rand_json(rng, 0, wide)
      if rng.random() < 0.5:
        items = list(d.items())
        rng.shuffle(items)
        d = dict(items)
    if rng.random() < 0.3:
      ap = s.get("additionalProperties")
      for _ in range(rng.randint(1, 3)):
        k = rand_key(rng, wide)
        if k not in d:
          d[k] = gen_value(rng, ap, depth - 1, wide) if isinstance(ap, dict) else rand_json(rng, 0, wide)
    return d
  if t == "array":
    lo, hi = s.get("minItems", 0), s.get("maxItems", 3)
    n = max(0, rng.choice([lo - 1, lo, lo + 1, hi, hi + 1, rng.randint(0, 3)]))
    return [gen_value(rng, s.get("items", {}), depth - 1, wide) for _ in range(min(n, 5))]
  if t == "string":
    if ("minLength" in s or "maxLength" in s) and rng.random() < 0.6:
      m = s.get("minLength", s.get("maxLength"))
      n = max(0, rng.choice([m - 1, m, m + 1]))
      return "".join(rng.choice("abxu日") for _ in range(n))
    return rand_str(rng, wide)
  if t in ("number", "integer"):
    bs = [s[k] for k in ("minimum", "maximum", "exclusiveMinimum", "exclusiveMaximum") if k in s]
    v = _near(rng, rng.choice(bs)) if bs and rng.random() < 0.7 else rand_num(rng, wide)
    if t == "integer" and isinstance(v, float) and rng.random() < 0.6:
      v = rng.choice([int(v), float(int(v))])
    return v
  if t == "boolean":
    return rng.random() < 0.5
  return None


# ------------------------------------------------------------------------------------------ printers (Coq terms; N_scope is open)


def slit(s):
  return "[" + "; ".join(str(ord(c)) for c in s) + "]"


def zl(n):
  return f"({n})%Z"


def ql(x):
  return C.qlit(x) + "%Q"


def jlit(v):
  if v is None:
    return "JNull"
  if isinstance(v, bool):
    return f"(JBool {C.blit(v)})"
  if isinstance(v, int):
    return f"(JInt {zl(v)})"
  if isinstance(v, float):
    return f"(JFloat {ql(v)})"
  if isinstance(v, str):
    return f"(JStr {slit(v)})"
  if isinstance(v, (list, tuple)):
    return "(JArr " + C.listlit(v, jlit) + ")"
  if isinstance(v, dict):
    for k in v:
      if not isinstance(k, str):
        raise C.TieBroken(f"non-string JSON key {k!r}")
    return "(JObj " + C.listlit(v.items(), lambda kv: f"({slit(kv[0])}, {jlit(kv[1])})") + ")"
  raise C.TieBroken(f"value outside JSON: {type(v).__name__}")


NUMKW = dict(minimum="SMin", maximum="SMax", exclusiveMinimum="SExMin", exclusiveMaximum="SExMax", minLength="SMinLen",
             maxLength="SMaxLen", minItems="SMinItems", maxItems="SMaxItems", minProperties="SMinProps", maxProperties="SMaxProps")


def schlit(s, d3=False):
  """d3: the schema is read by jsonschema's Draft3Validator.  The boolean `required` of a sub-schema of `properties` is read by the
  keyword `properties` of the PARENT (SRequired3 next to its SProps); where it stands it constrains nothing (SAnnot)."""
  if s is True or s is False:
    return f"(SBool {C.blit(s)})"
  sub = lambda x: schlit(x, d3)
  kws = []
  props_done = False
  for k, v in s.items():
    if k == "type":
      kws.append("(SType " + C.listlit([v] if isinstance(v, str) else v, lambda t: TYPE_CTOR[t]) + ")")
    elif k == "required" and d3:
      if not isinstance(v, bool):
        raise C.TieBroken("draft 3: `required` must be a boolean")
      kws.append("SAnnot")
    elif k == "required":
      kws.append("(SRequired " + C.listlit(v, slit) + ")")
    elif k in ("properties", "patternProperties", "additionalProperties"):
      if not props_done:   # the three keywords are ONE constructor of the model (patterns in the schema's own order)
        props_done = True
        ap = C.optlit(s["additionalProperties"], sub) if "additionalProperties" in s else "None"
        pairs = lambda d: C.listlit(d.items(), lambda kv: f"({slit(kv[0])}, {sub(kv[1])})")
        kws.append(f"(SProps {pairs(s.get('properties', {}))} {pairs(s.get('patternProperties', {}))} {ap})")
        if d3 and "properties" in s:
          flags = [(key, x["required"]) for key, x in s["properties"].items() if isinstance(x, dict) and "required" in x]
          kws.append("(SRequired3 " + C.listlit(flags, lambda kb: f"({slit(kb[0])}, {C.blit(kb[1])})") + ")")
    elif d3 and k == "extends":
      kws.append("(SAnd " + C.listlit(v if isinstance(v, list) else [v], sub) + ")")
    elif d3 and k == "$schema":
      kws.append("SAnnot")
    elif d3 and k in ("exclusiveMinimum", "exclusiveMaximum", "minProperties", "maxProperties", "const", "oneOf", "anyOf", "allOf", "not"):
      raise C.TieBroken(f"keyword {k} does not mean in draft 3 what it means in the Coq model")
    elif k == "items":
      kws.append(f"(SItems {sub(v)})")
    elif k in NUMKW:
      kws.append(f"({NUMKW[k]} {ql(v)})")
    elif k == "enum":
      kws.append("(SEnum " + C.listlit(v, jlit) + ")")
    elif k == "const":
      kws.append(f"(SConst {jlit(v)})")
    elif k == "pattern":
      kws.append(f"(SPattern {PATTERNS.index(v)})")
    elif k in ("oneOf", "anyOf", "allOf"):
      kws.append("(" + dict(oneOf="SOneOf", anyOf="SAnyOf", allOf="SAnd")[k] + " " + C.listlit(v, sub) + ")")
    elif k == "not":
      kws.append(f"(SNot {sub(v)})")
    elif k in ANNOT:
      kws.append("SAnnot")
    else:
      raise C.TieBroken(f"keyword {k} is not in the Coq model")
  return "(SAnd " + C.listlit(kws) + ")"


def all_strings(v, acc):
  if isinstance(v, str):
    acc.add(v)
  elif isinstance(v, list):
    for x in v:
      all_strings(x, acc)
  elif isinstance(v, dict):
    for x in v.values():
      all_strings(x, acc)


def all_patterns(s, acc):
  if isinstance(s, dict):
    for k, v in s.items():
      if k == "pattern":
        acc.add(v)
      elif k in ("properties", "patternProperties"):
        for x in v.values():
          all_patterns(x, acc)
      elif k in ("oneOf", "anyOf", "allOf", "extends"):
        for x in (v if isinstance(v, list) else [v]):
          all_patterns(x, acc)
      elif k in ("items", "not", "additionalProperties"):
        all_patterns(v, acc)


def rx_table(value, schema):
  strs, pats = set(), set()
  all_strings(value, strs)
  all_patterns(schema, pats)
  rows = [f"({PATTERNS.index(p)}, {slit(s)}, {C.blit(re.search(p, s) is not None)})" for p in sorted(pats) for s in sorted(strs)]
  return "[" + "; ".join(rows) + "]"


def all_keys(v, acc):
  if isinstance(v, list):
    for x in v:
      all_keys(x, acc)
  elif isinstance(v, dict):
    for k, x in v.items():
      if isinstance(k, str):
        acc.add(k)
      all_keys(x, acc)


def all_patlists(s, acc):
  """every list of patternProperties patterns of the schema, in the schema's own order (the order jsonschema joins them in)"""
  if isinstance(s, dict):
    for k, v in s.items():
      if k == "patternProperties" and isinstance(v, dict):
        acc.append(list(v))
        for x in v.values():
          all_patlists(x, acc)
      elif k == "properties" and isinstance(v, dict):
        for x in v.values():
          all_patlists(x, acc)
      elif k in ("oneOf", "anyOf", "allOf", "extends") and isinstance(v, (list, dict)):
        for x in (v if isinstance(v, list) else [v]):
          all_patlists(x, acc)
      elif k in ("items", "not", "additionalProperties"):
        all_patlists(v, acc)


def verr_patlists(e, lists, keys):
  if isinstance(e.schema, dict) and isinstance(e.schema.get("patternProperties"), dict):
    lists.append(list(e.schema["patternProperties"]))
  all_keys(e.instance, keys)
  for c in e.context or []:
    verr_patlists(c, lists, keys)


def pm_table(lists, keys):
  """rows (sorted patterns, key, re.search("|".join(patterns in the schema's order), key) is not None): what
  jsonschema._utils.find_additional_properties evaluates; the single-pattern rows are what patternProperties itself evaluates"""
  rows = {}
  for lst in lists:
    if not all(isinstance(x, str) for x in lst):
      continue
    for sub in [lst] + [[x] for x in lst]:
      try:
        rx = re.compile("|".join(sub))
      except re.error:
        continue
      for k in keys:
        key = (tuple(sorted(sub)), k)
        val = rx.search(k) is not None
        if rows.setdefault(key, val) != val:
          raise C.TieBroken(f"the alternation of {sub!r} matches {k!r} in one order and not in another")
  return "[" + "; ".join(f"({C.listlit(list(ps), slit)}, {slit(k)}, {C.blit(b)})" for (ps, k), b in sorted(rows.items())) + "]"


def pm_of_case(value, schema, cause):
  lists, keys = [], set()
  all_patlists(schema, lists)
  all_keys(value, keys)
  if cause is not None:
    verr_patlists(cause, lists, keys)
  return pm_table(lists, keys)


def pathlit(path):
  return C.listlit(list(path), lambda p: f"(PIdx {int(p)}%nat)" if isinstance(p, int) and not isinstance(p, bool) else f"(PKey {slit(p)})")


def verrlit(e):
  sch = e.schema if isinstance(e.schema, dict) else {}
  sty = C.optlit(sch["type"], jlit) if "type" in sch else "None"
  props = sch.get("properties", {})
  sprops = C.listlit(list(props) if isinstance(props, dict) else [], slit)
  kind = KINDS.get(e.validator, "VOther")
  ctx = C.listlit(list(e.context or []), verrlit)
  pp = sch.get("patternProperties")
  # the patterns in the order jsonschema prints them in its message: sorted(schema["patternProperties"])
  spats = C.listlit(sorted(pp) if isinstance(pp, dict) and all(isinstance(x, str) for x in pp) else [], slit)
  return (f"(VErr {kind} {jlit(e.validator_value)} {jlit(e.instance)} {sty} {sprops} {C.blit('patternProperties' in sch)} {spats} "
          f"{pathlit(e.path)} {slit(e.message)} {ctx})")


def describe_exc(exc):
  """JSON-able description of what validate / process_error did."""
  if exc is None:
    return dict(result="returned")
  d = dict(result="raised", type=type(exc).__name__, module=type(exc).__module__, message=str(exc)[:300])
  for a in ("missing_json_key", "invalid_key", "value", "expected_type"):
    if hasattr(exc, a):
      d[a] = getattr(exc, a)
  return d


PROMISED_ATTRS = dict(MissingJsonKeyError=("missing_json_key",), InvalidTypeError=("value", "expected_type"), InvalidKeyError=("invalid_key",))


def lacks_attrs(exc):
  """the attributes the property promises on the object raised ("exposes the offending key", "the offending value and expected type") that
  this object does not have; [] for any other exception.  expected_type must also be a string (it is printed into the Coq case as one)."""
  _, E = _lib()
  if type(exc) not in (E.MissingJsonKeyError, E.InvalidTypeError, E.InvalidKeyError):
    return []
  missing = [a for a in PROMISED_ATTRS[type(exc).__name__] if not hasattr(exc, a)]
  if type(exc) is E.InvalidTypeError and not missing and not isinstance(exc.expected_type, str):
    missing.append("expected_type (a string)")
  return missing


def obslit(exc):
  _, E = _lib()
  t = type(exc)
  try:
    text = str(exc)
    ne = C.blit(isinstance(text, str) and len(text) > 0)
  except Exception:
    ne = "false"
  if t is E.SigoptValidationError:
    return f"(OSigopt {ne})"
  if lacks_attrs(exc):
    return "OLacksAttr"     # an error object without an attribute its class promises: an observation like any other (never a crash of the harness)
  if t is E.MissingJsonKeyError:
    return f"(OMissingKey {C.optlit(exc.missing_json_key, jlit)} {ne})"
  if t is E.InvalidTypeError:
    return f"(OInvalidType {jlit(exc.value)} {slit(exc.expected_type)} {ne})"
  if t is E.InvalidValueError:
    return f"(OInvalidValue {ne})"
  if t is E.InvalidKeyError:
    return f"(OInvalidKey {C.optlit(exc.invalid_key, slit)} {ne})"
  if t is TypeError:
    return "(ORaw RTypeError)"
  if t is KeyError:
    return "(ORaw RKeyError)"
  if t is IndexError:
    return "(ORaw RIndexError)"
  return "OOtherExc"


# ------------------------------------------------------------------------------------------ running the implementation


def run_validate(value, schema):
  """validate(value, schema) -> (exception or None, the ValidationError jsonschema raised or None)."""
  VS, _ = _lib()
  from jsonschema.exceptions import ValidationError
  try:
    VS.validate(value, schema)
    return None, None
  except BaseException as exc:  # noqa: B902
    cause = exc.__cause__ if isinstance(exc.__cause__, ValidationError) else None
    return exc, cause


def js_error(value, schema):
  import jsonschema
  try:
    jsonschema.validate(value, schema)
  except jsonschema.exceptions.ValidationError as e:
    return e
  return None


def gen_verr_obj(rng, depth):
  from jsonschema.exceptions import ValidationError
  name = rng.choice(list(KINDS) + list(KINDS) + ["not", "const", "multipleOf", None, "dependentRequired", "items"])
  if name in ("oneOf", "anyOf") and depth <= 0:
    name = "required"
  vv = rng.choice([False, False, True, None, 0, 3, 2.5, "ab", "", [], ["a", "b"], ["b", "a", "u"], ["a", 1, None], [["x"]], [{"k": 1}],
                   {"a": 1}, {}, [None], [True], rand_json(rng, 2)])
  inst = rng.choice([rand_json(rng, 2), {"a": 1}, {"a": 1, "b": [2]}, {}, [], "s", 5])
  sch = rng.choice([{}, {"type": "integer"}, {"type": ["string", "null"]}, {"properties": {"a": {}}, "additionalProperties": False},
                    {"type": "object", "required": ["a"]}, {"patternProperties": {"^x": {}}},
                    {"properties": {"a": {}}, "patternProperties": {p: {} for p in rng.sample(PPATS, rng.randint(0, 3))}, "additionalProperties": False}])
  r = rng.random()
  if r < 0.25:
    ks = [rand_key(rng) for _ in range(rng.randint(1, 3))]
    msg = "Additional properties are not allowed (%s %s unexpected)" % (", ".join(repr(k) for k in ks), "was" if len(ks) == 1 else "were")
  elif r < 0.4:
    # the patternProperties form, also with NO key in front (jsonschema never raises that one): the patterns are what is found
    ks = sorted(rand_key(rng) for _ in range(rng.randint(0, 3)))
    pats = sorted(sch.get("patternProperties", {})) if rng.random() < 0.6 else sorted(rng.sample(PPATS, rng.randint(0, 3)))
    msg = "%s %s not match any of the regexes: %s" % (", ".join(repr(k) for k in ks), "does" if len(ks) == 1 else "do", ", ".join(repr(x) for x in pats))
  elif r < 0.5:
    msg = rng.choice(["u'x', 'y'", "''", "'a''b'", "u'u'u'", "'a b', 'c'", "uu'k',", "'k", "k'", "u", "'u'", "u'u',u'v'", "'a','b'", "',',"])
  else:
    msg = "".join(rng.choice("u',ab _9-") for _ in range(rng.randint(0, 14)))
  path = [rng.choice([0, 1, 7, "a", "b c", "u"]) for _ in range(rng.randint(0, 2))]
  if rng.random() < 0.12:
    # the draft-3 shape of a `required` record (and malformed variants of it): a boolean validator value, the key at the end of
    # the path - empty paths, array positions and odd keys included
    name, vv = "required", rng.choice([True, True, False])
    path = [rng.choice([0, 1, 7, "a", "b c", "u", "it's", "", "☃"]) for _ in range(rng.randint(0, 3))]
    if rng.random() < 0.5:
      inst = rng.choice([{}, {"a": 1}, {"b c": None, "u": [1]}])
      sch = rng.choice([{"properties": {k: {"required": True} for k in path if isinstance(k, str)}}, {"properties": {"a": {"required": True}, "u": {}}}, sch])
  ctx = [gen_verr_obj(rng, depth - 1) for _ in range(rng.randint(0, 2))] if name in ("oneOf", "anyOf") or rng.random() < 0.1 and depth > 0 else []
  return ValidationError(msg, validator=name, path=path, context=ctx, validator_value=vv, instance=inst, schema=sch)


def verr_json(e):
  return dict(validator=e.validator, validator_value=e.validator_value, instance=e.instance, schema=e.schema if isinstance(e.schema, (dict, bool)) else None,
              path=list(e.path), message=e.message, context=[verr_json(c) for c in (e.context or [])])


def verr_from_json(d):
  from jsonschema.exceptions import ValidationError
  return ValidationError(d["message"], validator=d["validator"], path=d["path"], context=[verr_from_json(c) for c in d["context"]],
                         validator_value=d["validator_value"], instance=d["instance"], schema=d["schema"])


def run_process(e):
  VS, _ = _lib()
  try:
    return VS.process_error(e)
  except BaseException as exc:  # noqa: B902
    return exc


def depth_of(v):
  if isinstance(v, list):
    return 1 + max([depth_of(x) for x in v], default=0)
  if isinstance(v, dict):
    return 1 + max([depth_of(x) for x in v.values()], default=0)
  return 0


PLEAVES = [({}, None), (True, 1), ({"type": "integer"}, 3), ({"type": "string"}, "s"), ({"type": ["integer", "null"]}, None)]


def gen_patprops(rng):
  """additionalProperties next to patternProperties: declared keys, keys a pattern allows (often BEFORE the unknown ones), unknown keys"""
  r = rng.random()
  if r < 0.05:
    pats = []
  elif r < 0.1:
    pats = [""]          # the joined pattern is the empty string: jsonschema then counts NO key as matched
  elif r < 0.14:
    pats = ["", rng.choice(PPATS)]
  else:
    pats = rng.sample(PPATS, rng.randint(1, 3))
  leaves = {p: rng.choice(PLEAVES) for p in pats}
  s = {"type": "object"}
  props = {}
  if rng.random() < 0.8:
    props = {k: rng.choice(PLEAVES) for k in rng.sample(KEYS, rng.randint(0, 2))}
    s["properties"] = {k: copy.deepcopy(v[0]) for k, v in props.items()}
  s["patternProperties"] = {p: copy.deepcopy(v[0]) for p, v in leaves.items()}
  q = rng.random()
  if q < 0.8:
    s["additionalProperties"] = False
  elif q < 0.9:
    s["additionalProperties"] = {"type": "integer"}
  items = [(k, copy.deepcopy(v[1])) for k, v in props.items() if rng.random() < 0.7]
  pool = rng.sample(KEYS + PKEYS, rng.randint(0, 4))
  allowed = [k for k in KEYS + PKEYS if any(re.search(p, k) for p in pats)]
  if allowed and rng.random() < 0.7:
    pool += rng.sample(allowed, min(len(allowed), rng.randint(1, 2)))   # keys a pattern allows
  for k in dict.fromkeys(pool):
    hit = [leaves[p][1] for p in pats if re.search(p, k)]
    if not hit and not re.fullmatch(r"[A-Za-z0-9_]+", k) and rng.random() < 0.8:
      continue   # an unknown key that is not identifier-like leaves the message unconstrained: keep those rare
    if k not in dict(items):
      items.append((k, copy.deepcopy(hit[0]) if hit and rng.random() < 0.9 else rng.choice([1, None, "s"])))
  if rng.random() < 0.08:
    items.append((rng.choice(ODD_KEYS), 1))
  rng.shuffle(items)
  val = dict(items)
  w = rng.random()
  if w < 0.12:
    k = rng.choice(KEYS)
    s, val = {"type": "object", "properties": {k: s}, "required": [k]}, {k: val}
  elif w < 0.24:
    s, val = {"type": "array", "items": s}, [copy.deepcopy(val), val]
  elif w < 0.34:
    s = {rng.choice(["anyOf", "oneOf"]): [s, {"type": "integer"}][:: rng.choice([1, -1])]}
  return s, val


def pat_addl_records(e, out):
  if e.validator == "additionalProperties" and e.validator_value is False and isinstance(e.schema, dict) and "patternProperties" in e.schema:
    out.append(e)
  for c in e.context or []:
    pat_addl_records(c, out)


def correspondence(ctx):
  n = ctx.n(700, 12000)
  rng = ctx.rng
  cases, meta, seen, dist = [], [], set(), {}
  dis = []
  nontriv = 0
  def bump(k):
    dist[k] = dist.get(k, 0) + 1
  n3 = max(1, n // 5)     # validate calls on draft-3 schemas, appended to the n cases
  # ... and, after those, the enumerated type records with an EMPTY path (document root; first branch of a oneOf / anyOf at the root, under a
  # key, under an array position): every type declaration x every kind of JSON value; drawn from no random stream
  keyless = keyless_type_cases(thin=True)
  for i in range(n + n3 + len(keyless)):
    if i < n and i % 5 == 4:
      e = gen_verr_obj(rng, 2)
      out = run_process(e)
      lists, keys = [], set()
      verr_patlists(e, lists, keys)
      cases.append(f"CProc {verrlit(e)} {pm_table(lists, keys)} {obslit(out)}")
      inp = dict(family="process_error", verr=verr_json(e))
      meta.append(("process", inp, describe_exc(out)))
      bump("process_error:" + str(e.validator))
      bump("process_error->" + type(out).__name__)
      nt = True
    else:
      d3 = n <= i < n + n3
      if i >= n + n3:
        schema, value = keyless[i - n - n3]["schema"], keyless[i - n - n3]["value"]
      elif d3:
        schema, value = gen_draft3_case(rng)
      elif i % 5 == 3:
        schema, value = gen_patprops(rng)
      else:
        schema = gen_schema(rng, rng.randint(0, 3), pprob=0.25)
        value = gen_value(rng, schema, 3)
      v0, s0 = copy.deepcopy(value), copy.deepcopy(schema)
      exc, cause = run_validate(value, schema)
      inp = dict(family=FAM_D3 if d3 else "keyless-type" if i >= n + n3 else "random", value=v0, schema=s0)
      if d3:
        bump("draft3:validate-calls")
      if i >= n + n3:
        bump("keyless-type:validate-calls")
      if "patternProperties" in repr(schema):
        bump("schema-with-patternProperties")
      if repr(v0) != repr(value) or repr(s0) != repr(schema):
        dis.append(dict(what="validate modified its arguments", kind="validate", input=inp, observed=describe_exc(exc)))
      if exc is not None and cause is None:
        cause = js_error(value, schema)
      if exc is None:
        res = "None"
        bump("accepted")
      elif cause is None:
        # validate raised although jsonschema accepts: no record to hand to the model
        dis.append(dict(what=f"validate raised {type(exc).__name__} on a value jsonschema accepts", kind="validate", input=inp, observed=describe_exc(exc)))
        res = "None"
      else:
        res = f"(Some ({verrlit(cause)}, {pathlit(cause.absolute_path)}, {obslit(exc)}))"
        bump("rejected:" + str(cause.validator))
        bump("raised:" + type(exc).__name__)
        if d3:
          bump("draft3:rejected:" + str(cause.validator))
        if cause.validator == "required" and isinstance(cause.validator_value, bool):
          # the draft-3 record shape: how deep the missing key sits, under an array position, with a name that is not identifier-like
          bump("draft3-required-record")
          bump("draft3-required-record:path-length-%d" % min(len(cause.absolute_path), 4))
          if any(isinstance(x, int) for x in cause.absolute_path):
            bump("draft3-required-record:array-position-in-path")
          if not re.fullmatch(r"[A-Za-z0-9_]+", str(cause.path[-1])):
            bump("draft3-required-record:odd-key")
          if len(cause.schema) > 1 + ("$schema" in cause.schema) or any(len(x) > 1 for x in cause.schema["properties"].values()):
            bump("draft3-required-record:next-to-other-keywords")
        if cause.context:
          bump("rejected-with-context")
        first = cause
        while first.validator in ("oneOf", "anyOf") and first.context:
          first = first.context[0]
        if first.validator == "type" and len(first.path) == 0:
          # the record that is translated has an empty path: the keyless message form of InvalidTypeError
          bump("type-record-with-empty-path:" + ("document-root" if first is cause else "first-branch-of-a-combinator"))
        recs = []
        pat_addl_records(cause, recs)
        for rec in recs:
          # how much of the patternProperties message contract the record pins: everything (identifier-like unknown keys and
          # ASCII patterns), the head only (a non-ASCII pattern), or nothing (an unknown key that is not identifier-like)
          pats = list(rec.schema["patternProperties"])
          unknown = [k for k in rec.instance if k not in rec.schema.get("properties", {}) and not ("|".join(pats) and re.search("|".join(pats), k))]
          if not all(re.fullmatch(r"[A-Za-z0-9_]+", k) for k in unknown):
            bump("patternProperties-unknown-key-error:message-unconstrained")
          elif all(x.isascii() for x in pats):
            bump("patternProperties-unknown-key-error:message-compared-exactly")
          else:
            bump("patternProperties-unknown-key-error:message-head-compared")
          if any(re.fullmatch(r"[A-Za-z0-9_]+", x) for x in pats):
            bump("patternProperties-unknown-key-error:with-identifier-like-pattern")
          if unknown and any(k not in rec.schema.get("properties", {}) for k in list(rec.instance)[: list(rec.instance).index(unknown[0])]):
            bump("patternProperties-unknown-key-error:pattern-allowed-key-before-the-unknown-ones")
      if d3 and exc is None and "'required': False" in repr(schema):
        bump("draft3:accepted-with-required-false")
      cases.append(f"CVal {jlit(value)} {schlit(schema, d3)} {rx_table(value, schema)} {pm_of_case(value, schema, cause)} {res}")
      meta.append(("validate", inp, describe_exc(exc)))
      nt = isinstance(schema, dict) and len(schema) >= 2 and depth_of(value) >= 1
    h = C.canon_hash(meta[-1][1])
    if h not in seen and nt:
      nontriv += 1
    seen.add(h)
  bad = C.run_cases("C20", "From Coq Require Import List ZArith NArith QArith Bool.\nFrom LV Require Import Model.Schema Model.SchemaCorr.\nOpen Scope N_scope.",
                    "case", "check", cases)
  for i in bad:
    dis.append(dict(what=f"C20 correspondence case {i} ({meta[i][0]}): implementation differs from Model.Schema (conforms / wf_verr / process_error)",
                    kind=meta[i][0], input=meta[i][1], observed=meta[i][2]))
  return dict(evaluations=n + n3 + len(keyless), distinct_nontrivial=nontriv,
              rule=f"{len(keyless)} enumerated validate calls whose type record has an EMPTY path (the document itself of the wrong JSON type; the first branch of a oneOf / "
                   "anyOf at the root, under a key, under an array position): every type declaration (7 names, 3 lists) x 13 kinds of value, conforming ones "
                   "included - the attributes of the InvalidTypeError raised are compared with the model's (an error object lacking a promised attribute "
                   "is the observation OLacksAttr, which matches no outcome of the model); "
                   "n/5 further validate calls on draft-3 schemas ($schema draft-03): objects whose properties carry `required: true / false` or no flag, "
                   "with properties dropped from a valid value, nested under odd keys and array items, next to type, patternProperties, additionalProperties, items, bounds, lengths, "
                   "item counts, enum, pattern, extends and annotations (values without integral floats); every raised record - the draft-3 `required` "
                   "record included - is checked against wf_verr and translated by the model; the n cases: "
                   "4/5 validate(value, schema) calls (1/5 of all cases aimed at additionalProperties next to patternProperties: 0-3 patterns "
                   "incl. identifier-like ones, quotes / escapes in their reprs, the empty pattern; declared, pattern-allowed - often first - "
                   "and unknown keys; nested under properties / items / anyOf / oneOf): schemas of depth <= 3 over type (single / list), "
                   "required, properties, patternProperties, additionalProperties (false / true / schema), items, minimum / maximum / exclusive bounds (ints, dyadic floats, 2**70), lengths, item and "
                   "property counts, enum, const, pattern, oneOf / anyOf / allOf / not, boolean schemas and annotation keywords; values "
                   "generated from the schema with boundary numbers, integral floats, huge ints, odd keys (quotes, spaces, 'u', empty) and "
                   "10% wrong types; 1/5 process_error calls on hand-built, possibly malformed ValidationError records (every validator "
                   "name, non-list validator values, random messages for the regular expression incl. the patternProperties form with and without "
                   "keys in front, contexts two levels deep). "
                   "non-trivial = schema with >= 2 keywords and a container value, or any process_error case; distinct by hash of the input",
              samples=[dict(kind=k, input=i, impl_output=o) for k, i, o in meta[:3]], distribution=dist, disagreements=dis)


# ------------------------------------------------------------------------------------------ independent oracle
# A direct reading of the JSON-Schema keywords in plain Python (no jsonschema, no library code, not the Coq model).


def o_type(v, t, int_floats=True):
  if t == "null":
    return v is None
  if t == "boolean":
    return isinstance(v, bool)
  if isinstance(v, bool):
    return t == "any"
  if t == "integer":
    return isinstance(v, int) or (int_floats and isinstance(v, float) and v == int(v))
  if t == "number":
    return isinstance(v, (int, float))
  if t == "string":
    return isinstance(v, str)
  if t == "array":
    return isinstance(v, list)
  if t == "object":
    return isinstance(v, dict)
  return t == "any"


def o_equal(a, b):
  if isinstance(a, bool) or isinstance(b, bool):
    return isinstance(a, bool) and isinstance(b, bool) and a == b
  if isinstance(a, (int, float)) and isinstance(b, (int, float)):
    return a == b
  if isinstance(a, str) and isinstance(b, str):
    return a == b
  if a is None or b is None:
    return a is None and b is None
  if isinstance(a, list) and isinstance(b, list):
    return len(a) == len(b) and all(o_equal(x, y) for x, y in zip(a, b))
  if isinstance(a, dict) and isinstance(b, dict):
    return set(a) == set(b) and all(o_equal(a[k], b[k]) for k in a)
  return False


def o_same(a, b):
  """identity as JSON data including the int / float distinction"""
  if type(a) is not type(b):
    return False
  if isinstance(a, list):
    return len(a) == len(b) and all(o_same(x, y) for x, y in zip(a, b))
  if isinstance(a, dict):
    return list(a) == list(b) and all(o_same(a[k], b[k]) for k in a)
  return a == b


def o_num(v):
  return isinstance(v, (int, float)) and not isinstance(v, bool)


def walk(v, s, out, draft=0):
  """True iff v conforms to s; appends the leaf violations (kind, sub-value, detail) met on the way.
  draft: 0 = draft 6 and later, 4 = draft 4, 3 = draft 3 (boolean `required` inside the sub-schemas of `properties`, `any`, extends,
  divisibleBy, dependencies; exclusive bounds as booleans and no integral floats as in draft 4)."""
  draft4 = draft in (3, 4)
  if s is True:
    return True
  if s is False:
    out.append(("false", v, None))
    return False
  ok = True
  def bad(kind, detail=None):
    nonlocal ok
    ok = False
    out.append((kind, v, detail))
  for k, a in s.items():
    if k == "type":
      if not any(o_type(v, t, not draft4) for t in ([a] if isinstance(a, str) else a)):
        bad("type", str(a))
    elif k == "required" and draft == 3:
      pass   # a boolean, read by the keyword `properties` of the enclosing schema (below); where it stands it says nothing
    elif k == "required":
      if isinstance(v, dict):
        miss = [x for x in a if x not in v]
        if miss:
          bad("required", miss)
    elif k == "properties":
      if isinstance(v, dict):
        for key, sub in a.items():
          if key in v:
            if not walk(v[key], sub, out, draft):
              ok = False
          elif draft == 3 and isinstance(sub, dict) and sub.get("required") is True:
            bad("required", [key])
    elif k == "extends" and draft == 3:
      for sub in (a if isinstance(a, list) else [a]):
        if not walk(v, sub, out, draft):
          ok = False
    elif k == "dependencies" and draft == 3:
      if isinstance(v, dict):
        for key, dep in a.items():
          if key in v:
            if isinstance(dep, dict):
              if not walk(v, dep, out, draft):
                ok = False
            elif any(d not in v for d in ([dep] if isinstance(dep, str) else dep)):
              bad("dependencies")
    elif k == "patternProperties":
      if isinstance(v, dict):
        for pat, sub in a.items():
          for key in v:
            if re.search(pat, key) and not walk(v[key], sub, out, draft):
              ok = False
    elif k == "additionalProperties":
      if isinstance(v, dict):
        pats = list(s.get("patternProperties", {}))
        if pats == [""]:
          # jsonschema's find_additional_properties joins the patterns with "|" and takes an EMPTY joined string for "no pattern": with
          # the single pattern "" no key counts as matched (a stated part of the contract, see ASSUMPTIONS; such schemas reach the oracle
          # only as hints from the correspondence, whose generator aims at this corner)
          pats = []
        extras = [key for key in v if key not in s.get("properties", {}) and not any(re.search(p, key) for p in pats)]
        if a is False:
          if extras:
            bad("additional", extras)
        elif isinstance(a, dict):
          for key in extras:
            if not walk(v[key], a, out, draft):
              ok = False
    elif k == "items":
      if isinstance(v, list):
        for x in v:
          if not walk(x, a, out, draft):
            ok = False
    elif k == "minimum":
      if o_num(v) and (v < a or (draft4 and s.get("exclusiveMinimum") is True and v == a)):
        bad("minimum")
    elif k == "maximum":
      if o_num(v) and (v > a or (draft4 and s.get("exclusiveMaximum") is True and v == a)):
        bad("maximum")
    elif k == "exclusiveMinimum":
      if not draft4 and o_num(v) and v <= a:
        bad("exclusiveMinimum")
    elif k == "exclusiveMaximum":
      if not draft4 and o_num(v) and v >= a:
        bad("exclusiveMaximum")
    elif k == "multipleOf" or (k == "divisibleBy" and draft == 3):
      if o_num(v):
        from fractions import Fraction
        if (Fraction(v) / Fraction(a)).denominator != 1:
          bad("multipleOf")
    elif k in ("minLength", "maxLength"):
      if isinstance(v, str) and (len(v) < a if k == "minLength" else len(v) > a):
        bad(k)
    elif k in ("minItems", "maxItems"):
      if isinstance(v, list) and (len(v) < a if k == "minItems" else len(v) > a):
        bad(k)
    elif k in ("minProperties", "maxProperties"):
      if isinstance(v, dict) and (len(v) < a if k == "minProperties" else len(v) > a):
        bad(k)
    elif k == "uniqueItems":
      if a and isinstance(v, list) and any(o_equal(v[i], v[j]) for i in range(len(v)) for j in range(i)):
        bad("uniqueItems")
    elif k == "enum":
      if not any(o_equal(x, v) for x in a):
        bad("enum")
    elif k == "const":
      if not o_equal(a, v):
        bad("const")
    elif k == "pattern":
      if isinstance(v, str) and re.search(a, v) is None:
        bad("pattern")
    elif k == "dependentRequired":
      if isinstance(v, dict) and any(key in v and any(d not in v for d in deps) for key, deps in a.items()):
        bad("dependentRequired")
    elif k == "allOf":
      for sub in a:
        if not walk(v, sub, out, draft):
          ok = False
    elif k == "anyOf":
      inner, hit = [], False
      for sub in a:
        if walk(v, sub, inner, draft):
          hit = True
      if not hit:
        ok = False
        out.extend(inner)
        out.append(("anyOf", v, None))
    elif k == "oneOf":
      inner, hits = [], 0
      for sub in a:
        if walk(v, sub, inner, draft):
          hits += 1
      if hits == 0:
        ok = False
        out.extend(inner)
        out.append(("oneOf", v, None))
      elif hits > 1:
        bad("oneOf-many")
    elif k == "not":
      if walk(v, a, [], draft):
        bad("not")
    elif k in ANNOT or k == "$schema":
      pass
    else:
      raise ValueError(f"oracle does not know keyword {k}")
  return ok


IDENT = re.compile(r"\w+\Z")


def judge(inp):
  """Run validate on inp = dict(family, value, schema) and compare with the property as stated.  Failure dict or None."""
  _, E = _lib()
  family = inp.get("family", "random")
  if family == "process_error":
    return judge_process(inp)
  if family == "twins":
    # a SEQUENCE of validate calls in one process: the verdict on (value, schema) must not depend on what was validated before (a validator kept
    # per schema under a key that identifies True with 1 and False with 0 - Python's equality, not JSON's - serves the wrong twin: C20_m14)
    for k, st in enumerate(inp["steps"]):
      r = judge(dict(family="twins-step", value=st["value"], schema=st["schema"]))
      if r:
        return dict(r, input=inp, signature=r["signature"].replace(":twins-step", ":twins"),
                    what=f"call {k + 1} of {len(inp['steps'])} validate calls in one process (schemas that differ only in true / 1, false / 0): " + r["what"])
    return None
  value, schema = copy.deepcopy(inp["value"]), copy.deepcopy(inp["schema"])
  exc, _ = run_validate(value, schema)
  def fail(sig, what, expected):
    return dict(signature=sig, what=what, input=inp, observed=describe_exc(exc), expected=expected,
                oracle="plain-Python reading of the JSON-Schema keywords; error class / attributes as the property states")
  if not (o_same(value, inp["value"]) and repr(schema) == repr(inp["schema"])):
    return fail("C20:input-modified", "validate modified its arguments", "arguments unchanged")
  out = []
  draft = schema.get("$schema") if isinstance(schema, dict) else None
  ok = walk(value, schema, out, draft={DRAFT3: 3, DRAFT4: 4}.get(draft, 0))
  kinds = {k for k, _, _ in out if k not in ("anyOf", "oneOf")}
  lib = (E.SigoptValidationError, E.MissingJsonKeyError, E.InvalidTypeError, E.InvalidValueError, E.InvalidKeyError)
  if type(exc).__name__ == "SchemaError" and type(exc).__module__.startswith("jsonschema"):
    return None  # not a valid schema: outside the property
  if exc is not None and type(exc) not in lib:
    tb = traceback.extract_tb(exc.__traceback__)
    where = tb[-1].name if tb else "?"
    return fail(f"C20:escape:{type(exc).__name__}:{family}",
                f"validate let {type(exc).__module__}.{type(exc).__name__} escape (raised in {where}): {str(exc)[:120]}",
                "silent return" if ok else "one of the library's validation errors")
  if exc is None:
    return None if ok else fail("C20:accepts-nonconforming", f"validate returned although the value violates {sorted(kinds)}", "a library validation error")
  if ok:
    return fail("C20:rejects-conforming", f"validate raised {type(exc).__name__} on a conforming value", "silent return")
  text = str(exc)
  if not isinstance(text, str) or text == "":
    return fail("C20:empty-message", "the error message is empty", "non-empty message")
  if kinds == {"required"} and type(exc) is not E.MissingJsonKeyError:
    return fail("C20:wrong-class-for-required", f"only required keys are missing but {type(exc).__name__} was raised", "MissingJsonKeyError")
  if kinds == {"type"} and type(exc) is not E.InvalidTypeError:
    return fail("C20:wrong-class-for-type", f"only type errors but {type(exc).__name__} was raised", "InvalidTypeError")
  if kinds == {"additional"} and type(exc) is not E.InvalidKeyError:
    return fail("C20:wrong-class-for-additional", f"only unknown keys but {type(exc).__name__} was raised", "InvalidKeyError")
  if lacks_attrs(exc):
    # the exposure clauses ("the error exposes the offending key"; "for type errors the offending value and expected type"): the object raised
    # does not even have the attribute - at any path, the document root (empty path) included
    sig = {E.MissingJsonKeyError: "C20:required-not-exposed", E.InvalidTypeError: "C20:type-not-exposed", E.InvalidKeyError: "C20:unknown-key-not-exposed"}[type(exc)]
    return fail(sig, f"the {type(exc).__name__} raised has no attribute {' / '.join(lacks_attrs(exc))} (its attributes: {sorted(vars(exc))})",
                "an error object carrying " + " and ".join(PROMISED_ATTRS[type(exc).__name__]))
  if type(exc) is E.MissingJsonKeyError:
    cands = [d for k, _, d in out if k == "required"]
    if not any(exc.missing_json_key in d for d in cands):
      return fail("C20:required-not-exposed", "missing_json_key is not a required key absent from an object of the value", cands)
  if type(exc) is E.InvalidKeyError:
    cands = [d for k, _, d in out if k == "additional"]
    if not cands:
      return fail("C20:unknown-key-not-exposed", "InvalidKeyError although no object has an unknown key", None)
    if all(IDENT.match(x) for d in cands for x in d) and not any(exc.invalid_key in d for d in cands):
      return fail("C20:unknown-key-not-exposed", "invalid_key is not one of the (identifier-like) unknown keys", cands)
  if type(exc) is E.InvalidTypeError:
    cands = [(v, d) for k, v, d in out if k == "type"]
    if not any(o_same(v, exc.value) and d == exc.expected_type for v, d in cands):
      return fail("C20:type-not-exposed", "value / expected_type are not an offending sub-value and its declared type", [[v, d] for v, d in cands][:5])
  return None


def judge_process(inp):
  """hand-built (possibly malformed) records are outside the property as stated; the correspondence reports those disagreements itself"""
  return None


# ------------------------------------------------------------------------------------------ search families

LEAVES = [({"type": "integer", "minimum": 0}, 3), ({"type": "string"}, "ab"), ({"type": ["string", "null"]}, None), ({"enum": [1, "a"]}, "a"),
          ({}, [1, {"z": 2}]), ({"type": "number"}, 2.5), ({"type": "array", "items": {"type": "boolean"}}, [True, False]), (True, 7)]
WRONG = {"integer": ["x", 1.5, None, True, []], "string": [1, None, False, {}], "number": ["1", None, [1]], "array": [{}, "a", 3], "object": [[], 1, "o"]}


def fam_targeted(rng, kind):
  keys = rng.sample(KEYS + UNI_KEYS, rng.randint(1, 4))
  props, val = {}, {}
  for k in keys:
    sc, v = rng.choice(LEAVES)
    props[k], val[k] = copy.deepcopy(sc), copy.deepcopy(v)
  s = {"type": "object", "properties": props}
  if rng.random() < 0.5:
    s["title"] = "t"
  if kind == "required":
    new = [k for k in rng.sample(KEYS + UNI_KEYS + ["b c", "it's"], 3) if k not in props][: rng.randint(1, 2)] or ["zz"]
    req = list(props) + new
    rng.shuffle(req)
    s["required"] = req
    if rng.random() < 0.3 and len(val) > 1:
      del val[rng.choice(list(val))]
  elif kind == "additional":
    s["additionalProperties"] = False
    if rng.random() < 0.3:
      s["required"] = list(props)[:1]
    if rng.random() < 0.4:
      pat = rng.choice(["^zz", "^q_"])
      s["patternProperties"] = {pat: {}}
      if rng.random() < 0.7:   # keys the pattern allows, listed BEFORE the unknown ones: they are not offending keys
        allowed = {pat[1:] + suffix: rng.choice([0, "s", None]) for suffix in rng.sample(["scale", "1", "_a"], rng.randint(1, 2))}
        val_items = list(val.items())
        val.clear()
        val.update(allowed)
        val.update(val_items)
    # the unknown keys: identifier-like ones, none identifier-like (hyphen, blank, dot, empty, quote: the key list the regular
    # expression extracts from the message is then EMPTY), or a mixture
    shape = rng.random()
    ident = rng.sample(["extra", "u", "uu", "w_1", "Z9", "_x", "été", "к"], rng.randint(1, 3))
    odd = rng.sample(["learning-rate", "a b", "x.y", "", "-", "a-b", "it's", "☃", " ", "a,b", "(k)"], rng.randint(1, 3))
    for k in (ident if shape < 0.6 else odd if shape < 0.85 else ident[:1] + odd[:2]):
      if k not in props:
        val[k] = rng.choice([1, None, "s", [0]])
  else:
    s["properties"]["tt"] = {"type": rng.choice(["integer", "string", "number", "array", "object", ["integer", "string"], ["array", "object"]])}
    t = s["properties"]["tt"]["type"]
    bads = [w for name in (t if isinstance(t, list) else [t]) for w in WRONG[name]]
    bads = [w for w in bads if not any(o_type(w, name) for name in (t if isinstance(t, list) else [t]))]
    val["tt"] = copy.deepcopy(rng.choice(bads))
  for _ in range(rng.randint(0, 3)):
    w = rng.randrange(5)
    if w == 0:
      k = rng.choice(KEYS)
      s, val = {"type": "object", "properties": {k: s}, "required": [k]}, {k: val}
    elif w == 1:
      s, val = {"type": "array", "items": s}, [copy.deepcopy(val) for _ in range(rng.randint(1, 2))]
    elif w == 2:
      s = {rng.choice(["anyOf", "oneOf", "allOf"]): [s]}
    elif w == 3:
      s = {"allOf": [{}, s, {"description": "d"}]}
    else:
      s = {"anyOf": [s, s]}
  if rng.random() < 0.25 and isinstance(s, dict):
    s = dict(s)
    s["$schema"] = rng.choice([DRAFT7, DRAFT2019, DRAFT2020])
  return dict(family="targeted-" + kind, value=val, schema=s)


def fam_random(rng):
  schema = gen_schema(rng, rng.randint(0, 4), wide=True)
  value = gen_value(rng, schema, 4, wide=True)
  if isinstance(schema, dict) and "dependentRequired" not in repr(schema) and rng.random() < 0.2:
    schema["$schema"] = rng.choice([DRAFT7, DRAFT2019, DRAFT2020])
  return dict(family="random", value=value, schema=schema)


def _swap_bool_int(v):
  if isinstance(v, bool):
    return int(v)
  if isinstance(v, (int, float)) and v in (0, 1):
    return bool(v)
  if isinstance(v, list):
    return [_swap_bool_int(x) for x in v]
  if isinstance(v, dict):
    return {k: _swap_bool_int(x) for k, x in v.items()}
  return v


def fam_twins(rng):
  pool = [0, 1, 1.0, 0.0, True, False, "a", None, [1], [True], {"k": 1}, {"k": False}, 2]
  members = rng.sample(pool, rng.randint(1, 4))
  if not any(isinstance(m, (bool, int, float, list, dict)) and m is not None and m != 2 for m in members):
    members.append(rng.choice([0, 1, True, False]))
  a = {"const": members[0]} if rng.random() < 0.3 else {"enum": members}
  b = _swap_bool_int(a)
  wrap = rng.choice(["root", "root", "prop", "items"])
  def sch(x):
    return x if wrap == "root" else ({"type": "object", "properties": {"p": x}} if wrap == "prop" else {"type": "array", "items": x})
  def val(v):
    return v if wrap == "root" else ({"p": v} if wrap == "prop" else [v])
  probes = [True, False, 0, 1, 1.0, [1], [True], {"k": 1}, {"k": False}, "a"]
  order = [a, b] if rng.random() < 0.5 else [b, a]
  steps = [dict(schema=sch(copy.deepcopy(x)), value=val(copy.deepcopy(v))) for x in order for v in rng.sample(probes, 5)]
  return dict(family="twins", steps=steps)


def fam_deep(rng):
  d = rng.randint(20, 60)
  leaf_ok = rng.random() < 0.5
  s, v = {"type": "integer"}, (1 if leaf_ok else "x")
  for i in range(d):
    if i % 2:
      s, v = {"type": "array", "items": s}, [v]
    else:
      s, v = {"type": "object", "properties": {"k": s}, "required": ["k"], "additionalProperties": False}, {"k": v}
  return dict(family="deep", value=v, schema=s)


def fam_paths(rng):
  """An offending leaf (type / bound / length error - the validators whose error reports the path to the value) under keys and indices of
  every shape: empty string, digits, spaces, quotes, non-ASCII, array positions - at depth 1-3."""
  leaf_s, leaf_v = rng.choice([({"type": "integer"}, "three"), ({"type": "string"}, 3), ({"type": ["integer", "null"]}, 1.5), ({"minimum": 2}, 1),
                               ({"maximum": 2}, 3), ({"exclusiveMinimum": 2}, 2), ({"minLength": 3}, "ab"), ({"maxLength": 1}, "ab"),
                               ({"minItems": 2}, [1]), ({"maxItems": 0}, [1]), ({"type": "object"}, [])])
  s, v = leaf_s, leaf_v
  for _ in range(rng.randint(1, 3)):
    if rng.random() < 0.3:
      k = rng.randint(0, 2)
      s, v = {"type": "array", "items": s}, [copy.deepcopy(v)] * (k + 1)
    else:
      key = rng.choice(["", "", "0", "1st", " ", "a.b", "a b", "it's", "é", "[0]", "k", "_", "-1", "1e3", "\t"])
      s, v = {"type": "object", "properties": {key: s}}, {key: v}
  return dict(family="paths", value=v, schema=s)


# Type records with an EMPTY path: the document itself has the wrong JSON type, or the `type` of the first branch of a oneOf / anyOf fails (the
# path of a context record is relative to its parent).  process_error then hands InvalidTypeError the key "" - the keyless form of its message.
# Enumerated, not drawn (no use of the random stream): every type declaration x every kind of JSON value x where the declaration stands.
KEYLESS_DECLS = TYPES + [["integer", "null"], ["array", "object"], ["string", "number", "boolean"]]
KEYLESS_VALUES = [None, True, 0, 3, 2.5, 1.0, "s", "", [], [1, "x"], {}, {"a": 1}, 2 ** 70]
KEYLESS_SHAPES = ("root", "root+keywords", "anyOf-first", "oneOf-first", "nested-anyOf", "items-oneOf")


def keyless_type_case(decl, value, shape, draft=None):
  value = copy.deepcopy(value)
  other = {"type": "array", "minItems": 40}    # a second branch no pool value conforms to
  if shape == "root":
    s = {"type": decl}
  elif shape == "root+keywords":
    s = {"title": "t", "properties": {"a": {"type": "integer"}}, "required": ["a"], "type": decl, "minLength": 1, "minimum": 1, "minItems": 1}
    if draft in (DRAFT3, DRAFT4):
      del s["required"]      # a boolean inside the property sub-schema in draft 3; kept out of draft 4 too so that both read alike
  elif shape in ("anyOf-first", "oneOf-first"):
    s = {shape.split("-")[0]: [{"type": decl}, other]}
  elif shape == "nested-anyOf":
    s, value = {"type": "object", "properties": {"k": {"anyOf": [{"type": decl}, other]}}}, {"k": value}
  else:
    s, value = {"type": "array", "items": {"oneOf": [{"type": decl}, other]}}, [value]
  if draft:
    s = dict(s)
    s["$schema"] = draft
  return dict(family="keyless-type", value=value, schema=s)


def keyless_type_cases(drafts=(None,), thin=False):
  """every (declaration, value) pair at the root in every draft; in the other places every pair in the default draft, and one third of the
  pairs (rotating) under an explicit $schema - and in the default draft too when thin"""
  out, i = [], 0
  for decl in KEYLESS_DECLS:
    for value in KEYLESS_VALUES:
      i += 1
      for j, shape in enumerate(KEYLESS_SHAPES):
        for draft in drafts:
          if draft == DRAFT3 and not shape.startswith("root"):
            continue       # draft 3 has no oneOf / anyOf (its unions are written inside `type`)
          if not (thin or draft) or shape == "root" or (i + j) % 3 == 0:
            out.append(keyless_type_case(decl, value, shape, draft))
  return out


def fam_draft4(rng):
  props = {k: rng.choice([{"type": "integer"}, {"type": "number", "minimum": 0, "exclusiveMinimum": True}, {"type": "string", "maxLength": 2},
                          {"type": "number", "maximum": 5, "exclusiveMaximum": rng.random() < 0.5}]) for k in rng.sample(KEYS, rng.randint(1, 3))}
  s = {"$schema": DRAFT4, "type": "object", "properties": props, "required": rng.sample(KEYS, rng.randint(1, 2)), "additionalProperties": rng.random() < 0.5}
  v = {k: rng.choice([0, 1, 1.0, 5, 5.5, "ab", "abc", -1, None]) for k in rng.sample(KEYS, rng.randint(0, 4))}
  return dict(family="draft4", value=v, schema=s)


def fam_huge(rng):
  big = rng.choice([10 ** 400, 2 ** 1024, -(10 ** 310), 3 * 10 ** 350 + 1])
  m = rng.choice([0.5, 0.25, 1.5, 2.0])
  s, v = {"multipleOf": m}, big
  if rng.random() < 0.5:
    s, v = {"type": "object", "properties": {"n": {"type": "integer", "multipleOf": m}}}, {"n": big}
  return dict(family=FAM_HUGE, value=v, schema=s)


D3_LEAVES = [({"type": "integer", "minimum": 0}, 3), ({"type": "string", "maxLength": 3}, "ab"), ({"type": ["string", "null"]}, None),
             ({"enum": [1, "a"]}, "a"), ({}, [1, {"z": 2}]), ({"type": "number"}, 2.5),
             ({"type": "array", "items": {"type": "boolean"}, "minItems": 1}, [True, False]), ({"type": "string", "pattern": "^a"}, "ab")]
D3_LEAVES_WIDE = [({"type": "any"}, {"k": 1.0}), ({"type": "integer", "divisibleBy": 2}, 4), ({"title": "t"}, 1.0)]


def d3_targeted(rng, wide):
  """A draft-3 object schema whose properties carry `required: true`, `required: false` or no flag, and a valid value from which
  properties are dropped; then wrapped 0-3 times: under a key of any shape (itself required), as the items of an array, in `extends`, or
  under both `properties` and `items`.  wide adds what only the searcher's oracle reads: `any`, divisibleBy, dependencies, integral floats."""
  keys = rng.sample(D3_KEYS + UNI_KEYS, rng.randint(1, 4))
  props, val, flags = {}, {}, {}
  for k in keys:
    sc, v = rng.choice(D3_LEAVES + (D3_LEAVES_WIDE if wide else []))
    props[k], val[k] = copy.deepcopy(sc), copy.deepcopy(v)
    r = rng.random()
    if r < 0.6:
      props[k]["required"] = flags[k] = True
    elif r < 0.8:
      props[k]["required"] = flags[k] = False
    if rng.random() < 0.5:   # the flag anywhere among the keywords of the sub-schema
      props[k] = dict(sorted(props[k].items(), key=lambda kv: rng.random()))
  s = {"type": "object", "properties": props}
  shape = rng.random()
  drop = [k for k in keys if rng.random() < (0.5 if shape < 0.8 else 0.0)]
  if shape < 0.25:
    drop = [k for k in drop if flags.get(k) is not True]     # only properties that are not required are missing: the value conforms
  for k in drop:
    del val[k]
  q = rng.random()
  if q < 0.3:
    s["additionalProperties"] = False
  elif q < 0.4:
    s["additionalProperties"] = {"type": "integer"}
    val.setdefault("extra", 1)
  if rng.random() < 0.2:
    s["patternProperties"] = {"^zz": {"type": "integer"}}
    if rng.random() < 0.6:
      val["zz1"] = 3
  if rng.random() < 0.15:
    s["extends"] = rng.choice([{"properties": {"w_1": {"type": "integer", "required": rng.random() < 0.5}}}, [{"title": "t"}, {"properties": {"w_1": {"required": True}}}]])
    if rng.random() < 0.5 and "additionalProperties" not in s:
      val["w_1"] = 2
  if wide and rng.random() < 0.15:
    s["dependencies"] = {keys[0]: rng.choice([keys[-1], [keys[-1]], {"properties": {"dep": {"required": True}}}])}
  if rng.random() < 0.2:
    s[rng.choice(["title", "description"])] = "d"
  for _ in range(rng.randint(0, 3)):
    w = rng.randrange(4)
    if w == 0:
      k = rng.choice(D3_KEYS + ["é"])
      s, val = {"type": "object", "properties": {k: dict(s, required=True)}}, ({k: val} if rng.random() < 0.85 else {})
    elif w == 1:
      n = rng.randint(1, 3)
      s, val = {"type": "array", "items": s}, [copy.deepcopy(val) for _ in range(n)]
    elif w == 2:
      s = {"extends": rng.choice([s, [s], [{}, s]])}
    else:
      s = {"type": ["object", "array", "null"], "properties": {"k": s}, "items": s}
      val = rng.choice([{"k": val}, [val]])
  s = dict(s)
  s["$schema"] = DRAFT3
  return s, val


def fam_draft3(rng):
  """Draft-3 schemas ($schema draft-03): `required` is a boolean inside the sub-schema of a property.  Half of the inputs are a valid
  object from which required (and not required) properties are dropped somewhere below the root - under keys of every shape, inside
  array items, next to additionalProperties / patternProperties / extends / dependencies / bounds; half are random draft-3 schemas."""
  if rng.random() < 0.5:
    schema = gen_schema3(rng, rng.randint(1, 4), wide=True)
    value = gen_value(rng, schema, 4, wide=True)
    schema["$schema"] = DRAFT3
  else:
    schema, value = d3_targeted(rng, True)
  return dict(family=FAM_D3, value=value, schema=schema)


def search(ctx, hints, broken):
  fails, n = [], 0
  samples = []
  def run(inp):
    nonlocal n
    n += 1
    r = judge(inp)
    if r:
      fails.append(r)
  for h in hints:
    if isinstance(h.get("input"), dict) and "family" in h["input"]:
      run(h["input"])
  rng = ctx.rng
  # type records with an empty path (document root; first branch of a oneOf / anyOf), drafts 2020-12 (default) / 2019-09 / 7 / 4 / 3: enumerated
  keyless = keyless_type_cases(drafts=(None, DRAFT2019, DRAFT7, DRAFT4, DRAFT3))
  before = len(fails)
  for inp in keyless:
    run(inp)
    if len(fails) - before >= 3:
      break
  for _ in range(3):
    run(fam_huge(rng))
  for _ in range(ctx.n(40, 400)):
    run(fam_twins(rng))
    if len(fails) >= 3:
      break
  for _ in range(ctx.n(300, 5000)):
    run(fam_draft3(rng))
    if len(fails) >= 12:
      break
  budget = ctx.n(2500, 40000) * (2 if broken else 1)
  for i in range(budget):
    r = i % 10
    if r < 5:
      inp = fam_random(rng)
    elif r < 8:
      inp = fam_targeted(rng, ("required", "additional", "type")[r - 5])
    elif r == 8:
      inp = fam_draft4(rng) if i % 20 == 8 else fam_paths(rng)
    else:
      inp = fam_deep(rng) if i % 50 == 9 else fam_targeted(rng, rng.choice(["required", "additional", "type"]))
    if i < 2:
      samples.append(dict(kind="search", input=inp))
    run(inp)
    if len({f["signature"] for f in fails}) >= 6:
      break
  return dict(evaluations=n, failures=fails, samples=samples,
              oracle="plain-Python JSON-Schema reading (drafts 2020-12 / 7 / 4 and draft 3: boolean required, any, extends, divisibleBy, dependencies); exact library classes; exposed attributes")


def replay(ctx, payload):
  return judge(payload["input"])


LEVEL_TEXT = ("Coq theorems on an executable model of validate / process_error and of the error classes: for every ValidationError record "
              "satisfying the stated jsonschema contract (wf_verr), of any context depth, the translation terminates in one of the library's "
              "error classes with a non-empty message - the draft-3 `required` record (boolean validator value, key at the end of the path) "
              "included; required (both record shapes) / type errors expose the offending key / value and type; for every "
              "additionalProperties:false error whose unknown keys are ASCII identifier-like - with or without patternProperties, whatever "
              "the patterns - invalid_key is the smallest unknown key (the regular expression returns the sorted unknown keys first, then, "
              "for patterns with plain reprs, exactly the identifier-like patterns); validate is silent iff the value conforms, relative to "
              "the contract. The contract (conforms vs jsonschema accept / reject incl. patternProperties, wf_verr of every raised record "
              "incl. both message formats) and the model are tied to the code by differential runs evaluated inside Coq")
LEVEL_NOTE = ("jsonschema itself is trusted through a contract that is tested, not proved; draft 2020-12 semantics in the model; unknown-key "
              "exposure is proved for ASCII identifiers only (_partial: Python's \\w is Unicode; non-ASCII word characters are decided by the "
              "searcher); a record without unknown key (never raised by jsonschema) would expose a pattern (proved, with witness); one input "
              "leaks a raw exception raised inside jsonschema (known finding: multipleOf on a huge int); the draft-3 `required` TypeError is "
              "repaired (corpus witness); harness and printers trusted; no axioms")
TECHNIQUE = "Coq proof (structural induction on the error-context tree, scanner invariant) on executable model + in-Coq differential correspondence"
DESIGN_REF = "DESIGN.md section 7, C20"

# --- gap round B (seeded C20_m13): type records with an empty path; error objects lacking a promised attribute
LEVEL_TEXT += ("; a type record with an EMPTY path - the document itself of the wrong JSON type, or the first branch of a oneOf / anyOf whose own `type` "
               "fails - takes the keyless message form and exposes value and type all the same (C20_type_keyless_exposes_value_and_type, "
               "C20_combinator_translates_first_context); such records are enumerated in the correspondence and in the searcher (every type declaration x "
               "every kind of value x root / root next to other keywords / first branch of anyOf / oneOf at the root, under a key, under an array position; "
               "drafts 2020-12, 2019-09, 7, 4, 3)")
LEVEL_NOTE += ("; an object of a library error class that lacks an attribute its class promises (missing_json_key, value / expected_type, invalid_key) is an "
               "observation of its own (OLacksAttr - matches no outcome of the model) and a failure of the exposure clause in the searcher, never a crash of the harness")
