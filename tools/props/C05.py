"""C05 — acquisition values and success probabilities mean what they claim."""
import math

import random

import numpy

from lib import common as C
from lib import gpgen
from py2v import gen

PROP = "C05"
PROPS_FILES = ["Props/C05.v", "Props/C05_incumbent.v", "Props/C05_qei.v", "Props/C05_qei_hist.v", "Props/C05_qeif.v", "Props/C05_qeif_refuted.v", "Props/C05_gauss.v"]
ASSUMPTIONS = [
  "real arithmetic (Coq R / Coquelicot); Phi := 1/2 + RInt pdf 0 z; Phi' = pdf, the Gaussian integral int_0^oo exp(-t^2) = sqrt(pi)/2, 0 < Phi < 1, the limits of Phi, "
  "the Mills-ratio tail bound and z*Phi(z) -> 0 at -infinity are all PROVED (Lib/Gauss.v) - no Gaussian fact is assumed any more",
  "E[max(best - Y, 0)] = sigma*G((best - mu)/sigma) is proved as an improper Riemann integral against the N(mu, sigma^2) density (Coquelicot is_RInt_gen, three forms: limit of "
  "proper integrals, integral over (-oo, best], integral of max(best - y, 0) over the whole line; density positive with total mass 1); the searcher additionally compares the running code with numerical quadrature",
  "Monte-Carlo parallel EI, with and without failure models, is modelled (Model/ParallelEI.v, Model/ParallelEIF.v) and tied to the running classes by an exact in-Coq "
  "correspondence on stub predictors with a prescribed factor per covariance and scripted normal draws; that the factor satisfies L L' = cov is C17; that the sample mean "
  "agrees with the expectation is a statistical statement, compared within a 6-sigma Monte-Carlo band by the searcher only",
  "parallel EI with failure models: theorems state what the code computes (one vector of draws shared by the objective and every failure model; per-point strict threshold "
  "test, indicators multiplied; whole-block fallback to success-probability weighted improvements); no exact reference value exists for this estimator in the library, so no "
  "statistical comparison is made for it; set independence and independence of the block size are refuted for it (C05_qeif_*_refuted / _matters, replayed on the real class)",
  "scipy.stats.norm.cdf/pdf/ppf are Phi/pdf/its inverse (contract)",
]
TRUSTED = ["tools/py2v translator (dual-rendering self-check on every run)", "Model/Incumbent.v, Model/ParallelEICorr.v, Model/ParallelEIFCorr.v check functions and the harness"]
LEVEL_TEXT = ("Coq/Coquelicot theorems over definitions regenerated from predictor.py, expected_improvement.py, probabilistic_failures.py, "
              "multitask_acquisition_function.py on every run: EI = sigma*max(0, z Phi(z)+pdf(z)) = sigma*G(z) > 0 (the clamp is never active), sigma*G(z) IS E[max(best - Y, 0)] "
              "for Y ~ N(mu, sigma^2) as an improper integral (Gaussian integral, 0 < Phi < 1 and the Gaussian tail proved from scratch in Lib/Gauss.v), d/d(best) of sigma*G(z) = Phi(z), augmented "
              "penalty in [0,1), failure-weighted form = EI * probability, multitask = value / cost, logistic probability in (0,1) and non-increasing, "
              "CDF model = Phi((t-mu)/sd) strictly decreasing, product model multiplies and stays in [0,1]; batched evaluation = map and the "
              "incumbents (first minimum; mean at the arg-min of the 3/4 quantile; best acceptable observation) proved on an executable model tied by "
              "in-Coq correspondence; Monte-Carlo parallel EI (Model/ParallelEI.v) and parallel EI with failure models (Model/ParallelEIF.v) as executable models of "
              "_evaluate_at_point_list / evaluate_at_point_list with an exact correspondence on the real classes: each estimate is the mean over the executed draws of "
              "max(0, best - min(sample)), for the failure class restricted to the points whose sampled failure-model values are all strictly below their thresholds "
              "(same draws), with a whole-block fallback to success-probability weighted improvements; >= 0, <= the plain estimate on the negated draws, = the plain "
              "estimate when every sample is feasible; quadrature / Monte-Carlo / monotonicity search on the running code")
LEVEL_NOTE = ("the integral identity E[max(best-Y,0)] = sigma*G(z) is proved in full (no Gaussian fact assumed); both Monte-Carlo parallel-EI "
              "loops are modelled and tied exactly - what remains outside: the factor itself (C17) and the agreement of the sample mean with the expectation (search only, "
              "plain class); for the failure class set independence holds only between calls in which no block falls back (refuted in general); axioms: standard-library "
              "real-number axioms (the parallel-EI theorems are closed under the global context)")
TECHNIQUE = "Coq/Coquelicot proofs on definitions regenerated from source (translator) + in-Coq correspondence + quadrature/Monte-Carlo search"
DESIGN_REF = "DESIGN.md section 7, C05"


def generate(ctx):
  return gen.generate(ctx, ["GenAcq"])


# ------------------------------------------------------------------------------------------ correspondence (batching, incumbents)


class _RecordingAF:
  """acquisition function that doubles an integer tag and records the batch sizes it is handed"""

  def __init__(self):
    from libsigopt.compute.acquisition_function import AcquisitionFunction
    self.cls = AcquisitionFunction

  def build(self):
    calls = []
    cls = self.cls

    class AF(cls):
      def __init__(self):  # no predictor needed for the bookkeeping under test
        self.num_points_to_sample = 1

      dim = 1

      def _evaluate_at_point_list(self, p):
        calls.append(len(p))
        return 2 * p[:, 0]
    return AF(), calls


def correspondence(ctx):
  from libsigopt.compute.expected_improvement import AugmentedExpectedImprovement, ExpectedImprovement, ExpectedImprovementWithFailures
  from libsigopt.compute.probabilistic_failures import ProbabilisticFailures
  from scipy.stats import norm
  rng = ctx.rng
  n = ctx.n(500, 6000)
  cases, meta, dist, seen, nontriv = [], [], {}, set(), 0
  q75 = float(norm.ppf(0.75))
  for _ in range(n):
    kind = rng.choice(["batch", "batch", "plain", "aei", "fail"])
    dist[kind] = dist.get(kind, 0) + 1
    if kind == "batch":
      m = rng.randint(0, 9)
      vals = [rng.randint(-9, 9) for _ in range(m)]
      b = rng.choice([None, 0, 1, 2, 3, m, m + 1, 17])
      af, calls = _RecordingAF().build()
      try:
        out = [int(v) for v in af.evaluate_at_point_list(numpy.array(vals, dtype=float).reshape(m, 1), batch_size=b)]
      except AssertionError:
        out = None
      zl = lambda z: f"({int(z)})%Z"
      cases.append(f"CBatch {C.listlit(vals, zl)} {C.optlit(b, C.nlit)} {C.optlit(out, lambda o: C.listlit(o, zl))} {C.listlit(calls, C.nlit)}")
      meta.append((kind, dict(vals=vals, batch=b), dict(out=out, calls=calls)))
      nt = m >= 2
    else:
      gi = gpgen.gen_gp_input(rng, well_conditioned=True, allow_multitask=False, max_n=7)
      # dyadic values with forced ties so that comparisons are exact
      gi["values"] = [rng.randint(-8, 8) / 4.0 for _ in gi["values"]]
      if rng.random() < 0.5:
        gi["values"][rng.randrange(len(gi["values"]))] = min(gi["values"])
      gp = gpgen.make_gp(gi)
      vals = [float(v) for v in gp.points_sampled_value]
      if kind == "plain":
        af = ExpectedImprovement(gp)
        idx = int(numpy.argmin(gp.points_sampled_value))
        if not numpy.array_equal(af.best_location, gp.points_sampled[idx]):
          idx = -1
        cases.append(f"CPlain {C.listlit(vals, C.qlit)} {C.nlit(max(idx, 0)) if idx >= 0 else C.nlit(10 ** 3)} {C.qlit(float(af.best_value))}")
        meta.append((kind, dict(vals=vals), dict(idx=idx, best=float(af.best_value))))
      elif kind == "aei":
        af = AugmentedExpectedImprovement(gp)
        mean, var = gp.compute_mean_and_variance_of_points(gp.points_sampled)
        sds = numpy.sqrt(var)
        qv = mean + q75 * sds
        srt = numpy.sort(qv)
        if len(srt) > 1 and srt[1] - srt[0] < 1e-9:   # margin to the decision boundary too small: discard
          dist["discarded"] = dist.get("discarded", 0) + 1
          continue
        idx = int(numpy.argmin(qv))
        cases.append(f"CAei {C.qlit(q75)} {C.listlit([float(x) for x in mean], C.qlit)} {C.listlit([float(x) for x in sds], C.qlit)} {C.nlit(idx)} {C.qlit(float(af.best_value))}")
        meta.append((kind, dict(gp=gi), dict(idx=idx, best=float(af.best_value))))
      else:
        thr = rng.choice([-0.5, 0.0, 0.25, 3.0, -3.0])
        pf = ProbabilisticFailures(gp, thr)
        af = ExpectedImprovementWithFailures(gp, pf)
        probs = [float(p) for p in pf.compute_probability_of_success(gp.points_sampled)]
        if any(abs(p - 0.5) < 1e-9 for p in probs):
          dist["discarded"] = dist.get("discarded", 0) + 1
          continue
        cases.append(f"CFail {C.listlit(vals, C.qlit)} {C.listlit(probs, C.qlit)} {C.qlit(float(af.best_value))}")
        meta.append((kind, dict(gp=gi, thr=thr), dict(best=float(af.best_value))))
      nt = True
    h = C.canon_hash([kind, meta[-1][1]])
    if h not in seen and nt:
      nontriv += 1
    seen.add(h)
  bad = C.run_cases("C05", "From Coq Require Import List QArith ZArith Bool.\nFrom LV Require Import Model.Incumbent.\nOpen Scope Q_scope.", "case", "check", cases)
  dis = [dict(what=f"C05 correspondence case {i} ({meta[i][0]}): batching / incumbent differs from Model.Incumbent", kind=meta[i][0], input=meta[i][1], observed=meta[i][2]) for i in bad]
  qc = qei_correspondence(ctx)
  dist.update(qc["distribution"])
  dis += qc["disagreements"]
  fc = qeif_correspondence(ctx)
  dist.update(fc["distribution"])
  dis += fc["disagreements"]
  hc = qeih_correspondence(ctx)
  dist.update(hc["distribution"])
  dis += hc["disagreements"]
  qc = dict(evaluations=qc["evaluations"] + fc["evaluations"] + hc["evaluations"], distinct=qc["distinct"] + fc["distinct"] + hc["distinct"],
            rule=qc["rule"] + "; " + fc["rule"] + "; " + hc["rule"], samples=qc["samples"] + fc["samples"] + hc["samples"])
  return dict(evaluations=len(cases) + qc["evaluations"], distinct_nontrivial=nontriv + qc["distinct"],
              rule="batched evaluation of a recording acquisition function (integer tags, batch sizes None/0/1/2/3/n/n+1/17, n in 0..9) and the incumbents of "
                   "ExpectedImprovement / AugmentedExpectedImprovement / ExpectedImprovementWithFailures on small GPs with dyadic tied values; non-trivial = at "
                   "least two points; distinct by hash; " + qc["rule"],
              samples=[dict(kind=m[0], input=m[1], impl=m[2]) for m in meta[:3] if m[0] == "batch"][:2] + qc["samples"],
              distribution=dist, disagreements=dis)


# ------------------------------------------------------------------------------------------ correspondence (Monte-Carlo parallel EI)

QEI_HEADER = ("From Coq Require Import List QArith Bool Arith.\nFrom LV Require Import Model.ParallelEI Model.ParallelEICorr.\n"
              "Open Scope Q_scope.")

# (num_mc_iterations, num_mc_iterations_per_loop) whose executed number of draws is a power of two (the final division is then
# exact in double arithmetic): single pass, several passes, and passes that overshoot num_mc_iterations (non-multiples)
QEI_NB_EXACT = [(1, 1), (1, 3), (2, 1), (2, 2), (2, 5), (3, 2), (4, 1), (4, 2), (4, 4), (4, 9), (5, 4), (6, 4), (7, 4), (7, 2), (8, 2), (8, 4), (8, 8), (8, 1000)]
# executed number not a power of two: the returned double is the correctly rounded quotient (checked as such inside Coq)
QEI_NB_ROUNDED = [(3, 1), (3, 3), (3, 7), (5, 2), (5, 3), (5, 5), (6, 6), (7, 3), (4, 3), (6, 2), (9, 4), (7, 1000)]


def gen_qei_case(rng):
  """A stub posterior on distinct integer points: dyadic means (k/8), one dyadic lower-triangular factor (k/4, zeros on the
  diagonal allowed) per union (candidate set ++ pending) with cov = L L' exactly, dyadic draws (k/4)."""
  from fractions import Fraction as F
  q, p, n, dim = rng.choice([1, 2, 3]), rng.choice([0, 1, 2]), rng.choice([1, 2, 3, 4]), rng.choice([1, 2])
  c = q + p
  pool = []
  while len(pool) < 6 + p:
    pt = [float(rng.randint(-5, 5)) for _ in range(dim)]
    if pt not in pool:
      pool.append(pt)
  pending, pool = pool[:p], pool[p:]
  sets = []
  for _ in range(n):
    if sets and rng.random() < 0.15:
      sets.append([list(pt) for pt in rng.choice(sets)])           # the same candidate set twice in one call
    else:
      sets.append([list(rng.choice(pool)) for _ in range(q)])      # points shared between sets, repeated inside a set
  means = [[pt, rng.randint(-16, 16) / 8.0] for pt in pool + pending]
  factors, covs = [], []
  for s in sets:
    if any(f[0] == s for f in factors):
      continue
    while True:
      L = [[(rng.randint(-8, 8) / 4.0 if j < i else rng.choice([0, 1, 2, 3, 4, 6]) / 4.0 if j == i else 0.0) for j in range(c)] for i in range(c)]
      cov = [[float(sum(F(L[i][l]) * F(L[j][l]) for l in range(c))) for j in range(c)] for i in range(c)]
      if cov not in covs:
        break
    covs.append(cov)
    factors.append([s, L])
  N, B = rng.choice(QEI_NB_EXACT) if rng.random() < 0.75 else rng.choice(QEI_NB_ROUNDED)
  entry = rng.choice(["direct", "direct", "public"])
  batch = rng.choice([None, 0, 1, 2, 3, n, n + 1]) if entry == "public" else None
  bs = (batch or n) if entry == "public" else n
  calls = -(-n // bs)
  b = min(B, N)
  need = calls * (-(-N // b)) * b * c
  stream = [rng.randint(-12, 12) / 4.0 for _ in range(need + (calls + 1) * b * c + 3)]    # slack: a changed loop may ask for one more block per call
  return dict(kind="qei", q=q, p=p, dim=dim, sets=sets, pending=pending, means=means, factors=factors, best=rng.randint(-16, 16) / 8.0,
              N=N, B=B, entry=entry, batch=batch, as3d=bool(q > 1 or (entry == "direct" and rng.random() < 0.5)), stream=stream, warmup=rng.random() < 0.35)


def qei_tables(inp):
  """per candidate set (means of its points, factor) and the pending means, as prescribed by the case"""
  mean_of = {tuple(pt): m for pt, m in inp["means"]}
  fac_of = {tuple(tuple(pt) for pt in s): L for s, L in inp["factors"]}
  per_set = [([mean_of[tuple(pt)] for pt in s], fac_of[tuple(tuple(pt) for pt in s)]) for s in inp["sets"]]
  return per_set, [mean_of[tuple(pt)] for pt in inp["pending"]]


def run_qei_case(inp):
  """The real ExpectedParallelImprovement on a stub predictor; compute_cholesky_for_gp_sampling (C17) and numpy.random.normal are
  replaced inside this process for the duration of the call.  Returns the estimates and the size= arguments of the draws."""
  from fractions import Fraction as F
  import libsigopt.compute.expected_improvement as EI
  from libsigopt.compute.predictor import Predictor
  q, p, dim, c = inp["q"], inp["p"], inp["dim"], inp["q"] + inp["p"]
  mean_of = {tuple(pt): m for pt, m in inp["means"]}
  cov_of, fac_of = {}, {}
  for s, L in inp["factors"]:
    cov = numpy.array([[float(sum(F(L[i][l]) * F(L[j][l]) for l in range(c))) for j in range(c)] for i in range(c)], dtype=float).reshape(c, c)
    cov_of[tuple(tuple(pt) for pt in s + inp["pending"])] = cov
    fac_of[cov.tobytes()] = numpy.array(L, dtype=float).reshape(c, c)

  class Stub(Predictor):
    dim = inp["dim"]
    differentiable = False
    best_observed_value = inp["best"]
    best_observed_location = numpy.zeros(inp["dim"])

    def compute_mean_of_points(self, pts):
      return numpy.array([mean_of[tuple(float(x) for x in pt)] + earlier[0] for pt in numpy.asarray(pts)], dtype=float)

    def compute_covariance_of_points(self, pts):
      return numpy.copy(cov_of[tuple(tuple(float(x) for x in pt) for pt in numpy.asarray(pts))])

  # inp["warmup"]: the object has a PAST - it was built, and evaluated once, when the predictor answered differently (every mean higher by `earlier`,
  # the other admissible factor -L of each covariance); then the predictor's data changed to what the case prescribes.  Nothing of the past may show.
  earlier, sign = [1.5 if inp.get("warmup") else 0.0], [-1.0 if inp.get("warmup") else 1.0]
  pos, sizes = [0], []

  def normal(loc=0.0, scale=1.0, size=None):
    sizes.append([int(s) for s in (size if isinstance(size, (tuple, list)) else [size])])
    k = int(numpy.prod(size))
    if loc != 0.0 or scale != 1.0 or pos[0] + k > len(inp["stream"]):
      raise RuntimeError("numpy.random.normal asked for non-standard draws or for more draws than any reading of the loop needs")
    out = numpy.array(inp["stream"][pos[0]:pos[0] + k], dtype=float).reshape(size)
    pos[0] += k
    return out

  def chol(cov):
    return sign[0] * numpy.copy(fac_of[numpy.ascontiguousarray(cov, dtype=float).tobytes()])

  pend = numpy.array(inp["pending"], dtype=float).reshape(p, dim)
  pts = numpy.array(inp["sets"], dtype=float).reshape(len(inp["sets"]), q, dim)
  if not inp["as3d"]:
    pts = pts[:, 0, :]
  old = EI.compute_cholesky_for_gp_sampling, numpy.random.normal
  EI.compute_cholesky_for_gp_sampling, numpy.random.normal = chol, normal
  try:
    af = EI.ExpectedParallelImprovement(Stub(), q, points_being_sampled=pend if p else None, num_mc_iterations=inp["N"], num_mc_iterations_per_loop=inp["B"])
    if inp.get("warmup"):
      af._evaluate_at_point_list(pts[:1])
      earlier[0], sign[0], pos[0] = 0.0, 1.0, 0
      del sizes[:]
    if inp["entry"] == "public":
      out = af.evaluate_at_point_list(pts, batch_size=inp["batch"])
    else:
      out = af._evaluate_at_point_list(pts)
  finally:
    EI.compute_cholesky_for_gp_sampling, numpy.random.normal = old
  out = [float(v) for v in numpy.asarray(out, dtype=float).ravel()]
  return dict(out=out, blocks=sizes)


def qei_case_term(inp, out):
  per_set, mp = qei_tables(inp)
  qv = lambda v: C.listlit(v, C.qlit)
  sets = C.listlit([f"({qv(m)}, {C.listlit(L, qv)})" for m, L in per_set])
  entry = "None" if inp["entry"] == "direct" else f"(Some {C.optlit(inp['batch'], C.nlit)})"
  blocks = C.listlit([f"({C.nlit(b[0])}, {C.nlit(b[1])})" for b in out["blocks"]])
  return (f"mkcase {C.nlit(inp['q'])} {sets} {qv(mp)} {C.qlit(inp['best'])} {C.nlit(inp['N'])} {C.nlit(inp['B'])} {entry} "
          f"{qv(inp['stream'])} {blocks} {qv(out['out'])}")


def qei_correspondence(ctx):
  cases, meta, seen, dist, dis = [], [], set(), {}, []
  for _ in range(ctx.n(150, 2000)):
    inp = gen_qei_case(ctx.rng)
    try:
      out = run_qei_case(inp)
      if any(len(b) != 2 for b in out["blocks"]) or not all(math.isfinite(v) for v in out["out"]):
        raise ValueError(f"draws of shape {out['blocks']} / estimates {out['out']}")
    except C.TieBroken:
      raise
    except Exception as e:
      dis.append(dict(what=f"C05 qEI: implementation raised or returned unusable values: {type(e).__name__}: {e}", kind="qei", input=inp, observed=repr(e)))
      continue
    cases.append(qei_case_term(inp, out))
    meta.append((inp, out))
    b = min(inp["B"], inp["N"])
    for t in (f"qei:q={inp['q']}", f"qei:p={inp['p']}", f"qei:sets={len(inp['sets'])}", f"qei:{inp['entry']}", "qei:object-with-a-past" if inp.get("warmup") else "qei:fresh-object",
              "qei:overshoot" if inp["N"] % b else "qei:multiple", "qei:several-passes" if inp["N"] > b else "qei:one-pass"):
      dist[t] = dist.get(t, 0) + 1
    if len(inp["sets"]) >= 2 and any(v > 0 for v in out["out"]):
      seen.add(C.canon_hash(inp))
  bad = C.run_cases("C05qei", QEI_HEADER, "case", "check", cases, shard=40)
  for i in bad:
    inp, out = meta[i]
    dis.append(dict(what=f"C05 correspondence (Monte-Carlo parallel EI) case {i}: estimates of _evaluate_at_point_list differ from Model.ParallelEI "
                         "or from the mean improvement of the sample minimum", kind="qei", input=inp, observed=out))
  return dict(evaluations=len(cases), distinct=len(seen), distribution=dist, disagreements=dis,
              rule="Monte-Carlo parallel EI: real ExpectedParallelImprovement on a stub predictor with prescribed dyadic means / covariances, prescribed "
                   "dyadic factors and scripted dyadic draws, q in 1..3, p in 0..2, 1..4 candidate sets per call, block sizes dividing and not dividing "
                   "num_mc_iterations, direct and public (batched) entry; non-trivial = at least two candidate sets and a positive estimate",
              samples=[dict(kind="qei", input={k: v for k, v in i.items() if k != "stream"}, impl_output=o) for i, o in meta[:1]])


# ------------------------------------------------------------------------------------------ correspondence (histories on one live parallel-EI object)

QEIH_HEADER = ("From Coq Require Import List QArith Bool Arith.\nFrom LV Require Import Model.ParallelEI Model.ParallelEICorr Model.ParallelEIHist Model.ParallelEIHistCorr.\n"
               "Open Scope Q_scope.")


def gen_qeih_case(rng):
  """One live ExpectedParallelImprovement object on a stub predictor whose ANSWERS change during the object's life (as after
  gp.append_lie_data / gp.update_historical_data: same predictor object, other posterior) and whose points_being_sampled are re-assigned,
  with evaluations in between.  Dyadic means (k/8), dyadic factors (k/4), dyadic draws (k/4) as in gen_qei_case; the best observed value of
  a later predictor is usually the one of the construction, sometimes another (the object keeps the incumbent it was built with)."""
  from fractions import Fraction as F
  q, dim = rng.choice([1, 1, 2]), rng.choice([1, 2])
  pool = []
  while len(pool) < 8:
    pt = [float(rng.randint(-5, 5)) for _ in range(dim)]
    if pt not in pool:
      pool.append(pt)
  cand, ppool = pool[:4], pool[4:]
  pend0 = [list(pt) for pt in rng.sample(ppool, rng.choice([0, 1, 1, 2]))]
  N, B = rng.choice(QEI_NB_EXACT) if rng.random() < 0.75 else rng.choice(QEI_NB_ROUNDED)
  best0 = rng.randint(-16, 16) / 8.0
  def new_means():
    return [[pt, rng.randint(-16, 16) / 8.0] for pt in pool]
  preds = [dict(best=best0, means=new_means(), factors=[])]
  ops, cur, pend, covs = [], 0, pend0, {}
  def eval_op():
    n = rng.choice([1, 2, 3])
    sets = [[list(rng.choice(cand)) for _ in range(q)] for _ in range(n)]
    c = q + len(pend)
    entry = rng.choice(["direct", "direct", "public"])
    batch = rng.choice([None, 0, 1, 2, n + 1]) if entry == "public" else None
    bs = (batch or n) if entry == "public" else n
    b = min(B, N)
    need = -(-n // bs) * (-(-N // b)) * b * c
    for sset in sets:
      union = sset + pend
      if any(f[0] == union for f in preds[cur]["factors"]):
        continue
      L = [[(rng.randint(-8, 8) / 4.0 if j < i else rng.choice([0, 1, 2, 3, 4, 6]) / 4.0 if j == i else 0.0) for j in range(c)] for i in range(c)]
      cov = [[float(sum(F(L[i][l]) * F(L[j][l]) for l in range(c))) for j in range(c)] for i in range(c)]
      L = covs.setdefault(repr(cov), L)       # the factorisation is a function of the covariance: the same covariance again gets the same factor
      preds[cur]["factors"].append([union, L])
    return ["eval", sets, entry, batch, bool(q > 1 or (entry == "direct" and rng.random() < 0.5)), [rng.randint(-12, 12) / 4.0 for _ in range(need + 2 * b * c + 3)]]
  if rng.random() < 0.6:
    ops.append(eval_op())
  for _ in range(rng.choice([1, 2, 2, 3])):
    if rng.random() < 0.55:
      preds.append(dict(best=best0 if rng.random() < 0.7 else rng.randint(-16, 16) / 8.0, means=new_means(), factors=[]))
      cur = len(preds) - 1
      ops.append(["pred", cur])
    else:
      pend = [list(pt) for pt in rng.sample(ppool, rng.choice([0, 1, 1, 2, 2]))]
      ops.append(["pending", pend])
    if rng.random() < 0.8:
      ops.append(eval_op())
  if ops[-1][0] != "eval":
    ops.append(eval_op())
  return dict(kind="qeih", q=q, dim=dim, N=N, B=B, pending=pend0, predictors=preds, ops=ops)


def run_qeih_case(inp):
  """the real class, ONE object, the operations of the case; returns per evaluation the estimates and the size= arguments of the draws"""
  from fractions import Fraction as F
  import libsigopt.compute.expected_improvement as EI
  from libsigopt.compute.predictor import Predictor
  q, dim = inp["q"], inp["dim"]
  tables, fac_of = [], {}
  for pr in inp["predictors"]:
    cov_of = {}
    for union, L in pr["factors"]:
      c = len(L)
      cov = numpy.array([[float(sum(F(L[i][l]) * F(L[j][l]) for l in range(c))) for j in range(c)] for i in range(c)], dtype=float).reshape(c, c)
      cov_of[tuple(tuple(pt) for pt in union)] = cov
      fac_of[cov.tobytes()] = numpy.array(L, dtype=float).reshape(c, c)
    tables.append(dict(best=pr["best"], mean={tuple(pt): m for pt, m in pr["means"]}, cov=cov_of))
  now = [0]

  class Stub(Predictor):
    dim = inp["dim"]
    differentiable = False
    best_observed_location = numpy.zeros(inp["dim"])

    @property
    def best_observed_value(self):
      return tables[now[0]]["best"]

    def compute_mean_of_points(self, pts):
      return numpy.array([tables[now[0]]["mean"][tuple(float(x) for x in pt)] for pt in numpy.asarray(pts)], dtype=float)

    def compute_covariance_of_points(self, pts):
      return numpy.copy(tables[now[0]]["cov"][tuple(tuple(float(x) for x in pt) for pt in numpy.asarray(pts))])

  stream, pos, sizes = [[]], [0], []

  def normal(loc=0.0, scale=1.0, size=None):
    sizes.append([int(v) for v in (size if isinstance(size, (tuple, list)) else [size])])
    k = int(numpy.prod(size))
    if loc != 0.0 or scale != 1.0 or pos[0] + k > len(stream[0]):
      raise RuntimeError("numpy.random.normal asked for non-standard draws or for more draws than any reading of the loop needs")
    out = numpy.array(stream[0][pos[0]:pos[0] + k], dtype=float).reshape(size)
    pos[0] += k
    return out

  def chol(cov):
    return numpy.copy(fac_of[numpy.ascontiguousarray(cov, dtype=float).tobytes()])

  pend = numpy.array(inp["pending"], dtype=float).reshape(len(inp["pending"]), dim)
  old = EI.compute_cholesky_for_gp_sampling, numpy.random.normal
  EI.compute_cholesky_for_gp_sampling, numpy.random.normal = chol, normal
  outs = []
  try:
    af = EI.ExpectedParallelImprovement(Stub(), q, points_being_sampled=pend if len(pend) else None, num_mc_iterations=inp["N"], num_mc_iterations_per_loop=inp["B"])
    for op in inp["ops"]:
      if op[0] == "pred":
        now[0] = op[1]
      elif op[0] == "pending":
        af.points_being_sampled = numpy.array(op[1], dtype=float).reshape(len(op[1]), dim)
      else:
        _, sets, entry, batch, as3d, st = op
        pts = numpy.array(sets, dtype=float).reshape(len(sets), q, dim)
        if not as3d:
          pts = pts[:, 0, :]
        stream[0], pos[0] = st, 0
        del sizes[:]
        out = af.evaluate_at_point_list(pts, batch_size=batch) if entry == "public" else af._evaluate_at_point_list(pts)
        outs.append(dict(out=[float(v) for v in numpy.asarray(out, dtype=float).ravel()], blocks=[list(b) for b in sizes]))
  finally:
    EI.compute_cholesky_for_gp_sampling, numpy.random.normal = old
  return outs


def qeih_case_term(inp, outs):
  qv = lambda v: C.listlit(v, C.qlit)
  ptl = lambda pts: C.listlit([qv(pt) for pt in pts])
  def pred(pr):
    means = C.listlit([f"({qv(pt)}, {C.qlit(m)})" for pt, m in pr["means"]])
    facs = C.listlit([f"({ptl(u)}, {C.listlit(L, qv)})" for u, L in pr["factors"]])
    return f"(mkpred {C.qlit(pr['best'])} {means} {facs})"
  ops = []
  for op in inp["ops"]:
    if op[0] == "pred":
      ops.append(f"(QPredictor {pred(inp['predictors'][op[1]])})")
    elif op[0] == "pending":
      ops.append(f"(QPending {ptl(op[1])})")
    else:
      entry = "None" if op[2] == "direct" else f"(Some {C.optlit(op[3], C.nlit)})"
      ops.append(f"(QEval {C.listlit([ptl(sset) for sset in op[1]])} {entry} {qv(op[5])})")
  outl = C.listlit([f"({qv(o['out'])}, {C.listlit([f'({C.nlit(b[0])}, {C.nlit(b[1])})' for b in o['blocks']])})" for o in outs])
  return f"mkhcase {C.nlit(inp['q'])} {C.nlit(inp['N'])} {C.nlit(inp['B'])} {pred(inp['predictors'][0])} {ptl(inp['pending'])} {C.listlit(ops)} {outl}"


def qeih_correspondence(ctx):
  cases, meta, seen, dist, dis = [], [], set(), {}, []
  for _ in range(ctx.n(120, 1500)):
    inp = gen_qeih_case(ctx.rng)
    try:
      outs = run_qeih_case(inp)
      if any(len(b) != 2 for o in outs for b in o["blocks"]) or not all(math.isfinite(v) for o in outs for v in o["out"]):
        raise ValueError(f"draws / estimates unusable: {outs}")
    except C.TieBroken:
      raise
    except Exception as e:
      dis.append(dict(what=f"C05 qEI history: the live object raised or returned unusable values: {type(e).__name__}: {e}", kind="qeih", input=inp, observed=repr(e)))
      continue
    cases.append(qeih_case_term(inp, outs))
    meta.append((inp, outs))
    kinds = [op[0] for op in inp["ops"]]
    for t in (["qeih:predictor-changed-before-an-evaluation"] if "pred" in kinds else []) + (["qeih:pending-reassigned"] if "pending" in kinds else []) + \
             (["qeih:evaluated-before-and-after"] if kinds[0] == "eval" and kinds.count("eval") >= 2 else []) + [f"qeih:q={inp['q']}"]:
      dist[t] = dist.get(t, 0) + 1
    if kinds.count("eval") >= 2 and any(v > 0 for o in outs for v in o["out"]):
      seen.add(C.canon_hash(inp))
  bad = C.run_cases("C05qeih", QEIH_HEADER, "hcase", "hcheck", cases, shard=30)
  for i in bad:
    inp, outs = meta[i]
    dis.append(dict(what=f"C05 correspondence (history on one live parallel-EI object) case {i}: an evaluation after the predictor's answers / the pending points changed differs "
                         "from Model.ParallelEIHist (the estimator on what the predictor answers NOW for the candidates and the pending points held NOW)", kind="qeih", input=inp, observed=outs))
  return dict(evaluations=len(cases), distinct=len(seen), distribution=dist, disagreements=dis,
              rule="histories on one live ExpectedParallelImprovement object: stub predictor whose means / covariances / best observed value are swapped 1-3 times (as after "
                   "update_historical_data), points_being_sampled re-assigned (0-2 points), evaluations (direct and public entry, 1-3 candidate sets) before, between and after; "
                   "non-trivial = at least two evaluations and a positive estimate",
              samples=[dict(kind="qeih", input={k: v for k, v in i.items() if k != "ops"}, ops=[op[:5] for op in i["ops"]], impl_output=o) for i, o in meta[:1]])


# ------------------------------------------------------------------------------------------ correspondence (Monte-Carlo parallel EI with failure models)

QEIF_HEADER = ("From Coq Require Import List QArith Bool Arith.\nFrom LV Require Import Model.ParallelEI Model.ParallelEIF Model.ParallelEIFCorr.\n"
               "Open Scope Q_scope.")


def _qeif_factor(rng, c, covs):
  """a dyadic lower-triangular factor (k/4, zeros on the diagonal allowed) whose covariance L L' is new among `covs`"""
  from fractions import Fraction as F
  diag = [0, 1, 2, 3, 4, 6] if c > 1 else [0, 1, 2, 3, 4, 5, 6, 7, 8, 10, 12, 14, 16, 20, 24]   # 1x1: up to 12 different covariances are needed
  while True:
    L = [[(rng.randint(-8, 8) / 4.0 if j < i else rng.choice(diag) / 4.0 if j == i else 0.0) for j in range(c)] for i in range(c)]
    cov = [[float(sum(F(L[i][l]) * F(L[j][l]) for l in range(c))) for j in range(c)] for i in range(c)]
    if cov not in covs:
      covs.append(cov)
      return L


def gen_qeif_case(rng):
  """Stub posteriors on distinct integer points for the objective and for 1-2 failure models: dyadic means (k/8), one dyadic factor
  per model and union (candidate set ++ pending), dyadic draws (k/4), dyadic thresholds (far above every sample / far below / in
  the range of the samples / exactly a sampled value), dyadic success probabilities in [0,1] per point, a small history of
  dyadic observed values with ties for the incumbent."""
  from fractions import Fraction as F
  q, p, n, dim, nf = rng.choice([1, 2, 3]), rng.choice([0, 1, 2]), rng.choice([1, 2, 3, 4]), rng.choice([1, 2]), rng.choice([1, 2])
  nh = rng.choice([1, 2, 3, 4])
  c = q + p
  pool = []
  while len(pool) < 6 + p + nh:
    pt = [float(rng.randint(-8, 8)) for _ in range(dim)]
    if pt not in pool:
      pool.append(pt)
  pending, hist, pool = pool[:p], pool[p:p + nh], pool[p + nh:]
  sets = []
  for _ in range(n):
    if sets and rng.random() < 0.15:
      sets.append([list(pt) for pt in rng.choice(sets)])           # the same candidate set twice in one call
    else:
      sets.append([list(rng.choice(pool)) for _ in range(q)])      # points shared between sets, repeated inside a set
  uniq = []
  for s in sets:
    if s not in uniq:
      uniq.append(s)
  covs = []
  means = [[pt, rng.randint(-16, 16) / 8.0] for pt in pool + pending]
  factors = [[s, _qeif_factor(rng, c, covs)] for s in uniq]
  regime = rng.choice(["all", "none", "some", "some", "some", "mixed", "hit"])
  fmodels = []
  for i in range(nf):
    r = rng.choice(["all", "none", "some"]) if regime == "mixed" else regime
    thr = 64.0 if r == "all" else -64.0 if r == "none" else rng.randint(-12, 12) / 8.0
    fmodels.append(dict(threshold=thr, means=[[pt, rng.randint(-16, 16) / 8.0] for pt in pool + pending],
                        probs=[[pt, rng.choice([0.0, 0.25, 0.5, 0.5, 0.75, 1.0, 1.0])] for pt in pool + pending + hist],
                        factors=[[s, _qeif_factor(rng, c, covs)] for s in uniq]))
  hist_values = [rng.randint(-8, 8) / 4.0 for _ in hist]
  if rng.random() < 0.5:
    hist_values[rng.randrange(nh)] = min(hist_values)
  N, B = rng.choice(QEI_NB_EXACT) if rng.random() < 0.75 else rng.choice(QEI_NB_ROUNDED)
  entry = rng.choice(["direct", "direct", "public"])
  batch = rng.choice([None, 0, 1, 2, 3, n, n + 1]) if entry == "public" else None
  bs = (batch or n) if entry == "public" else n
  calls = -(-n // bs)
  b = min(B, N)
  need = calls * (-(-N // b)) * b * c
  stream = [rng.randint(-12, 12) / 4.0 for _ in range(need + (calls + 1) * b * c + 3)]    # slack: a changed loop may ask for one more block per call
  if regime == "hit":   # the threshold of a model is exactly the value it samples at some point of some set for some early draw
    fm = rng.choice(fmodels)
    k, j, d = rng.randrange(min(n, bs)), rng.randrange(c), rng.randrange(b)
    z = [F(v) for v in stream[d * c:(d + 1) * c]]
    mean_of = {tuple(pt): m for pt, m in fm["means"]}
    L = [L for s, L in fm["factors"] if s == sets[k]][0]
    m = [mean_of[tuple(pt)] for pt in sets[k] + pending]
    fm["threshold"] = float(F(m[j]) + sum(F(L[j][l]) * z[l] for l in range(c)))
  return dict(kind="qeif", q=q, p=p, dim=dim, sets=sets, pending=pending, hist=hist, hist_values=hist_values, best0=rng.randint(-16, 16) / 8.0,
              means=means, factors=factors, fmodels=fmodels, regime=regime, N=N, B=B, entry=entry, batch=batch,
              as3d=bool(q > 1 or (entry == "direct" and rng.random() < 0.5)), stream=stream, warmup=rng.random() < 0.35)


# fixed cases: the inputs of the `_refuted` / `_matters` theorems of Props/C05_qeif.v, replayed on the real class on every run
def _qeif_fixed(sets, fm_thr, fm_mean, sp, N, B, stream, entry="direct", batch=None, obj_mean=0.0, best=0.0):
  """q = 1, no pending point, one failure model, unit factors; candidate set k is the single point [k]"""
  pts = [[float(k)] for k in range(len(sets))]
  return dict(kind="qeif", q=1, p=0, dim=1, sets=[[pt] for pt in pts], pending=[], hist=[[9.0]], hist_values=[best], best0=best,
              means=[[pt, sets[k]] for k, pt in enumerate(pts)], factors=[[[pt], [[1.0]]] for pt in pts],
              fmodels=[dict(threshold=fm_thr, means=[[pt, fm_mean[k]] for k, pt in enumerate(pts)],
                            probs=[[pt, sp[k]] for k, pt in enumerate(pts)] + [[[9.0], 1.0]],
                            factors=[[[pt], [[float(k + 2)]]] for k, pt in enumerate(pts)])],
              regime="fixed", N=N, B=B, entry=entry, batch=batch, as3d=False, stream=stream)


QEIF_FIXED = [
  # set A (objective mean 0, constraint mean 8: never feasible) alone falls back to 1/2 * improvement; next to set B (feasible,
  # improving) it gets 0: C05_qeif_set_independent_refuted
  ("set-alone", _qeif_fixed([0.0], 0.0, [8.0], [0.5], 1, 1, [-1.0, 7.0, 7.0])),
  ("set-with-other", _qeif_fixed([0.0, 0.0], 0.0, [8.0, -8.0], [0.5, 0.5], 1, 1, [-1.0, 7.0, 7.0])),
  ("set-batched-alone", _qeif_fixed([0.0, 0.0], 0.0, [8.0, -8.0], [0.5, 0.5], 1, 1, [-1.0, -1.0, 7.0, 7.0], entry="public", batch=1)),
  # the same two draws as one block of two or two blocks of one: C05_qeif_block_size_matters
  ("one-block", _qeif_fixed([0.0], 0.0, [3.0], [0.5], 2, 2, [-1.0, -2.0, 7.0, 7.0, 7.0])),
  ("two-blocks", _qeif_fixed([0.0], 0.0, [3.0], [0.5], 2, 1, [-1.0, -2.0, 7.0, 7.0, 7.0])),
  # every sample feasible: the estimate is the plain parallel EI of the NEGATED draws, here above the plain parallel EI of the
  # draws themselves: C05_qeif_le_plain_on_same_draws_refuted
  ("all-feasible", _qeif_fixed([0.0], 64.0, [0.0], [1.0], 1, 1, [-1.0, 7.0, 7.0])),
]


def qeif_tables(inp):
  """per candidate set (objective (means, factor), per failure model (means, factor), per failure model the success probability of
  the first point), per failure model (pending means, threshold), objective pending means, per failure model the success
  probabilities at the sampled points - as prescribed by the case"""
  key = lambda s: tuple(tuple(pt) for pt in s)
  mean_of = {tuple(pt): m for pt, m in inp["means"]}
  fac_of = {key(s): L for s, L in inp["factors"]}
  fm_mean = [{tuple(pt): m for pt, m in fm["means"]} for fm in inp["fmodels"]]
  fm_fac = [{key(s): L for s, L in fm["factors"]} for fm in inp["fmodels"]]
  fm_prob = [{tuple(pt): v for pt, v in fm["probs"]} for fm in inp["fmodels"]]
  nf = len(inp["fmodels"])
  per_set = [(([mean_of[tuple(pt)] for pt in s], fac_of[key(s)]),
              [([fm_mean[i][tuple(pt)] for pt in s], fm_fac[i][key(s)]) for i in range(nf)],
              [fm_prob[i][tuple(s[0])] for i in range(nf)]) for s in inp["sets"]]
  fms = [([fm_mean[i][tuple(pt)] for pt in inp["pending"]], inp["fmodels"][i]["threshold"]) for i in range(nf)]
  hprobs = [[fm_prob[i][tuple(pt)] for pt in inp["hist"]] for i in range(nf)]
  return per_set, fms, [mean_of[tuple(pt)] for pt in inp["pending"]], hprobs


def run_qeif_case(inp):
  """The real ExpectedParallelImprovementWithFailures over the real ProductOfListOfProbabilisticFailures on stub predictors and stub
  failure models; compute_cholesky_for_gp_sampling (C17) and numpy.random.normal are replaced inside this process for the
  duration of the construction and the call.  Returns the estimates, the incumbent and the size= arguments of the draws."""
  from fractions import Fraction as F
  import libsigopt.compute.expected_improvement as EI
  from libsigopt.compute.predictor import Predictor
  from libsigopt.compute.probabilistic_failures import ProbabilisticFailuresBase, ProductOfListOfProbabilisticFailures
  q, p, dim, c = inp["q"], inp["p"], inp["dim"], inp["q"] + inp["p"]
  fac_of = {}
  earlier, sign = [1.5 if inp.get("warmup") else 0.0], [-1.0 if inp.get("warmup") else 1.0]

  def tables(means, factors):
    cov_of = {}
    for s, L in factors:
      cov = numpy.array([[float(sum(F(L[i][l]) * F(L[j][l]) for l in range(c))) for j in range(c)] for i in range(c)], dtype=float).reshape(c, c)
      cov_of[tuple(tuple(pt) for pt in s + inp["pending"])] = cov
      fac_of[cov.tobytes()] = numpy.array(L, dtype=float).reshape(c, c)
    return {tuple(pt): m for pt, m in means}, cov_of

  def stub(means, factors, **attrs):
    mean_of, cov_of = tables(means, factors)

    class Stub(Predictor):
      dim = inp["dim"]
      differentiable = False
      num_sampled = len(inp["hist"])
      points_sampled = numpy.array(inp["hist"], dtype=float).reshape(len(inp["hist"]), inp["dim"])
      points_sampled_value = numpy.array(inp["hist_values"], dtype=float)

      def compute_mean_of_points(self, pts):
        return numpy.array([mean_of[tuple(float(x) for x in pt)] + earlier[0] for pt in numpy.asarray(pts)], dtype=float)

      def compute_covariance_of_points(self, pts):
        return numpy.copy(cov_of[tuple(tuple(float(x) for x in pt) for pt in numpy.asarray(pts))])
    for k, v in attrs.items():
      setattr(Stub, k, v)
    return Stub()

  class StubPF(ProbabilisticFailuresBase):
    differentiable = False
    dim = inp["dim"]

    def __init__(self, fm):
      self.predictor = stub(fm["means"], fm["factors"])
      self.threshold = fm["threshold"]
      self.prob_of = {tuple(pt): v for pt, v in fm["probs"]}

    def compute_probability_of_success(self, pts):
      self.verify_points_to_evaluate(pts)
      return numpy.array([self.prob_of[tuple(float(x) for x in pt)] for pt in numpy.asarray(pts)], dtype=float)

  pos, sizes = [0], []

  def normal(loc=0.0, scale=1.0, size=None):
    sizes.append([int(s) for s in (size if isinstance(size, (tuple, list)) else [size])])
    k = int(numpy.prod(size))
    if loc != 0.0 or scale != 1.0 or pos[0] + k > len(inp["stream"]):
      raise RuntimeError("numpy.random.normal asked for non-standard draws or for more draws than any reading of the loop needs")
    out = numpy.array(inp["stream"][pos[0]:pos[0] + k], dtype=float).reshape(size)
    pos[0] += k
    return out

  def chol(cov):
    return sign[0] * numpy.copy(fac_of[numpy.ascontiguousarray(cov, dtype=float).tobytes()])

  pend = numpy.array(inp["pending"], dtype=float).reshape(p, dim)
  pts = numpy.array(inp["sets"], dtype=float).reshape(len(inp["sets"]), q, dim)
  if not inp["as3d"]:
    pts = pts[:, 0, :]
  old = EI.compute_cholesky_for_gp_sampling, numpy.random.normal
  EI.compute_cholesky_for_gp_sampling, numpy.random.normal = chol, normal
  try:
    objective = stub(inp["means"], inp["factors"], best_observed_value=inp["best0"], best_observed_location=numpy.zeros(inp["dim"]))
    product = ProductOfListOfProbabilisticFailures([StubPF(fm) for fm in inp["fmodels"]])
    af = EI.ExpectedParallelImprovementWithFailures(objective, q, product, points_being_sampled=pend if p else None,
                                                    num_mc_iterations=inp["N"], num_mc_iterations_per_loop=inp["B"])
    best = float(af.best_value)
    if inp.get("warmup"):     # the object's past (see run_qei_case): built and evaluated once when objective and constraint predictors answered differently
      af._evaluate_at_point_list(pts[:1])
      earlier[0], sign[0], pos[0] = 0.0, 1.0, 0
      del sizes[:]
    if inp["entry"] == "public":
      out = af.evaluate_at_point_list(pts, batch_size=inp["batch"])
    else:
      out = af._evaluate_at_point_list(pts)
  finally:
    EI.compute_cholesky_for_gp_sampling, numpy.random.normal = old
  out = [float(v) for v in numpy.asarray(out, dtype=float).ravel()]
  return dict(out=out, blocks=sizes, best=best)


def qeif_case_term(inp, out):
  per_set, fms, mp, hprobs = qeif_tables(inp)
  qv = lambda v: C.listlit(v, C.qlit)
  cs = lambda ml: f"({qv(ml[0])}, {C.listlit(ml[1], qv)})"
  sets = C.listlit([f"({cs(o)}, {C.listlit(fl, cs)}, {qv(pr)})" for o, fl, pr in per_set])
  fmods = C.listlit([f"({qv(m)}, {C.qlit(t)})" for m, t in fms])
  entry = "None" if inp["entry"] == "direct" else f"(Some {C.optlit(inp['batch'], C.nlit)})"
  blocks = C.listlit([f"({C.nlit(b[0])}, {C.nlit(b[1])})" for b in out["blocks"]])
  return (f"mkcase {C.nlit(inp['q'])} {sets} {fmods} {qv(mp)} {qv(inp['hist_values'])} {C.listlit(hprobs, qv)} {C.qlit(inp['best0'])} "
          f"{C.qlit(out['best'])} {C.nlit(inp['N'])} {C.nlit(inp['B'])} {entry} {qv(inp['stream'])} {blocks} {qv(out['out'])}")


def qeif_correspondence(ctx):
  cases, meta, seen, dist, dis = [], [], set(), {}, []
  inputs = [(tag, inp) for tag, inp in QEIF_FIXED] + [(None, gen_qeif_case(ctx.rng)) for _ in range(ctx.n(120, 1500))]
  fixed_out = {}
  for tag, inp in inputs:
    try:
      out = run_qeif_case(inp)
      if any(len(b) != 2 for b in out["blocks"]) or not all(math.isfinite(v) for v in out["out"]) or not math.isfinite(out["best"]):
        raise ValueError(f"draws of shape {out['blocks']} / estimates {out['out']} / incumbent {out['best']}")
    except C.TieBroken:
      raise
    except Exception as e:
      dis.append(dict(what=f"C05 qEI with failures: implementation raised or returned unusable values: {type(e).__name__}: {e}", kind="qeif", input=inp, observed=repr(e)))
      continue
    cases.append(qeif_case_term(inp, out))
    meta.append((inp, out))
    if tag:
      fixed_out[tag] = out["out"]
    b = min(inp["B"], inp["N"])
    st = qeif_expected(inp)[2]
    for t in (f"qeif:q={inp['q']}", f"qeif:p={inp['p']}", f"qeif:sets={len(inp['sets'])}", f"qeif:models={len(inp['fmodels'])}", f"qeif:{inp['entry']}", "qeif:object-with-a-past" if inp.get("warmup") else "qeif:fresh-object",
              f"qeif:thresholds-{inp['regime']}", "qeif:overshoot" if inp["N"] % b else "qeif:multiple", "qeif:several-passes" if inp["N"] > b else "qeif:one-pass",
              "qeif:incumbent-acceptable" if st["acceptable"] else "qeif:incumbent-fallback"):
      dist[t] = dist.get(t, 0) + 1
    for t in ("blocks-masked", "blocks-fallback", "samples-feasible", "samples-infeasible", "samples-on-threshold"):
      dist["qeif:" + t] = dist.get("qeif:" + t, 0) + st[t]
    if len(inp["sets"]) >= 2 and any(v > 0 for v in out["out"]):
      seen.add(C.canon_hash(inp))
  bad = C.run_cases("C05qeif", QEIF_HEADER, "case", "check", cases, shard=40)
  for i in bad:
    inp, out = meta[i]
    dis.append(dict(what=f"C05 correspondence (Monte-Carlo parallel EI with failure models) case {i}: incumbent or estimates of ExpectedParallelImprovementWithFailures "
                         "differ from Model.ParallelEIF / Model.Incumbent or from the reading (masked improvement of the feasible sample minimum; "
                         "success-probability weighted improvement in blocks that fall back)", kind="qeif", input=inp, observed=out))
  return dict(evaluations=len(cases), distinct=len(seen), distribution=dist, disagreements=dis,
              rule="Monte-Carlo parallel EI with failure models: real ExpectedParallelImprovementWithFailures over the real ProductOfListOfProbabilisticFailures on "
                   "stub predictors / stub failure models with prescribed dyadic means, covariances, thresholds and success probabilities, prescribed dyadic factors and "
                   "scripted dyadic draws, 1..2 failure models, q in 1..3, p in 0..2, 1..4 candidate sets per call, thresholds that all / some / no samples satisfy or "
                   "that a sample hits exactly, block sizes dividing and not dividing num_mc_iterations, direct and public (batched) entry, plus the inputs of the refuted "
                   "statements; non-trivial = at least two candidate sets and a positive estimate",
              samples=[dict(kind="qeif", input={k: v for k, v in i.items() if k != "stream"}, impl_output=o) for i, o in meta[len(QEIF_FIXED):len(QEIF_FIXED) + 1]]
                      + [dict(kind="qeif-refuted-statements-replayed", impl_output=fixed_out)])


# ------------------------------------------------------------------------------------------ independent oracle


def Phi(z):
  return 0.5 * math.erfc(-z / math.sqrt(2.0))


def pdf(z):
  return math.exp(-0.5 * z * z) / math.sqrt(2 * math.pi)


def ei_quadrature(mu, sd, best, n=4000):
  """E[max(best - Y, 0)], Y ~ N(mu, sd^2): Gauss-Legendre on [mu - 12 sd, best]"""
  lo, hi = mu - 12 * sd, min(best, mu + 12 * sd)   # beyond mu + 12 sd the density is < 1e-32 of its peak
  if mu + 12 * sd <= mu - 12 * sd or sd < 1e-150:
    return max(0.0, best - mu)   # the floored variance (1e-100) is below the spacing of doubles around mu: Y is the constant mu
  if hi <= lo:
    return 0.0
  xs, ws = numpy.polynomial.legendre.leggauss(400)
  y = 0.5 * (hi - lo) * xs + 0.5 * (hi + lo)
  dens = numpy.exp(-0.5 * ((y - mu) / sd) ** 2) / (sd * math.sqrt(2 * math.pi))
  return float(0.5 * (hi - lo) * numpy.sum(ws * (best - y) * dens))


def qei_independent_check(inp, gi, x1, pend, got, best, N, fail, label):
  """independent estimate (also where the joint covariance is singular: a candidate equal to a pending point, duplicated pending
  points - the library then samples through its SVD fallback factor): E max(0, best - min_j Y_j), Y ~ N(mean, cov) from the
  reference posterior of the model `gi`, sampled through a symmetric eigen-factor with a generator of its own"""
  pts = numpy.vstack([x1, pend])
  ref = dict(gi, xs=pts.tolist())
  rmean, _, rcov, rcond = gpgen.reference_posterior(ref)
  w_, U = numpy.linalg.eigh((rcov + rcov.T) / 2)
  F = U * numpy.sqrt(numpy.clip(w_, 0.0, None))[None, :]
  g2 = numpy.random.default_rng(inp["mc"]["seed"] + 1)
  N2 = 200000
  Y = rmean[None, :] + g2.standard_normal((N2, len(rmean))) @ F.T
  imp = numpy.fmax(0.0, best - Y.min(axis=1))
  est, se2 = float(imp.mean()), float(imp.std() / math.sqrt(N2))
  se1 = float(imp.std() / math.sqrt(N))
  # the SAMPLE standard deviation is a usable error bar only when improving draws are common: with a handful of improving draws
  # among 2e5 (improvement probability ~1e-5) both estimates are compound-Poisson, not normal, and the sample deviation
  # underestimates the spread by an order of magnitude (false alarm of the thorough tier, seed 12345: 1.5e-5 against 3.8e-7 on the
  # unchanged tree).  Fewer than 200 expected improving draws in the library's sample: use the rigorous bound instead -
  # max(0, best - min_j Y_j) is 1-Lipschitz in Y for the sup norm, so its variance is at most max_j Var(Y_j)
  if N * float((imp > 0).mean()) < 200:
    sd_bound = math.sqrt(max(float(numpy.diag(rcov).max()), 1e-300))
    se1, se2 = sd_bound / math.sqrt(N), sd_bound / math.sqrt(N2)
  # rounding of the library's posterior: forward error of the Cholesky solves, eps * cond(K) relative to the magnitudes (reading of C02)
  scale = max(1.0, abs(est), float(numpy.abs(rmean).max()), abs(best))
  if rcond <= 1e10 and abs(got - est) > 6 * (se1 + se2) + (1e-9 + 1e-14 * rcond) * scale:
    return fail("Monte-Carlo parallel EI with pending points differs from an independent estimate of E max(0, best - min Y) beyond the Monte-Carlo error" + label,
                got, dict(estimate=est, se_library=se1, se_reference=se2))
  return None


def oracle(inp):
  from libsigopt.compute.expected_improvement import (AugmentedExpectedImprovement, ExpectedImprovement, ExpectedImprovementWithFailures,
                                                       ExpectedParallelImprovement)
  from libsigopt.compute.multitask_acquisition_function import MultitaskAcquisitionFunction
  from libsigopt.compute.probabilistic_failures import ProbabilisticFailures, ProbabilisticFailuresCDF, ProductOfListOfProbabilisticFailures
  def fail(what, observed, expected):
    return dict(signature=f"C05:{what}", what=what, input=inp, observed=observed, expected=expected, oracle="quadrature / closed form / Monte-Carlo band")
  if inp.get("kind") == "qei":
    return qei_oracle(inp)
  if inp.get("kind") == "qeih":
    return qeih_oracle(inp)
  if inp.get("kind") == "qeif":
    if inp.get("regime") == "fallback-finding":
      return qeif_agreement_oracle(inp)
    return qeif_oracle(inp)
  if "gp" not in inp:     # a correspondence case of another kind (batching / incumbents): nothing to re-evaluate here
    return None
  gi = inp["gp"]
  gp = gpgen.make_gp(gi)
  xs = numpy.array(gi["xs"], dtype=float)
  if inp.get("on_sampled"):
    xs = numpy.vstack([xs, gp.points_sampled[:2]])
  mean, var = gp.compute_mean_and_variance_of_points(xs)
  sd = numpy.sqrt(var)
  ei = ExpectedImprovement(gp)
  v = ei.evaluate_at_point_list(xs)
  if not numpy.isfinite(v).all() or (v < 0).any():
    return fail("EI not finite and non-negative", v.tolist(), ">= 0, finite")
  best = float(numpy.min(gp.points_sampled_value))
  for i in range(len(xs)):
    q = ei_quadrature(mean[i], sd[i], best)
    if abs(v[i] - q) > 1e-7 * max(sd[i], 1e-12) + 1e-9 * abs(q) + 1e-300:
      return fail("analytic EI differs from E[max(best - Y, 0)] by quadrature", float(v[i]), q)
  # batch independence holds exactly in the model; on the running code BLAS summation order changes mean/variance by the
  # forward error of the solves (eps*cond*|a|_1), which EI inherits: |dEI| <= |dmean| + |dvar|/(2 sd)
  _, _, _, cond = gpgen.reference_posterior(dict(gi, xs=xs.tolist()))
  ex = gpgen.reference_posterior.extra
  alpha = gi["cov"]["hp"][0]
  tol_v = 1e-14 * cond * alpha * (1 + ex["card_l1"]) ** 2 + 8 * gpgen.kernel_entry_error(dict(gi, xs=xs.tolist())) * ex["card_l1"]
  dsd = min(tol_v / (2 * float(sd.min())), math.sqrt(tol_v))          # |sqrt(a) - sqrt(b)| <= sqrt(|a - b|)
  tol_b = 1e-14 * cond * (alpha * ex["a_l1"] + 1) + 4 * gpgen.kernel_entry_error(dict(gi, xs=xs.tolist())) * ex["a_l1"] + dsd + 1e-10 * (1 + float(numpy.abs(v).max()))
  for b in (1, 2, len(xs) + 1):
    vb = ei.evaluate_at_point_list(xs, batch_size=b)
    if numpy.abs(vb - v).max() > tol_b:
      return fail("EI depends on the evaluation batch size", vb.tolist(), v.tolist())
  # the documented incumbent after the model's data was replaced (same points, values in reverse order: the best observation sits at
  # another index): a new acquisition function on the updated model measures improvement against the NEW best observed value
  if len(gi["values"]) >= 2 and inp.get("update_history", True):
    from libsigopt.compute.misc.data_containers import HistoricalData
    gpu = gpgen.make_gp(gi)
    _ = ExpectedImprovement(gpu).best_value, gpu.best_observed_value            # the accessors have been read once
    hd2 = HistoricalData(gpu.dim)
    newv = numpy.array(list(reversed(gi["values"])), dtype=float)
    hd2.append_historical_data(numpy.array(gpu.points_sampled, dtype=float), newv, numpy.array(gpu.points_sampled_noise_variance, dtype=float))
    gpu.update_historical_data(hd2)
    got_best = float(ExpectedImprovement(gpu).best_value)
    if got_best != float(newv.min()):
      return fail("EI incumbent after the data were replaced is not the best observed value of the new data", got_best, float(newv.min()))
  # evaluation points on the integer lattice, handed over as an integer-typed array (grid / int parameters): the same values as for the
  # float-typed array of the same points
  xi = numpy.rint(xs).astype(int)
  vi_f = ei.evaluate_at_point_list(xi.astype(float))
  vi_i = numpy.asarray(ei.evaluate_at_point_list(xi), dtype=float)
  if numpy.abs(vi_i - vi_f).max() > 1e-12 * (1 + float(numpy.abs(vi_f).max())):
    return fail("EI at integer-typed evaluation points differs from EI at the same points given as floats", vi_i.tolist(), vi_f.tolist())
  aei = AugmentedExpectedImprovement(gp)
  nu = float(numpy.mean(gp.points_sampled_noise_variance))
  pen = 1 - numpy.sqrt(nu / (var + nu))
  from libsigopt.compute.expected_improvement import ExpectedImprovement as _EI
  core = aei.compute_core_components(xs, "func")
  base = aei._evaluate_at_point_list_normalized(core)
  va = aei.evaluate_at_point_list(xs)
  if (pen < -1e-15).any() or (pen >= 1).any() or numpy.abs(va - base * pen).max() > 1e-12 * (1 + numpy.abs(va).max()):
    return fail("augmented EI is not EI times 1 - sqrt(nu/(var+nu)) in [0,1)", va.tolist(), (base * pen).tolist())
  # incumbents: plain = lowest observed value; augmented = posterior mean at the arg-min of the 0.75 quantile
  if abs(float(ei.best_value) - best) > 0:
    return fail("plain EI incumbent is not the lowest observed value", float(ei.best_value), best)
  ms, vs = gp.compute_mean_and_variance_of_points(gp.points_sampled)
  qv = ms + 0.6744897501960817 * numpy.sqrt(vs)
  srt = numpy.sort(qv)
  if (len(srt) == 1 or srt[1] - srt[0] > 1e-9 * (1 + abs(srt[0]))) and abs(float(aei.best_value) - float(ms[int(numpy.argmin(qv))])) > 1e-12 * (1 + abs(float(aei.best_value))):
    return fail("augmented-EI incumbent is not the posterior mean at the arg-min of mean + Phi^-1(3/4) sd", float(aei.best_value), float(ms[int(numpy.argmin(qv))]))
  thr = inp["thresholds"]
  pfs = [ProbabilisticFailures(gp, thr[0]), ProbabilisticFailuresCDF(gp, thr[1])]
  for pf, name in zip(pfs, ("logistic", "cdf")):
    p = pf.compute_probability_of_success(xs)
    if (p < 0).any() or (p > 1).any() or not numpy.isfinite(p).all():
      return fail(f"{name} success probability outside [0,1]", p.tolist(), "[0,1]")
  kappa = pfs[0].kappa
  exp_log = 1.0 / (1.0 + numpy.exp(numpy.minimum(kappa * (mean - thr[0]), 40.0)))
  if numpy.abs(pfs[0].compute_probability_of_success(xs) - exp_log).max() > 1e-12:
    return fail("logistic success probability is not 1/(1+exp(kappa (mean - threshold)))", None, exp_log.tolist())
  order = numpy.argsort(mean)
  pl = pfs[0].compute_probability_of_success(xs)[order]
  if (numpy.diff(pl) > 1e-12).any():
    return fail("logistic success probability increases with the predicted value", pl.tolist(), "non-increasing in the mean")
  exp_cdf = numpy.array([Phi((thr[1] - mean[i]) / sd[i]) for i in range(len(xs))])
  if numpy.abs(pfs[1].compute_probability_of_success(xs) - exp_cdf).max() > 1e-10:
    return fail("CDF success probability is not Phi((threshold - mean)/sd)", None, exp_cdf.tolist())
  prod = ProductOfListOfProbabilisticFailures(pfs)
  pp = prod.compute_probability_of_success(xs)
  e = pfs[0].compute_probability_of_success(xs) * pfs[1].compute_probability_of_success(xs)
  if numpy.abs(pp - e).max() > 1e-12:
    return fail("product model does not multiply its components", pp.tolist(), e.tolist())
  # a product is itself a success-probability model: products of products multiply all the way down, one factor more or less
  third = ProbabilisticFailuresCDF(gp, thr[0])
  for label, model, want in (("[[a, b], c]", ProductOfListOfProbabilisticFailures([ProductOfListOfProbabilisticFailures(pfs), third]), e * third.compute_probability_of_success(xs)),
                             ("[a]", ProductOfListOfProbabilisticFailures(pfs[:1]), pfs[0].compute_probability_of_success(xs)),
                             ("[[a], [b, c]]", ProductOfListOfProbabilisticFailures([ProductOfListOfProbabilisticFailures(pfs[:1]), ProductOfListOfProbabilisticFailures([pfs[1], third])]),
                              e * third.compute_probability_of_success(xs))):
    got = model.compute_probability_of_success(xs)
    if numpy.abs(got - want).max() > 1e-12:
      return fail(f"nested product model {label} does not multiply its components", got.tolist(), want.tolist())
  eif = ExpectedImprovementWithFailures(gp, prod)
  corf = eif.compute_core_components(xs, "func")
  vf = eif.evaluate_at_point_list(xs)
  ps = prod.compute_probability_of_success(gp.points_sampled)
  okv = gp.points_sampled_value[ps > 0.5]
  if not (numpy.abs(ps - 0.5) < 1e-9).any():
    want = float(okv.min()) if len(okv) else best
    if abs(float(eif.best_value) - want) > 0:
      return fail("failure-weighted EI incumbent is not the best observation with success probability > 1/2 (fallback: lowest value)", float(eif.best_value), want)
  if numpy.abs(vf - eif._evaluate_at_point_list_normalized(corf) * pp).max() > 1e-12 * (1 + numpy.abs(vf).max()):
    return fail("failure-weighted EI is not EI times the success probability", vf.tolist(), None)
  # multi-step sequence on live objects (what the constant-liar loop does from its second pick on): after lie locations were appended
  # the incumbent is still the documented one - lies carry the worst observed value, so they can neither be the lowest observation nor
  # the best likely-successful one; for the augmented form the incumbent fixed at construction or one recomputed on the lie-augmented
  # model are both accepted - and each form is still its EI at that incumbent times its documented factor
  import copy as _copy
  if inp.get("lie_sequence", True):
    lies = numpy.atleast_2d(xs[: 1 + (len(xs) > 1)])
    def build(which):
      g2 = gpgen.make_gp(gi)
      if which == "plain":
        return ExpectedImprovement(g2), None
      if which == "aug":
        return AugmentedExpectedImprovement(g2), None
      pr = ProductOfListOfProbabilisticFailures([ProbabilisticFailures(gpgen.make_gp(gi), thr[0]), ProbabilisticFailuresCDF(gpgen.make_gp(gi), thr[1])])
      return ExpectedImprovementWithFailures(g2, pr), pr
    for which in ("plain", "aug", "fail"):
      af, pr = build(which)
      b0 = float(af.best_value)
      af.append_lie_locations(lies.copy())
      b1 = float(af.best_value)
      vals_now = numpy.asarray(af.predictor.points_sampled_value, dtype=float)
      if which == "plain":
        ok = b1 == float(vals_now.min())
      elif which == "fail":
        p_now = pr.compute_probability_of_success(af.predictor.points_sampled)
        if (numpy.abs(p_now - 0.5) < 1e-9).any():
          ok = True
        else:
          acc = vals_now[p_now > 0.5]     # the incumbent fixed at construction, or the rule re-applied to the lie-augmented data
          ok = b1 == b0 or b1 == (float(acc.min()) if len(acc) else float(vals_now.min()))
      else:
        m2, v2 = af.predictor.compute_mean_and_variance_of_points(af.predictor.points_sampled)
        q2 = m2 + 0.6744897501960817 * numpy.sqrt(v2)
        ok = b1 == b0 or abs(b1 - float(m2[int(numpy.argmin(q2))])) <= 1e-9 * (1 + abs(b1))
      if not ok:
        return fail(f"{which} EI: after lie locations were appended the incumbent is no longer the documented one", b1, dict(before=b0))
      v_after = af.evaluate_at_point_list(xs)
      m3, v3 = af.predictor.compute_mean_and_variance_of_points(xs)
      # the lie-augmented kernel matrix can be (nearly) singular - lies at duplicated or already sampled locations carry a noise of
      # 1e-12 -, and two evaluations of the same posterior then differ by the forward error of the solves, eps * cond(K) (reading of C02)
      pr_ = af.predictor
      try:
        Kaug = pr_.covariance.build_kernel_matrix(pr_.points_sampled, noise_variance=pr_.points_sampled_noise_variance)
        cond_aug = float(numpy.linalg.cond(Kaug))
      except Exception:
        cond_aug = float("inf")
      slack_c = 1e-14 * cond_aug * (1.0 + abs(b1) + float(numpy.abs(m3).max()))
      # ... and by the rounding of the kernel entries themselves (sqrt amplification of the C0 Matern at coincident points), the bound tol_b of the
      # batch-size clause above: the failure model's probability is evaluated point by point here and in one batch by the library
      slack_c += 8 * tol_b
      if not math.isfinite(slack_c) or slack_c > 1e-3:
        continue    # too ill-conditioned to decide a value clause (the incumbent clause above was decided)
      for i in range(len(xs)):
        q = ei_quadrature(float(m3[i]), float(math.sqrt(v3[i])), b1)
        fac = 1.0
        if which == "aug":
          fac = 1 - math.sqrt(float(af.noise_variance) / (float(v3[i]) + float(af.noise_variance)))
        elif which == "fail":
          fac = float(pr.compute_probability_of_success(xs[i:i + 1])[0])
        if abs(float(v_after[i]) - q * fac) > 1e-7 * max(math.sqrt(v3[i]), 1e-12) + 1e-9 * abs(q) + slack_c + 1e-300:
          return fail(f"{which} EI after appended lies is not E[max(best - Y, 0)] at the documented incumbent times its factor", float(v_after[i]), q * fac)
  if inp.get("task_cost") is not None and xs.shape[1] >= 2:
    m = MultitaskAcquisitionFunction(ei)
    xt = xs.copy()
    xt[:, -1] = inp["task_cost"]
    vm = m.evaluate_at_point_list(xt)
    if numpy.abs(vm - ei.evaluate_at_point_list(xt) / xt[:, -1]).max() > 1e-12 * (1 + numpy.abs(vm).max()):
      return fail("multitask value is not the underlying value divided by the task cost", vm.tolist(), None)
  if inp.get("mc"):
    numpy.random.seed(inp["mc"]["seed"])
    pend = numpy.array(inp["mc"]["pending"], dtype=float).reshape(-1, xs.shape[1])
    N = inp["mc"]["draws"]
    qei = ExpectedParallelImprovement(gp, 1, points_being_sampled=pend if len(pend) else None, num_mc_iterations=N, num_mc_iterations_per_loop=min(1000, N))
    x1 = xs[:1]
    got = float(qei.evaluate_at_point_list(x1)[0])
    if len(pend) == 0:
      exact = float(v[0])
      band = 6 * math.sqrt(max(var[0], 1e-300) / N) + 1e-9
      if abs(got - exact) > band:
        return fail("Monte-Carlo parallel EI (no pending points) differs from analytic EI beyond the Monte-Carlo error", got, exact)
    else:
      exact = None if inp["mc"].get("coincident") else float(qei._compute_expected_improvement_qd_analytic(x1))   # singular joint covariance: no closed form
      pts = numpy.vstack([x1, pend])
      cov = gp.compute_covariance_of_points(pts)
      band = 6 * math.sqrt(max(float(numpy.diag(cov).max()), 1e-300) / N) * 2 + 1e-6
      if not inp["mc"].get("coincident") and abs(got - exact) > band:
        return fail("Monte-Carlo parallel EI with pending points differs from the exact value beyond the Monte-Carlo error", got, exact)
      r = qei_independent_check(inp, gi, x1, pend, got, float(qei.best_value), N, fail, "")
      if r:
        return r
    # ---- the life of the qEI object: the predictor it reads from and its pending points change AFTER it was built (appended lie data, the model's data
    # replaced, the pending set re-assigned) and it is evaluated again.  The incumbent is unchanged by construction (lies carry the worst value, replaced
    # values keep the best observation where and what it was), so "the exact value" is unambiguous: E max(0, best - min Y) under the posterior and the
    # pending points the object holds NOW.
    hist = inp["mc"].get("history")
    if hist:
      from libsigopt.compute.misc.data_containers import HistoricalData
      cur, pend_now, best0 = dict(gi), pend, float(numpy.min(gi["values"]))
      for step in hist:
        if step[0] == "evaluate":
          qei.evaluate_at_point_list(x1)
        elif step[0] == "lies":
          gp.append_lie_data(numpy.array(step[1], dtype=float))
          cur = dict(cur, points=cur["points"] + step[1], values=cur["values"] + [max(cur["values"])] * len(step[1]), noise=cur["noise"] + [1e-12] * len(step[1]))
        elif step[0] == "replace":
          hd = HistoricalData(xs.shape[1])
          hd.append_historical_data(numpy.array(cur["points"], dtype=float), numpy.array(step[1]["values"], dtype=float), numpy.array(step[1]["noise"], dtype=float))
          gp.update_historical_data(hd)
          cur = dict(cur, values=list(step[1]["values"]), noise=list(step[1]["noise"]))
        elif step[0] == "pending":
          pend_now = numpy.array(step[1], dtype=float).reshape(-1, xs.shape[1])
          qei.points_being_sampled = pend_now.copy()
      if min(cur["values"]) != best0:
        raise ValueError("history of a qEI case changes the incumbent")
      numpy.random.seed(inp["mc"]["seed"] + 7)
      try:
        got2 = float(qei.evaluate_at_point_list(x1)[0])
      except numpy.linalg.LinAlgError:
        raise
      except Exception as e:
        return fail("Monte-Carlo parallel EI raises on a live object whose predictor / pending points changed after it was built", repr(e), "an estimate")
      if len(pend_now):
        r = qei_independent_check(inp, cur, x1, pend_now, got2, best0, N, fail, " [live object: predictor / pending points changed after construction]")
        if r:
          return r
  return None


def gen_input(rng, quick):
  gi = gpgen.gen_gp_input(rng, well_conditioned=rng.random() < 0.7, allow_multitask=False, max_n=8)
  gi["tikhonov"] = None
  inp = dict(gp=gi, on_sampled=rng.random() < 0.4, thresholds=[rng.uniform(-1, 1), rng.uniform(-1, 1)],
             task_cost=rng.choice([None, 0.1, 0.5, 1.0]))
  if rng.random() < (0.1 if quick else 0.12):
    dim = len(gi["points"][0])
    k = rng.choice([0, 1, 1, 2])
    inp["mc"] = dict(seed=rng.randrange(10 ** 6), draws=20000, pending=[[rng.uniform(0, 1) for _ in range(dim)] for _ in range(k)])
    co = rng.choice([None, None, "x", "dup"]) if k else None
    if co == "x":       # the candidate coincides with a pending point
      inp["mc"]["pending"][rng.randrange(k)] = list(gi["xs"][0])
    elif co == "dup":   # the same pending point listed twice
      inp["mc"]["pending"].append(list(inp["mc"]["pending"][0]))
    inp["mc"]["coincident"] = co
    if rng.random() < 0.6:     # the life of the qEI object after it was built (see oracle): 1-3 steps, the incumbent stays what and where it was
      vals, n = list(gi["values"]), len(gi["values"])
      ib = min(range(n), key=lambda i: vals[i])
      lvl = sum(gi["noise"]) / n
      steps = [["evaluate"]] if rng.random() < 0.5 else []
      for _ in range(rng.choice([1, 1, 2, 3])):
        op = rng.choice(["lies", "replace", "replace", "pending", "pending"])
        if op == "lies":
          steps.append(["lies", [[rng.uniform(0, 1) for _ in range(dim)] for _ in range(rng.randint(1, 2))]])
        elif op == "replace":    # the model's data re-measured at the same locations: other values (none below the best one), other noise variances
          vals = [vals[i] if i == ib else vals[ib] + rng.uniform(0.05, 2.0) for i in range(len(vals))]
          steps.append(["replace", dict(values=list(vals), noise=[max(lvl, 1e-6) * rng.uniform(0.5, 2) for _ in range(len(vals))])])
        else:
          steps.append(["pending", [[rng.uniform(0, 1) for _ in range(dim)] for _ in range(rng.choice([1, 1, 2]))]])
        if op == "lies":
          vals = vals + [max(vals)] * len(steps[-1][1])
      inp["mc"]["history"] = steps
  return inp


def qei_oracle(inp):
  """Plain-Python exact restatement (fractions) of the property on a scripted run: the estimate of candidate set k is the mean, over
  the draws z its call executed (the least multiple of the block size reaching num_mc_iterations), of max(0, best - min_j y_j),
  y = m - L z, m = means of the set ++ pending means.  The returned double must be the correctly rounded value of that rational."""
  from fractions import Fraction as F
  try:
    got = run_qei_case(inp)["out"]
  except C.TieBroken:
    raise
  except Exception as e:
    return dict(signature="C05:qei:raises", what=f"Monte-Carlo parallel EI raised {type(e).__name__} on a scripted posterior: {e}", input=inp,
                observed=repr(e), expected="one estimate per candidate set", oracle="exact rational restatement")
  per_set, mp = qei_tables(inp)
  c, n = inp["q"] + inp["p"], len(inp["sets"])
  b = min(inp["B"], inp["N"])
  executed = -(-inp["N"] // b) * b
  bs = (inp["batch"] or n) if inp["entry"] == "public" else n
  want = []
  for k, (mk, L) in enumerate(per_set):
    off = (k // bs) * executed * c
    m = [F(v) for v in mk + mp]
    tot = F(0)
    for i in range(executed):
      z = [F(v) for v in inp["stream"][off + i * c: off + (i + 1) * c]]
      y = [m[j] - sum(F(L[j][l]) * z[l] for l in range(c)) for j in range(c)]
      tot += max(F(0), F(inp["best"]) - min(y))
    want.append(float(tot / executed))
  if len(got) != n or any(g != w for g, w in zip(got, want)):
    return dict(signature="C05:qei:estimate is not the mean improvement of the sample minimum", input=inp, observed=got, expected=want,
                what="Monte-Carlo parallel EI: an estimate is not the mean over the executed draws of max(0, best - min_j (m - L z)_j) for its own candidate set",
                oracle="exact rational restatement on a scripted posterior (stub predictor, prescribed factor, scripted draws)")
  return None


def qeih_oracle(inp):
  """Plain-Python exact restatement (fractions) for a history on one live object: every evaluation's estimate of candidate set k is the mean, over the
  draws its call executed, of max(0, best - min_j y_j), y = m - L z, where m = what the predictor answers AT THAT MOMENT for the set's points and for the
  pending points held AT THAT MOMENT, L = the factor of the covariance it answers then for their union, best = the predictor's best observed value when
  the object was CONSTRUCTED (the documented incumbent: read once).  The returned doubles must be the correctly rounded values of these rationals."""
  from fractions import Fraction as F
  try:
    got = run_qeih_case(inp)
  except C.TieBroken:
    raise
  except Exception as e:
    return dict(signature="C05:qeih:raises", what=f"Monte-Carlo parallel EI raised {type(e).__name__} during a history on one live object: {e}", input=inp,
                observed=repr(e), expected="one estimate per candidate set at every evaluation", oracle="exact rational restatement")
  best, now, pend, it = F(inp["predictors"][0]["best"]), inp["predictors"][0], inp["pending"], iter(got)
  b = min(inp["B"], inp["N"])
  executed = -(-inp["N"] // b) * b
  for op in inp["ops"]:
    if op[0] == "pred":
      now = inp["predictors"][op[1]]
    elif op[0] == "pending":
      pend = op[1]
    else:
      _, sets, entry, batch, _, st = op
      mean = {tuple(pt): m for pt, m in now["means"]}
      fac = {tuple(tuple(pt) for pt in u): L for u, L in now["factors"]}
      c, n = inp["q"] + len(pend), len(sets)
      bs = (batch or n) if entry == "public" else n
      want = []
      for k, sset in enumerate(sets):
        off = (k // bs) * executed * c
        m = [F(mean[tuple(pt)]) for pt in sset + pend]
        L = fac[tuple(tuple(pt) for pt in sset + pend)]
        tot = F(0)
        for i in range(executed):
          z = [F(v) for v in st[off + i * c: off + (i + 1) * c]]
          tot += max(F(0), best - min(m[j] - sum(F(L[j][l]) * z[l] for l in range(c)) for j in range(c)))
        want.append(float(tot / executed))
      have = next(it)["out"]
      if len(have) != n or any(g != w for g, w in zip(have, want)):
        return dict(signature="C05:qeih:an evaluation on a live object is not the estimate for the predictor's current answers and the current pending points", input=inp,
                    observed=have, expected=want,
                    what="Monte-Carlo parallel EI, history on one live object (the predictor's data changed / points_being_sampled were re-assigned after construction): an "
                         "estimate is not the mean over the executed draws of max(0, best - min_j (m - L z)_j) with the means and the factor the predictor answers NOW for "
                         "the candidate set ++ the pending points held NOW",
                    oracle="exact rational restatement on a scripted posterior (stub predictor whose answers change, prescribed factors, scripted draws)")
  return None


def qeif_expected(inp):
  """Plain-Python exact restatement (fractions), sharing nothing with the library or the Coq model.  Incumbent: the lowest observed
  value among the sampled points whose product of success probabilities exceeds 1/2 (else the predictor's best observed value).
  Estimate of candidate set k: over the blocks of draws its call executed, per draw z (ONE z for the objective and every failure
  model) the improvement max(0, best - y_j) of the lowest objective sample y = m + L z among the points j whose sampled failure-model
  values m_i + L_i z are ALL strictly below the thresholds (0 if there is no such point); a block in which this is zero for every
  set of the call and every draw contributes instead (product of success probabilities of the set's first point) * max(0, best - min y);
  divided by the number of executed draws.  Returns (estimates as exact fractions, incumbent, statistics)."""
  from fractions import Fraction as F
  per_set, fms, mp, hprobs = qeif_tables(inp)
  stats = {"blocks-masked": 0, "blocks-fallback": 0, "samples-feasible": 0, "samples-infeasible": 0, "samples-on-threshold": 0}
  okv = []
  for h, v in enumerate(inp["hist_values"]):
    pr = F(1)
    for row in hprobs:
      pr *= F(row[h])
    if pr > F(1, 2):
      okv.append(F(v))
  stats["acceptable"] = bool(okv)
  best = min(okv) if okv else F(inp["best0"])
  c, n = inp["q"] + inp["p"], len(inp["sets"])
  b = min(inp["B"], inp["N"])
  npass = -(-inp["N"] // b)
  executed = npass * b
  bs = (inp["batch"] or n) if inp["entry"] == "public" else n
  dot = lambda L, j, z: sum(F(L[j][l]) * z[l] for l in range(c))
  tot = [F(0)] * n
  for call in range(-(-n // bs)):
    members = list(range(call * bs, min((call + 1) * bs, n)))
    for t in range(npass):
      off = (call * executed + t * b) * c
      zs = [[F(v) for v in inp["stream"][off + d * c: off + (d + 1) * c]] for d in range(b)]
      masked, plain = {}, {}
      for k in members:
        (mk, L), fl, pr = per_set[k]
        m = [F(v) for v in mk + mp]
        for d, z in enumerate(zs):
          y = [m[j] + dot(L, j, z) for j in range(c)]
          ok = []
          for j in range(c):
            feas = True
            for i, (fmk, Lf) in enumerate(fl):
              fv = F((fmk + fms[i][0])[j]) + dot(Lf, j, z)
              stats["samples-on-threshold"] += fv == F(fms[i][1])
              feas = feas and fv < F(fms[i][1])
            stats["samples-feasible" if feas else "samples-infeasible"] += 1
            if feas:
              ok.append(y[j])
          masked[k, d] = max(F(0), best - min(ok)) if ok else F(0)
          plain[k, d] = max(F(0), best - min(y))
      fallback = all(v == 0 for v in masked.values())
      stats["blocks-fallback" if fallback else "blocks-masked"] += 1
      for k in members:
        sp = F(1)
        for v in per_set[k][2]:
          sp *= F(v)
        for d in range(b):
          tot[k] += sp * plain[k, d] if fallback else masked[k, d]
  return [t / executed for t in tot], best, stats


QEIF_FALLBACK_SIG = "C05:qeif:fallback-counts-the-improvement-of-an-infeasible-pending-point"


def qeif_fallback_instance(rng=None):
  """A call in which NO sample can contribute to the expected improvement over feasible points: the single candidate is feasible
  (sampled constraint value always below the threshold) but never improves (objective mean 10 above the incumbent 0), the pending point
  improves by about 5 but is never feasible (sampled constraint value always above the threshold).  The exact value is therefore 0 for
  every draw; the estimator's whole-pass fallback returns success-probability(candidate) * max(0, best - min over ALL points)."""
  import random as _r
  rng = rng or _r.Random(20260930)
  zs = [rng.randint(-8, 8) / 4.0 for _ in range(2 * 64 + 8)]
  return dict(kind="qeif", q=1, p=1, dim=1, sets=[[[0.0]]], pending=[[1.0]], hist=[[9.0]], hist_values=[0.0], best0=0.0,
              means=[[[0.0], 10.0], [[1.0], -5.0]], factors=[[[[0.0]], [[1.0, 0.0], [0.0, 1.0]]]],
              fmodels=[dict(threshold=0.0, means=[[[0.0], -8.0], [[1.0], 8.0]], probs=[[[0.0], 1.0], [[1.0], 0.0], [[9.0], 1.0]],
                            factors=[[[[0.0]], [[1.0, 0.0], [0.0, 1.0]]]])],
              regime="fallback-finding", N=64, B=64, entry="direct", batch=None, as3d=False, stream=zs)


def qeif_agreement_oracle(inp):
  """The clause 'Monte-Carlo parallel improvement with pending points and failure models agrees with the exact value within Monte-Carlo
  error' on a scripted posterior where the improvement over the FEASIBLE points is identically zero (no randomness left: the exact value
  and every admissible estimate are 0)."""
  from fractions import Fraction as F
  got = run_qeif_case(inp)
  per_set, fms, mp, _ = qeif_tables(inp)
  c = inp["q"] + inp["p"]
  best = F(inp["hist_values"][0])
  b = min(inp["B"], inp["N"])
  executed = -(-inp["N"] // b) * b
  for k, ((mk, L), fl, pr) in enumerate(per_set):
    m = [F(v) for v in mk + mp]
    for d in range(executed):
      z = [F(v) for v in inp["stream"][d * c:(d + 1) * c]]
      for j in range(c):
        y = m[j] + sum(F(L[j][l]) * z[l] for l in range(c))
        feas = all(F((fl[i][0] + fms[i][0])[j]) + sum(F(fl[i][1][j][l]) * z[l] for l in range(c)) < F(fms[i][1]) for i in range(len(fms)))
        if feas and y < best:
          return None     # some sample does improve over a feasible point: not the zero-variance situation this oracle decides
    if got["out"][k] != 0.0:
      return dict(signature=QEIF_FALLBACK_SIG, input=inp, observed=got["out"], expected=[0.0] * len(per_set),
                  what="Monte-Carlo parallel EI with failure models: no sample improves at a feasible point (the exact expected improvement over feasible points is 0 "
                       "whatever the draws), yet the estimate is positive: the whole-pass fallback weights max(0, best - min over ALL points), the infeasible pending "
                       "point included, by the candidate's success probability", oracle="exact rational evaluation of every sample's feasibility and improvement")
  return None


def qeif_oracle(inp):
  """the returned doubles must be the correctly rounded values of the rationals of qeif_expected, the incumbent exactly"""
  try:
    got = run_qeif_case(inp)
  except C.TieBroken:
    raise
  except Exception as e:
    return dict(signature="C05:qeif:raises", what=f"Monte-Carlo parallel EI with failure models raised {type(e).__name__} on a scripted posterior: {e}", input=inp,
                observed=repr(e), expected="one estimate per candidate set", oracle="exact rational restatement")
  want, best, _ = qeif_expected(inp)
  if got["best"] != float(best):
    return dict(signature="C05:qeif:incumbent is not the best observation with success probability > 1/2", input=inp, observed=got["best"], expected=float(best),
                what="parallel EI with failure models: the incumbent is not the lowest observed value among the sampled points whose product of success probabilities "
                     "exceeds 1/2 (fallback: the predictor's best observed value)", oracle="exact rational restatement on a scripted posterior")
  want = [float(w) for w in want]
  if len(got["out"]) != len(want) or any(g != w for g, w in zip(got["out"], want)):
    return dict(signature="C05:qeif:estimate is not the mean masked improvement of the feasible sample minimum", input=inp, observed=got["out"], expected=want,
                what="Monte-Carlo parallel EI with failure models: an estimate is not, over the blocks its call executed, the mean of max(0, best - min over the points whose "
                     "sampled failure-model values are all strictly below their thresholds of (m + L z)_j), with success-probability weighted plain improvements in the blocks "
                     "where all of these vanish", oracle="exact rational restatement on a scripted posterior (stub predictors, prescribed factors, scripted draws)")
  return None


def _guarded(fn, inp):
  """an exception raised by the implementation while a searcher input is evaluated is a finding about that input (the estimate is
  neither finite nor non-negative: there is none), not a crash of the searcher"""
  try:
    return fn(inp)
  except (C.TieBroken, numpy.linalg.LinAlgError):
    raise
  except Exception as e:   # noqa: BLE001
    return dict(signature=f"C05:raises:{type(e).__name__}", what=f"the implementation raised {type(e).__name__} on a searcher input: {str(e)[:200]}", input=inp,
                observed=repr(e)[:300], expected="a finite non-negative value", oracle="no exception on a valid input")


def search(ctx, hints, broken):
  fails, n = [], 0
  # the registered finding (KNOWN_FINDINGS.json), exhibited on every run: deterministic instance + a few variants of the same structure
  for k in range(4):
    inst = qeif_fallback_instance(None if k == 0 else random.Random(f"qeif-fallback:{ctx.seed}:{k}"))
    n += 1
    r = _guarded(qeif_agreement_oracle, inst)
    if r and r["signature"] not in {f["signature"] for f in fails}:
      fails.append(r)
  for h in hints:
    if isinstance(h.get("input"), dict) and h["input"].get("kind") in ("qei", "qeif", "qeih"):
      n += 1
      try:
        r = _guarded(oracle, h["input"])
      except numpy.linalg.LinAlgError:
        r = None
      if r and r["signature"] not in {f["signature"] for f in fails}:
        fails.append(r)
  for _ in range(ctx.n(250, 4000) * (2 if broken else 1)):
    inp = gen_input(ctx.rng, ctx.quick())
    n += 1
    try:
      r = oracle(inp)
    except numpy.linalg.LinAlgError:
      continue
    except AttributeError as e:
      r = dict(signature=f"C05:raises:AttributeError", what=f"raised AttributeError: {e}", input=inp, observed=repr(e), expected="a value", oracle="no exception")
    if r:
      fails.append(r)
      if len(fails) >= 3:
        break
  for _ in range(ctx.n(60, 600)):
    n += 1
    r = _guarded(oracle, gen_qei_case(ctx.rng))
    if r:
      if r["signature"] not in {f["signature"] for f in fails}:
        fails.append(r)
      break
  for _ in range(ctx.n(60, 600)):
    n += 1
    r = oracle(gen_qeih_case(ctx.rng))
    if r:
      if r["signature"] not in {f["signature"] for f in fails}:
        fails.append(r)
      break
  for inp in [i for _, i in QEIF_FIXED] + [gen_qeif_case(ctx.rng) for _ in range(ctx.n(40, 400))]:
    n += 1
    r = _guarded(oracle, inp)
    if r:
      if r["signature"] not in {f["signature"] for f in fails}:
        fails.append(r)
      break
  return dict(evaluations=n, failures=fails, oracle="exact rational restatement of the scripted Monte-Carlo parallel EI (with and without failure models); Gauss-Legendre quadrature of E[max(best-Y,0)], closed-form probabilities, Monte-Carlo 6-sigma band")


def replay(ctx, payload):
  inp = payload["input"]
  fn = qeif_agreement_oracle if isinstance(inp, dict) and inp.get("regime") == "fallback-finding" and inp.get("kind") != "qeif" else oracle
  try:
    return _guarded(fn, inp)
  except numpy.linalg.LinAlgError:
    return None

# --- gap round B (seeded C05_m13): histories on one live parallel-EI object
LEVEL_TEXT += ("; histories on ONE live parallel-EI object (Model/ParallelEIHist.v, exact op-sequence correspondence on the real class over a stub predictor whose answers are "
               "swapped, as after gp.update_historical_data, and whose points_being_sampled are re-assigned): the object keeps only the incumbent of its construction, its pending "
               "points and the iteration counts; every evaluation is the estimator on what the predictor answers THEN for the candidates and for the pending points held THEN "
               "(C05_qei_hist_state, C05_qei_hist_eval_is_fresh, C05_qei_hist_estimate); the searcher's comparison with the independent estimate is also made after lie data "
               "were appended to / the data replaced in the live GP and after the pending points were re-assigned (incumbent unchanged by construction)")
LEVEL_TEXT += ("; in a third of the scripted parallel-EI cases (with and without failure models) the object has a past: it was built and evaluated once while every predictor "
               "answered differently (other means, the other admissible factor -L), then the predictors changed to what the case prescribes - model, reading and exact oracle are those of a fresh object")
