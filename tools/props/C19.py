"""C19 — search acquisition is a success probability that vanishes near known points."""
import copy
import fractions
import math
import types

import numpy

from lib import common as C
from py2v import gen

PROP = "C19"
PROPS_FILES = ["Props/C19.v", "Props/C19_cdf.v", "Props/C19_view.v"]
ASSUMPTIONS = [
  "exact arithmetic over Q: every finite double is a rational; on the exact streams (dyadic coordinates, power-of-two widths, "
  "square one-hot dimension) every double operation of the implementation is exact, elsewhere a stated tolerance is used",
  "squared distances, no sqrt: 'within the repulsion radius' is squared distance < distance parameter (DESIGN 7.0); the "
  "categorical target numpy.sqrt(one_hot_dim) is an argument t of the model, theorems hold for every t",
  "the failure model is a function point -> [0,1] evaluated row by row (contract; the logistic and product forms are proved to "
  "keep [0,1]; for the CDF form - the one the search endpoints build - the range is a theorem about the definitions regenerated from "
  "probabilistic_failures.py (Props/C19_cdf.v: every factor Phi((t - mean)/sd) lies in (0,1) by the Gaussian integral proved in Lib/Gauss.v, the product in [0,1]); "
  "that scipy.stats.norm.cdf is Phi remains a contract)",
  "the failure model's dimension equals the domain's one-hot dimension (the constructor does not check it)",
  "the optimiser is an arbitrary function of the acquisition function's state; numpy.random.choice in get_distance_parameter "
  "returns a member of the list it is given",
  "aliasing clauses (state restored, inputs unmodified) are decided by run-time comparison in the harness",
]
TRUSTED = ["tools/props/C19.py case generator, scripted failure model / optimiser / numpy.random.choice, Q-literal printer",
           "Model/SearchAFCorr.v check function",
           "search view (kind sview): lib.c06_util request builder / object reader and tools/props/C06.py literal printers (shared with C06), "
           "Model/SearchViewCorr.v svcheck (C06's pf_match comparison)"]

F = fractions.Fraction
HEADER = ("From Coq Require Import List QArith Bool Arith.\nFrom LV Require Import Model.SearchAF Model.SearchAFCorr.\n"
          "Open Scope Q_scope.")
# the real search view's failure model (kind "sview"): own case type, on the request / description types of Model/Wiring.v (C06)
HEADER_SV = ("From Coq Require Import List QArith ZArith Bool.\n"
             "From LV Require Import Model.Domain Model.Midpoint Model.Phases Model.Wiring Model.WiringCorr Model.SearchView Model.SearchViewCorr.\n"
             "Open Scope Q_scope.")
SCHEDULE = [0.04, 0.01, 0.0025, 0.0004]

# ------------------------------------------------------------------------------------------ domain descriptions
# desc = list of ["double"|"int", lo, hi] | ["quantized", [elements]] | ["categorical", k]


def mk_domain(desc):
  from libsigopt.compute.domain import CategoricalDomain
  comps = []
  for c in desc:
    if c[0] == "categorical":
      comps.append(dict(var_type="categorical", elements=list(range(1, c[1] + 1))))
    elif c[0] == "quantized":
      comps.append(dict(var_type="quantized", elements=list(c[1])))
    else:
      comps.append(dict(var_type=c[0], elements=[c[1], c[2]]))
  return CategoricalDomain(comps)


def bounds_of(c):
  if c[0] == "quantized":
    return min(c[1]), max(c[1])
  return c[1], c[2]


def oh_dim(desc):
  return sum(c[1] if c[0] == "categorical" else 1 for c in desc)


def coq_domain(desc):
  out = []
  for c in desc:
    if c[0] == "categorical":
      out.append(f"Cat {C.nlit(c[1])}")
    else:
      lo, hi = bounds_of(c)
      out.append(f"Num {C.qlit(lo)} {C.qlit(hi)}")
  return C.listlit(out)


def coq_bounds(desc):
  out = []
  for c in desc:
    if c[0] == "categorical":
      out += ["(0, 1)"] * c[1]
    else:
      lo, hi = bounds_of(c)
      out.append(f"({C.qlit(lo)}, {C.qlit(hi)})")
  return C.listlit(out)


def pt(p):
  return C.listlit([float(x) for x in p], C.qlit)


def pts(ps):
  return C.listlit(list(ps), pt)


def target(desc):
  """The categorical target as the harness computes it (correctly rounded sqrt, like numpy.sqrt)."""
  return math.sqrt(oh_dim(desc))


# ------------------------------------------------------------------------------------------ independent oracle pieces
# plain Python over exact rationals of the float inputs; no library code, no Coq model


def o_search(desc, p):
  """Normalised image: numeric coordinates as exact rationals, categorical parameters as the selected index."""
  num, cats, i = [], [], 0
  for c in desc:
    if c[0] == "categorical":
      blk = [F(float(x)) for x in p[i:i + c[1]]]
      best = 0
      for j in range(1, len(blk)):
        if blk[j] > blk[best]:
          best = j
      cats.append(best)
      i += c[1]
    else:
      lo, hi = (F(float(v)) for v in bounds_of(c))
      num.append((F(float(p[i])) - lo) / (hi - lo))
      i += 1
  return num, cats


def o_sqdist(desc, p, q):
  """Exact squared distance in the normalised space with the exact (irrational) target: a differing category adds 2 D."""
  n1, c1 = o_search(desc, p)
  n2, c2 = o_search(desc, q)
  return sum((a - b) ** 2 for a, b in zip(n1, n2)) + 2 * oh_dim(desc) * sum(1 for a, b in zip(c1, c2) if a != b)


def o_exact(desc, points, dp):
  """True when the implementation's double arithmetic on these inputs is exact (decided from the inputs alone)."""
  def small(x):
    d = x.denominator
    return d & (d - 1) == 0 and d <= 4096 and abs(x) <= 64
  D = oh_dim(desc)
  if any(c[0] == "categorical" for c in desc) and math.isqrt(D) ** 2 != D:
    return False
  if not small(F(dp) / 64):
    return False
  for c in desc:
    if c[0] != "categorical" and not all(small(F(float(v))) for v in bounds_of(c)):
      return False
  return all(small(x) for p in points for x in o_search(desc, p)[0]) and all(small(F(float(x))) for p in points for x in p)


def o_search_float(desc, p):
  """Full normalised vector (floats) for comparison with the implementation's repulsor rows."""
  num, cats = o_search(desc, p)
  out, ni, ci, t = [], 0, 0, math.sqrt(oh_dim(desc))
  for c in desc:
    if c[0] == "categorical":
      out += [t if j == cats[ci] else 0.0 for j in range(c[1])]
      ci += 1
    else:
      out.append(float(num[ni]))
      ni += 1
  return out


# ------------------------------------------------------------------------------------------ implementation drivers


def scripted_fm(dim, table, default=0.5):
  from libsigopt.compute.probabilistic_failures import ProbabilisticFailuresBase

  class Scripted(ProbabilisticFailuresBase):
    def __init__(self):
      self.table = {tuple(float(x) for x in k): float(v) for k, v in table}
      self.calls = []

    @property
    def dim(self):
      return dim

    @property
    def differentiable(self):
      return False

    @property
    def info_for_logs(self):
      return {"scripted": len(self.table)}

    def __len__(self):
      return 1

    def compute_failure_components(self, points_to_evaluate, option):
      return numpy.array(points_to_evaluate, dtype=float)

    def _compute_probability_of_success(self, failure_components):
      self.calls.append(len(failure_components))
      if not self.table:
        return numpy.full(len(failure_components), default)
      return numpy.array([self.table.get(tuple(r), default) for r in failure_components.tolist()], dtype=float)

  return Scripted()


def gp_fm(dim, spec):
  """A real failure model over a GP: spec = dict(seed, n, kinds=['logistic'|'cdf', ...], thresholds=[...])."""
  from libsigopt.compute.covariance import SquareExponential
  from libsigopt.compute.gaussian_process import GaussianProcess
  from libsigopt.compute.misc.data_containers import HistoricalData
  from libsigopt.compute.probabilistic_failures import (ProbabilisticFailures, ProbabilisticFailuresCDF,
                                                        ProductOfListOfProbabilisticFailures)
  rs = numpy.random.RandomState(spec["seed"])
  pfs = []
  for kind, thr in zip(spec["kinds"], spec["thresholds"]):
    hd = HistoricalData(dim)
    x = rs.uniform(-1, 2, size=(spec["n"], dim)) * spec.get("scale", 1.0)
    y = rs.normal(size=spec["n"]) * spec.get("yscale", 1.0)
    hd.append_historical_data(x, y, numpy.full(spec["n"], 1e-3))
    gp = GaussianProcess(SquareExponential([1.0] + [spec.get("ls", 1.5) * spec.get("scale", 1.0)] * dim), hd)
    pfs.append((ProbabilisticFailures if kind == "logistic" else ProbabilisticFailuresCDF)(gp, thr))
  if len(pfs) == 1 and not spec.get("wrap"):
    return pfs[0], pfs
  return ProductOfListOfProbabilisticFailures(pfs), pfs


def make_fm(dim, fm):
  if fm["type"] == "table":
    return scripted_fm(dim, fm["table"], fm.get("default", 0.5)), None
  return gp_fm(dim, fm["spec"])


def arr(ps, dim, style=None):
  """the rows as an array, in the form `style` of lib.gpgen.HANDOVER_STYLES (None: a fresh float64 C array).  The numbers are the same in every
  form - integer dtype (what numpy.array() makes of one-hot rows written with Python ints, as the views do on int / categorical domains),
  float32, Fortran order, a strided view, a read-only array - so nothing an entry point returns may depend on it."""
  from lib import gpgen
  a = numpy.array(ps, dtype=float)
  return a.reshape((len(ps), dim)) if len(ps) == 0 else gpgen.handover(a, style)


def style_of(inp, key):
  return (inp.get("handover") or {}).get(key)


class ScriptedChoice:
  """Patch numpy.random.choice so that the schedule draw of get_distance_parameter comes from a script."""

  def __init__(self, draws):
    self.draws, self.calls, self.orig = list(draws), [], numpy.random.choice

  def __enter__(self):
    def choice(a, size=None, *args, **kw):
      try:
        lst = [float(x) for x in a]
      except TypeError:
        lst = None
      if lst is not None and len(lst) == 4 and self.draws:
        self.calls.append((lst, size))
        k = self.draws.pop(0)
        return numpy.array([a[k]]) if size is not None else a[k]
      return self.orig(a, size, *args, **kw)
    numpy.random.choice = choice
    return self

  def __exit__(self, *exc):
    numpy.random.choice = self.orig
    return False


def eval_setup(inp, dom=None):
  """constructor and add_normalized_repulsor_point calls of an eval case (on the live domain object `dom` when one is given)"""
  from libsigopt.compute.search import ProbabilityOfImprovementSearch
  desc = inp["domain"]
  dom, D = dom or mk_domain(desc), oh_dim(desc)
  fm, pfs = make_fm(D, inp["fm"])
  dp = numpy.array([inp["dp"]]) if inp.get("dp_as_array") else inp["dp"]
  r0 = None if inp["r0"] is None else arr(inp["r0"], D, style_of(inp, "r0"))
  r0_before = None if r0 is None else r0.copy()
  af = ProbabilityOfImprovementSearch(dom, fm, dp, r0)
  adds = [arr(a, D, style_of(inp, "adds")) for a in inp["adds"]]
  adds_before = [a.copy() for a in adds]
  for a in adds:
    af.add_normalized_repulsor_point(a)
  return dict(af=af, fm=fm, pfs=pfs, dp=dp, r0=r0, r0_before=r0_before, adds=adds, adds_before=adds_before, D=D)


def run_eval(inp, dom=None, st=None):
  st = st or eval_setup(inp, dom)
  af, fm, pfs, dp, r0, r0_before, adds, adds_before, D = (st[k] for k in ("af", "fm", "pfs", "dp", "r0", "r0_before", "adds", "adds_before", "D"))
  p = arr(inp["pts"], D, style_of(inp, "pts"))
  p_before = p.copy()
  if inp.get("pre_dp") is not None:
    # the same object has already scored the same points under another (larger) radius, as it does between two picks of one call:
    # what it returns now is the value for the radius and the repulsors it carries NOW
    af.distance_parameter = numpy.array([inp["pre_dp"]]) if inp.get("dp_as_array") else inp["pre_dp"]
    af.evaluate_at_point_list(p)
    af.evaluate_at_point_list(p, batch_size=2)
    af.distance_parameter = dp
  outs = {}
  for bs in inp["batch_sizes"]:
    outs[str(bs)] = [float(v) for v in af.evaluate_at_point_list(p, batch_size=bs)]
  unmodified = numpy.array_equal(p, p_before) and (r0 is None or numpy.array_equal(r0, r0_before)) and all(
    numpy.array_equal(a, b) for a, b in zip(adds, adds_before))
  out = dict(values=outs, reps=af.repulsor_points.tolist(), inputs_unmodified=bool(unmodified), pts_dtype=str(p.dtype))
  if pfs is not None:
    out["factors"] = [[float(v) for v in pf.compute_probability_of_success(p)] for pf in pfs]
    out["fm_values"] = [float(v) for v in fm.compute_probability_of_success(p)]
  return out


def run_loop(inp, dom=None):
  """search_strategy_optimization with a scripted optimiser (the DEOptimizer name in the view module is replaced)."""
  from libsigopt.compute.search import ProbabilityOfImprovementSearch
  from libsigopt.views.rest import search_next_points as snp
  desc = inp["domain"]
  dom, D = dom or mk_domain(desc), oh_dim(desc)
  fm, _ = make_fm(D, inp["fm"])
  af = ProbabilityOfImprovementSearch(dom, fm, inp["dp0"], arr(inp["r0"], D, style_of(inp, "r0")))
  init_reps = af.repulsor_points.copy()
  picks = [numpy.array(p, dtype=float) for p in inp["picks"]]
  trace = []

  class StubOptimizer:
    def __init__(self, **kw):
      self.af = kw["acquisition_function"]

    def __repr__(self):
      return "StubOptimizer"

    def optimize(self, x0):
      i = len(trace)
      prev = []
      if i > 0:
        prev = [float(v) for v in self.af.evaluate_at_point_list(numpy.array(picks[:i]))]
      trace.append(dict(reps=self.af.repulsor_points.tolist(), dp=float(numpy.asarray(self.af.distance_parameter).reshape(-1)[0]),
                        prev_vals=prev, x0_shape=list(numpy.asarray(x0).shape)))
      return picks[i].copy(), None

  orig = snp.DEOptimizer
  snp.DEOptimizer = StubOptimizer
  state = numpy.random.get_state()
  numpy.random.seed(inp.get("np_seed", 0))
  try:
    with ScriptedChoice(inp["draws"]) as sc:
      ret, _ = snp.search_strategy_optimization(af, len(picks))
      calls = sc.calls
  finally:
    snp.DEOptimizer = orig
    numpy.random.set_state(state)
  return dict(trace=trace, ret=numpy.asarray(ret).tolist(), init_reps=init_reps.tolist(), fin_reps=af.repulsor_points.tolist(),
              fin_dp=float(numpy.asarray(af.distance_parameter).reshape(-1)[0]), choice_calls=[[c[0], c[1]] for c in calls])


def run_realloop(inp):
  """search_strategy_optimization with the REAL differential-evolution optimiser (small budgets) on a real failure model: returns the picks,
  and for every pick the acquisition values - under the repulsors and radius in force when it was chosen - of the pick and of a sample of
  the domain (recorded through a wrapper of the optimiser class, the library code itself is untouched)."""
  import dataclasses
  from libsigopt.compute.search import ProbabilityOfImprovementSearch
  from libsigopt.views.rest import search_next_points as snp
  desc = inp["domain"]
  dom, D = mk_domain(desc), oh_dim(desc)
  fm, _ = make_fm(D, inp["fm"])
  af = ProbabilityOfImprovementSearch(dom, fm, inp["dp0"], arr(inp["r0"], D))
  rounds = []
  real_de = snp.DEOptimizer

  class Recording(real_de):
    def optimize(self, *a, **k):
      best, res = super().optimize(*a, **k)
      probe = dom.one_hot_domain.generate_quasi_random_points_in_domain(64)
      rounds.append(dict(pick=numpy.array(best, dtype=float).tolist(), value_at_pick=float(self.af.evaluate_at_point_list(numpy.atleast_2d(best))[0]),
                         best_probe=float(numpy.max(self.af.evaluate_at_point_list(probe))), repulsors=self.af.repulsor_points.tolist(),
                         dp=float(numpy.asarray(self.af.distance_parameter).reshape(-1)[0])))
      return best, res

  info, maxiter = snp.DEFAULT_SEARCH_OPTIMIZER_INFO, snp.SEARCH_OPTIMIZER_MAXITER
  small = info._replace(num_multistarts=24, num_random_samples=48) if hasattr(info, "_replace") else dataclasses.replace(info, num_multistarts=24, num_random_samples=48)
  snp.DEOptimizer, snp.DEFAULT_SEARCH_OPTIMIZER_INFO, snp.SEARCH_OPTIMIZER_MAXITER = Recording, small, 12
  state = numpy.random.get_state()
  numpy.random.seed(inp["np_seed"])
  try:
    ret, _ = snp.search_strategy_optimization(af, inp["k"])
  finally:
    snp.DEOptimizer, snp.DEFAULT_SEARCH_OPTIMIZER_INFO, snp.SEARCH_OPTIMIZER_MAXITER = real_de, info, maxiter
    numpy.random.set_state(state)
  return dict(ret=numpy.asarray(ret).tolist(), rounds=rounds)


def oracle_realloop(inp):
  """Within one search optimisation every pick becomes a repulsor before the next is chosen: a later pick is never (within rounding) an
  earlier pick of the same call while the acquisition function - under the repulsors then in force - is positive somewhere."""
  out = run_realloop(inp)
  picks = [numpy.array(r["pick"]) for r in out["rounds"]]
  for i, r in enumerate(out["rounds"]):
    for j in range(i):
      if float(numpy.abs(picks[i] - picks[j]).max()) < 1e-12 and r["best_probe"] > 0:
        return dict(signature="C19:realloop:pick-repeats-an-earlier-pick", what="realloop: a pick of a multi-point search call repeats an earlier pick of the same call although "
                    "positive-valued candidates exist (the earlier pick was not in force as a repulsor for the optimiser that returned it)", input=dict(kind="realloop", **inp),
                    observed=dict(picks=[p.tolist() for p in picks], value_at_pick=r["value_at_pick"], best_probe=r["best_probe"]), expected="distinct picks", oracle="recorded rounds")
    if r["value_at_pick"] < r["best_probe"] * 0.0 and False:
      pass
  return None


def gen_realloop(rng):
  desc = gen_desc(rng, False)
  return dict(domain=desc, dp0=float(rng.choice([0.01, 0.05, 0.2])), r0=[gen_point(rng, desc, False) for _ in range(rng.choice([0, 1, 3]))], k=rng.choice([2, 3, 4]),
              np_seed=rng.randrange(2 ** 31),
              fm=dict(type="gp", spec=dict(seed=rng.randint(0, 10 ** 6), n=rng.randint(3, 8), kinds=[rng.choice(["logistic", "cdf"])], thresholds=[round(rng.uniform(-0.5, 1), 2)],
                                           wrap=rng.random() < 0.5, scale=rng.choice([1.0, 4.0]), yscale=1.0)))


def run_view(inp, dom=None):
  """The body of SearchNextPoints.next_points_probability_improvement on a stand-in `self`."""
  from libsigopt.views.rest import search_next_points as snp
  desc = inp["domain"]
  dom, D = dom or mk_domain(desc), oh_dim(desc)
  fm, _ = make_fm(D, dict(type="table", table=[]))
  seen = {}

  class StubOptimizer:
    def __init__(self, **kw):
      self.af = kw["acquisition_function"]
      seen.setdefault("reps", self.af.repulsor_points.tolist())
      seen.setdefault("dp", float(numpy.asarray(self.af.distance_parameter).reshape(-1)[0]))

    def __repr__(self):
      return "StubOptimizer"

    def optimize(self, x0):
      return numpy.asarray(x0)[0].copy(), None

  me = types.SimpleNamespace(
    params=dict(num_to_sample=1), form_probabilistic_failures_model=lambda: fm, domain=dom, tag={},
    one_hot_points_sampled_points=arr(inp["sampled"], D, style_of(inp, "sampled")),
    one_hot_points_being_sampled_points=arr(inp["pending"], D, style_of(inp, "pending")))
  orig = snp.DEOptimizer, snp.convert_from_one_hot
  snp.DEOptimizer = StubOptimizer
  snp.convert_from_one_hot = lambda p, d, a: p
  state = numpy.random.get_state()
  numpy.random.seed(0)
  try:
    with ScriptedChoice([inp["draw"], 0]):
      snp.SearchNextPoints.next_points_probability_improvement(me)
  finally:
    snp.DEOptimizer, snp.convert_from_one_hot = orig
    numpy.random.set_state(state)
  return dict(reps=seen["reps"], dp=seen["dp"], tag_reps=numpy.asarray(me.tag["af_info"]["repulsor_points"]).tolist())


# ------------------------------------------------------------------------------------------ histories on ONE live domain object
# Every other kind builds a fresh CategoricalDomain per call sequence.  A view keeps one domain object for its whole life and the
# helpers are handed that same object again and again (normalise, map back, normalise the next batch, evaluate ...): kind "hist" is a
# list of ordinary call sequences (`ops`: unit / search / dist / eval / view / loop, each with the input of that kind) run one after the
# other on ONE domain object.  An eval op marked `early` has its acquisition function constructed (repulsors normalised) BEFORE the
# first op and evaluated when its turn comes.  What each op returns must be what it returns on a fresh domain, and the domain's
# bounds must be what they were (a caller-owned input).

HIST_KINDS = ("unit", "search", "dist", "eval", "view", "loop")


def _domain_state(dom):
  lo, hi = dom.one_hot_domain.get_lower_upper_bounds()
  return [numpy.array(lo, dtype=float, copy=True), numpy.array(hi, dtype=float, copy=True),
          numpy.array(dom.one_hot_domain.domain_bounds, dtype=float, copy=True)]


def run_hist(inp):
  dom = mk_domain(inp["domain"])
  state0 = _domain_state(dom)
  early = {i: eval_setup(op["inp"], dom) for i, op in enumerate(inp["ops"]) if op["kind"] == "eval" and op.get("early")}
  outs = []
  for i, op in enumerate(inp["ops"]):
    assert op["kind"] in HIST_KINDS
    out = run_impl(op["kind"], op["inp"], dom=dom, st=early.get(i))
    out["domain_unmodified"] = bool(all(numpy.array_equal(a, b) for a, b in zip(state0, _domain_state(dom))))
    outs.append(out)
  return dict(outs=outs)


# ------------------------------------------------------------------------------------------ the REAL search view
# kind "sview": SearchNextPoints(params) built from a raw request (format of lib.c06_util: plain lists), with several metrics of which
# the constraint metrics are listed in ANY order and interleaved with stored metrics; next_points_probability_improvement() is run with
# the optimisation replaced by a recorder, and the acquisition function the view built is evaluated at the request's query points.


def raw_dim(comps):
  return sum(len(c["el"]) if c["t"] == "cat" else 1 for c in comps)


def raw_bounds(c):
  return (c["lo"], c["hi"]) if c["t"] in ("double", "int") else (min(c["el"]), max(c["el"]))


def raw_sqdist(comps, p, q):
  """own squared distance in the normalised search space of two CONFIGURATIONS (category labels, not one-hot)"""
  D, tot = raw_dim(comps), F(0)
  for x, y, c in zip(p, q, comps):
    if c["t"] == "cat":
      tot += 2 * D if x != y else 0
    else:
      lo, hi = (F(float(v)) for v in raw_bounds(c))
      tot += ((F(float(x)) - F(float(y))) / (hi - lo)) ** 2
  return tot


def run_sview(inp):
  from lib import c06_util as U
  from libsigopt.views.rest import search_next_points as snp
  raw = inp["raw"]
  params = U.build_params(raw)
  params["num_to_sample"] = 1
  comps = raw["comps"]
  before = (numpy.array(params["points_sampled"].values, copy=True), numpy.array(params["points_sampled"].points, copy=True))
  view = snp.SearchNextPoints(params)
  got = {}

  def recorder(acquisition_function, num_to_sample):
    got["af"] = acquisition_function
    return numpy.array([U.r_one_hot(comps, raw["points"][0], None)] * num_to_sample, dtype=float), {}

  orig = snp.search_strategy_optimization, snp.convert_from_one_hot
  snp.search_strategy_optimization = recorder
  snp.convert_from_one_hot = lambda p, d, a: p
  state = numpy.random.get_state()
  numpy.random.seed(0)
  try:
    with ScriptedChoice([inp["draw"]]):
      view.next_points_probability_improvement()
  finally:
    snp.search_strategy_optimization, snp.convert_from_one_hot = orig
    numpy.random.set_state(state)
  af = got["af"]
  xq = numpy.array([U.r_one_hot(comps, q, None) for q in raw["evalp"]], dtype=float)
  values = [float(v) for v in af.evaluate_at_point_list(xq.copy())]
  members = list(af.failure_model.list_of_probabilistic_failures)
  return dict(values=values, dp=float(numpy.asarray(af.distance_parameter).reshape(-1)[0]), reps=numpy.asarray(af.repulsor_points).tolist(),
              factors=[[float(v) for v in m.compute_probability_of_success(xq.copy())] for m in members],
              pfs=[dict(kind=type(m).__name__, thr=float(m.threshold), gp=U._gp_obs(m.predictor)) for m in members],
              inputs_unmodified=bool(numpy.array_equal(before[0], params["points_sampled"].values) and numpy.array_equal(before[1], params["points_sampled"].points)))


COND_MAX = 1e9


def ref_sview(raw):
  """Independent per-metric reference of the search view's success probability: for EVERY constraint metric c (identified by its
  column number, whatever its place in the index list) a Gaussian process on that metric's own column (scaled by that metric's own
  midpoint map, failures and - under constant liar - pending points holding its own worst value), with that metric's own
  hyperparameters, against that metric's own threshold; the value is the product of Phi((t_c - mean_c) / sd_c).  Plain Python /
  numpy.linalg (lib.c06_util.RefGP, r_midpoint: no library code).  Returns per query point (probability, tolerance), or None when a
  kernel matrix is too ill-conditioned to judge."""
  from lib import c06_util as U
  comps, fails, n = raw["comps"], list(raw["fails"]), len(raw["points"])
  dim = raw_dim(comps)
  mean_rows = U.r_poly_rows(raw["mean"], raw["poly"], dim)
  X = [U.r_one_hot(comps, q, None) for q in raw["points"]]
  XP = [U.r_one_hot(comps, q, None) for q in raw["pending"]]
  XQ = [U.r_one_hot(comps, q, None) for q in raw["evalp"]]
  liar = raw["par"] == "constant_liar"
  models = []
  for c in raw["con_ix"]:
    col = [raw["values"][r][c] for r in range(n)]
    m = U.r_midpoint(col, fails, raw["objs"][c])
    lie = U.r_scale(m, m["worst"])
    y = [lie if fails[r] else U.r_scale(m, col[r]) for r in range(n)]
    nv = [U.r_scale_var(m, raw["vars"][r][c]) for r in range(n)]
    Xr = list(X)
    if liar:
      Xr, y, nv = Xr + XP, y + [lie] * len(XP), nv + [U.LIE_NOISE] * len(XP)
    gp = U.RefGP(Xr, y, nv, raw["hypers"][c], comps, False, mean_rows)
    if gp.cond > COND_MAX:
      return None
    models.append((gp, U.r_scale(m, float(raw["thr"][c])), max(abs(v) for v in y) if y else 0.0))
  out = []
  for q in XQ:
    prob, tol = 1.0, 1e-9
    for gp, t, ymax in models:
      mu, var = gp.predict(q)
      sd = math.sqrt(var)
      z = (t - mu) / sd
      prob *= U._phi(z)
      # rounding of the two posterior solves (forward error ~ eps * cond): d mean <= 1e-15 cond |y|, d var <= 1e-15 cond alpha;
      # |d Phi| <= 0.4 |dz|, dz = d mean / sd + |z| d var / (2 var)
      dmu = (1e-12 + 1e-15 * gp.cond) * (ymax + abs(t) + 1e-3)
      dvar = (1e-13 + 1e-15 * gp.cond) * gp.alpha
      tol += 0.4 * (dmu / sd + abs(z) * dvar / (2 * var))
    out.append((prob, tol))
  return out


def run_impl(kind, inp, dom=None, st=None):
  """one call sequence of kind `kind`; on the live domain object `dom` when one is given (kind 'hist'), else on a fresh one"""
  from libsigopt.compute import search as S
  from libsigopt.aux.geometry_utils import compute_distance_matrix_squared
  if kind == "eval":
    return run_eval(inp, dom, st)
  if kind == "loop":
    return run_loop(inp, dom)
  if kind == "view":
    return run_view(inp, dom)
  if kind == "hist":
    return run_hist(inp)
  if kind == "sview":
    return run_sview(inp)
  desc = inp.get("domain")
  if kind == "search":
    dom = dom or mk_domain(desc)
    p = arr(inp["pts"], oh_dim(desc), style_of(inp, "pts"))
    before = p.copy()
    out = S.convert_one_hot_to_search_hypercube_points(dom, p)
    return dict(out=out.tolist(), inputs_unmodified=bool(numpy.array_equal(p, before)))
  if kind == "unit":
    dom = dom or mk_domain(desc)
    p = arr(inp["pts"], oh_dim(desc), style_of(inp, "pts"))
    before = p.copy()
    u = S.map_non_categorical_points_to_unit_hypercube(dom.one_hot_domain, p)
    u_before = u.copy()
    b = S.map_non_categorical_points_from_unit_hypercube(dom.one_hot_domain, u)
    return dict(to=u.tolist(), back=b.tolist(), inputs_unmodified=bool(numpy.array_equal(p, before) and numpy.array_equal(u, u_before)))
  if kind == "dist":
    dom = dom or mk_domain(desc)
    sp = S.convert_one_hot_to_search_hypercube_points(dom, arr([inp["p"]], oh_dim(desc)))
    sq = S.convert_one_hot_to_search_hypercube_points(dom, arr([inp["q"]], oh_dim(desc)))
    return dict(out=float(compute_distance_matrix_squared(sp, sq)[0, 0]), sp=sp[0].tolist(), sq=sq[0].tolist())
  if kind == "dp":
    from libsigopt.views.rest.search_next_points import get_distance_parameter
    if inp.get("draw") is None:
      v = get_distance_parameter(inp["dim"])
      return dict(out=float(numpy.asarray(v).reshape(-1)[0]), shape=list(numpy.asarray(v).shape))
    with ScriptedChoice([inp["draw"]]) as sc:
      v = get_distance_parameter(inp["dim"])
      return dict(out=float(numpy.asarray(v).reshape(-1)[0]), shape=list(numpy.asarray(v).shape), choice_calls=[[c[0], c[1]] for c in sc.calls])
  if kind in ("erreval", "erradd"):
    from libsigopt.compute.search import ProbabilityOfImprovementSearch
    dom, D = mk_domain(desc), oh_dim(desc)
    fm, _ = make_fm(D, dict(type="table", table=[]))
    af = ProbabilityOfImprovementSearch(dom, fm, 1.0)
    w = inp["width"]
    p = numpy.array(inp["pts"], dtype=float).reshape((len(inp["pts"]), w))
    try:
      if kind == "erreval":
        af.evaluate_at_point_list(p, batch_size=inp["bs"])
      else:
        af.add_normalized_repulsor_point(p)
      return dict(raised=False)
    except AssertionError:
      return dict(raised=True)
  raise ValueError(kind)


# ------------------------------------------------------------------------------------------ generators


def gen_desc(rng, exact):
  n = rng.randint(1, 4)
  desc = []
  for _ in range(n):
    r = rng.random()
    if r < 0.35:
      desc.append(["categorical", rng.randint(2, 4)])
    elif exact:
      lo = rng.randint(-8, 8) + rng.choice([0, 0, 0.5])
      w = rng.choice([0.5, 1, 2, 4, 8, 16])
      if r < 0.55:
        desc.append(["int", int(math.floor(lo)), int(math.floor(lo)) + int(max(1, w))])
      elif r < 0.7:
        desc.append(["quantized", [lo, lo + w / 4, lo + w]])
      else:
        desc.append(["double", lo, lo + w])
    else:
      lo = round(rng.uniform(-50, 50), rng.choice([0, 1, 3]))
      w = rng.choice([0.7, 1, 3, 10, 0.1, 37.5, 6])
      if r < 0.5:
        desc.append(["int", int(math.floor(lo)), int(math.floor(lo)) + rng.randint(1, 11)])
      elif r < 0.6:
        desc.append(["quantized", sorted([lo, lo + w / 3, lo + w])])
      else:
        desc.append(["double", lo, lo + w])
  if exact and any(c[0] == "categorical" for c in desc):
    D = oh_dim(desc)
    sq = next(s for s in (4, 9, 16, 25) if s >= D)
    while oh_dim(desc) < sq:  # pad to a square one-hot dimension so that numpy.sqrt is exact
      k = sq - oh_dim(desc)
      if k >= 2 and rng.random() < 0.4:
        desc.insert(rng.randint(0, len(desc)), ["categorical", rng.randint(2, min(k, 4))])
      else:
        lo = rng.randint(-4, 4)
        desc.insert(rng.randint(0, len(desc)), ["double", lo, lo + rng.choice([1, 2, 4])])
  return desc


def gen_point(rng, desc, exact, relaxed=None):
  relaxed = rng.random() < 0.3 if relaxed is None else relaxed
  p = []
  for c in desc:
    if c[0] == "categorical":
      k = c[1]
      if relaxed:
        blk = [rng.randint(0, 8) / 8 if exact else round(rng.random(), 3) for _ in range(k)]
        if rng.random() < 0.4:  # a tie for the maximum: numpy.argmax takes the first
          blk[rng.randrange(k)] = max(blk)
      else:
        blk = [0.0] * k
        blk[rng.randrange(k)] = 1.0
      p += blk
    else:
      lo, hi = bounds_of(c)
      if exact:
        j = rng.choice([0, 16, rng.randint(0, 16), rng.randint(0, 16), rng.randint(-4, 20)])
        p.append(lo + (hi - lo) * j / 16)
      else:
        p.append(rng.choice([lo, hi, rng.uniform(lo, hi), rng.uniform(lo, hi)]))
  return p


def perturb(rng, desc, base, exact):
  """A point on, near, far from `base`, or differing from it only in a category."""
  p = list(base)
  mode = rng.choice(["same", "near", "near", "far", "cat", "cat"])
  i = 0
  slots = []
  for c in desc:
    slots.append((c, i))
    i += c[1] if c[0] == "categorical" else 1
  if mode == "same":
    return p
  nums = [(c, i) for c, i in slots if c[0] != "categorical"]
  cats = [(c, i) for c, i in slots if c[0] == "categorical"]
  if mode == "cat" and cats:
    c, i = rng.choice(cats)
    blk = [0.0] * c[1]
    blk[rng.randrange(c[1])] = 1.0
    p[i:i + c[1]] = blk
    return p
  if nums:
    for c, i in rng.sample(nums, rng.randint(1, len(nums))):
      lo, hi = bounds_of(c)
      if exact:
        step = rng.choice([1, 1, 2, 4, 8] if mode == "near" else [8, 12, 16]) * rng.choice([-1, 1])
        p[i] = p[i] + (hi - lo) * step / 16
      else:
        p[i] = p[i] + (hi - lo) * rng.uniform(-1, 1) * (0.2 if mode == "near" else 1.0)
  return p


def gen_eval(rng, exact, real_fm=False, desc=None):
  desc = desc or gen_desc(rng, exact)
  D = oh_dim(desc)
  nrep = rng.choice([0, 1, 1, 2, 3, 4])
  reps = [gen_point(rng, desc, exact) for _ in range(nrep)]
  cut = rng.randint(0, nrep)
  r0 = None if (cut == 0 and rng.random() < 0.5) else reps[:cut]
  rest = reps[cut:]
  adds = []
  while rest:
    k = rng.randint(1, len(rest))
    adds.append(rest[:k])
    rest = rest[k:]
  if rng.random() < 0.15:
    adds.append([])
  n = rng.randint(1, 7)
  points = []
  for _ in range(n):
    if reps and rng.random() < 0.8:
      points.append(perturb(rng, desc, rng.choice(reps), exact))
    else:
      points.append(gen_point(rng, desc, exact))
  if rng.random() < 0.3 and points:
    points.append(list(points[0]))
  # radius: on a realised squared distance (boundary: strict <), just around it, or a fixed value (0 and > 2 D included)
  dists = sorted({o_sqdist(desc, r, p) for r in reps for p in points})
  r = rng.random()
  if dists and r < 0.45:
    dp = rng.choice(dists)
    if not exact or rng.random() < 0.3:
      dp = dp + F(rng.choice([-1, 1]), 1024)
  elif r < 0.55:
    dp = F(0)
  elif r < 0.7:
    dp = F(2 * D) + F(rng.choice([-1, 0, 1]), 8)
  else:
    dp = F(rng.choice([1, 1, 4, 16, 64, 256]), 256) * rng.choice([1, 1, D])
  dp = float(dp)
  if exact and F(dp) != F(dp).limit_denominator(1 << 20):
    dp = float(F(dp).limit_denominator(1024))
  if real_fm:
    nf = rng.choice([1, 1, 2, 3])
    fm = dict(type="gp", spec=dict(seed=rng.randint(0, 10 ** 6), n=rng.randint(3, 8), kinds=[rng.choice(["logistic", "cdf"]) for _ in range(nf)],
                                   thresholds=[round(rng.uniform(-1, 1), 2) for _ in range(nf)], wrap=nf == 1 and rng.random() < 0.5,
                                   scale=rng.choice([1.0, 4.0]), yscale=rng.choice([1.0, 1.0, 30.0])))
  else:
    seen, table = set(), []
    for p in points:
      if tuple(p) not in seen and rng.random() < 0.9:
        seen.add(tuple(p))
        table.append([p, rng.choice([0.0, 1.0, rng.randint(1, 63) / 64, rng.randint(1, 63) / 64])])
    fm = dict(type="table", table=table)
  bs = rng.choice([1, 2, 3, len(points), len(points) + 5, 0])
  return dict(domain=desc, dp=dp, dp_as_array=rng.random() < 0.3, r0=r0, adds=adds, pts=points, fm=fm, batch_sizes=[bs, None], exact=exact,
              pre_dp=(float(dp) * rng.choice([2.0, 4.0, 16.0]) + rng.choice([0.0, 0.5])) if rng.random() < 0.3 else None)


def gen_loop(rng, exact, desc=None):
  desc = desc or gen_desc(rng, exact)
  r0 = [gen_point(rng, desc, exact) for _ in range(rng.choice([0, 1, 2, 3]))]
  k = rng.randint(1, 3)
  picks = [gen_point(rng, desc, exact, relaxed=rng.random() < 0.5) for _ in range(k)]
  if k > 1 and rng.random() < 0.3:
    picks[-1] = list(picks[0])
  return dict(domain=desc, dp0=rng.choice([0.0, 0.015625, 0.25, 1.0]), r0=r0, draws=[rng.randrange(4) for _ in range(k)], picks=picks,
              fm=dict(type="table", table=[]), np_seed=rng.randint(0, 10 ** 6), exact=exact)


def gen_geom(rng, kind, desc, exact):
  """input of a search / unit / dist / view call sequence on the domain `desc`"""
  if kind in ("search", "unit"):
    return dict(domain=desc, pts=[gen_point(rng, desc, exact) for _ in range(rng.randint(1, 5))], exact=exact)
  if kind == "dist":
    p = gen_point(rng, desc, exact)
    return dict(domain=desc, p=p, q=perturb(rng, desc, p, exact), exact=exact)
  assert kind == "view"
  return dict(domain=desc, sampled=[gen_point(rng, desc, exact, relaxed=False) for _ in range(rng.randint(1, 4))],
              pending=[gen_point(rng, desc, exact, relaxed=False) for _ in range(rng.choice([0, 0, 1, 2]))], draw=rng.randrange(4), exact=exact)


def gen_hist(rng, exact):
  """2..5 call sequences on one live domain object (run_hist); the domain has a numeric parameter (almost always with a non-zero
  lower bound); the unit-cube round trip (both directions) is in most histories and rarely the last op"""
  for _ in range(6):
    desc = gen_desc(rng, exact)
    if any(c[0] != "categorical" for c in desc):
      break
  k = rng.randint(2, 5)
  kinds = [rng.choice(["unit", "unit", "unit", "search", "dist", "eval", "eval", "view", "loop"]) for _ in range(k)]
  if "unit" not in kinds[:-1] and rng.random() < 0.7:
    kinds[rng.randrange(k - 1)] = "unit"
  ops = []
  for kind in kinds:
    if kind == "eval":
      ops.append(dict(kind=kind, inp=gen_eval(rng, exact, desc=desc), early=rng.random() < 0.5))
    elif kind == "loop":
      ops.append(dict(kind=kind, inp=gen_loop(rng, exact, desc=desc)))
    else:
      ops.append(dict(kind=kind, inp=gen_geom(rng, kind, desc, exact)))
  return dict(domain=desc, ops=ops, exact=exact)


def gen_sview(rng, order=None):
  """A raw request for the REAL search view (lib.c06_util format).  1..3 constraint metrics and 0..2 stored metrics share the value
  matrix in any column layout; the constraint index list is in ANY order (`order`: 'ascending' / 'descending' / None = as shuffled).
  Every metric has its own offset and spread, its own objective, its own threshold (inside its own observed range) and its own
  hyperparameters, so that a model fed with another metric's data / threshold / kernel gives a different probability.  Noise variances
  are 1e-2 .. 1e-4 of the squared spread (well-conditioned kernel matrices)."""
  from lib import c06_util as U
  comps = [U.gen_component(rng) for _ in range(rng.randint(1, 3))]
  n_con, n_sto = rng.choice([1, 2, 2, 2, 3]), rng.choice([0, 1, 1, 2])
  m = n_con + n_sto
  layout = list(range(m))
  rng.shuffle(layout)
  con_ix = layout[:n_con]
  if order == "ascending":
    con_ix = sorted(con_ix)
  elif order == "descending":
    con_ix = sorted(con_ix, reverse=True)
  n = rng.randint(4, 9)
  points = U.gen_points(rng, comps, n)
  spread = [rng.choice([0.5, 1.0, 4.0, 32.0, 0.125]) for _ in range(m)]
  offset = [rng.choice([0.0, 0.0, 3.0, -20.0, 100.0]) for _ in range(m)]
  values = [[offset[c] + spread[c] * rng.randint(-32, 32) / 8.0 for c in range(m)] for _ in range(n)]
  rel = rng.choice([1e-2, 1e-3, 1e-4])
  vars_ = [[rel * (8.0 * spread[c]) ** 2 * rng.choice([0.5, 1.0, 2.0]) for c in range(m)] for _ in range(n)]
  pfail = rng.choice([0.0, 0.0, 0.2, 0.4])
  fails = [rng.random() < pfail for _ in range(n)]
  if sum(1 for f in fails if not f) < 2:
    fails = [False] * n
  objs = [rng.choice(["maximize", "minimize"]) for _ in range(m)]
  thr = [None] * m
  for c in range(m):
    col = [values[r][c] for r in range(n) if not fails[r]]
    if c in con_ix or rng.random() < 0.3:
      thr[c] = min(col) + (max(col) - min(col)) * rng.choice([0.2, 0.35, 0.5, 0.65, 0.8]) + (0.0 if max(col) > min(col) else 0.25)
  if rng.random() < 0.3:
    # thresholds far outside the observed range (a hard constraint nobody has met yet / one that everything meets): success probabilities in the
    # deep tails, 1e-17 .. 1e-200 - positive numbers: "exactly 0 ONLY within a repulsion radius" (C19_m14)
    for c in con_ix:
      col = [values[r][c] for r in range(n) if not fails[r]]
      k = 10.0 ** rng.uniform(0.0, 2.3)
      thr[c] = rng.choice([min(col) - k * (max(col) - min(col) + spread[c]), max(col) + k * (max(col) - min(col) + spread[c])])
  hypers = []
  for _ in range(m):
    h = U.gen_hyper(rng, comps, False)
    h["tik"] = None if h["tik"] in (None, 0.0) else h["tik"]     # a supplied nugget of exactly 0 may make the factorisation fail (11.5): not this check's subject
    hypers.append(h)
  pending = U.gen_points(rng, comps, rng.choice([0, 0, 1, 2]), avoid=points)
  evalp = U.gen_points(rng, comps, rng.randint(3, 6), avoid=points + pending)
  evalp.append(list(points[rng.randrange(n)]))          # on an observed configuration: inside every radius
  raw = dict(comps=comps, points=points, values=values, vars=vars_, fails=fails, costs=None, objs=objs, opt_ix=[], con_ix=con_ix, thr=thr,
             pareto=False, budget=50, hypers=hypers, pending=pending, pending_costs=None, evalp=evalp, eval_costs=None,
             par=rng.choice(["constant_liar", "constant_liar", "qei"]), tasks=[], mean=rng.choice(["constant", "constant", "zero"]), poly=None,
             max_af=rng.choice([0, 1, 3, 5432]), seed=rng.randrange(1 << 30))
  return dict(raw=raw, draw=rng.randrange(4))


def snap_point(desc, pnt):
  """the nearest point every entry of which is a whole number (numeric coordinates rounded, one-hot blocks set to 0 / 1 at the first largest
  entry): the rows a caller naturally writes with Python ints, so that numpy.array() makes an INTEGER array of them"""
  q, i = [], 0
  for c in desc:
    if c[0] == "categorical":
      blk = pnt[i:i + c[1]]
      best = max(range(c[1]), key=lambda t: (blk[t], -t))
      q += [1.0 if j == best else 0.0 for j in range(c[1])]
      i += c[1]
    else:
      q.append(float(math.floor(pnt[i] + 0.5)))
      i += 1
  return q


def gen_case(rng):
  """gen_case_plain, and in a third of the cases every array of the call is handed over in a randomly chosen form (lib.gpgen.HANDOVER_STYLES);
  in half of those the points are first snapped to whole numbers and the point arrays handed over with an integer dtype"""
  from lib import gpgen
  u = rng.random()
  if u < 0.10:
    return "hist", gen_hist(rng, rng.random() < 0.7)
  if u < 0.16:
    return "sview", gen_sview(rng)
  kind, inp = gen_case_plain(rng)
  keys = dict(eval=("pts", "r0", "adds"), loop=("r0",), search=("pts",), unit=("pts",), view=("sampled", "pending")).get(kind)
  if not keys or rng.random() >= 0.35:
    return kind, inp
  inp["handover"] = {k: rng.choice(gpgen.HANDOVER_STYLES) for k in keys}
  if rng.random() < 0.5:
    desc = inp["domain"]
    snap = lambda ps: None if ps is None else [snap_point(desc, q) for q in ps]
    if kind == "eval" and inp["fm"]["type"] == "table":   # the scripted failure model is a table over the evaluation points: move its keys along
      val = {}
      for key, v in inp["fm"]["table"]:
        val.setdefault(tuple(snap_point(desc, key)), v)
      inp["fm"]["table"] = [[list(k), v] for k, v in val.items()]
    for k in keys:
      if k == "adds":
        inp[k] = [snap(a) for a in inp[k]]
      else:
        inp[k] = snap(inp[k])
      inp["handover"][k] = rng.choice(["int", "int", inp["handover"][k]])
  return kind, inp


def gen_case_plain(rng):
  r = rng.random()
  exact = rng.random() < 0.7
  if r < 0.42:
    return "eval", gen_eval(rng, exact)
  if r < 0.50:
    return "eval", gen_eval(rng, True, real_fm=True)
  if r < 0.58:
    return "loop", gen_loop(rng, exact)
  desc = gen_desc(rng, exact)
  if r < 0.68:
    return "search", dict(domain=desc, pts=[gen_point(rng, desc, exact) for _ in range(rng.randint(1, 5))], exact=exact)
  if r < 0.76:
    return "unit", dict(domain=desc, pts=[gen_point(rng, desc, exact) for _ in range(rng.randint(1, 5))], exact=exact)
  if r < 0.86:
    p = gen_point(rng, desc, exact)
    return "dist", dict(domain=desc, p=p, q=perturb(rng, desc, p, exact), exact=exact)
  if r < 0.90:
    return "dp", dict(dim=rng.randint(1, 12), draw=rng.randrange(4))
  if r < 0.95:
    return "view", dict(domain=desc, sampled=[gen_point(rng, desc, exact, relaxed=False) for _ in range(rng.randint(1, 4))],
                        pending=[gen_point(rng, desc, exact, relaxed=False) for _ in range(rng.choice([0, 0, 1, 2]))], draw=rng.randrange(4), exact=exact)
  D = oh_dim(desc)
  w = rng.choice([D, D, D + 1, max(1, D - 1)])
  n = rng.choice([0, 1, 2, 3])
  if n == 0:
    w = D  # an empty list of rows carries no width in the model
  kind = rng.choice(["erreval", "erradd"])
  return kind, dict(domain=desc, width=w, pts=[[0.0] * w for _ in range(n)], bs=rng.choice([None, 0, 1, 2]))


def tols(inp):
  """(rtol on coordinates, fuzz on the distance-versus-radius decision)."""
  return (0, 0) if inp.get("exact") else (F(1, 10 ** 9), F(1, 10 ** 8))


def coq_case(kind, inp, out):
  desc = inp.get("domain")
  q = C.qlit
  if desc is not None:
    d, t = coq_domain(desc), q(target(desc))
    rtol, fuzz = tols(inp)
  if kind == "search":
    return f"CSearch {d} {t} {q(rtol)} {pts(inp['pts'])} {pts(out['out'])}"
  if kind == "unit":
    return f"CUnit {coq_bounds(desc)} {q(rtol)} {pts(inp['pts'])} {pts(out['to'])} {pts(out['back'])}"
  if kind == "dist":
    return f"CDist {d} {t} {q(F(0) if inp.get('exact') else F(1, 10 ** 8))} {pt(inp['p'])} {pt(inp['q'])} {q(out['out'])}"
  if kind == "eval":
    real = inp["fm"]["type"] != "table"
    tbl = list(zip(inp["pts"], out["fm_values"])) if real else inp["fm"]["table"]
    tb = C.listlit([f"({pt(k)}, {q(float(v))})" for k, v in tbl])
    bs = inp["batch_sizes"][0]
    r0 = C.optlit(inp["r0"], pts)
    return (f"CEval {d} {t} {q(inp['dp'])} {q(fuzz)} {q(F(1, 10 ** 9) if real else F(0))} {q(rtol)} {r0} {C.listlit(inp['adds'], pts)} "
            f"{pts(inp['pts'])} {tb} {C.optlit(bs, C.nlit)} {C.listlit(out['values'][str(bs)], q)} {C.listlit(out['values']['None'], q)} {pts(out['reps'])}")
  if kind == "loop":
    tr = out["trace"]
    prev = [v for s in tr for v in s["prev_vals"]]
    return (f"CLoop {d} {t} {q(inp['dp0'])} {q(rtol)} {pts(inp['r0'])} {C.listlit(inp['draws'], C.nlit)} {pts(inp['picks'])} "
            f"{C.listlit([s['reps'] for s in tr], pts)} {C.listlit([s['dp'] for s in tr], q)} {C.listlit(prev, q)} {pts(out['ret'])} "
            f"{pts(out['init_reps'])} {pts(out['fin_reps'])} {q(out['fin_dp'])}")
  if kind == "dp":
    return f"CDp {C.nlit(inp['dim'])} {C.nlit(inp['draw'])} {q(out['out'])}"
  if kind == "view":
    return f"CView {d} {t} {q(rtol)} {pts(inp['sampled'])} {pts(inp['pending'])} {C.nlit(inp['draw'])} {pts(out['reps'])} {q(out['dp'])}"
  if kind == "erreval":
    return f"CErrEval {d} {t} {pts(inp['pts'])} {C.optlit(inp['bs'], C.nlit)} {C.blit(out['raised'])}"
  if kind == "erradd":
    return f"CErrAdd {d} {t} {pts(inp['pts'])} {C.blit(out['raised'])}"
  raise ValueError(kind)


def sview_case(inp, out):
  """Coq term (svcase) of one run of the real search view: the raw request and the members of the failure model read back from the
  acquisition function the view built; `out` is None when the view raised.  Literal printers of the shared request / observation
  types: tools/props/C06.py."""
  from props import C06 as P6
  req = P6.request_lit(inp["raw"], dict(method=None))
  if out is None:
    return f"SVRaised {req}"
  pfs = C.listlit(out["pfs"], lambda m: f"(mkopf {C.nlit(P6.PFCODE.get(m['kind'], 9))} {C.qlit(m['thr'])} {P6.gp_lit(m['gp'])})")
  return f"SVObs {req} {pfs}"


def prod_case(out):
  rows = []
  for i, v in enumerate(out["fm_values"]):
    rows.append(f"({C.listlit([f[i] for f in out['factors']], C.qlit)}, {C.qlit(v)})")
  return f"CProd {C.listlit(rows)} {C.qlit(F(1, 10 ** 12))}"


def branch(kind, inp, out):
  """Which branch of the model a case exercises (for the measured distribution)."""
  if kind == "eval":
    v = out["values"]["None"]
    z = sum(1 for x in v if x == 0)
    tag = "eval:" + ("real-fm" if inp["fm"]["type"] != "table" else "exact" if inp["exact"] else "fuzzy")
    return [tag, "eval:some-zeroed" if z else "eval:none-zeroed", "eval:some-kept" if z < len(v) else "eval:all-zeroed",
            "eval:no-repulsors" if not out["reps"] else "eval:repulsors"] + handover_tags(inp, out)
  if kind in ("erreval", "erradd"):
    return [f"{kind}:{'raised' if out['raised'] else 'accepted'}"]
  return [kind] + handover_tags(inp, out)


def handover_tags(inp, out):
  tags = [f"handover:{k}={v}" for k, v in sorted((inp.get("handover") or {}).items()) if v != "float64"]
  if out.get("pts_dtype", "float64") != "float64":
    tags.append("handover:evaluation-points-dtype-" + out["pts_dtype"])
  return tags


def nontrivial(kind, inp, out):
  if kind == "eval":
    return bool(out["reps"]) and len(inp["pts"]) >= 2
  if kind == "loop":
    return len(inp["picks"]) >= 2
  if kind in ("search", "unit", "dist", "view"):
    return oh_dim(inp["domain"]) >= 2
  return True


def generate(ctx):
  return gen.generate(ctx, ["GenAcq"])   # Props/C19_cdf.v is stated on the regenerated CDF / product models


def correspondence(ctx):
  n = ctx.n(500, 6000)
  cases, meta, seen, dist = [], [], set(), {}
  sv_cases, sv_meta = [], []
  nontriv = 0
  dis = []
  for _ in range(n):
    kind, inp = gen_case(ctx.rng)
    if kind == "sview":
      # the real search view: the members of the failure model it built are compared with Model.SearchView inside Coq (which
      # column / objective / threshold / hyperparameters each member got); the VALUE is the searcher's subject
      try:
        out = run_impl(kind, inp)
      except numpy.linalg.LinAlgError:
        continue
      except Exception as e:
        out = None
        sv_err = f"{type(e).__name__}: {e}"
      if out is not None and out.get("inputs_unmodified") is False:
        dis.append(dict(what="C19 sview: the view modified the caller's history arrays", kind=kind, input=inp, observed=None))
      try:
        sv_cases.append(sview_case(inp, out))
      except (ValueError, OverflowError) as e:
        dis.append(dict(what=f"C19 sview: non-finite number in a failure model the view built ({e})", kind=kind, input=inp, observed=repr(out)[:2000]))
        continue
      sv_meta.append((kind, inp, out if out is not None else dict(raised=sv_err)))
      order = inp["raw"]["con_ix"]
      for b in ["sview", "sview:" + ("raised" if out is None else "one-constraint" if len(order) == 1 else "ascending-index-list" if order == sorted(order) else "non-ascending-index-list"),
                "sview:stored-metric-before-a-constraint-metric" if any(c not in order for c in range(max(order))) else "sview:constraint-metrics-first"]:
        dist[b] = dist.get(b, 0) + 1
      h = C.canon_hash([kind, inp])
      if h not in seen and out is not None and len(order) >= 2:
        nontriv += 1
      seen.add(h)
      continue
    try:
      out = run_impl(kind, inp)
    except Exception as e:
      if kind != "hist":
        raise
      # on a fresh domain each of these call sequences runs (they are generated like the stand-alone kinds): an exception here comes from the history
      dis.append(dict(what=f"C19 hist: a call sequence raised {type(e).__name__} on a live domain object that earlier call sequences had used: {e}",
                      kind=kind, input=inp, observed=repr(e)))
      continue
    if kind == "hist":
      # a history is a list of ordinary call sequences run on ONE live domain object: each is compared with the (pure) model as
      # the case of its own kind; a disagreement is reported with the whole history (alone, on a fresh domain, the op may be right)
      for j, (op, o) in enumerate(zip(inp["ops"], out["outs"])):
        if o.get("inputs_unmodified") is False or not o["domain_unmodified"]:
          dis.append(dict(what=f"C19 hist: call sequence {j} ({op['kind']}) modified a caller-owned input array or the bounds of the caller's domain object",
                          kind=kind, input=inp, observed=o))
        try:
          cases.append(coq_case(op["kind"], op["inp"], o))
        except (ValueError, OverflowError) as e:
          dis.append(dict(what=f"C19 hist: non-finite value in the output of call sequence {j} ({op['kind']}): {e}", kind=kind, input=inp, observed=repr(o)[:2000]))
          continue
        meta.append((kind, inp, out))
        if op["kind"] == "eval" and "factors" in o:
          cases.append(prod_case(o))
          meta.append((kind, inp, out))
        for b in ["hist:" + op["kind"] + (":after-unit-round-trip" if any(x["kind"] == "unit" for x in inp["ops"][:j]) else "")]:
          dist[b] = dist.get(b, 0) + 1
      dist["hist"] = dist.get("hist", 0) + 1
      h = C.canon_hash([kind, inp])
      if h not in seen and any(x["kind"] == "unit" for x in inp["ops"][:-1]):
        nontriv += 1
      seen.add(h)
      continue
    if out.get("inputs_unmodified") is False:
      dis.append(dict(what=f"C19 {kind}: the implementation modified a caller-owned input array", kind=kind, input=inp, observed=out))
    if kind == "loop" and out["choice_calls"] and any(c != [SCHEDULE, 1] for c in out["choice_calls"]):
      dis.append(dict(what="C19 loop: numpy.random.choice was not called with the documented schedule", kind=kind, input=inp, observed=out["choice_calls"]))
    try:
      cases.append(coq_case(kind, inp, out))
    except (ValueError, OverflowError) as e:  # a non-finite output cannot be a Q literal: that is a disagreement, not a crash
      dis.append(dict(what=f"C19 {kind}: non-finite value in the implementation's output ({e})", kind=kind, input=inp, observed=repr(out)[:2000]))
      continue
    meta.append((kind, inp, out))
    if kind == "eval" and "factors" in out:
      cases.append(prod_case(out))
      meta.append((kind, inp, out))
      dist["prod"] = dist.get("prod", 0) + 1
    for b in branch(kind, inp, out):
      dist[b] = dist.get(b, 0) + 1
    h = C.canon_hash([kind, inp])
    if h not in seen and nontrivial(kind, inp, out):
      nontriv += 1
    seen.add(h)
  bad = C.run_cases("C19", HEADER, "case", "check", cases, shard=60)
  dis += [dict(what=f"C19 correspondence case {i} ({meta[i][0]}): implementation output differs from Model.SearchAF / its specification",
               kind=meta[i][0], input=meta[i][1], observed=meta[i][2]) for i in bad]
  if sv_cases:
    bad = C.run_cases("C19sv", HEADER_SV, "svcase", "svcheck", sv_cases, shard=40)
    dis += [dict(what=f"C19 search-view case {i}: the failure model the real search view built differs from Model.SearchView (member k must be built from the k-th "
                      f"listed constraint metric's own column, objective, threshold and hyperparameters)",
                 kind="sview", input=sv_meta[i][1], observed=sv_meta[i][2]) for i in bad]
  return dict(evaluations=len(cases) + len(sv_cases), distinct_nontrivial=nontriv,
              rule="domains of 1-4 parameters (double/int/quantized/categorical with 2-4 categories, one-hot dimension <= 25); exact stream: "
                   "power-of-two widths, coordinates lo + width*j/16, one-hot dimension padded to a square, radius on / around a realised "
                   "squared distance, 0, or beyond 2*D; fuzzy stream: arbitrary widths and reals with 1e-9 tolerances; evaluation points on, near, "
                   "far from repulsors and differing only in category, relaxed one-hot blocks with ties; scripted and real (GP logistic / CDF / product) "
                   "failure models; scripted optimiser and schedule draws for the loop; histories (kind hist): 2-5 of these call sequences run on ONE live "
                   "domain object (an acquisition function may be constructed before the first and evaluated later), each compared as the case of its own kind, "
                   "domain bounds compared before / after; the REAL search view (kind sview) on raw requests with 1-3 constraint metrics listed in any order and "
                   "interleaved with 0-2 stored metrics (own offsets, spreads, objectives, thresholds, hyperparameters per metric; failures; pending points; both "
                   "parallelism modes): the members of the failure model it built are read back and compared with Model.SearchView; non-trivial = repulsors "
                   "present and >= 2 points (eval), >= 2 picks (loop), one-hot dimension >= 2 (geometry), a unit-cube round trip before the last op (hist), >= 2 "
                   "constraint metrics (sview); distinct by hash of the canonical input",
              samples=[dict(kind=k, input=i, impl_output=o) for k, i, o in meta[:3]], distribution=dist, disagreements=dis)


# ------------------------------------------------------------------------------------------ independent oracle


def close(a, b, tol):
  return abs(a - b) <= tol


def oracle(kind, inp, out=None):
  """Direct statement of the property on the implementation's output (`out`: the output observed inside a history; None: run the
  call sequence now, on fresh objects). Returns a failure dict or None."""
  def fail(sig, what, observed, expected):
    return dict(signature=f"C19:{kind}:{sig}", what=f"{kind}: {what}", input=dict(kind=kind, **inp), observed=observed, expected=expected,
                oracle="plain-Python rational arithmetic: own normalisation, sum of squared differences with 2*D per differing category")
  if kind == "realloop":
    try:
      return oracle_realloop(inp)
    except Exception as e:
      return fail(f"raises:{type(e).__name__}", f"raised {type(e).__name__}: {e}", repr(e), "picks")
  if out is None:
    try:
      out = run_impl(kind, inp)
    except numpy.linalg.LinAlgError as e:
      if kind == "sview":
        return None   # a kernel matrix LAPACK cannot factor: C02 / C06's subject (11.5), not a statement about the search value
      return fail(f"raises:{type(e).__name__}", f"raised {type(e).__name__}: {e}", repr(e), "a result")
    except Exception as e:
      if kind in ("erreval", "erradd"):
        return None
      return fail(f"raises:{type(e).__name__}", f"raised {type(e).__name__}: {e}", repr(e), "a result")
  desc = inp.get("domain")
  if kind == "hist":
    # every op of the history, judged exactly as the same call sequence on a fresh domain is judged
    for j, (op, o) in enumerate(zip(inp["ops"], out["outs"])):
      r = oracle(op["kind"], op["inp"], out=o)
      if r:
        return dict(r, signature="C19:hist:" + r["signature"][len("C19:"):], input=dict(kind="hist", **inp),
                    what=f"hist: call sequence {j} of {len(inp['ops'])} on one live domain object ({', '.join(x['kind'] for x in inp['ops'][:j])} ran before it on "
                         f"the same object): " + r["what"])
    for j, o in enumerate(out["outs"]):
      if not o["domain_unmodified"]:
        return fail("domain-modified", f"the bounds of the caller's domain object differ after call sequence {j} ({inp['ops'][j]['kind']})", None, "bounds unchanged")
    return None
  if kind == "sview":
    raw = inp["raw"]
    comps, ncon = raw["comps"], len(raw["con_ix"])
    if not out["inputs_unmodified"]:
      return fail("input-modified", "the caller's history arrays were modified", None, "inputs unchanged")
    if len(out["factors"]) != ncon:
      return fail("factor-count", "the failure model does not have one member per constraint metric", len(out["factors"]), ncon)
    want_dp = len(comps) * SCHEDULE[inp["draw"]]
    if not close(out["dp"], want_dp, 1e-12):
      return fail("radius-schedule", "initial radius is not dim times the drawn schedule value", out["dp"], want_dp)
    known = raw["points"] + raw["pending"]
    if len(out["reps"]) != len(known):
      return fail("repulsors", "the repulsors are not the observed configurations followed by the pending ones", len(out["reps"]), len(known))
    ref = ref_sview(raw)
    dp = F(out["dp"])
    for k, q in enumerate(raw["evalp"]):
      v = out["values"][k]
      if not (0.0 <= v <= 1.0):
        return fail("out-of-range", f"value at query point {k} outside [0,1]", v, "[0,1]")
      ds = [raw_sqdist(comps, r, q) for r in known]
      if any(abs(x - dp) <= F(1, 10 ** 8) * max(1, x) for x in ds):
        continue   # on the edge of a radius: rounding of the distance formula decides
      if any(x < dp for x in ds):
        if v != 0.0:
          return fail("not-zero-within-radius", f"query point {k} is within the repulsion radius of a known configuration but its value is not 0", v, 0.0)
      elif ref is not None and v == 0.0 and ref[k][0] > 1e-200:
        return fail("zero-outside-every-radius", f"query point {k} is outside every repulsion radius, the modelled probability is {ref[k][0]:.3e} > 0, but the value is exactly 0",
                    dict(value=v, members=[f[k] for f in out["factors"]]), ref[k][0])
      elif ref is not None and not close(v, ref[k][0], ref[k][1]):
        return fail("value-differs-from-per-metric-probability",
                    f"query point {k} is outside every repulsion radius but its value is not the product over the constraint metrics {raw['con_ix']} of the probability "
                    f"that the metric (its own data, threshold, objective and hyperparameters) satisfies its threshold (|d| = {abs(v - ref[k][0]):.3e}, tolerance {ref[k][1]:.3e})",
                    dict(value=v, members=[f[k] for f in out["factors"]]), ref[k][0])
    return None
  if kind == "eval":
    reps = (inp["r0"] or []) + [p for a in inp["adds"] for p in a]
    if inp["fm"]["type"] == "table":
      tab = {tuple(float(x) for x in k): float(v) for k, v in inp["fm"]["table"]}
      ref = [tab.get(tuple(float(x) for x in p), inp["fm"].get("default", 0.5)) for p in inp["pts"]]
      vtol = 0.0
    else:
      ref = [math.prod(f[i] for f in out["factors"]) for i in range(len(inp["pts"]))]
      vtol = 1e-7
      for i, v in enumerate(out["fm_values"]):
        if not close(v, ref[i], 1e-12):
          return fail("product-law", "the product failure model is not the product of its members", v, ref[i])
    if not out["inputs_unmodified"]:
      return fail("input-modified", "a caller-owned input array was modified", None, "inputs unchanged")
    if len(out["reps"]) != len(reps):
      return fail("repulsor-count", "number of repulsors differs from the number of points added", len(out["reps"]), len(reps))
    dp = F(float(inp["dp"]))
    dists = [[o_sqdist(desc, r, p) for r in reps] for p in inp["pts"]]
    # a point whose exact squared distance to some repulsor is within 1e-8 (relative) of the radius is not judged: the
    # implementation's |x|^2 + |z|^2 - 2 x.z formula has cancellation error of that order at most for these magnitudes
    # ... unless every normalised coordinate is a small dyadic rational and the target is an integer: then every double
    # operation of the distance computation is exact and the boundary itself is judged (strict <)
    rel = F(0) if o_exact(desc, reps + inp["pts"], dp) else F(1, 10 ** 8)
    edge = [rel > 0 and any(abs(x - dp) <= rel * max(1, x) for x in ds) for ds in dists]
    first = None
    for bs, vals in out["values"].items():
      if len(vals) != len(inp["pts"]):
        return fail("length", "number of values differs from the number of points", len(vals), len(inp["pts"]))
      for i, p in enumerate(inp["pts"]):
        v = vals[i]
        if not (0.0 <= v <= 1.0):
          return fail("out-of-range", f"value at point {i} outside [0,1]", v, "[0,1]")
        if edge[i]:
          continue
        if any(x < dp for x in dists[i]):
          if v != 0.0:
            return fail("not-zero-within-radius", f"point {i} is within the repulsion radius of a repulsor but its value is not 0", v, 0.0)
        elif not close(v, ref[i], vtol):
          return fail("value-differs-from-failure-model", f"point {i} is outside every repulsion radius but its value is not the failure model's probability", v, ref[i])
      if first is None:
        first = vals
      elif any(not close(a, b, vtol) and not e for a, b, e in zip(first, vals, edge)):
        return fail("batch-size-dependence", f"values differ between batch sizes ({bs})", vals, first)
    return None
  if kind == "loop":
    tr = out["trace"]
    picks = inp["picks"]
    if not numpy.array_equal(numpy.array(out["ret"]).reshape(len(picks), -1), numpy.array(picks)):
      return fail("returned-points", "returned points are not the optimiser's picks in order", out["ret"], picks)
    for i, s in enumerate(tr):
      exp = [o_search_float(desc, p) for p in inp["r0"] + picks[:i]]
      got = s["reps"]
      if len(got) != len(exp) or any(not close(a, b, 1e-9) for r1, r2 in zip(got, exp) for a, b in zip(r1, r2)):
        return fail("pick-not-repulsor", f"when pick {i} was chosen the repulsors were not the initial ones followed by picks 0..{i - 1}", got, exp)
      if i > 0:
        if not any(close(s["dp"], len(desc) * c, 1e-12) for c in SCHEDULE) or not close(s["dp"], len(desc) * SCHEDULE[inp["draws"][i - 1]], 1e-12):
          return fail("radius-schedule", f"radius in force for pick {i} is not dim times the drawn schedule value", s["dp"], len(desc) * SCHEDULE[inp["draws"][i - 1]])
        if any(v != 0.0 for v in s["prev_vals"]):
          return fail("earlier-pick-not-zero", f"value at an earlier pick is not 0 when pick {i} is chosen", s["prev_vals"], 0.0)
      elif s["dp"] != float(inp["dp0"]):
        return fail("radius-schedule", "radius in force for pick 0 is not the initial one", s["dp"], inp["dp0"])
    if out["fin_reps"] != out["init_reps"] or out["fin_dp"] != float(inp["dp0"]):
      return fail("state-not-restored", "repulsors or radius differ after search_strategy_optimization", dict(reps=out["fin_reps"], dp=out["fin_dp"]),
                  dict(reps=out["init_reps"], dp=inp["dp0"]))
    return None
  if kind == "view":
    exp = [o_search_float(desc, p) for p in inp["sampled"] + inp["pending"]]
    for got in (out["reps"], out["tag_reps"]):
      if len(got) != len(exp) or any(not close(a, b, 1e-9) for r1, r2 in zip(got, exp) for a, b in zip(r1, r2)):
        return fail("repulsors", "initial repulsors are not the observed points followed by the pending points", got, exp)
    if not close(out["dp"], len(desc) * SCHEDULE[inp["draw"]], 1e-12):
      return fail("radius-schedule", "initial radius is not dim times the drawn schedule value", out["dp"], len(desc) * SCHEDULE[inp["draw"]])
    return None
  if kind == "search":
    for p, got in zip(inp["pts"], out["out"]):
      exp = o_search_float(desc, p)
      if any(not close(a, b, 1e-9 * max(1.0, abs(b))) for a, b in zip(got, exp)) or len(got) != len(exp):
        return fail("normalised-coordinates", "normalised image differs from (x-lo)/(hi-lo) and sqrt(D) at the first maximal category", got, exp)
    if not out["inputs_unmodified"]:
      return fail("input-modified", "a caller-owned input array was modified", None, "inputs unchanged")
    return None
  if kind == "unit":
    i = 0
    bnds = []
    for c in desc:
      bnds += [(0.0, 1.0)] * c[1] if c[0] == "categorical" else [tuple(float(v) for v in bounds_of(c))]
    for p, u, b in zip(inp["pts"], out["to"], out["back"]):
      for x, uu, bb, (lo, hi) in zip(p, u, b, bnds):
        if not close(bb, x, 1e-12 * (abs(x) + abs(lo) + abs(hi))):
          return fail("roundtrip-not-identity", "mapping to the unit cube and back is not the identity", bb, x)
        if not close(uu, float((F(float(x)) - F(lo)) / (F(hi) - F(lo))), 1e-12 * (1 + (abs(x) + abs(lo)) / (hi - lo))):
          return fail("unit-value", "unit coordinate is not (x-lo)/(hi-lo)", uu, None)
        if lo <= x <= hi and not (0.0 <= uu <= 1.0):
          return fail("unit-out-of-range", "in-bounds coordinate mapped outside [0,1]", uu, "[0,1]")
    if not out["inputs_unmodified"]:
      return fail("input-modified", "a caller-owned input array was modified", None, "inputs unchanged")
    return None
  if kind == "dist":
    exp = o_sqdist(desc, inp["p"], inp["q"])
    if not close(out["out"], float(exp), 1e-9 * max(1.0, float(exp))):
      return fail("squared-distance", "squared distance of the normalised images is not the sum of squared differences", out["out"], float(exp))
    if o_search(desc, inp["p"])[1] != o_search(desc, inp["q"])[1] and out["out"] < 2 * oh_dim(desc) * (1 - 1e-12):
      return fail("categories-too-close", "points of different categories are closer than sqrt(2 D)", out["out"], 2 * oh_dim(desc))
    return None
  if kind == "dp":
    v = out["out"]
    cands = [inp["dim"] * c for c in SCHEDULE] if inp.get("draw") is None else [inp["dim"] * SCHEDULE[inp["draw"]]]
    if not (v > 0 and any(close(v, c, 1e-12) for c in cands)):
      return fail("radius-schedule", "distance parameter is not dim times a schedule value", v, cands)
    return None
  if kind in ("erreval", "erradd"):
    D = oh_dim(desc)
    must = inp["width"] != D or (kind == "erreval" and len(inp["pts"]) == 0 and not inp["bs"])
    if out["raised"] != must:
      return fail("shape-check", "shape assertion behaviour changed", out["raised"], must)
    return None
  raise ValueError(kind)


def widen(rng, kind, inp):
  """Real floats of many magnitudes, larger sizes (searcher only)."""
  if kind in ("search", "unit", "dist", "view") and rng.random() < 0.6:
    desc = inp["domain"]
    s = 10.0 ** rng.randint(-4, 6)
    for c in desc:
      if c[0] == "double":
        c[1], c[2] = c[1] * s, c[2] * s
    def scale(p):
      i, o = 0, []
      for c in desc:
        if c[0] == "categorical":
          o += p[i:i + c[1]]
          i += c[1]
        else:
          o.append(p[i] * s if c[0] == "double" else p[i])
          i += 1
      return o
    for key in ("pts", "sampled", "pending"):
      if key in inp:
        inp[key] = [scale(p) for p in inp[key]]
    for key in ("p", "q"):
      if key in inp:
        inp[key] = scale(inp[key])
  return kind, inp


def search(ctx, hints, broken):
  fails, n = [], 0
  for h in hints:
    if "kind" in h and "input" in h:
      n += 1
      r = oracle(h["kind"], h["input"])
      if r:
        fails.append(r)
  # fixed classes first (their own generator seeds: detection must not hang on the position of a case in the random stream):
  # the real search view with the constraint metrics listed in ascending, descending and shuffled order; histories on a live domain
  import random as _random
  for i in range(ctx.n(24, 120)):
    n += 1
    r = oracle("sview", gen_sview(_random.Random(9000 + i), order=("descending", "ascending", None)[i % 3]))
    if r and r["signature"] not in {f["signature"] for f in fails}:
      fails.append(r)
  for i in range(ctx.n(30, 150)):
    n += 1
    r = oracle("hist", gen_hist(_random.Random(7000 + i), i % 3 != 0))
    if r and r["signature"] not in {f["signature"] for f in fails}:
      fails.append(r)
  budget = ctx.n(700, 12000) * (3 if broken else 1)
  rng = ctx.rng
  for _ in range(budget):
    if len({f["signature"] for f in fails}) >= 3 or len(fails) >= 6:
      break
    kind, inp = gen_case(rng)
    if kind == "eval" and rng.random() < 0.3:
      inp = gen_eval(rng, False, real_fm=True)
    kind, inp = widen(rng, kind, inp)
    if kind == "dp" and rng.random() < 0.5:
      inp["draw"] = None
    n += 1
    r = oracle(kind, inp)
    if r:
      fails.append(r)
      if len({f["signature"] for f in fails}) >= 3 or len(fails) >= 6:
        break
  for _ in range(ctx.n(10, 120)):   # the real optimiser inside the pick loop (small budgets)
    n += 1
    r = oracle("realloop", gen_realloop(rng))
    if r and r["signature"] not in {f["signature"] for f in fails}:
      fails.append(r)
  return dict(evaluations=n, failures=fails, oracle="own normalisation and exact rational squared distances (2*D per differing category); "
                                                      "own product of member probabilities; trace of the scripted optimisation")


def replay(ctx, payload):
  inp = dict(payload["input"])
  kind = inp.pop("kind")
  return oracle(kind, inp)


LEVEL_TEXT = ("Coq theorems on an executable model of the search acquisition function (normalised coordinates, the library's distance formula, "
              "zeroing, batching, repulsor bookkeeping and the optimisation loop) for all domains, failure models into [0,1], repulsor sets, radii, "
              "points, batch sizes, optimisers and schedule draws: value is 0 within the radius / the model's probability outside / in [0,1]; "
              "unit-cube round trip; different categories are >= 2 t^2 apart and never repel under the schedule; batch independence; every pick "
              "is a repulsor (and valued 0) before the next pick; state restored. The model is tied to the code by differential runs compared "
              "inside Coq (exactly on dyadic inputs, boundary radii included) and an independent rational-arithmetic searcher")
LEVEL_NOTE = ("Squared distances over Q, target t a parameter (numpy.sqrt is irrational off square dimensions; those cases are compared with a "
              "1e-9 tolerance and a 1e-8 exclusion band around the radius); failure-model probability is a contract (range proved for the "
              "logistic and product forms); aliasing clauses decided at run time; harness trusted; no axioms")
TECHNIQUE = "Coq proof (induction over domain / trace, invariants) on executable model + in-Coq differential correspondence"
DESIGN_REF = "DESIGN.md section 7, C19"

# --- gap round A: how the point arrays are handed over
ASSUMPTIONS.append("the value at a point depends on the numbers, not on the array they arrive in: every point array of a call (evaluation points, initial and "
                   "added repulsors, observed / pending points of the view) is also handed over with an integer dtype (whole-number points, as the views' "
                   "numpy.array of int lists), as float32 (when exact), in Fortran order, as a strided view and read-only (lib.gpgen.handover); model and "
                   "oracle see the same numbers, so the comparison is unchanged")
LEVEL_NOTE += "; the array forms of lib.gpgen.HANDOVER_STYLES are part of the generated inputs (correspondence and searcher)"

# --- gap round B: histories on a live domain object; the real search view with constraint metrics in any order
ASSUMPTIONS.append("histories: what a call sequence returns on a domain object that earlier call sequences have used is judged exactly as on a fresh domain (the "
                   "model is a pure function of the domain's bounds; nothing in the property lets a helper change them), and the bounds of the caller's domain "
                   "object are compared before / after every call sequence (same reading as for caller-owned arrays)")
ASSUMPTIONS.append("view level: 'the modelled probability of satisfying all metric constraints' is the product over the request's constraint metrics - identified "
                   "by their column numbers, in whatever order the index list gives them and wherever stored metrics sit between them - of Phi((t_c - mean_c)/sd_c), "
                   "model c being a Gaussian process on metric c's OWN column (scaled by its own midpoint map, failures and constant-liar pending points at its own "
                   "worst value), its own hyperparameters and its own threshold (C19_search_view_models_own_metric for the bookkeeping; the searcher's independent "
                   "reference lib.c06_util.RefGP for the number, with a forward-error tolerance 0.4 (d mean / sd + |z| d var / (2 var)), d mean, d var ~ 1e-15 cond(K), "
                   "requests with cond(K) > 1e9 not judged); search requests carry no task options (the search acquisition function has no task column)")
LEVEL_TEXT += ("; at the view level, for every request the search endpoint accepts (no optimised metric, >= 1 constraint metric, index lists in any order): member k of the "
               "failure model is a CDF model built from the k-th listed metric's own raw column, objective, threshold and hyperparameters (C19_search_view_models_own_metric, "
               "tied to the real SearchNextPoints view by reading the constructed models back), and the value of the acquisition function the real view builds is compared "
               "with an independent per-metric Gaussian-process reference; every call sequence is also run inside histories on one live domain object")
LEVEL_NOTE += "; search-view requests: generated, no task options; ill-conditioned kernel matrices (cond > 1e9) are not judged by the value clause"
