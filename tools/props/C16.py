"""C16 — the Parzen-estimator model splits and scores data as specified."""
import contextlib
import copy
import math
import warnings
from fractions import Fraction

import numpy

from lib import common as C

PROP = "C16"
PROPS_FILES = ["Props/C16.v"]
KNOWN_SIG = "C16:spe-search-no-violators-gamma-zero"
ASSUMPTIONS = [
  "exact arithmetic over Q: every finite double is a rational; the split is compared exactly on dyadic gamma / forget factor (k/64, j/16) so int(gamma*n) is exact; densities, ratio and bandwidths are compared with a 1e-12 relative tolerance (exp, sqrt and division round)",
  "numpy.argsort is an oracle: any permutation under which the kept values are non-decreasing (contract checked in Coq on the permutation NumPy actually returned, logged by the harness)",
  "kernel values are inputs of the density theorems with 0 <= k(x,p) <= alpha = k(p,p) (validity of the kernels is C03); the harness checks that contract in Coq on the rows the real covariance produced",
  "NaN/inf floats are the value None of the model (empty point set -> NaN spread and NaN density); finite observations and points by precondition",
  "the search variant is modelled from the view's scaled constraint values and scaled thresholds on (the scaling is C12); the searcher restates satisfaction on the raw values, objectives and thresholds",
]
TRUSTED = ["tools/props/C16.py case generator, argsort / covariance-class logging shims and the Q-literal printer",
           "Model/ParzenSplitCorr.v check function (split_spec_b is evaluated, not proved equivalent to the Prop; the exact comparison with form_model under the logged permutation is what ties the output to theorem C16_split_spec)"]


# ------------------------------------------------------------------------------------------ implementation access


def _lib():
  from libsigopt.compute.covariance import C4RadialMatern
  from libsigopt.compute.sigopt_parzen_estimator import SigOptParzenEstimator, SPEInsufficientDataError
  return C4RadialMatern, SigOptParzenEstimator, SPEInsufficientDataError


@contextlib.contextmanager
def log_argsort(log):
  orig = numpy.argsort
  def wrapped(a, *args, **kw):
    r = orig(a, *args, **kw)
    try:
      log.append([int(i) for i in numpy.asarray(r).ravel()])
    except Exception:
      pass
    return r
  numpy.argsort = wrapped
  try:
    yield
  finally:
    numpy.argsort = orig


def one_hot_layout(comps):
  """Independent of the library: (one_hot_dim, indices of the numerical one-hot coordinates)."""
  k, numerical = 0, []
  for c in comps:
    if c["var_type"] == "categorical":
      k += len(c["elements"])
    else:
      numerical.append(k)
      k += 1
  return k, numerical


def one_hot_rows(comps, pts):
  rows = []
  for p in pts:
    r = []
    for c, v in zip(comps, p):
      if c["var_type"] == "categorical":
        r += [1.0 if v == e else 0.0 for e in c["elements"]]
      else:
        r.append(float(v))
    rows.append(r)
  return rows


def build_estimator(inp, log=None):
  """SigOptParzenEstimator(...) on inp = dict(pts, vals, gamma, forget); returns the estimator or 'ERR'."""
  C4, SPE, Err = _lib()
  pts = numpy.array(inp["pts"], dtype=float)
  vals = numpy.array(inp["vals"], dtype=float)
  p0, v0 = pts.copy(), vals.copy()
  cov = C4([1.0] * (pts.shape[1] + 1))
  try:
    with log_argsort(log if log is not None else []):
      spe = SPE(lower_covariance=cov, greater_covariance=cov, points_sampled_points=pts, points_sampled_values=vals,
                gamma=inp["gamma"], forget_factor=inp["forget"])
  except Err:
    return "ERR"
  finally:
    assert numpy.array_equal(p0, pts) and numpy.array_equal(v0, vals), "constructor modified its inputs"
  return spe


def set_covariances(spe, inp):
  C4, _, _ = _lib()
  spe.update_covariances(C4(inp["hyper_l"]), C4(inp["hyper_g"]))


def run_impl(kind, inp):
  """Run the implementation on one input; returns the observable output (python lists / floats)."""
  with warnings.catch_warnings():
    warnings.simplefilter("ignore")              # NumPy's NaN / divide warnings: the values themselves are checked
    return _run_impl(kind, inp)


def _run_impl(kind, inp):
  C4, SPE, Err = _lib()
  if kind == "split":
    log = []
    spe = build_estimator(inp, log)
    if spe == "ERR":
      return dict(error=True)
    return dict(error=False, lower=spe.lower_points.tolist(), greater=spe.greater_points.tolist(), perm=log[-1] if log else None)
  if kind in ("dens", "lie"):
    spe = build_estimator(inp)
    if spe == "ERR":
      raise RuntimeError(f"SPEInsufficientDataError on {len(inp['pts'])} unforgotten observations with gamma {inp['gamma']}")
    set_covariances(spe, inp)
    for lie, low in inp.get("prior_lies", []):
      spe.append_lies([numpy.array(lie, dtype=float)], lower=low)
    if inp.get("transient_lies") is not None:   # a sequence of lies that is taken back: stash, append, recover leaves base points + the lies stashed
      stash = spe.stash_lies()
      for lie, low in inp["transient_lies"]:
        spe.append_lies([numpy.array(lie, dtype=float)], lower=low)
      spe.recover_lies(stash)
    x = numpy.array([inp["x"]], dtype=float)
    if kind == "dens":
      klow = spe.lower_covariance.build_kernel_matrix(spe.lower_points, x)[0]
      kgre = spe.greater_covariance.build_kernel_matrix(spe.greater_points, x)[0]
      l, g, e = spe.evaluate_expected_improvement(x)
      return dict(klow=klow.tolist(), kgre=kgre.tolist(), lpdf=float(l[0]), gpdf=float(g[0]), ei=float(e[0]),
                  n_lower=len(spe.lower_points), n_greater=len(spe.greater_points))
    low = inp["lower"]
    cov = spe.lower_covariance if low else spe.greater_covariance
    dens = spe.evaluate_lower_density if low else spe.evaluate_greater_density
    get = (lambda: spe.lower_points) if low else (lambda: spe.greater_points)
    k0 = cov.build_kernel_matrix(get(), x)[0].tolist()
    before = float(dens(x)[0])
    spe.append_lies([x[0].copy()], lower=low)
    k1 = cov.build_kernel_matrix(get(), x)[0].tolist()
    after = float(dens(x)[0])
    ls = [float(h) for h in cov.hyperparameters[1:]]
    M = max(sum((a / l) ** 2 + (b / l) ** 2 for a, b, l in zip(x[0].tolist(), p, ls)) for p in get().tolist())
    alpha = float(cov.process_variance)
    return dict(krow=k0, krow_after=k1, before=before, after=after, alpha=alpha, ktol=alpha * (1e-14 * M + 1e-14))
  if kind == "band":
    from libsigopt.compute.domain import CategoricalDomain
    from libsigopt.views.rest.spe_next_points import SPENextPoints
    calls = []
    class Rec(C4):
      def __init__(self, hyperparameters):
        calls.append([float(h) for h in hyperparameters])
        super().__init__(hyperparameters)
    dom = CategoricalDomain(inp["comps"])
    dim, _ = one_hot_layout(inp["comps"])
    pts = numpy.array(inp["pts"], dtype=float).reshape((len(inp["pts"]), dim))
    p0 = pts.copy()
    with warnings.catch_warnings():
      warnings.simplefilter("ignore")
      cov = SPENextPoints.form_one_hot_covariance(Rec, dom, pts, inp["cat_ls"], inp["factor"])
    assert numpy.array_equal(p0, pts), "form_one_hot_covariance modified its input"
    return dict(raw=calls[0], final=[float(h) for h in cov.hyperparameters], ncalls=len(calls))
  if kind == "search":
    view = make_search_view(inp)
    pf = numpy.array(view.points_sampled_for_pf_values, dtype=float)
    thr = [float(t) for t in view.constraint_thresholds]
    oh = numpy.array(view.one_hot_points_sampled_points, dtype=float)
    vals = pf[:, inp["metric"]].copy()
    log = []
    try:
      with warnings.catch_warnings():
        warnings.simplefilter("ignore")
        with log_argsort(log):
          spe = view.form_sigopt_parzen_estimator_for_search(view.one_hot_points_sampled_points, view.points_sampled_for_pf_values[:, inp["metric"]])
    except Err:
      return dict(error=True, pf=pf.tolist(), thr=thr, oh=oh.tolist(), vals=vals.tolist())
    x = numpy.array([inp["x"]], dtype=float)
    with warnings.catch_warnings():
      warnings.simplefilter("ignore")
      klow = spe.lower_covariance.build_kernel_matrix(spe.lower_points, x)[0]
      kgre = (spe.greater_covariance.build_kernel_matrix(spe.greater_points, x)[0] if len(spe.greater_points) else numpy.array([]))
      l, g, e = spe.evaluate_expected_improvement(x)
    perm = next((p for p in log if len(p) == len(vals)), None)
    return dict(error=False, pf=pf.tolist(), thr=thr, oh=oh.tolist(), vals=vals.tolist(), perm=perm,
                lower=numpy.asarray(spe.lower_points).tolist(), greater=numpy.asarray(spe.greater_points).reshape((-1, oh.shape[1])).tolist(),
                gamma=float(spe.gamma), klow=klow.tolist(), kgre=kgre.tolist(), lpdf=float(l[0]), gpdf=float(g[0]), ei=float(e[0]),
                hyper_l=[float(h) for h in spe.lower_covariance.hyperparameters], hyper_g=[float(h) for h in spe.greater_covariance.hyperparameters])
  raise ValueError(kind)


def make_search_view(inp):
  from libsigopt.aux.adapter_info_containers import DomainInfo, MetricsInfo, PointsContainer
  from libsigopt.views.rest.spe_search_next_points import SPESearchNextPoints
  comps = copy.deepcopy(inp["comps"])
  pts = numpy.array(inp["pts"], dtype=float)
  vals = numpy.array(inp["values"], dtype=float)
  n, nm = vals.shape
  mi = MetricsInfo(requires_pareto_frontier_optimization=False, observation_budget=inp.get("budget", 60),
                   user_specified_thresholds=numpy.array([float("nan") if t is None else t for t in inp["thresholds"]], dtype=float),
                   objectives=list(inp["objectives"]), optimized_metrics_index=[], constraint_metrics_index=list(range(nm)))
  params = {"domain_info": DomainInfo(constraint_list=[], domain_components=comps, force_hitandrun_sampling=False, priors=None),
            "num_to_sample": 1, "tag": {}, "metrics_info": mi, "task_options": [],
            "points_sampled": PointsContainer(points=pts, values=vals, value_vars=numpy.zeros_like(vals), failures=numpy.array(inp.get("failures", [False] * n), dtype=bool)),
            "points_being_sampled": PointsContainer(points=numpy.empty((0, len(comps))))}
  return SPESearchNextPoints(params)


# ------------------------------------------------------------------------------------------ generators (correspondence)


def gen_points(rng, n, dim, step=4, hi=6):
  pts = [[rng.randint(0, hi * step) / step for _ in range(dim)] for _ in range(n)]
  for _ in range(rng.randint(0, n // 3)):      # duplicates
    i, j = rng.randrange(n), rng.randrange(n)
    pts[i] = list(pts[j])
  if dim > 1 and rng.random() < 0.3:            # a constant column
    k = rng.randrange(dim)
    for p in pts:
      p[k] = 1.0
  return pts


def gen_values(rng, n):
  hi = rng.choice([0, 1, 2, 5, 20, 1000])
  kind = rng.random()
  if kind < 0.15:
    return [float(rng.randint(-hi, hi)) / 4 for _ in range(n)]
  return [float(rng.randint(-hi, hi)) for _ in range(n)]


def gen_split(rng):
  r = rng.random()
  n = rng.randint(5, 12) if r < 0.2 else rng.randint(10, 48)
  dim = rng.randint(1, 3)
  forget = 0.0 if rng.random() < 0.6 else rng.randint(1, 15) / 16.0
  gamma = rng.choice([1, 2, 3, 4, 6, 8, 13, 16, 21, 32, 45, 48, 60, 63]) / 64.0 if rng.random() < 0.7 else rng.randint(1, 63) / 64.0
  return dict(pts=gen_points(rng, n, dim), vals=gen_values(rng, n), gamma=gamma, forget=forget)


def gen_hyper(rng, dim):
  return [rng.choice([0.5, 1.0, 1.0, 2.0, 3.25])] + [rng.choice([0.25, 0.3, 0.5, 1.0, 2.0, 7.5]) for _ in range(dim)]


def gen_dens(rng, lie=False):
  n, dim = rng.randint(10, 30), rng.randint(1, 3)
  inp = dict(pts=gen_points(rng, n, dim), vals=gen_values(rng, n), gamma=rng.randint(1, 63) / 64.0, forget=0.0)
  inp["hyper_l"], inp["hyper_g"] = gen_hyper(rng, dim), gen_hyper(rng, dim)
  r = rng.random()
  if r < 0.4:
    x = list(rng.choice(inp["pts"]))
  elif r < 0.8:
    x = [rng.randint(0, 24) / 4 for _ in range(dim)]
  else:
    x = [rng.choice([-50.0, 40.0, 300.0]) for _ in range(dim)]   # far from the data: kernel values near 0
  inp["x"] = x
  inp["prior_lies"] = [([rng.randint(0, 24) / 4 for _ in range(dim)] if rng.random() < 0.6 else list(x), rng.random() < 0.4)
                       for _ in range(rng.choice([0, 0, 1, 2, 4]))]
  if rng.random() < 0.4:
    inp["transient_lies"] = [([rng.randint(0, 24) / 4 for _ in range(dim)] if rng.random() < 0.6 else list(x), rng.random() < 0.5)
                             for _ in range(rng.choice([0, 1, 1, 2, 3]))]
  if lie:
    inp["lower"] = rng.random() < 0.4
  return inp


def gen_comps(rng):
  comps = []
  for _ in range(rng.randint(1, 3)):
    t = rng.choice(["double", "double", "int", "categorical"])
    if t == "double":
      comps.append({"var_type": "double", "elements": [0.0, 6.0]})
    elif t == "int":
      comps.append({"var_type": "int", "elements": [0, 6]})
    else:
      comps.append({"var_type": "categorical", "elements": list(range(1, rng.randint(2, 3) + 1))})
  if all(c["var_type"] == "categorical" for c in comps) and rng.random() < 0.7:
    comps.insert(rng.randint(0, len(comps)), {"var_type": "double", "elements": [0.0, 6.0]})
  return comps


def gen_cat_points(rng, comps, n):
  pts = []
  for _ in range(n):
    p = []
    for c in comps:
      if c["var_type"] == "double":
        p.append(rng.randint(0, 24) / 4)
      elif c["var_type"] == "int":
        p.append(float(rng.randint(0, 6)))
      else:
        p.append(float(rng.choice(c["elements"])))
    pts.append(p)
  if n and rng.random() < 0.3:                   # constant coordinate
    k = rng.randrange(len(comps))
    for p in pts:
      p[k] = pts[0][k]
  return pts


def gen_band(rng):
  comps = gen_comps(rng)
  n = rng.choice([0, 0, 1, 2, 3, 5, 8, 12])
  pts = one_hot_rows(comps, gen_cat_points(rng, comps, n))
  cat_ls = 0.3 if rng.random() < 0.8 else rng.choice([0.0, -1.0, 2.5])
  return dict(comps=comps, pts=pts, cat_ls=cat_ls, factor=rng.choice([1.0, 2.0, 5.0, 10.0, 0.5]))


def gen_search(rng, force=None):
  comps = gen_comps(rng)
  dim, _ = one_hot_layout(comps)
  n = rng.randint(6, 9) if rng.random() < 0.08 else rng.randint(10, 26)
  nm = rng.randint(1, 3)
  values = [[float(rng.randint(-8, 8)) for _ in range(nm)] for _ in range(n)]
  objectives = [rng.choice(["maximize", "minimize"]) for _ in range(nm)]
  mode = force or rng.choice(["none-violate", "mixed", "mixed", "mixed", "few-satisfy", "all-violate"])
  thr = []
  for k in range(nm):
    mx = objectives[k] == "maximize"
    if mode == "none-violate":
      t = -100.0 if mx else 100.0
    elif mode == "all-violate":
      t = 100.0 if mx else -100.0
    elif mode == "few-satisfy":
      t = float(rng.randint(5, 8)) if mx else float(rng.randint(-8, -5))
    else:
      t = float(rng.randint(-6, 6)) + rng.choice([0.0, 0.5])
    if nm > 1 and rng.random() < 0.25:
      t = None
    thr.append(t)
  if all(t is None for t in thr):
    thr[0] = -100.0 if objectives[0] == "maximize" else 100.0
  pts = gen_cat_points(rng, comps, n)
  x = one_hot_rows(comps, gen_cat_points(rng, comps, 1))[0]
  return dict(comps=comps, pts=pts, values=values, objectives=objectives, thresholds=thr, metric=rng.randrange(nm), x=x, mode=mode)


GEN = dict(split=gen_split, dens=gen_dens, lie=lambda rng: gen_dens(rng, lie=True), band=gen_band, search=gen_search)


def gen_case(rng):
  kind = rng.choice(["split"] * 5 + ["dens"] * 2 + ["lie"] * 2 + ["band"] * 2 + ["search"] * 3)
  return kind, GEN[kind](rng)


# ------------------------------------------------------------------------------------------ Coq printers


def qrows(rows):
  return C.listlit([C.listlit(r, C.qlit) for r in rows])


def qopt(x):
  return "None" if x is None or not math.isfinite(x) else f"(Some {C.qlit(x)})"


def permlit(p):
  return "None" if p is None else f"(Some {C.listlit(p, C.nlit)})"


def ei_lit(l, g, e):
  if not all(math.isfinite(v) for v in (l, g, e)):
    return "None"
  return f"(Some ({C.qlit(l)}, {C.qlit(g)}, {C.qlit(e)}))"


def coq_cases(kind, inp, out):
  """One input may print several Coq cases (the search variant also prints its densities)."""
  if kind == "split":
    o = "OErr" if out["error"] else f"(OOk {qrows(out['lower'])} {qrows(out['greater'])})"
    return [f"CSplit {C.qlit(inp['gamma'])} {C.qlit(inp['forget'])} {qrows(inp['pts'])} {C.listlit(inp['vals'], C.qlit)} {permlit(out.get('perm'))} {o}"]
  if kind == "dens":
    return [f"CDens {C.qlit(inp['hyper_l'][0])} {C.qlit(inp['hyper_g'][0])} {C.qlit(inp['gamma'])} {C.listlit(out['klow'], C.qlit)} "
            f"{C.listlit(out['kgre'], C.qlit)} {ei_lit(out['lpdf'], out['gpdf'], out['ei'])}"]
  if kind == "lie":
    return [f"CLie {C.blit(inp['lower'])} {C.qlit(out['alpha'])} {C.qlit(out['ktol'])} {C.listlit(out['krow'], C.qlit)} {C.listlit(out['krow_after'], C.qlit)} "
            f"{C.qlit(out['before'])} {C.qlit(out['after'])}"]
  if kind == "band":
    dim, numerical = one_hot_layout(inp["comps"])
    return [f"CBand {C.listlit(numerical, C.nlit)} {C.qlit(inp['cat_ls'])} {C.qlit(inp['factor'])} {C.nlit(dim)} {qrows(inp['pts'])} "
            f"{C.listlit(out['raw'], qopt)} {C.listlit(out['final'], qopt)}"]
  if kind == "search":
    dim, _ = one_hot_layout(inp["comps"])
    head = (f"CSearch {C.qlit(0.2)} {C.nlit(dim)} {qrows(out['oh'])} {C.listlit(out['vals'], C.qlit)} {permlit(out.get('perm'))} "
            f"{C.listlit(out['thr'], qopt)} {qrows(out['pf'])}")
    if out["error"]:
      return [head + " None"]
    cs = [head + f" (Some ({qrows(out['lower'])}, {qrows(out['greater'])}, {C.qlit(out['gamma'])}))"]
    cs.append(f"CDens 1 1 {C.qlit(out['gamma'])} {C.listlit(out['klow'], C.qlit)} {C.listlit(out['kgre'], C.qlit)} {ei_lit(out['lpdf'], out['gpdf'], out['ei'])}")
    return cs
  raise ValueError(kind)


def branch(kind, inp, out):
  if kind == "split":
    if out["error"]:
      return "split:error"
    v = sorted(inp["vals"][:len(out["lower"]) + len(out["greater"])])
    s = len(out["lower"])
    return "split:tie-at-cut" if v[s - 1] == v[s] else "split:strict-cut"
  if kind == "search":
    if out["error"]:
      return "search:error"
    if out["gamma"] == 0.2:
      return "search:default-split"
    return "search:no-violators(gamma=0)" if not out["greater"] else "search:threshold-split"
  if kind == "band":
    if not inp["pts"]:
      return "band:empty-set-fallback"
    return "band:fallback" if out["ncalls"] > 1 else "band:from-spread"
  if kind == "lie":
    return "lie:lower" if inp["lower"] else "lie:greater"
  return kind


def nontrivial(kind, inp, out):
  if kind == "split":
    return not out["error"] and len(set(inp["vals"])) > 1
  if kind == "search":
    return not out["error"]
  if kind == "band":
    return len(inp["pts"]) >= 2
  return True


def correspondence(ctx):
  n = ctx.n(500, 6000)
  cases, meta, seen, dist = [], [], set(), {}
  nontriv = 0
  dis = []
  for _ in range(n):
    kind, inp = gen_case(ctx.rng)
    try:
      out = run_impl(kind, inp)
    except Exception as e:  # the implementation crashed on a valid input: a disagreement with the (total) model
      dis.append(dict(what=f"C16 correspondence ({kind}): implementation raised {type(e).__name__}: {e}", kind=kind, input=inp, observed=repr(e)))
      continue
    b = branch(kind, inp, out)
    dist[b] = dist.get(b, 0) + 1
    for c in coq_cases(kind, inp, out):
      cases.append(c)
      meta.append((kind, inp, out))
    h = C.canon_hash([kind, inp])
    if h not in seen and nontrivial(kind, inp, out):
      nontriv += 1
    seen.add(h)
  bad = C.run_cases("C16", "From Coq Require Import List QArith ZArith Bool.\nFrom LV Require Import Model.ParzenSplit Model.ParzenSplitCorr.\nOpen Scope Q_scope.",
                    "case", "check", cases, shard=60)
  for i in bad:
    k, inp, out = meta[i]
    dis.append(dict(what=f"C16 correspondence case {i} ({k}): implementation output differs from Model.ParzenSplit / its specification",
                    kind=k, input=inp, observed=out))
  return dict(evaluations=n, distinct_nontrivial=nontriv,
              rule="estimators on 5..48 observations in 1-3 dimensions (quarter-integer points with duplicates and constant columns, integer values with "
                   "many ties), gamma k/64, forget factor j/16; densities / lies at data points, fresh points and far points with random C4 hyperparameters; "
                   "bandwidths on one-hot point sets of 0..12 rows over mixed double/int/categorical domains; the search variant through a real "
                   "SPESearchNextPoints view (1-3 constraint metrics, NaN thresholds, every threshold regime). Non-trivial = a successful split with "
                   ">= 2 distinct values / a constructed search estimator / >= 2 rows for bandwidths; distinct by hash of the canonical input",
              samples=[dict(kind=k, input=i, impl_output=o) for k, i, o in meta[:3]], distribution=dist, disagreements=dis)


# ------------------------------------------------------------------------------------------ independent oracle


def c4(alpha, ls, x, z):
  r = math.sqrt(sum(((a - b) / l) ** 2 for a, b, l in zip(x, z, ls)))
  return alpha * (1 + r + r * r / 3.0) * math.exp(-r)


def near_int(fr):
  return abs(fr - round(fr)) < Fraction(1, 10 ** 9) and fr != round(fr)


def fail(kind, what, inp, observed, expected, oracle_text):
  return dict(signature=f"C16:{kind}:{what}", what=f"{kind}: {what}", input=dict(kind=kind, **inp), observed=observed, expected=expected, oracle=oracle_text)


def oracle_split(inp):
  kind = "split"
  try:
    out = run_impl(kind, inp)
  except Exception as e:
    return fail(kind, f"raises:{type(e).__name__}", inp, repr(e), "a split or SPEInsufficientDataError", "no other exception on valid input")
  n = len(inp["pts"])
  fn, gm = Fraction(inp["forget"]) * n, None
  if near_int(fn):
    return None
  m = n - math.floor(fn)
  expect_err = m < 10
  if not expect_err:
    gm = Fraction(inp["gamma"]) * m
    if near_int(gm):
      return None
    s = max(math.floor(gm), 3)
    expect_err = s > m - 1
  txt = "brute force: m = n - floor(forget n); error iff m < 10 or max(floor(gamma m), 3) > m - 1; sizes; multiset; max(lower values) <= min(greater values)"
  if expect_err != out["error"]:
    return fail(kind, "insufficient-data error raised iff the split is impossible", inp, out, dict(error=expect_err), txt)
  if expect_err:
    return None
  lo, gr = [tuple(r) for r in out["lower"]], [tuple(r) for r in out["greater"]]
  if len(lo) != s or len(gr) != m - s:
    return fail(kind, "set sizes are max(floor(gamma m), 3) and the rest", inp, dict(lower=len(lo), greater=len(gr)), dict(lower=s, greater=m - s), txt)
  kept = [tuple(map(float, p)) for p in inp["pts"][:m]]
  if sorted(lo + gr) != sorted(kept):
    return fail(kind, "lower and greater together are the unforgotten points", inp, out, None, txt)
  val = {}
  for p, v in zip(kept, inp["vals"][:m]):
    val.setdefault(p, set()).add(float(v))
  if all(len(v) == 1 for v in val.values()):   # the value of a stored row is unambiguous
    if max(next(iter(val[p])) for p in lo) > min(next(iter(val[p])) for p in gr):
      return fail(kind, "every lower value is <= every greater value", inp, out, None, txt)
  return None


def oracle_dens(kind, inp):
  try:
    out = run_impl(kind, inp)
  except Exception as e:
    return fail(kind, f"raises:{type(e).__name__}", inp, repr(e), "densities", "no exception on valid input")
  spe = build_estimator(inp)
  lo, gr = spe.lower_points.tolist(), spe.greater_points.tolist()
  for lie, low in inp.get("prior_lies", []):
    (lo if low else gr).append(list(lie))
  al, ll, ag, lg = inp["hyper_l"][0], inp["hyper_l"][1:], inp["hyper_g"][0], inp["hyper_g"][1:]
  x, gamma = inp["x"], inp["gamma"]
  txt = ("closed form in plain Python: C4 Matern kernel, arithmetic means, +1e-10 floor; formula and range of the ratio on the "
         "implementation's own densities")
  def ktol(alpha, ls, S):
    # the library expands |x-z|^2 = |x|^2 + |z|^2 - 2 x.z: absolute error ~ ulp * M in r^2, and |dk/d(r^2)| <= alpha / 6
    M = max(sum((a / l) ** 2 + (b / l) ** 2 for a, b, l in zip(x, p, ls)) for p in S)
    return alpha * (1e-14 * M + 1e-14)
  if kind == "dens":
    el = sum(c4(al, ll, x, p) for p in lo) / len(lo) + 1e-10
    eg = sum(c4(ag, lg, x, p) for p in gr) / len(gr)
    if not (abs(out["lpdf"] - el) <= ktol(al, ll, lo) and out["lpdf"] >= 1e-10):
      return fail(kind, "lower density is the kernel mean plus the floor", inp, out["lpdf"], el, txt)
    if not (abs(out["gpdf"] - eg) <= ktol(ag, lg, gr) and out["gpdf"] >= 0):
      return fail(kind, "greater density is the non-negative kernel mean", inp, out["gpdf"], eg, txt)
    er = 1.0 / (gamma + (1 - gamma) * out["gpdf"] / out["lpdf"])
    if not abs(out["ei"] - er) <= 1e-12 * max(1.0, abs(er)):
      return fail(kind, "ratio equals 1/(gamma + (1-gamma) greater/lower)", inp, out["ei"], er, txt)
    if not (0 < out["ei"] <= (1 / gamma) * (1 + 1e-12)):
      return fail(kind, "ratio lies in (0, 1/gamma]", inp, out["ei"], [0, 1 / gamma], txt)
    return None
  low = inp["lower"]
  S, a, ls, floor = (lo, al, ll, 1e-10) if low else (gr, ag, lg, 0.0)
  eb = sum(c4(a, ls, x, p) for p in S) / len(S) + floor
  ea = (sum(c4(a, ls, x, p) for p in S) + a) / (len(S) + 1) + floor
  tol = ktol(a, ls, S + [x])
  if abs(out["before"] - eb) > tol or abs(out["after"] - ea) > tol:
    return fail(kind, "density after a lie is the kernel mean over the set with the lie", inp, [out["before"], out["after"]], [eb, ea], txt)
  if out["after"] < out["before"] - tol:
    return fail(kind, "a lie at a location does not lower the density there", inp, [out["before"], out["after"]], "after >= before", txt)
  return None


def oracle_band(inp):
  kind = "band"
  try:
    out = run_impl(kind, inp)
  except Exception as e:
    return fail(kind, f"raises:{type(e).__name__}", inp, repr(e), "a covariance", "no exception: the fallback must absorb invalid hyperparameters")
  dim, numerical = one_hot_layout(inp["comps"])
  txt = "own statement: 1 + one_hot_dim finite positive hyperparameters; factor^2 (pstdev + 1e-8) / 2 on numerical coordinates when everything is valid"
  h = out["final"]
  if len(h) != dim + 1 or not all(math.isfinite(v) and v > 0 for v in h):
    return fail(kind, "hyperparameters are finite and positive", inp, h, None, txt)
  pts = inp["pts"]
  if pts and inp["cat_ls"] > 0 and inp["factor"] > 0:
    exp = [1.0]
    for k in range(dim):
      col = [p[k] for p in pts]
      mu = math.fsum(col) / len(col)
      sd = math.sqrt(math.fsum((c - mu) ** 2 for c in col) / len(col))
      exp.append(inp["factor"] ** 2 * (sd + 1e-8) / 2 if k in numerical else inp["cat_ls"])
    if all(math.isfinite(v) and v > 0 for v in exp) and any(abs(a - b) > 1e-9 * max(1.0, abs(b)) for a, b in zip(h, exp)):
      return fail(kind, "bandwidths come from the point spread", inp, h, exp, txt)
  return None


def oracle_search(inp):
  kind = "search"
  _, _, Err = _lib()
  try:
    out = run_impl(kind, inp)
  except Exception as e:
    return fail(kind, f"raises:{type(e).__name__}", inp, repr(e), "an estimator or SPEInsufficientDataError", "no other exception on valid input")
  n = len(inp["pts"])
  txt = ("raw values: an observation satisfies a threshold iff it is strictly better (greater for maximize, smaller for minimize); "
         "#satisfiers > one-hot dim => lower = satisfiers, greater = violators; ratio finite in (0, 1/gamma]")
  if out["error"]:
    return None if n < 10 else fail(kind, "insufficient-data error on >= 10 observations", inp, out, None, txt)
  if n < 10:
    return fail(kind, "no insufficient-data error on < 10 observations", inp, None, None, txt)
  if any(inp.get("failures", [])):
    return None
  dim, _ = one_hot_layout(inp["comps"])
  sat = []
  for row in inp["values"]:
    ok = True
    for v, t, ob in zip(row, inp["thresholds"], inp["objectives"]):
      if t is None:
        continue
      if abs(v - t) < 1e-9 * max(1.0, abs(t)) and v != t:
        return None     # too close to a threshold for the scaled comparison to be decided
      ok = ok and (v > t if ob == "maximize" else v < t)
    sat.append(ok)
  oh = one_hot_rows(inp["comps"], inp["pts"])
  lo, gr = sorted(tuple(r) for r in out["lower"]), sorted(tuple(r) for r in out["greater"])
  nsat = sum(sat)
  if nsat > dim:
    e_lo = sorted(tuple(r) for r, s in zip(oh, sat) if s)
    e_gr = sorted(tuple(r) for r, s in zip(oh, sat) if not s)
    if lo != e_lo or gr != e_gr:
      return fail(kind, "lower holds the satisfiers and greater the violators", inp, dict(lower=lo, greater=gr), dict(lower=e_lo, greater=e_gr), txt)
    eg = (n - nsat) / n
    if abs(out["gamma"] - eg) > 1e-12:
      return fail(kind, "gamma is the fraction of violators", inp, out["gamma"], eg, txt)
  else:
    if len(lo) != max(math.floor(Fraction(0.2) * n), 3) or sorted(lo + gr) != sorted(tuple(r) for r in oh):
      return fail(kind, "default split kept when too few observations satisfy the thresholds", inp, dict(lower=len(lo), greater=len(gr)), None, txt)
  g = out["gamma"]
  ok = all(math.isfinite(v) for v in (out["lpdf"], out["gpdf"], out["ei"])) and 0 < g < 1 and out["gpdf"] >= 0 and 0 < out["ei"] <= (1 / g) * (1 + 1e-12)
  if not ok:
    if nsat == n and nsat > dim and g == 0 and not gr:
      f = fail(kind, "x", inp, dict(gamma=g, lpdf=out["lpdf"], gpdf=out["gpdf"], ei=out["ei"], n_lower=len(lo), n_greater=len(gr)),
               "finite densities and a ratio in (0, 1/gamma]", txt)
      f["signature"] = KNOWN_SIG
      f["what"] = ("search: no observation violates a threshold and satisfiers > one-hot dim: gamma = 0, empty greater set, NaN greater density "
                   "and NaN ratio (the endpoint's optimiser wrapper then raises AssertionError)")
      return f
    return fail(kind, "densities finite and ratio in (0, 1/gamma]", inp, dict(gamma=g, lpdf=out["lpdf"], gpdf=out["gpdf"], ei=out["ei"]), None, txt)
  # the ratio the search variant scores with is the documented one for the gamma and the two densities of THIS estimator
  er = 1.0 / (g + (1.0 - g) * out["gpdf"] / out["lpdf"])
  if abs(out["ei"] - er) > 1e-10 * max(abs(er), 1e-300):
    return fail(kind, "ratio equals 1/(gamma + (1-gamma) greater/lower) for the gamma of the search split", inp, out["ei"], er, txt)
  return None


def oracle(kind, inp):
  inp = {k: v for k, v in inp.items() if k != "kind"}
  if kind == "split":
    return oracle_split(inp)
  if kind in ("dens", "lie"):
    return oracle_dens(kind, inp)
  if kind == "band":
    return oracle_band(inp)
  if kind == "search":
    return oracle_search(inp)
  raise ValueError(kind)


WITNESS = dict(
  comps=[{"var_type": "categorical", "elements": [1, 3, 5]}, {"var_type": "double", "elements": [0.0, 4.0]}, {"var_type": "int", "elements": [0, 8]}],
  pts=[[1 + 2 * (i % 3), (i * 5 % 17) / 4.0, float(i * 3 % 9)] for i in range(14)],
  values=[[float((i * 7) % 15 - 7), float((i * 4) % 13 - 6)] for i in range(14)],
  objectives=["maximize", "minimize"], thresholds=[-100.0, 100.0], metric=0, x=[1.0, 0.0, 0.0, 2.0, 3.0], mode="none-violate")


def widen(rng, kind, inp):
  """Real floats of many magnitudes / larger sizes for the searcher."""
  if kind == "split":
    n = rng.randint(3, 150)
    dim = rng.randint(1, 5)
    sc = 10.0 ** rng.randint(-8, 8)
    inp = dict(pts=[[rng.gauss(0, 1) for _ in range(dim)] for _ in range(n)],
               vals=[round(rng.gauss(0, 1), rng.choice([0, 1, 8])) * sc for _ in range(n)],
               gamma=rng.choice([0.06, 0.1, 0.2, rng.uniform(0.001, 0.999)]), forget=rng.choice([0.0, 0.0, rng.uniform(0, 0.95)]))
    for _ in range(rng.randint(0, n // 4)):     # duplicated observations (same point, same value)
      i, j = rng.randrange(n), rng.randrange(n)
      inp["pts"][i], inp["vals"][i] = list(inp["pts"][j]), inp["vals"][j]
    return inp
  if kind in ("dens", "lie"):
    dim = len(inp["x"])
    inp["hyper_l"] = [rng.uniform(0.1, 5)] + [10 ** rng.uniform(-2, 2) for _ in range(dim)]
    inp["hyper_g"] = [rng.uniform(0.1, 5)] + [10 ** rng.uniform(-2, 2) for _ in range(dim)]
    inp["gamma"] = rng.uniform(0.001, 0.999)
    if rng.random() < 0.5:
      inp["x"] = [rng.uniform(-2, 8) for _ in range(dim)]
    return inp
  if kind == "band":
    sc = 10.0 ** rng.randint(-12, 12)
    dim, numerical = one_hot_layout(inp["comps"])
    inp["pts"] = [[(v * sc * rng.uniform(0.5, 1.5) if k in numerical else v) for k, v in enumerate(p)] for p in inp["pts"]]
    inp["factor"] = rng.choice([1.0, 2.0, 5.0, 10.0, rng.uniform(0.01, 20)])
    return inp
  if kind == "search":
    inp["values"] = [[v + rng.choice([0.0, rng.gauss(0, 1)]) for v in row] for row in inp["values"]]
    return inp
  return inp


def search(ctx, hints, broken):
  fails, n = [], 0
  new = 0
  def note(r):
    nonlocal new
    if r and r["signature"] == KNOWN_SIG and any(f["signature"] == KNOWN_SIG for f in fails):
      return                                     # the recorded finding is reported once (on the fixed witness)
    if r:
      fails.append(r)
      if r["signature"] != KNOWN_SIG:
        new += 1
  for h in hints:
    if "kind" in h and "input" in h:
      n += 1
      note(oracle(h["kind"], h["input"]))
  n += 1
  note(oracle("search", WITNESS))               # the recorded finding, every run
  budget = ctx.n(4000, 60000) * (3 if broken else 1)
  rng = ctx.rng
  for _ in range(budget):
    kind, inp = gen_case(rng)
    if rng.random() < 0.6:
      inp = widen(rng, kind, inp)
    n += 1
    note(oracle(kind, inp))
    if new >= 3:
      break
  return dict(evaluations=n, failures=fails,
              oracle="plain-Python restatement: floor sizes / multiset / value separation; closed-form C4 kernel means and ratio; own satisfier rule on raw values")


def replay(ctx, payload):
  inp = dict(payload["input"])
  kind = inp.pop("kind")
  return oracle(kind, inp)


LEVEL_TEXT = ("Coq theorems on an executable model of the estimator's constructor (sizes, error condition, rearrangement and value separation for "
              "every sorting permutation), of the densities / ratio / lies over Q for all kernel values in [0, alpha] (non-negativity, floor, formula, "
              "range (0, 1/gamma], monotonicity under lies), of the bandwidth selection with its fallback (always finite positive) and of the search "
              "variant's threshold split; the search variant's ratio clause is proved under 'some observation violates' and REFUTED without it "
              "(known finding). The model is tied to the code by differential runs evaluated inside Coq: exact for the split (with the logged argsort "
              "permutation), 1e-12 for densities, ratio and bandwidths computed with the real covariance")
LEVEL_NOTE = ("Exact arithmetic over Q; floating-point rounding of int(gamma*n) at non-dyadic gamma is outside the model (the searcher skips products "
              "within 1e-9 of an integer); kernel validity is an input contract (C03); harness and check function trusted; no axioms")
TECHNIQUE = "Coq proof (induction, permutation / sortedness lemmas, field arithmetic over Q) on executable model + in-Coq differential correspondence"
DESIGN_REF = "DESIGN.md section 7, C16"
