"""C16 — the Parzen-estimator model splits and scores data as specified."""
import contextlib
import copy
import math
import warnings
from fractions import Fraction

import numpy

from lib import common as C

PROP = "C16"
PROPS_FILES = ["Props/C16.v", "Props/C16_hist.v"]
ASSUMPTIONS = [
  "exact arithmetic over Q: every finite double is a rational; the split is compared exactly on dyadic gamma / forget factor (k/64, j/16) so int(gamma*n) is exact; densities, ratio and bandwidths are compared with a 1e-12 relative tolerance (exp, sqrt and division round)",
  "numpy.argsort is an oracle: any permutation under which the kept values are non-decreasing (contract checked in Coq on the permutation NumPy actually returned, logged by the harness)",
  "kernel values are inputs of the density theorems with 0 <= k(x,p) <= alpha = k(p,p) (validity of the kernels is C03); the harness checks that contract in Coq on the rows the real covariance produced",
  "NaN/inf floats are the value None of the model (empty point set -> NaN spread and NaN density); finite observations and points by precondition",
  "the search variant is modelled from the view's scaled constraint values and scaled thresholds on (the scaling is C12); the searcher restates satisfaction on the raw values, objectives and thresholds; "
  "reading of DESIGN 11.5: the membership clause (lower = satisfiers, greater = violators) applies when at least one observation violates a threshold - with no violator the greater set would be empty and have "
  "no density, so the (repaired) view keeps the constructor's split with gamma = 0.2 on the chosen constraint metric (Props/C16.v, C16_search_no_violator)",
  "histories on a live estimator (Model/ParzenHist.v): the kernel is a parameter of the model and of its theorems; the in-Coq correspondence runs the real estimator class with a RadialCovariance whose radial profile is the rational function 1/(1+r^2) (ParzenHist.rkern; dyadic points and length scales, so only the division and the mean round: 1e-12), the searcher runs the same histories with the real C4 Matern kernel against closed forms",
]
TRUSTED = ["tools/props/C16.py case generator, argsort / covariance-class logging shims and the Q-literal printer",
           "Model/ParzenSplitCorr.v check function (split_spec_b is evaluated, not proved equivalent to the Prop; the exact comparison with form_model under the logged permutation is what ties the output to theorem C16_split_spec)"]


# ------------------------------------------------------------------------------------------ implementation access


def _lib():
  from libsigopt.compute.covariance import C4RadialMatern
  from libsigopt.compute.sigopt_parzen_estimator import SigOptParzenEstimator, SPEInsufficientDataError
  return C4RadialMatern, SigOptParzenEstimator, SPEInsufficientDataError


@contextlib.contextmanager
def log_argsort(log):
  orig = numpy.argsort
  def wrapped(a, *args, **kw):
    r = orig(a, *args, **kw)
    try:
      log.append([int(i) for i in numpy.asarray(r).ravel()])
    except Exception:
      pass
    return r
  numpy.argsort = wrapped
  try:
    yield
  finally:
    numpy.argsort = orig


def one_hot_layout(comps):
  """Independent of the library: (one_hot_dim, indices of the numerical one-hot coordinates)."""
  k, numerical = 0, []
  for c in comps:
    if c["var_type"] == "categorical":
      k += len(c["elements"])
    else:
      numerical.append(k)
      k += 1
  return k, numerical


def one_hot_rows(comps, pts):
  rows = []
  for p in pts:
    r = []
    for c, v in zip(comps, p):
      if c["var_type"] == "categorical":
        r += [1.0 if v == e else 0.0 for e in c["elements"]]
      else:
        r.append(float(v))
    rows.append(r)
  return rows


def build_estimator(inp, log=None):
  """SigOptParzenEstimator(...) on inp = dict(pts, vals, gamma, forget); returns the estimator or 'ERR'."""
  C4, SPE, Err = _lib()
  pts = numpy.array(inp["pts"], dtype=float)
  vals = numpy.array(inp["vals"], dtype=float)
  p0, v0 = pts.copy(), vals.copy()
  cov = C4([1.0] * (pts.shape[1] + 1))
  try:
    with log_argsort(log if log is not None else []):
      spe = SPE(lower_covariance=cov, greater_covariance=cov, points_sampled_points=pts, points_sampled_values=vals,
                gamma=inp["gamma"], forget_factor=inp["forget"])
  except Err:
    return "ERR"
  finally:
    assert numpy.array_equal(p0, pts) and numpy.array_equal(v0, vals), "constructor modified its inputs"
  return spe


def set_covariances(spe, inp):
  C4, _, _ = _lib()
  spe.update_covariances(C4(inp["hyper_l"]), C4(inp["hyper_g"]))


def run_impl(kind, inp):
  """Run the implementation on one input; returns the observable output (python lists / floats)."""
  with warnings.catch_warnings():
    warnings.simplefilter("ignore")              # NumPy's NaN / divide warnings: the values themselves are checked
    return _run_impl(kind, inp)


def _run_impl(kind, inp):
  C4, SPE, Err = _lib()
  if kind == "split":
    log = []
    spe = build_estimator(inp, log)
    if spe == "ERR":
      return dict(error=True)
    return dict(error=False, lower=spe.lower_points.tolist(), greater=spe.greater_points.tolist(), perm=log[-1] if log else None)
  if kind in ("dens", "lie"):
    spe = build_estimator(inp)
    if spe == "ERR":
      raise RuntimeError(f"SPEInsufficientDataError on {len(inp['pts'])} unforgotten observations with gamma {inp['gamma']}")
    set_covariances(spe, inp)
    for lie, low in inp.get("prior_lies", []):
      spe.append_lies([numpy.array(lie, dtype=float)], lower=low)
    if inp.get("transient_lies") is not None:   # a sequence of lies that is taken back: stash, append, recover leaves base points + the lies stashed
      stash = spe.stash_lies()
      for lie, low in inp["transient_lies"]:
        spe.append_lies([numpy.array(lie, dtype=float)], lower=low)
      spe.recover_lies(stash)
    x = numpy.array([inp["x"]], dtype=float)
    if kind == "dens":
      klow = spe.lower_covariance.build_kernel_matrix(spe.lower_points, x)[0]
      kgre = spe.greater_covariance.build_kernel_matrix(spe.greater_points, x)[0]
      l, g, e = spe.evaluate_expected_improvement(x)
      return dict(klow=klow.tolist(), kgre=kgre.tolist(), lpdf=float(l[0]), gpdf=float(g[0]), ei=float(e[0]),
                  n_lower=len(spe.lower_points), n_greater=len(spe.greater_points))
    low = inp["lower"]
    cov = spe.lower_covariance if low else spe.greater_covariance
    dens = spe.evaluate_lower_density if low else spe.evaluate_greater_density
    get = (lambda: spe.lower_points) if low else (lambda: spe.greater_points)
    k0 = cov.build_kernel_matrix(get(), x)[0].tolist()
    before = float(dens(x)[0])
    spe.append_lies([x[0].copy()], lower=low)
    k1 = cov.build_kernel_matrix(get(), x)[0].tolist()
    after = float(dens(x)[0])
    ls = [float(h) for h in cov.hyperparameters[1:]]
    M = max(sum((a / l) ** 2 + (b / l) ** 2 for a, b, l in zip(x[0].tolist(), p, ls)) for p in get().tolist())
    alpha = float(cov.process_variance)
    return dict(krow=k0, krow_after=k1, before=before, after=after, alpha=alpha, ktol=alpha * (1e-14 * M + 1e-14))
  if kind == "band":
    from libsigopt.compute.domain import CategoricalDomain
    from libsigopt.views.rest.spe_next_points import SPENextPoints
    calls = []
    class Rec(C4):
      def __init__(self, hyperparameters):
        calls.append([float(h) for h in hyperparameters])
        super().__init__(hyperparameters)
    dom = CategoricalDomain(inp["comps"])
    dim, _ = one_hot_layout(inp["comps"])
    pts = numpy.array(inp["pts"], dtype=float).reshape((len(inp["pts"]), dim))
    p0 = pts.copy()
    with warnings.catch_warnings():
      warnings.simplefilter("ignore")
      cov = SPENextPoints.form_one_hot_covariance(Rec, dom, pts, inp["cat_ls"], inp["factor"])
    assert numpy.array_equal(p0, pts), "form_one_hot_covariance modified its input"
    return dict(raw=calls[0], final=[float(h) for h in cov.hyperparameters], ncalls=len(calls))
  if kind == "hist":
    init, outs, snaps, resolved = _run_hist(inp, "rational")
    return dict(init=init, outs=outs, snaps=snaps, resolved=resolved)
  if kind == "search":
    view = make_search_view(inp)
    pf = numpy.array(view.points_sampled_for_pf_values, dtype=float)
    thr = [float(t) for t in view.constraint_thresholds]
    oh = numpy.array(view.one_hot_points_sampled_points, dtype=float)
    vals = pf[:, inp["metric"]].copy()
    log = []
    try:
      with warnings.catch_warnings():
        warnings.simplefilter("ignore")
        with log_argsort(log):
          spe = view.form_sigopt_parzen_estimator_for_search(view.one_hot_points_sampled_points, view.points_sampled_for_pf_values[:, inp["metric"]])
    except Err:
      return dict(error=True, pf=pf.tolist(), thr=thr, oh=oh.tolist(), vals=vals.tolist())
    x = numpy.array([inp["x"]], dtype=float)
    with warnings.catch_warnings():
      warnings.simplefilter("ignore")
      klow = spe.lower_covariance.build_kernel_matrix(spe.lower_points, x)[0]
      kgre = (spe.greater_covariance.build_kernel_matrix(spe.greater_points, x)[0] if len(spe.greater_points) else numpy.array([]))
      l, g, e = spe.evaluate_expected_improvement(x)
    perm = next((p for p in log if len(p) == len(vals)), None)
    return dict(error=False, pf=pf.tolist(), thr=thr, oh=oh.tolist(), vals=vals.tolist(), perm=perm,
                lower=numpy.asarray(spe.lower_points).tolist(), greater=numpy.asarray(spe.greater_points).reshape((-1, oh.shape[1])).tolist(),
                gamma=float(spe.gamma), klow=klow.tolist(), kgre=kgre.tolist(), lpdf=float(l[0]), gpdf=float(g[0]), ei=float(e[0]),
                hyper_l=[float(h) for h in spe.lower_covariance.hyperparameters], hyper_g=[float(h) for h in spe.greater_covariance.hyperparameters])
  raise ValueError(kind)


_RATIONAL = []


def rational_cov():
  """A RadialCovariance of the library whose radial profile is 1 / (1 + r^2) (= ParzenHist.rkern): everything else - scaling by the
  length scales, the distance expansion, the process variance, the matrix layout - is the library's own code."""
  if not _RATIONAL:
    C4, _, _ = _lib()
    class RationalRadial(C4):
      def eval_radial_kernel(self, distance_matrix_squared):
        return 1.0 / (1.0 + distance_matrix_squared)
    _RATIONAL.append(RationalRadial)
  return _RATIONAL[0]


def snap_estimator(spe):
  rows = lambda a, d: numpy.asarray(a, dtype=float).reshape((-1, d)).tolist()
  d = int(spe.dim)
  return dict(dim=d, lower=rows(spe.lower_points, d), greater=rows(spe.greater_points, d),
              lower_lies=[[float(v) for v in l] for l in spe.lower_lies], greater_lies=[[float(v) for v in l] for l in spe.greater_lies],
              gamma=float(spe.gamma), hl=[float(h) for h in spe.lower_covariance.hyperparameters],
              hg=[float(h) for h in spe.greater_covariance.hyperparameters])


def run_hist(inp, kernel="c4"):
  """One live estimator object and a history of operations on it.  Returns (init, outs, snaps, resolved): the object after
  construction, what each operation returned, the object after each operation, and the operations with stash references and
  own-array evaluation points resolved to values."""
  with warnings.catch_warnings():
    warnings.simplefilter("ignore")
    return _run_hist(inp, kernel)


def _run_hist(inp, kernel):
  C4, SPE, Err = _lib()
  K = rational_cov() if kernel == "rational" else C4
  if inp.get("start") == "search":
    view = make_search_view(inp["search"])
    spe = view.form_sigopt_parzen_estimator_for_search(view.one_hot_points_sampled_points,
                                                       view.points_sampled_for_pf_values[:, inp["search"]["metric"]])
  else:
    spe = SPE(lower_covariance=K(inp["hyper_l"]), greater_covariance=K(inp["hyper_g"]),
              points_sampled_points=numpy.array(inp["pts"], dtype=float), points_sampled_values=numpy.array(inp["vals"], dtype=float),
              gamma=inp["gamma"], forget_factor=inp.get("forget", 0.0))
  bufs = {}
  def arr(rows, shared=False):
    a = numpy.array(rows, dtype=float).reshape((len(rows), spe.dim))
    if not shared:
      return a
    b = bufs.setdefault(a.shape, numpy.empty(a.shape))   # one caller-owned buffer per shape, overwritten in place and passed again
    b[...] = a
    return b
  lies = lambda rows: [numpy.array(r, dtype=float) for r in rows]
  init = snap_estimator(spe)
  outs, snaps, resolved, stashes = [], [], [], []
  for op in inp["ops"]:
    k, out, res = op[0], ["none"], list(op)
    if k == "append":
      spe.append_lies(lies(op[1]), lower=bool(op[2]))
    elif k == "clear":
      spe.clear_lies()
    elif k == "stash":
      st = spe.stash_lies()
      stashes.append(st)
      out = ["stash", [[float(v) for v in l] for l in st[0]], [[float(v) for v in l] for l in st[1]]]
    elif k == "recover_stash":
      st = stashes[op[1]]
      res = ["recover", [[float(v) for v in l] for l in st[0]], [[float(v) for v in l] for l in st[1]]]
      spe.recover_lies(st)
    elif k == "recover":
      spe.recover_lies((lies(op[1]), lies(op[2])))
    elif k == "cov":
      try:
        spe.update_covariances(K(op[1]), K(op[2]))
      except AssertionError:
        out = ["err"]
    elif k == "cov_set":
      if op[1]:
        spe.lower_covariance.hyperparameters = list(op[2])
      else:
        spe.greater_covariance.hyperparameters = list(op[2])
    elif k == "gamma":
      spe.gamma = op[1]
    elif k == "lower":
      spe.lower_points = arr(op[1])
    elif k == "greater":
      spe.greater_points = arr(op[1])
    elif k in ("eval", "eval_own"):
      if k == "eval_own":                       # the estimator's own array is the argument (as suggest_next_points_constant_liar does)
        own = spe.lower_points if op[1] == "lower" else spe.greater_points
        res = ["eval", numpy.asarray(own, dtype=float).tolist()]
        l, g, e = spe.evaluate_expected_improvement(own)
      else:
        l, g, e = spe.evaluate_expected_improvement(arr(op[1], len(op) > 2))
      out = ["ei", [[float(a), float(b), float(c)] for a, b, c in zip(l, g, e)]]
    elif k == "ldens":
      out = ["dens", [float(v) for v in spe.evaluate_lower_density(arr(op[1], len(op) > 2))]]
    elif k == "gdens":
      out = ["dens", [float(v) for v in spe.evaluate_greater_density(arr(op[1], len(op) > 2))]]
    elif k == "objective":
      spe.current_point = numpy.array(op[1], dtype=float)
      out = ["val", float(spe.compute_objective_function())]
    elif k == "grad":                           # value-then-gradient at the same point is what the optimisers do; the gradient itself is C04
      spe.evaluate_grad_expected_improvement(arr(op[1]))
    else:
      raise ValueError(k)
    outs.append(out)
    resolved.append(res)
    snaps.append(snap_estimator(spe))
  return init, outs, snaps, resolved


def make_search_view(inp):
  from libsigopt.aux.adapter_info_containers import DomainInfo, MetricsInfo, PointsContainer
  from libsigopt.views.rest.spe_search_next_points import SPESearchNextPoints
  comps = copy.deepcopy(inp["comps"])
  pts = numpy.array(inp["pts"], dtype=float)
  vals = numpy.array(inp["values"], dtype=float)
  n, nm = vals.shape
  mi = MetricsInfo(requires_pareto_frontier_optimization=False, observation_budget=inp.get("budget", 60),
                   user_specified_thresholds=numpy.array([float("nan") if t is None else t for t in inp["thresholds"]], dtype=float),
                   objectives=list(inp["objectives"]), optimized_metrics_index=[], constraint_metrics_index=list(range(nm)))
  params = {"domain_info": DomainInfo(constraint_list=[], domain_components=comps, force_hitandrun_sampling=False, priors=None),
            "num_to_sample": 1, "tag": {}, "metrics_info": mi, "task_options": [],
            "points_sampled": PointsContainer(points=pts, values=vals, value_vars=numpy.zeros_like(vals), failures=numpy.array(inp.get("failures", [False] * n), dtype=bool)),
            "points_being_sampled": PointsContainer(points=numpy.empty((0, len(comps))))}
  return SPESearchNextPoints(params)


# ------------------------------------------------------------------------------------------ generators (correspondence)


def gen_points(rng, n, dim, step=4, hi=6):
  pts = [[rng.randint(0, hi * step) / step for _ in range(dim)] for _ in range(n)]
  for _ in range(rng.randint(0, n // 3)):      # duplicates
    i, j = rng.randrange(n), rng.randrange(n)
    pts[i] = list(pts[j])
  if dim > 1 and rng.random() < 0.3:            # a constant column
    k = rng.randrange(dim)
    for p in pts:
      p[k] = 1.0
  return pts


def gen_values(rng, n):
  hi = rng.choice([0, 1, 2, 5, 20, 1000])
  kind = rng.random()
  if kind < 0.15:
    return [float(rng.randint(-hi, hi)) / 4 for _ in range(n)]
  return [float(rng.randint(-hi, hi)) for _ in range(n)]


def gen_split(rng):
  r = rng.random()
  n = rng.randint(5, 12) if r < 0.2 else rng.randint(10, 48)
  dim = rng.randint(1, 3)
  forget = 0.0 if rng.random() < 0.6 else rng.randint(1, 15) / 16.0
  gamma = rng.choice([1, 2, 3, 4, 6, 8, 13, 16, 21, 32, 45, 48, 60, 63]) / 64.0 if rng.random() < 0.7 else rng.randint(1, 63) / 64.0
  return dict(pts=gen_points(rng, n, dim), vals=gen_values(rng, n), gamma=gamma, forget=forget)


def gen_hyper(rng, dim):
  return [rng.choice([0.5, 1.0, 1.0, 2.0, 3.25])] + [rng.choice([0.25, 0.3, 0.5, 1.0, 2.0, 7.5]) for _ in range(dim)]


def gen_dens(rng, lie=False):
  n, dim = rng.randint(10, 30), rng.randint(1, 3)
  inp = dict(pts=gen_points(rng, n, dim), vals=gen_values(rng, n), gamma=rng.randint(1, 63) / 64.0, forget=0.0)
  inp["hyper_l"], inp["hyper_g"] = gen_hyper(rng, dim), gen_hyper(rng, dim)
  r = rng.random()
  if r < 0.4:
    x = list(rng.choice(inp["pts"]))
  elif r < 0.8:
    x = [rng.randint(0, 24) / 4 for _ in range(dim)]
  else:
    x = [rng.choice([-50.0, 40.0, 300.0]) for _ in range(dim)]   # far from the data: kernel values near 0
  inp["x"] = x
  inp["prior_lies"] = [([rng.randint(0, 24) / 4 for _ in range(dim)] if rng.random() < 0.6 else list(x), rng.random() < 0.4)
                       for _ in range(rng.choice([0, 0, 1, 2, 4]))]
  if rng.random() < 0.4:
    inp["transient_lies"] = [([rng.randint(0, 24) / 4 for _ in range(dim)] if rng.random() < 0.6 else list(x), rng.random() < 0.5)
                             for _ in range(rng.choice([0, 1, 1, 2, 3]))]
  if lie:
    inp["lower"] = rng.random() < 0.4
  return inp


def gen_comps(rng):
  comps = []
  for _ in range(rng.randint(1, 3)):
    t = rng.choice(["double", "double", "int", "categorical"])
    if t == "double":
      comps.append({"var_type": "double", "elements": [0.0, 6.0]})
    elif t == "int":
      comps.append({"var_type": "int", "elements": [0, 6]})
    else:
      comps.append({"var_type": "categorical", "elements": list(range(1, rng.randint(2, 3) + 1))})
  if all(c["var_type"] == "categorical" for c in comps) and rng.random() < 0.7:
    comps.insert(rng.randint(0, len(comps)), {"var_type": "double", "elements": [0.0, 6.0]})
  return comps


def gen_cat_points(rng, comps, n):
  pts = []
  for _ in range(n):
    p = []
    for c in comps:
      if c["var_type"] == "double":
        p.append(rng.randint(0, 24) / 4)
      elif c["var_type"] == "int":
        p.append(float(rng.randint(0, 6)))
      else:
        p.append(float(rng.choice(c["elements"])))
    pts.append(p)
  if n and rng.random() < 0.3:                   # constant coordinate
    k = rng.randrange(len(comps))
    for p in pts:
      p[k] = pts[0][k]
  return pts


def gen_band(rng):
  comps = gen_comps(rng)
  n = rng.choice([0, 0, 1, 2, 3, 5, 8, 12])
  pts = one_hot_rows(comps, gen_cat_points(rng, comps, n))
  cat_ls = 0.3 if rng.random() < 0.8 else rng.choice([0.0, -1.0, 2.5])
  return dict(comps=comps, pts=pts, cat_ls=cat_ls, factor=rng.choice([1.0, 2.0, 5.0, 10.0, 0.5]))


def gen_search(rng, force=None):
  comps = gen_comps(rng)
  dim, _ = one_hot_layout(comps)
  n = rng.randint(6, 9) if rng.random() < 0.08 else rng.randint(10, 26)
  nm = rng.randint(1, 3)
  values = [[float(rng.randint(-8, 8)) for _ in range(nm)] for _ in range(n)]
  objectives = [rng.choice(["maximize", "minimize"]) for _ in range(nm)]
  mode = force or rng.choice(["none-violate", "mixed", "mixed", "mixed", "few-satisfy", "all-violate"])
  thr = []
  for k in range(nm):
    mx = objectives[k] == "maximize"
    if mode == "none-violate":
      t = -100.0 if mx else 100.0
    elif mode == "all-violate":
      t = 100.0 if mx else -100.0
    elif mode == "few-satisfy":
      t = float(rng.randint(5, 8)) if mx else float(rng.randint(-8, -5))
    else:
      t = float(rng.randint(-6, 6)) + rng.choice([0.0, 0.5])
    if nm > 1 and rng.random() < 0.25:
      t = None
    thr.append(t)
  if all(t is None for t in thr):
    thr[0] = -100.0 if objectives[0] == "maximize" else 100.0
  degenerate = []
  if rng.random() < 0.35:
    # degenerate constraint metrics: CONSTANT over the history (a saturated / clipped score), or constant up to 2^-30, at negative, positive, small and
    # large values, with a threshold that every observation satisfies, every observation violates, or that equals the constant.  Their scaled image is
    # the fallback arm of the normalisation (half width below 1e-8: scale 1 / max|v| beyond 1, else 1); who satisfies the threshold is read off the raw values.
    if nm == 1:      # next to a metric that varies: the split is then decided by the other metric, and the degenerate one must not disturb it
      nm = 2
      for row in values:
        row.append(float(rng.randint(-8, 8)))
      objectives.append(rng.choice(["maximize", "minimize"]))
      thr.append(None)
    deg = rng.sample(range(nm), rng.choice([1, 1, 1, nm - 1, nm]))
    for k in range(nm):
      if k not in deg and rng.random() < 0.8:      # the varied metrics split the history roughly in half
        thr[k] = float(rng.randint(-3, 3)) + rng.choice([0.0, 0.5])
    for k in deg:
      c = rng.choice([-40.0, -5.0, -5.0, -2.5, -1.5, -1.0, -0.5, 0.0, 0.5, 1.0, 1.5, 3.0, 5.0, 40.0])
      wobble = rng.random() < 0.25
      for row in values:
        row[k] = c + (rng.randint(0, 3) * 2.0 ** -30 if wobble else 0.0)
      better = 1.0 if objectives[k] == "minimize" else -1.0      # a threshold on the easy side is satisfied by every observation
      thr[k] = rng.choice([c + better * d for d in (0.5, 1.0, 2.0, 100.0)] * 2 + [c - better * d for d in (0.5, 1.0, 100.0)] + [c])
      degenerate.append(k)
  pts = gen_cat_points(rng, comps, n)
  x = one_hot_rows(comps, gen_cat_points(rng, comps, 1))[0]
  return dict(comps=comps, pts=pts, values=values, objectives=objectives, thresholds=thr, metric=rng.randrange(nm), x=x, mode=mode, degenerate=degenerate)


DYADIC_LS = [0.25, 0.5, 1.0, 1.0, 2.0, 4.0]


def gen_hyper_dyadic(rng, dim):
  return [rng.choice([0.5, 1.0, 1.0, 2.0, 3.25])] + [rng.choice(DYADIC_LS) for _ in range(dim)]


def gen_hist_ops(rng, dim, rows, n_lower, n_greater, allow_assign=True, extras=False):
  """A history on one estimator.  `rows` are the one-hot rows lies / evaluation points / assigned sets are drawn from (observed
  points and fresh ones).  The evaluation points come from a pool of 2-3 point sets, so the same points are evaluated again and
  again while the estimator changes in between - in particular without changing the sizes of its sets (a lie withdrawn and
  replaced, kernels replaced or re-tuned, gamma or a set assigned)."""
  pick = lambda: list(rng.choice(rows))
  pool = [[pick() for _ in range(rng.choice([1, 1, 2, 3]))] for _ in range(rng.choice([1, 2, 2, 3]))]
  at_eval = lambda: list(rng.choice(rng.choice(pool)))
  lie = lambda: at_eval() if rng.random() < 0.5 else pick()
  size = {True: n_lower, False: n_greater}      # current number of rows of the lower / greater set
  out = {True: 0, False: 0}                     # lies outstanding
  nst, ops = 0, []
  def evaluation():
    xs = rng.choice(pool)
    r = rng.random()
    buf = ["buf"] if rng.random() < 0.3 else []   # the points arrive in a buffer the caller re-uses (same object, other content)
    if r < 0.55:
      return ["eval", xs] + buf
    if r < 0.7:
      return ["ldens", xs] + buf
    if r < 0.85:
      return ["gdens", xs] + buf
    return ["objective", xs[0]]
  ops.append(evaluation())
  for _ in range(rng.randint(3, 9)):
    r = rng.random()
    if r < 0.16:
      low = rng.random() < 0.4
      k = rng.choice([1, 1, 2])
      ops.append(["append", [lie() for _ in range(k)], low])
      out[low] += k
      size[low] += k
    elif r < 0.30 and (out[True] or out[False]):         # the lies told are withdrawn and replaced by as many others
      ops.append(["clear"])
      if rng.random() < 0.5:
        ops.append(evaluation())
      for low in (True, False):
        if out[low]:
          ops.append(["append", [lie() for _ in range(out[low])], low])
    elif r < 0.36 and (out[True] or out[False]):         # ... or through recover_lies
      ops.append(["recover", [lie() for _ in range(out[True])], [lie() for _ in range(out[False])]])
    elif r < 0.40:
      ops.append(["clear"])
      size[True] -= out[True]
      size[False] -= out[False]
      out[True] = out[False] = 0
    elif r < 0.46:
      ops.append(["stash"])
      nst += 1
    elif r < 0.50 and nst:
      ops.append(["recover_stash", rng.randrange(nst)])
      ops.append(evaluation())
      return ops                                           # the counts after an old stash are not tracked here: end of the history
    elif r < 0.60:
      ops.append(["cov", gen_hyper_dyadic(rng, dim), gen_hyper_dyadic(rng, dim)])
    elif r < 0.67:
      ops.append(["cov_set", rng.random() < 0.5, gen_hyper_dyadic(rng, dim)])
    elif r < 0.74:
      ops.append(["gamma", rng.randint(1, 63) / 64.0])
    elif r < 0.84 and allow_assign:
      low = rng.random() < 0.5
      if out[low] == 0 or (extras and rng.random() < 0.3):
        k = size[low] if rng.random() < 0.7 else rng.randint(out[low] + 2, out[low] + 8)
        ops.append(["lower" if low else "greater", [pick() for _ in range(k)]])
        size[low] = k
    elif r < 0.87 and extras:
      ops.append(["cov", gen_hyper_dyadic(rng, dim + rng.choice([-1, 1]) if dim > 1 else dim + 1), gen_hyper_dyadic(rng, dim)])
    elif r < 0.90:
      ops.append(["eval_own", rng.choice(["lower", "greater"])])
    ops.append(evaluation())
  return ops


def gen_hist(rng):
  n, dim = rng.randint(10, 16), rng.randint(1, 3)
  inp = dict(pts=gen_points(rng, n, dim), vals=gen_values(rng, n), gamma=rng.randint(1, 63) / 64.0, forget=0.0,
             hyper_l=gen_hyper_dyadic(rng, dim), hyper_g=gen_hyper_dyadic(rng, dim))
  rows = [list(p) for p in inp["pts"]] + [[rng.randint(0, 24) / 4 for _ in range(dim)] for _ in range(6)]
  s = max(int(Fraction(inp["gamma"]) * n), 3)
  inp["ops"] = gen_hist_ops(rng, dim, rows, s, n - s, extras=True)
  return inp


GEN = dict(split=gen_split, dens=gen_dens, lie=lambda rng: gen_dens(rng, lie=True), band=gen_band, search=gen_search, hist=gen_hist)


def gen_case(rng):
  kind = rng.choice(["split"] * 5 + ["dens"] * 2 + ["lie"] * 2 + ["band"] * 2 + ["search"] * 3 + ["hist"] * 3)
  return kind, GEN[kind](rng)


# ------------------------------------------------------------------------------------------ Coq printers


def qrows(rows):
  return C.listlit([C.listlit(r, C.qlit) for r in rows])


def qopt(x):
  return "None" if x is None or not math.isfinite(x) else f"(Some {C.qlit(x)})"


def permlit(p):
  return "None" if p is None else f"(Some {C.listlit(p, C.nlit)})"


def ei_lit(l, g, e):
  if not all(math.isfinite(v) for v in (l, g, e)):
    return "None"
  return f"(Some ({C.qlit(l)}, {C.qlit(g)}, {C.qlit(e)}))"


def est_lit(e):
  return (f"(mkEst (Lies.mkPz {C.nlit(e['dim'])} {qrows(e['lower'])} {qrows(e['greater'])} {qrows(e['lower_lies'])} {qrows(e['greater_lies'])}) "
          f"{C.qlit(e['gamma'])} {C.listlit(e['hl'], C.qlit)} {C.listlit(e['hg'], C.qlit)})")


def hop_lit(op):
  k = op[0]
  if k == "append":
    return f"(HLie (Lies.PAppend {qrows(op[1])} {C.blit(op[2])}))"
  if k == "clear":
    return "(HLie Lies.PClear)"
  if k == "stash":
    return "(HLie Lies.PStash)"
  if k == "recover":
    return f"(HLie (Lies.PRecover {qrows(op[1])} {qrows(op[2])}))"
  if k == "cov":
    return f"(HCov {C.listlit(op[1], C.qlit)} {C.listlit(op[2], C.qlit)})"
  if k == "cov_set":
    return f"(HCovSet {C.blit(op[1])} {C.listlit(op[2], C.qlit)})"
  if k == "gamma":
    return f"(HGamma {C.qlit(op[1])})"
  if k in ("lower", "greater"):
    return f"({'HLower' if k == 'lower' else 'HGreater'} {qrows(op[1])})"
  if k in ("eval", "ldens", "gdens"):
    return f"({dict(eval='HEval', ldens='HLowerDens', gdens='HGreaterDens')[k]} {qrows(op[1])})"
  if k == "objective":
    return f"(HObjective {C.listlit(op[1], C.qlit)})"
  raise ValueError(k)


def hout_lit(o):
  k = o[0]
  if k == "none":
    return "HNone"
  if k == "err":
    return "HErr"
  if k == "stash":
    return f"(HLieOut (Lies.OStash {qrows(o[1])} {qrows(o[2])}))"
  if k == "ei":
    return f"(HEI {C.listlit([ei_lit(*t) for t in o[1]])})"
  if k == "dens":
    return f"(HDens {C.listlit(o[1], qopt)})"
  if k == "val":
    return f"(HVal {qopt(o[1])})"
  raise ValueError(k)


def hist_out_lits(out):
  """Lie operations answer through the lie state machine: HLieOut ONone."""
  lits = []
  for op, o in zip(out["resolved"], out["outs"]):
    if op[0] in ("append", "clear", "recover") and o[0] == "none":
      lits.append("(HLieOut Lies.ONone)")
    else:
      lits.append(hout_lit(o))
  return lits


def coq_cases(kind, inp, out):
  """One input may print several Coq cases (the search variant also prints its densities)."""
  if kind == "split":
    o = "OErr" if out["error"] else f"(OOk {qrows(out['lower'])} {qrows(out['greater'])})"
    return [f"CSplit {C.qlit(inp['gamma'])} {C.qlit(inp['forget'])} {qrows(inp['pts'])} {C.listlit(inp['vals'], C.qlit)} {permlit(out.get('perm'))} {o}"]
  if kind == "dens":
    return [f"CDens {C.qlit(inp['hyper_l'][0])} {C.qlit(inp['hyper_g'][0])} {C.qlit(inp['gamma'])} {C.listlit(out['klow'], C.qlit)} "
            f"{C.listlit(out['kgre'], C.qlit)} {ei_lit(out['lpdf'], out['gpdf'], out['ei'])}"]
  if kind == "lie":
    return [f"CLie {C.blit(inp['lower'])} {C.qlit(out['alpha'])} {C.qlit(out['ktol'])} {C.listlit(out['krow'], C.qlit)} {C.listlit(out['krow_after'], C.qlit)} "
            f"{C.qlit(out['before'])} {C.qlit(out['after'])}"]
  if kind == "band":
    dim, numerical = one_hot_layout(inp["comps"])
    return [f"CBand {C.listlit(numerical, C.nlit)} {C.qlit(inp['cat_ls'])} {C.qlit(inp['factor'])} {C.nlit(dim)} {qrows(inp['pts'])} "
            f"{C.listlit(out['raw'], qopt)} {C.listlit(out['final'], qopt)}"]
  if kind == "hist":
    return [f"CHist {est_lit(out['init'])} {C.listlit([hop_lit(o) for o in out['resolved']])} {C.listlit(hist_out_lits(out))} "
            f"{C.listlit([est_lit(e) for e in out['snaps']])}"]
  if kind == "search":
    dim, _ = one_hot_layout(inp["comps"])
    head = (f"CSearch {C.qlit(0.2)} {C.nlit(dim)} {qrows(out['oh'])} {C.listlit(out['vals'], C.qlit)} {permlit(out.get('perm'))} "
            f"{C.listlit(out['thr'], qopt)} {qrows(out['pf'])}")
    if out["error"]:
      return [head + " None"]
    cs = [head + f" (Some ({qrows(out['lower'])}, {qrows(out['greater'])}, {C.qlit(out['gamma'])}))"]
    cs.append(f"CDens 1 1 {C.qlit(out['gamma'])} {C.listlit(out['klow'], C.qlit)} {C.listlit(out['kgre'], C.qlit)} {ei_lit(out['lpdf'], out['gpdf'], out['ei'])}")
    return cs
  raise ValueError(kind)


def branch(kind, inp, out):
  if kind == "split":
    if out["error"]:
      return "split:error"
    v = sorted(inp["vals"][:len(out["lower"]) + len(out["greater"])])
    s = len(out["lower"])
    return "split:tie-at-cut" if v[s - 1] == v[s] else "split:strict-cut"
  if kind == "search":
    if out["error"]:
      return "search:error"
    if not out["greater"]:
      return "search:no-violators(gamma=0, empty greater set)"     # only a tree without the repair 'fix: SPE search forces ...' gets here
    if out["gamma"] == 0.2:
      nv = sum(1 for row in out["pf"] if any(not math.isnan(t) and not v < t for v, t in zip(row, out["thr"])))
      return "search:no-violators(default-split)" if nv == 0 else "search:default-split(too-few-satisfiers)"
    return "search:threshold-split"
  if kind == "band":
    if not inp["pts"]:
      return "band:empty-set-fallback"
    return "band:fallback" if out["ncalls"] > 1 else "band:from-spread"
  if kind == "lie":
    return "lie:lower" if inp["lower"] else "lie:greater"
  if kind == "hist":
    return "hist:same-points-again-after-a-size-preserving-change" if stale_opportunities(out) else "hist:other"
  return kind


def stale_opportunities(out):
  """Number of evaluations that repeat the points of the previous evaluation through the same entry point while the estimator
  holds sets of the same sizes but different content / kernels / gamma (measured on the implementation's own snapshots)."""
  states = [out["init"]] + out["snaps"]
  last, count = {}, 0
  for i, (op, o) in enumerate(zip(out["resolved"], out["outs"])):
    if op[0] not in ("eval", "ldens", "gdens", "objective"):
      continue
    key, st = (op[0], repr(op[1])), states[i]
    prev = last.get(key)
    if prev is not None and len(prev["lower"]) == len(st["lower"]) and len(prev["greater"]) == len(st["greater"]) and prev != st:
      count += 1
    last[key] = st
  return count


def nontrivial(kind, inp, out):
  if kind == "split":
    return not out["error"] and len(set(inp["vals"])) > 1
  if kind == "search":
    return not out["error"]
  if kind == "band":
    return len(inp["pts"]) >= 2
  if kind == "hist":                              # at least two evaluations with a change of the estimator in between
    ev = [i for i, op in enumerate(out["resolved"]) if op[0] in ("eval", "ldens", "gdens", "objective")]
    states = [out["init"]] + out["snaps"]
    return any(states[i] != states[j] for i in ev for j in ev if i < j)
  return True


def correspondence(ctx):
  n = ctx.n(500, 6000)
  cases, meta, seen, dist = [], [], set(), {}
  nontriv = 0
  dis = []
  for _ in range(n):
    kind, inp = gen_case(ctx.rng)
    try:
      out = run_impl(kind, inp)
    except Exception as e:  # the implementation crashed on a valid input: a disagreement with the (total) model
      dis.append(dict(what=f"C16 correspondence ({kind}): implementation raised {type(e).__name__}: {e}", kind=kind, input=inp, observed=repr(e)))
      continue
    b = branch(kind, inp, out)
    dist[b] = dist.get(b, 0) + 1
    for c in coq_cases(kind, inp, out):
      cases.append(c)
      meta.append((kind, inp, out))
    h = C.canon_hash([kind, inp])
    if h not in seen and nontrivial(kind, inp, out):
      nontriv += 1
    seen.add(h)
  bad = C.run_cases("C16", "From Coq Require Import List QArith ZArith Bool.\nFrom LV Require Import Model.ParzenSplit Model.ParzenHist Model.ParzenSplitCorr.\n"
                           "From LV Require Model.Lies.\nOpen Scope Q_scope.",
                    "case", "check", cases, shard=60)
  for i in bad:
    k, inp, out = meta[i]
    dis.append(dict(what=f"C16 correspondence case {i} ({k}): implementation output differs from Model.ParzenSplit / its specification",
                    kind=k, input=inp, observed=out))
  return dict(evaluations=n, distinct_nontrivial=nontriv,
              rule="estimators on 5..48 observations in 1-3 dimensions (quarter-integer points with duplicates and constant columns, integer values with "
                   "many ties), gamma k/64, forget factor j/16; densities / lies at data points, fresh points and far points with random C4 hyperparameters; "
                   "bandwidths on one-hot point sets of 0..12 rows over mixed double/int/categorical domains; the search variant through a real "
                   "SPESearchNextPoints view (1-3 constraint metrics, NaN thresholds, every threshold regime); histories of 4-25 operations on one "
                   "live estimator (lies told / withdrawn / replaced by as many others / stashed / recovered, update_covariances incl. a refused "
                   "one, hyperparameters assigned in place, gamma and the two sets assigned directly, the four evaluation entry points on a pool of "
                   "2-3 point sets so that the same points are re-evaluated after the change; rational kernel). Non-trivial = a successful split with "
                   ">= 2 distinct values / a constructed search estimator / >= 2 rows for bandwidths / a history with two evaluations around a change "
                   "of the estimator; distinct by hash of the canonical input",
              samples=[dict(kind=k, input=i, impl_output=o) for k, i, o in meta[:3]], distribution=dist, disagreements=dis)


# ------------------------------------------------------------------------------------------ independent oracle


def c4(alpha, ls, x, z):
  r = math.sqrt(sum(((a - b) / l) ** 2 for a, b, l in zip(x, z, ls)))
  return alpha * (1 + r + r * r / 3.0) * math.exp(-r)


def near_int(fr):
  return abs(fr - round(fr)) < Fraction(1, 10 ** 9) and fr != round(fr)


def fail(kind, what, inp, observed, expected, oracle_text):
  return dict(signature=f"C16:{kind}:{what}", what=f"{kind}: {what}", input=dict(kind=kind, **inp), observed=observed, expected=expected, oracle=oracle_text)


def oracle_split(inp):
  kind = "split"
  try:
    out = run_impl(kind, inp)
  except Exception as e:
    return fail(kind, f"raises:{type(e).__name__}", inp, repr(e), "a split or SPEInsufficientDataError", "no other exception on valid input")
  n = len(inp["pts"])
  fn, gm = Fraction(inp["forget"]) * n, None
  if near_int(fn):
    return None
  m = n - math.floor(fn)
  expect_err = m < 10
  if not expect_err:
    gm = Fraction(inp["gamma"]) * m
    if near_int(gm):
      return None
    s = max(math.floor(gm), 3)
    expect_err = s > m - 1
  txt = "brute force: m = n - floor(forget n); error iff m < 10 or max(floor(gamma m), 3) > m - 1; sizes; multiset; max(lower values) <= min(greater values)"
  if expect_err != out["error"]:
    return fail(kind, "insufficient-data error raised iff the split is impossible", inp, out, dict(error=expect_err), txt)
  if expect_err:
    return None
  lo, gr = [tuple(r) for r in out["lower"]], [tuple(r) for r in out["greater"]]
  if len(lo) != s or len(gr) != m - s:
    return fail(kind, "set sizes are max(floor(gamma m), 3) and the rest", inp, dict(lower=len(lo), greater=len(gr)), dict(lower=s, greater=m - s), txt)
  kept = [tuple(map(float, p)) for p in inp["pts"][:m]]
  if sorted(lo + gr) != sorted(kept):
    return fail(kind, "lower and greater together are the unforgotten points", inp, out, None, txt)
  val = {}
  for p, v in zip(kept, inp["vals"][:m]):
    val.setdefault(p, set()).add(float(v))
  if all(len(v) == 1 for v in val.values()):   # the value of a stored row is unambiguous
    if max(next(iter(val[p])) for p in lo) > min(next(iter(val[p])) for p in gr):
      return fail(kind, "every lower value is <= every greater value", inp, out, None, txt)
  return None


def oracle_dens(kind, inp):
  try:
    out = run_impl(kind, inp)
  except Exception as e:
    return fail(kind, f"raises:{type(e).__name__}", inp, repr(e), "densities", "no exception on valid input")
  spe = build_estimator(inp)
  lo, gr = spe.lower_points.tolist(), spe.greater_points.tolist()
  for lie, low in inp.get("prior_lies", []):
    (lo if low else gr).append(list(lie))
  al, ll, ag, lg = inp["hyper_l"][0], inp["hyper_l"][1:], inp["hyper_g"][0], inp["hyper_g"][1:]
  x, gamma = inp["x"], inp["gamma"]
  txt = ("closed form in plain Python: C4 Matern kernel, arithmetic means, +1e-10 floor; formula and range of the ratio on the "
         "implementation's own densities")
  def ktol(alpha, ls, S):
    # the library expands |x-z|^2 = |x|^2 + |z|^2 - 2 x.z: absolute error ~ ulp * M in r^2, and |dk/d(r^2)| <= alpha / 6
    M = max(sum((a / l) ** 2 + (b / l) ** 2 for a, b, l in zip(x, p, ls)) for p in S)
    return alpha * (1e-14 * M + 1e-14)
  if kind == "dens":
    el = sum(c4(al, ll, x, p) for p in lo) / len(lo) + 1e-10
    eg = sum(c4(ag, lg, x, p) for p in gr) / len(gr)
    if not (abs(out["lpdf"] - el) <= ktol(al, ll, lo) and out["lpdf"] >= 1e-10):
      return fail(kind, "lower density is the kernel mean plus the floor", inp, out["lpdf"], el, txt)
    if not (abs(out["gpdf"] - eg) <= ktol(ag, lg, gr) and out["gpdf"] >= 0):
      return fail(kind, "greater density is the non-negative kernel mean", inp, out["gpdf"], eg, txt)
    er = 1.0 / (gamma + (1 - gamma) * out["gpdf"] / out["lpdf"])
    if not abs(out["ei"] - er) <= 1e-12 * max(1.0, abs(er)):
      return fail(kind, "ratio equals 1/(gamma + (1-gamma) greater/lower)", inp, out["ei"], er, txt)
    if not (0 < out["ei"] <= (1 / gamma) * (1 + 1e-12)):
      return fail(kind, "ratio lies in (0, 1/gamma]", inp, out["ei"], [0, 1 / gamma], txt)
    return None
  low = inp["lower"]
  S, a, ls, floor = (lo, al, ll, 1e-10) if low else (gr, ag, lg, 0.0)
  eb = sum(c4(a, ls, x, p) for p in S) / len(S) + floor
  ea = (sum(c4(a, ls, x, p) for p in S) + a) / (len(S) + 1) + floor
  tol = ktol(a, ls, S + [x])
  if abs(out["before"] - eb) > tol or abs(out["after"] - ea) > tol:
    return fail(kind, "density after a lie is the kernel mean over the set with the lie", inp, [out["before"], out["after"]], [eb, ea], txt)
  if out["after"] < out["before"] - tol:
    return fail(kind, "a lie at a location does not lower the density there", inp, [out["before"], out["after"]], "after >= before", txt)
  return None


def oracle_band(inp):
  kind = "band"
  try:
    out = run_impl(kind, inp)
  except Exception as e:
    return fail(kind, f"raises:{type(e).__name__}", inp, repr(e), "a covariance", "no exception: the fallback must absorb invalid hyperparameters")
  dim, numerical = one_hot_layout(inp["comps"])
  txt = "own statement: 1 + one_hot_dim finite positive hyperparameters; factor^2 (pstdev + 1e-8) / 2 on numerical coordinates when everything is valid"
  h = out["final"]
  if len(h) != dim + 1 or not all(math.isfinite(v) and v > 0 for v in h):
    return fail(kind, "hyperparameters are finite and positive", inp, h, None, txt)
  pts = inp["pts"]
  if pts and inp["cat_ls"] > 0 and inp["factor"] > 0:
    exp = [1.0]
    for k in range(dim):
      col = [p[k] for p in pts]
      mu = math.fsum(col) / len(col)
      sd = math.sqrt(math.fsum((c - mu) ** 2 for c in col) / len(col))
      exp.append(inp["factor"] ** 2 * (sd + 1e-8) / 2 if k in numerical else inp["cat_ls"])
    if all(math.isfinite(v) and v > 0 for v in exp) and any(abs(a - b) > 1e-9 * max(1.0, abs(b)) for a, b in zip(h, exp)):
      return fail(kind, "bandwidths come from the point spread", inp, h, exp, txt)
  return None


def oracle_search(inp):
  kind = "search"
  _, _, Err = _lib()
  try:
    out = run_impl(kind, inp)
  except Exception as e:
    return fail(kind, f"raises:{type(e).__name__}", inp, repr(e), "an estimator or SPEInsufficientDataError", "no other exception on valid input")
  n = len(inp["pts"])
  txt = ("raw values: an observation satisfies a threshold iff it is strictly better (greater for maximize, smaller for minimize); "
         "#satisfiers > one-hot dim and >= 1 violator => lower = satisfiers, greater = violators, gamma = #violators / n; otherwise the constructor's split "
         "(max(floor(0.2 n), 3) best values of the chosen metric) with gamma 0.2; in every case finite densities and a ratio in (0, 1/gamma]")
  if out["error"]:
    return None if n < 10 else fail(kind, "insufficient-data error on >= 10 observations", inp, out, None, txt)
  if n < 10:
    return fail(kind, "no insufficient-data error on < 10 observations", inp, None, None, txt)
  if any(inp.get("failures", [])):
    return None
  dim, _ = one_hot_layout(inp["comps"])
  sat = []
  for row in inp["values"]:
    ok = True
    for v, t, ob in zip(row, inp["thresholds"], inp["objectives"]):
      if t is None:
        continue
      if abs(v - t) < 1e-9 * max(1.0, abs(t)) and v != t:
        return None     # too close to a threshold for the scaled comparison to be decided
      ok = ok and (v > t if ob == "maximize" else v < t)
    sat.append(ok)
  oh = one_hot_rows(inp["comps"], inp["pts"])
  lo, gr = sorted(tuple(r) for r in out["lower"]), sorted(tuple(r) for r in out["greater"])
  nsat = sum(sat)
  g = out["gamma"]

  def ratio_clause():
    """Both densities finite kernel means, gamma in (0, 1), the ratio the documented one and in (0, 1/gamma] - for EVERY estimator the view builds."""
    ok = all(math.isfinite(v) for v in (out["lpdf"], out["gpdf"], out["ei"])) and 0 < g < 1 and out["gpdf"] >= 0 and 0 < out["ei"] <= (1 / g) * (1 + 1e-12)
    if not ok:
      return fail(kind, "densities finite and ratio in (0, 1/gamma]", inp, dict(gamma=g, lpdf=out["lpdf"], gpdf=out["gpdf"], ei=out["ei"], n_lower=len(lo), n_greater=len(gr),
                                                                                   satisfiers=nsat, observations=n, one_hot_dim=dim),
                  "finite densities over two non-empty sets, 0 < gamma < 1 and a ratio in (0, 1/gamma]", txt)
    # the ratio the search variant scores with is the documented one for the gamma and the two densities of THIS estimator
    er = 1.0 / (g + (1.0 - g) * out["gpdf"] / out["lpdf"])
    if abs(out["ei"] - er) > 1e-10 * max(abs(er), 1e-300):
      return fail(kind, "ratio equals 1/(gamma + (1-gamma) greater/lower) for the gamma of the search split", inp, out["ei"], er, txt)
    return None

  if nsat > dim and nsat < n:
    # membership clause: more satisfiers than dimensions and at least one violator
    e_lo = sorted(tuple(r) for r, s in zip(oh, sat) if s)
    e_gr = sorted(tuple(r) for r, s in zip(oh, sat) if not s)
    if lo != e_lo or gr != e_gr:
      return fail(kind, "lower holds the satisfiers and greater the violators", inp, dict(lower=lo, greater=gr), dict(lower=e_lo, greater=e_gr), txt)
    eg = (n - nsat) / n
    if abs(out["gamma"] - eg) > 1e-12:
      return fail(kind, "gamma is the fraction of violators", inp, out["gamma"], eg, txt)
    return ratio_clause()
  # no violator at all (a literal threshold split would leave an empty greater set, which has no density: reading of DESIGN 11.5) or too few
  # satisfiers: the estimator is the constructor's - the ratio clause first (it is what the property states for every estimator), then the split
  r = ratio_clause()
  if r:
    return r
  s_exp = max(math.floor(Fraction(0.2) * n), 3)
  if len(lo) != s_exp or sorted(lo + gr) != sorted(tuple(r) for r in oh):
    return fail(kind, "default split kept when too few observations satisfy the thresholds or none violates", inp, dict(lower=len(lo), greater=len(gr)),
                dict(lower=s_exp, greater=n - s_exp), txt)
  if abs(g - 0.2) > 1e-15:
    return fail(kind, "default gamma 0.2 kept with the default split", inp, g, 0.2, txt)
  # ... on the chosen constraint metric: every lower observation is at least as good (in the sense of the objective) as every greater one
  m = inp["metric"]
  key = [(-row[m] if inp["objectives"][m] == "maximize" else row[m]) for row in inp["values"]]
  by_row = {}
  for r_, k_ in zip(oh, key):
    by_row.setdefault(tuple(r_), set()).add(k_)
  if all(len(v) == 1 for v in by_row.values()):      # the value of a stored row is unambiguous
    worst_lo, best_gr = max(next(iter(by_row[r_])) for r_ in lo), min(next(iter(by_row[r_])) for r_ in gr)
    if worst_lo > best_gr + 1e-9 * max(1.0, abs(best_gr)):
      return fail(kind, "default split: the lower set holds the best values of the chosen constraint metric", inp, dict(worst_lower=worst_lo, best_greater=best_gr),
                  "max over lower <= min over greater (minimisation sense)", txt)
  return None


EVALS = ("eval", "ldens", "gdens", "objective")
STATS = dict(lie_monotone=0, re_evaluated=0)       # how often the history oracle reached these clauses (reported by the searcher)


def oracle_hist(inp):
  """Histories on one live estimator with the real C4 kernel: after every operation the estimator holds the split's sets plus the
  lies outstanding, and every evaluation is the closed form for the sets, kernels and gamma held at that moment."""
  kind = "hist"
  try:
    init, outs, snaps, ops = run_hist(inp, "c4")
  except Exception as e:
    return fail(kind, f"raises:{type(e).__name__}", inp, repr(e), "a history without exception", "no exception on valid operations")
  txt = ("plain-Python bookkeeping of what the estimator must hold (the constructor's / search view's sets, then: a lie told is appended, "
         "clear / recover drop the lies outstanding, recover tells the given ones, update_covariances / hyperparameter assignment / gamma / "
         "set assignment replace what they name) and closed forms for it: C4 Matern kernel means, +1e-10 floor, 1/(gamma + (1-gamma) g/l)")
  d = init["dim"]
  base = {True: [list(r) for r in init["lower"]], False: [list(r) for r in init["greater"]]}
  told = {True: [], False: []}
  gamma = init["gamma"] if inp.get("start") == "search" else inp["gamma"]
  hyp = {True: list(init["hl"] if inp.get("start") == "search" else inp["hyper_l"]), False: list(init["hg"] if inp.get("start") == "search" else inp["hyper_g"])}
  if not (0 < gamma < 1) or not base[True] or not base[False]:
    if inp.get("start") == "search":             # every estimator the search view builds has gamma in (0, 1) and two non-empty sets
      return fail(kind, "the search view's estimator has gamma in (0, 1) and two non-empty sets", inp, dict(gamma=gamma, n_lower=len(base[True]), n_greater=len(base[False])),
                  "0 < gamma < 1, both sets non-empty", txt)
    return None
  def ktol(alpha, ls, S, x):
    M = max(sum((a / l) ** 2 + (b / l) ** 2 for a, b, l in zip(x, q, ls)) for q in S)
    return alpha * (1e-14 * M + 1e-14)
  def dens(low, x):
    S, h = base[low] + told[low], hyp[low]
    v = sum(c4(h[0], h[1:], x, q) for q in S) / len(S) + (1e-10 if low else 0.0)
    return v, ktol(h[0], h[1:], S, x)
  seen = {}                                      # (side, point) -> (set, kernel, density) at the previous evaluation there
  def check_density(i, low, x, got):
    want, tol = dens(low, x)
    side = "lower" if low else "greater"
    if not (math.isfinite(got) and abs(got - want) <= tol and got >= (1e-10 if low else 0.0)):
      return fail(kind, f"{side} density is the kernel mean over the {side} set the estimator holds now" + (" plus the floor" if low else ""), inp,
                  dict(after_op=i, op=ops[i], point=x, got=got), dict(want=want, tol=tol, set_size=len(base[low]) + len(told[low]), kernel=hyp[low]), txt)
    S = sorted(map(tuple, base[low] + told[low]))
    prev = seen.get((low, tuple(x)))
    if prev is not None and prev[1] == hyp[low]:
      rest = list(S)
      try:
        for q in prev[0]:
          rest.remove(q)
      except ValueError:
        rest = None
      if rest and all(q == tuple(x) for q in rest):
        STATS["lie_monotone"] += 1
      if prev[0] != S:
        STATS["re_evaluated"] += 1
      if rest and all(q == tuple(x) for q in rest) and got < prev[2] - tol:
        return fail(kind, "a lie at a location does not lower the density there", inp,
                    dict(after_op=i, point=x, before=prev[2], after=got, lies_there=len(rest)), "after >= before", txt)
    seen[(low, tuple(x))] = (S, list(hyp[low]), got)
    return None
  for i, (op, o, snap) in enumerate(zip(ops, outs, snaps)):
    k = op[0]
    if k == "append":
      told[bool(op[2])] += [list(r) for r in op[1]]
    elif k == "clear":
      told = {True: [], False: []}
    elif k == "recover":
      told = {True: [list(r) for r in op[1]], False: [list(r) for r in op[2]]}
    elif k == "stash":
      if [o[1], o[2]] != [told[True], told[False]]:
        return fail(kind, "stash holds the lies outstanding", inp, dict(after_op=i, got=o[1:]), [told[True], told[False]], txt)
    elif k == "cov":
      ok = len(op[1]) == len(op[2]) == d + 1
      if ok != (o[0] != "err"):
        return fail(kind, "update_covariances accepts exactly the kernels of the estimator's dimension", inp, dict(after_op=i, got=o), dict(accepted=ok), txt)
      if ok:
        hyp = {True: list(op[1]), False: list(op[2])}
    elif k == "cov_set":
      hyp[bool(op[1])] = list(op[2])
    elif k == "gamma":
      gamma = op[1]
    elif k in ("lower", "greater"):
      if told[k == "lower"]:
        return None                              # a set assigned over outstanding lies: what "the lies" are afterwards is not stated
      base[k == "lower"] = [list(r) for r in op[1]]
    # what the estimator holds
    for low, name in ((True, "lower"), (False, "greater")):
      if sorted(map(tuple, snap[name])) != sorted(map(tuple, base[low] + told[low])):
        return fail(kind, f"{name} set is the split's set plus the lies outstanding", inp, dict(after_op=i, op=op, got=snap[name]), base[low] + told[low], txt)
    if snap["gamma"] != gamma or snap["hl"] != hyp[True] or snap["hg"] != hyp[False]:
      return fail(kind, "gamma and kernels are the ones last given", inp, dict(after_op=i, got=[snap["gamma"], snap["hl"], snap["hg"]]), [gamma, hyp[True], hyp[False]], txt)
    if k not in EVALS:
      continue
    if k in ("ldens", "gdens"):
      for x, got in zip(op[1], o[1]):
        f = check_density(i, k == "ldens", list(x), got)
        if f:
          return f
      continue
    if k == "objective":
      l, tl = dens(True, op[1])
      g, tg = dens(False, op[1])
      want = 1.0 / (gamma + (1 - gamma) * g / l)
      tol = want * want * (1 - gamma) * (tg / l + g * tl / (l * l)) * 2 + 1e-12 * want   # first-order propagation of the two density bounds
      if not (math.isfinite(o[1]) and abs(o[1] - want) <= tol and 0 < o[1] <= (1 / gamma) * (1 + 1e-12)):
        return fail(kind, "objective is the ratio 1/(gamma + (1-gamma) greater/lower) of the current densities, in (0, 1/gamma]", inp,
                    dict(after_op=i, point=op[1], got=o[1]), dict(want=want, tol=tol, gamma=gamma), txt)
      continue
    for x, (l, g, e) in zip(op[1], o[1]):
      for low, got in ((True, l), (False, g)):
        f = check_density(i, low, list(x), got)
        if f:
          return f
      er = 1.0 / (gamma + (1 - gamma) * g / l)
      if not (math.isfinite(e) and abs(e - er) <= 1e-12 * max(1.0, abs(er))):
        return fail(kind, "ratio equals 1/(gamma + (1-gamma) greater/lower) for the gamma held now", inp, dict(after_op=i, point=x, got=e), dict(want=er, gamma=gamma), txt)
      if not (0 < e <= (1 / gamma) * (1 + 1e-12)):
        return fail(kind, "ratio lies in (0, 1/gamma]", inp, dict(after_op=i, point=x, got=e), [0, 1 / gamma], txt)
  return None


def oracle(kind, inp):
  inp = {k: v for k, v in inp.items() if k != "kind"}
  if kind == "hist":
    return oracle_hist(inp)
  if kind == "split":
    return oracle_split(inp)
  if kind in ("dens", "lie"):
    return oracle_dens(kind, inp)
  if kind == "band":
    return oracle_band(inp)
  if kind == "search":
    return oracle_search(inp)
  raise ValueError(kind)


WITNESS = dict(
  comps=[{"var_type": "categorical", "elements": [1, 3, 5]}, {"var_type": "double", "elements": [0.0, 4.0]}, {"var_type": "int", "elements": [0, 8]}],
  pts=[[1 + 2 * (i % 3), (i * 5 % 17) / 4.0, float(i * 3 % 9)] for i in range(14)],
  values=[[float((i * 7) % 15 - 7), float((i * 4) % 13 - 6)] for i in range(14)],
  objectives=["maximize", "minimize"], thresholds=[-100.0, 100.0], metric=0, x=[1.0, 0.0, 0.0, 2.0, 3.0], mode="none-violate")


def no_violator_cases():
  """Deterministic requests on which no observation violates any threshold and the satisfiers outnumber the one-hot dimension: one and two
  constraint metrics, either chosen metric, a NaN threshold, ties in the chosen metric, 10 observations (the estimator's minimum) and more."""
  out = [WITNESS, dict(WITNESS, metric=1)]
  out.append(dict(WITNESS, values=[[v[0]] for v in WITNESS["values"]], objectives=["minimize"], thresholds=[50.0], metric=0))
  out.append(dict(WITNESS, thresholds=[None, 100.0], metric=0))
  out.append(dict(WITNESS, pts=WITNESS["pts"][:10], values=[[float(i % 3), float(-i)] for i in range(10)], metric=0))
  out.append(dict(comps=[{"var_type": "double", "elements": [0.0, 6.0]}], pts=[[(i * 7 % 25) / 4.0] for i in range(25)],
                  values=[[float(i * 11 % 25)] for i in range(25)], objectives=["maximize"], thresholds=[-1.0], metric=0, x=[2.5], mode="none-violate"))
  return out


NO_VIOLATOR_CASES = no_violator_cases()


def degenerate_metric_cases():
  """Deterministic requests with a CONSTANT constraint metric next to one that varies (20 observations on a 1-d domain, the varied metric splits them 9 / 11):
  the constant at -40, -5, -1.5, -1, -0.5, 0, 0.5, 1, 5, either objective, with a threshold that every observation satisfies (the varied metric then decides
  the split: forced, lower = its 9 satisfiers) or that every observation violates (nobody satisfies: the constructor's split stays)."""
  n, out = 20, []
  base = dict(comps=[{"var_type": "double", "elements": [0.0, 6.0]}], pts=[[(i * 7 % 25) / 4.0] for i in range(n)], metric=1, x=[2.5], mode="mixed", degenerate=[0])
  varied = [float(i * 11 % 17 - 8) for i in range(n)]
  for c in (-40.0, -5.0, -1.5, -1.0, -0.5, 0.0, 0.5, 1.0, 5.0):
    for ob in ("maximize", "minimize"):
      easy = c - 1.0 if ob == "maximize" else c + 1.0
      hard = c + 1.0 if ob == "maximize" else c - 1.0
      for t in (easy, hard):
        out.append(dict(base, values=[[c, v] for v in varied], objectives=[ob, "maximize"], thresholds=[t, 0.5]))
  return out


DEGENERATE_METRIC_CASES = degenerate_metric_cases()


def widen(rng, kind, inp):
  """Real floats of many magnitudes / larger sizes for the searcher."""
  if kind == "split":
    n = rng.randint(3, 150)
    dim = rng.randint(1, 5)
    sc = 10.0 ** rng.randint(-8, 8)
    inp = dict(pts=[[rng.gauss(0, 1) for _ in range(dim)] for _ in range(n)],
               vals=[round(rng.gauss(0, 1), rng.choice([0, 1, 8])) * sc for _ in range(n)],
               gamma=rng.choice([0.06, 0.1, 0.2, rng.uniform(0.001, 0.999)]), forget=rng.choice([0.0, 0.0, rng.uniform(0, 0.95)]))
    for _ in range(rng.randint(0, n // 4)):     # duplicated observations (same point, same value)
      i, j = rng.randrange(n), rng.randrange(n)
      inp["pts"][i], inp["vals"][i] = list(inp["pts"][j]), inp["vals"][j]
    return inp
  if kind in ("dens", "lie"):
    dim = len(inp["x"])
    inp["hyper_l"] = [rng.uniform(0.1, 5)] + [10 ** rng.uniform(-2, 2) for _ in range(dim)]
    inp["hyper_g"] = [rng.uniform(0.1, 5)] + [10 ** rng.uniform(-2, 2) for _ in range(dim)]
    inp["gamma"] = rng.uniform(0.001, 0.999)
    if rng.random() < 0.5:
      inp["x"] = [rng.uniform(-2, 8) for _ in range(dim)]
    return inp
  if kind == "band":
    sc = 10.0 ** rng.randint(-12, 12)
    dim, numerical = one_hot_layout(inp["comps"])
    inp["pts"] = [[(v * sc * rng.uniform(0.5, 1.5) if k in numerical else v) for k, v in enumerate(p)] for p in inp["pts"]]
    inp["factor"] = rng.choice([1.0, 2.0, 5.0, 10.0, rng.uniform(0.01, 20)])
    return inp
  if kind == "search":
    keep = set(inp.get("degenerate", []))     # a constant metric stays constant
    inp["values"] = [[v if k in keep else v + rng.choice([0.0, rng.gauss(0, 1)]) for k, v in enumerate(row)] for row in inp["values"]]
    return inp
  if kind == "hist":
    return widen_hist(rng, inp)
  return inp


def widen_hist(rng, inp):
  """Real floats: an affine map per coordinate applied to every point of the history (coincidences between lies, evaluation points and
  observations survive), real hyperparameters and gammas, value-then-gradient calls; or the estimator the search view builds as the
  object the history runs on (its sets, gamma and kernels were assigned by the view itself)."""
  real_h = lambda dim: [rng.uniform(0.1, 5)] + [10 ** rng.uniform(-1.5, 1.5) for _ in range(dim)]
  if rng.random() < 0.25:
    sinp = gen_search(rng, force="mixed")
    sinp["pts"] = sinp["pts"] + gen_cat_points(rng, sinp["comps"], rng.randint(0, 6))
    sinp["values"] = sinp["values"] + [[float(rng.randint(-8, 8)) for _ in sinp["objectives"]] for _ in range(len(sinp["pts"]) - len(sinp["values"]))]
    if len(sinp["pts"]) < 10:
      return inp
    dim, _ = one_hot_layout(sinp["comps"])
    rows = one_hot_rows(sinp["comps"], sinp["pts"]) + one_hot_rows(sinp["comps"], gen_cat_points(rng, sinp["comps"], 6))
    ops = gen_hist_ops(rng, dim, rows, 10 ** 6, 10 ** 6, allow_assign=False)
    ops = [o for o in ops if o[0] != "cov" or len(o[1]) == dim + 1]
    for o in ops:
      if o[0] == "cov":
        o[1], o[2] = real_h(dim), real_h(dim)
      elif o[0] == "cov_set":
        o[2] = real_h(dim)
    return dict(start="search", search=sinp, ops=ops)
  dim = len(inp["pts"][0])
  a = [rng.choice([1.0, rng.uniform(0.05, 3.0), 10.0 ** rng.randint(-3, 3)]) for _ in range(dim)]
  b = [rng.choice([0.0, rng.uniform(-5, 5)]) for _ in range(dim)]
  mp = lambda p: [ai * v + bi for ai, bi, v in zip(a, b, p)]
  scale_h = lambda h: [h[0]] + [abs(ai) * l for ai, l in zip(a, h[1:])]
  jitter = lambda h: [rng.uniform(0.1, 5)] + [l * 10 ** rng.uniform(-1, 1) for l in h[1:]]
  out = dict(inp, pts=[mp(p) for p in inp["pts"]], gamma=rng.uniform(0.001, 0.999),
             hyper_l=jitter(scale_h(inp["hyper_l"])), hyper_g=jitter(scale_h(inp["hyper_g"])))
  out["vals"] = [v + rng.choice([0.0, rng.gauss(0, 1e-3)]) for v in inp["vals"]]
  n = len(out["pts"])
  gm = Fraction(out["gamma"]) * n
  if near_int(gm) or max(math.floor(gm), 3) > n - 1:
    out["gamma"] = inp["gamma"]
  ops = []
  for o in inp["ops"]:
    k = o[0]
    if k == "append":
      ops.append([k, [mp(p) for p in o[1]], o[2]])
    elif k == "recover":
      ops.append([k, [mp(p) for p in o[1]], [mp(p) for p in o[2]]])
    elif k in ("lower", "greater", "eval", "ldens", "gdens"):
      ops.append([k, [mp(p) for p in o[1]]] + list(o[2:]))
      if k == "eval" and rng.random() < 0.3:
        ops.append(["grad", ops[-1][1]])
    elif k == "objective":
      ops.append([k, mp(o[1])])
    elif k == "cov":
      ops.append([k, jitter(scale_h(o[1])) if len(o[1]) == dim + 1 else o[1], jitter(scale_h(o[2]))])
    elif k == "cov_set":
      ops.append([k, o[1], jitter(scale_h(o[2]))])
    elif k == "gamma":
      ops.append([k, rng.uniform(0.001, 0.999)])
    else:
      ops.append(list(o))
  out["ops"] = ops
  return out


def search(ctx, hints, broken):
  fails, n = [], 0
  new = 0
  def note(r):
    nonlocal new
    if r:
      fails.append(r)
      new += 1
  for h in hints:
    if "kind" in h and "input" in h:
      n += 1
      note(oracle(h["kind"], h["input"]))
  for w in NO_VIOLATOR_CASES:                   # no observation violates a threshold (the defect repaired by 'fix: SPE search forces ...'), every run
    n += 1
    note(oracle("search", w))
  for w in DEGENERATE_METRIC_CASES:             # a constant constraint metric (any sign and size) with a threshold on it, every run
    n += 1
    note(oracle("search", w))
    if new >= 3:
      break
  budget = ctx.n(4000, 60000) * (3 if broken else 1)
  rng = ctx.rng
  for _ in range(budget):
    if new >= 3:
      break
    kind, inp = gen_case(rng)
    if rng.random() < 0.6:
      inp = widen(rng, kind, inp)
    n += 1
    note(oracle(kind, inp))
    if new >= 3:
      break
  return dict(evaluations=n, failures=fails,
              oracle="plain-Python restatement: floor sizes / multiset / value separation; closed-form C4 kernel means and ratio; own satisfier rule on raw values; "
                     "histories on one live estimator (constructor's or the search view's) against plain bookkeeping of the sets / kernels / gamma it must hold "
                     f"(this run: {STATS['re_evaluated']} re-evaluations of a point after the set changed, {STATS['lie_monotone']} lie-monotonicity comparisons)")


def replay(ctx, payload):
  inp = dict(payload["input"])
  kind = inp.pop("kind")
  return oracle(kind, inp)


LEVEL_TEXT = ("Coq theorems on an executable model of the estimator's constructor (sizes, error condition, rearrangement and value separation for "
              "every sorting permutation), of the densities / ratio / lies over Q for all kernel values in [0, alpha] (non-negativity, floor, formula, "
              "range (0, 1/gamma], monotonicity under lies), of the bandwidth selection with its fallback (always finite positive) and of the search "
              "variant's split (threshold split = satisfiers / violators exactly when some observation violates and the satisfiers outnumber the dimension; with no "
              "violator the constructor's split with gamma 0.2 - C16_search_no_violator); every estimator the search view builds satisfies the whole ratio clause "
              "(C16_search_ratio_clause, no hypothesis about violators since the repair of the view); over histories on one live object (lies told / withdrawn / replaced / stashed / recovered, kernels replaced or "
              "re-tuned in place, gamma and sets assigned directly, evaluations in between) every evaluation is the fresh estimator's answer for "
              "the content the mutations leave, evaluations read only, lies raise the reported density, the ratio clause holds at every moment "
              "(Props/C16_hist.v, for every kernel function). The model is tied to the code by differential runs evaluated inside Coq: exact for the split (with the logged argsort "
              "permutation), 1e-12 for densities, ratio and bandwidths computed with the real covariance; op-sequence correspondence of histories on the real estimator "
              "class (outputs of every operation and the object's sets / lies / gamma / hyperparameters after it) with a rational radial kernel")
LEVEL_NOTE = ("Exact arithmetic over Q; floating-point rounding of int(gamma*n) at non-dyadic gamma is outside the model (the searcher skips products "
              "within 1e-9 of an integer); kernel validity is an input contract (C03); harness and check function trusted; no axioms")
TECHNIQUE = "Coq proof (induction, permutation / sortedness lemmas, field arithmetic over Q) on executable model + in-Coq differential correspondence"
DESIGN_REF = "DESIGN.md section 7, C16"

# --- gap round (seeded C16_m12): additions to the claimed level
LEVEL_TEXT += ("; the search variant's cases include DEGENERATE constraint metrics - constant over the history (or constant up to 2^-30) at negative / positive / small / large values, next to "
               "metrics that vary, with a threshold every observation satisfies, every observation violates, or equal to the constant (correspondence and searcher, plus 36 deterministic requests "
               "on every run): who satisfies a threshold is read off the RAW values by the searcher, so the fallback arms of the metric normalisation (C12) are exercised through the view")
