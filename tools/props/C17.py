"""C17 — posterior sampling uses a factor that reproduces the covariance."""
import numpy

from lib import common as C
from lib import gpgen
from py2v import units_chol, units_gp

PROP = "C17"
PROPS_FILES = ["Props/C17.v", "Props/C05_qei.v"]
ASSUMPTIONS = [
  "exact arithmetic over a real closed field; rounding is outside the model (searcher tolerance 1e-9 * n * |A|)",
  "LAPACK contracts: successful cholesky => L L^T = a; svd of a symmetric PSD matrix => U diag(E) U^T = a with E >= 0; qr(B, mode='r') => R^T R = B^T B",
  "what a failed in-place factorisation leaves in its buffer is arbitrary (oracle junk): the theorem needs the fallback to read the caller's matrix",
  "sample moments: only the algebraic identity (deviation second moment = L (Z Z^T) L^T) is proved; the statistical step is checked by the searcher with 6-sigma bands",
]
TRUSTED = ["tools/py2v/units_chol.py structural matcher for compute_cholesky_for_gp_sampling (fail-closed, reads the overwrite_a flag)",
           "tools/py2v matrix back-end for the sample formula"]
LEVEL_TEXT = ("MathComp theorem over the call structure of compute_cholesky_for_gp_sampling regenerated from python_utils.py with buffer semantics "
              "(the overwrite_a flag of the first LAPACK call is translated): for every symmetric PSD matrix of any rank L L^T = covariance; "
              "the sample formula mean + (L Z)^T has deviation second moment L (Z Z^T) L^T; searcher: PSD matrices of every rank in C and Fortran "
              "order against an untouched copy, and sample moments of GP / sum-of-GP draws")
LEVEL_NOTE = "LAPACK contracts and rounding outside the model; statistical clause by search; no axioms (closed under the global context)"
TECHNIQUE = "MathComp proof on a model regenerated from source with effect flags (translator) + independent-oracle search"
DESIGN_REF = "DESIGN.md section 7, C17"


def generate(ctx):
  return units_chol.generate(ctx) + units_gp.generate(ctx)


def correspondence(ctx):
  """The third anchored mechanism, 'factor of the joint covariance of candidate and pending points' in
  ExpectedParallelImprovement._evaluate_at_point_list: which factor, which means and which draws every candidate set gets is the
  executable model Model/ParallelEI.v (theorems in Props/C05_qei.v), tied to the running code by the exact correspondence built for C05."""
  from props import C05 as c05
  qc = c05.qei_correspondence(ctx)
  return dict(evaluations=qc["evaluations"], distinct_nontrivial=qc["distinct"], rule=qc["rule"], samples=qc["samples"], distribution=qc["distribution"],
              disagreements=qc["disagreements"])


def build_matrix(inp):
  rng = numpy.random.RandomState(inp["seed"])
  n, r = inp["n"], inp["rank"]
  if inp["kind"] == "lowrank":
    B = rng.normal(size=(n, max(r, 1))) * inp["scale"]
    A = B @ B.T if r > 0 else numpy.zeros((n, n))
  elif inp["kind"] == "illcond":
    Q, _ = numpy.linalg.qr(rng.normal(size=(n, n)))
    ev = numpy.logspace(0, -inp["logcond"], n) * inp["scale"]
    A = (Q * ev) @ Q.T
    A = (A + A.T) / 2
  elif inp["kind"] == "zeroblock":   # exact zero rows / columns (zero-variance points) anywhere, the first position included, around a PSD block
    k = max(1, min(n, r))
    B = rng.normal(size=(k, int(rng.randint(1, k + 1)))) * inp["scale"]
    pos = sorted(rng.choice(n, size=k, replace=False).tolist()) if inp["seed"] % 3 else list(range(n - k, n))
    A = numpy.zeros((n, n))
    A[numpy.ix_(pos, pos)] = B @ B.T
  else:  # kernel Gram matrix with repeated points
    pts = rng.uniform(0, 1, size=(max(n - inp["repeats"], 1), 2))
    pts = numpy.vstack([pts] + [pts[:1]] * (n - len(pts)))
    d2 = ((pts[:, None, :] - pts[None, :, :]) ** 2).sum(-1)
    A = inp["scale"] * numpy.exp(-0.5 * d2 / 0.09)
  return numpy.array(A, order=inp["order"])


def oracle(inp):
  from libsigopt.compute.python_utils import compute_cholesky_for_gp_sampling
  def fail(what, observed, expected):
    return dict(signature=f"C17:{what}", what=what, input=inp, observed=observed, expected=expected, oracle="L L^T against an untouched copy / sample moments")
  if inp["kind"] == "samples":
    gi = inp["gp"]
    gp = gpgen.make_gp(gi)
    xs = numpy.array(gi["xs"], dtype=float)
    if inp.get("repeat_point"):
      xs = numpy.vstack([xs, xs[:1]])
    if inp.get("sum"):
      from libsigopt.compute.gaussian_process_sum import GaussianProcessSum
      gp2 = gpgen.make_gp(dict(gi, values=list(reversed(gi["values"]))))
      model = GaussianProcessSum([gp, gp2], inp["sum"])
    else:
      model = gp
    numpy.random.seed(inp["seed"])
    N = inp["draws"]
    training = inp.get("entry") == "training" and not inp.get("sum")
    if training:
      xs = numpy.array(gp.points_sampled, dtype=float)
    # a history of operations before the draw that is checked: earlier draws at the same points, then new data (the factor must be
    # the one of the CURRENT posterior covariance)
    for step in inp.get("steps") or []:
      if step == "draw":
        model.draw_posterior_samples(7) if training else model.draw_posterior_samples_of_points(7, xs)
      elif step == "append_lie":
        model.append_lie_data(numpy.array(inp["extra_points"], dtype=float))
      elif step == "update" and not inp.get("sum"):
        from libsigopt.compute.misc.data_containers import HistoricalData
        hd = HistoricalData(gp.dim)
        hd.append_historical_data(numpy.vstack([gp.points_sampled, numpy.array(inp["extra_points"], dtype=float)]),
                                  numpy.concatenate([gp.points_sampled_value, numpy.array(inp["extra_values"], dtype=float)]),
                                  numpy.concatenate([gp.points_sampled_noise_variance, numpy.full(len(inp["extra_points"]), 1e-3)]))
        gp.update_historical_data(hd)
    if training and inp.get("steps") and not inp.get("sum"):
      xs = numpy.array(gp.points_sampled, dtype=float)
    S = model.draw_posterior_samples(N) if training else model.draw_posterior_samples_of_points(N, xs)
    mean, cov = model.compute_mean_of_points(xs), model.compute_covariance_of_points(xs)
    sd = numpy.sqrt(numpy.maximum(numpy.diag(cov), 0))
    tol_mean = 6 * sd / numpy.sqrt(N) + 1e-6 * (1 + numpy.abs(mean))
    if (numpy.abs(S.mean(axis=0) - mean) > tol_mean).any():
      return fail("sample mean differs from the posterior mean", S.mean(axis=0).tolist(), mean.tolist())
    D = S - mean[None, :]
    emp = D.T @ D / N
    band = 6 * numpy.sqrt(2.0 / N) * numpy.outer(sd, sd) + 1e-6 * float(numpy.abs(cov).max()) + 1e-9
    if (numpy.abs(emp - cov) > band).any():
      return fail("sample covariance differs from the posterior covariance", emp.tolist(), cov.tolist())
    return None
  A = build_matrix(inp)
  keep = A.copy()
  L = compute_cholesky_for_gp_sampling(A)
  err = float(numpy.abs(L @ L.T - keep).max())
  tol = 1e-9 * inp["n"] * max(1e-300, float(numpy.abs(keep).max())) + 1e-300
  if not numpy.isfinite(L).all() or err > tol:
    return fail("factor does not reproduce the covariance", err, f"<= {tol}")
  return None


def gen_input(rng, samples_ok):
  if samples_ok and rng.random() < 0.1:
    gi = gpgen.gen_gp_input(rng, well_conditioned=True, allow_multitask=False, max_n=6)
    dim = len(gi["points"][0])
    if rng.random() < 0.4:     # noise-free history, with or without a nugget standing in for the noise
      gi["noise"] = [0.0] * len(gi["noise"])
      gi["tikhonov"] = rng.choice([1e-3, 0.05, 0.05])
    k = rng.randint(1, 2)
    return dict(kind="samples", gp=gi, seed=rng.randrange(10 ** 6), draws=4000, repeat_point=rng.random() < 0.4,
                sum=[rng.choice([rng.uniform(0.2, 0.8), -rng.uniform(0.2, 0.8), 0.0]), rng.uniform(0.2, 0.8)] if rng.random() < 0.3 else None,
                entry=rng.choice(["of_points", "of_points", "training"]), steps=rng.choice([[], [], ["draw"], ["draw", "append_lie"], ["draw", "update"]]),
                extra_points=[[rng.uniform(0, 1) for _ in range(dim)] for _ in range(k)], extra_values=[rng.uniform(-1, 1) for _ in range(k)])
  n = rng.randint(1, 9)
  kind = rng.choice(["lowrank", "lowrank", "illcond", "gram", "zeroblock"])
  return dict(kind=kind, n=n, rank=rng.randint(0, n), seed=rng.randrange(10 ** 6), order=rng.choice(["C", "F"]), scale=10.0 ** rng.randint(-4, 4),
              logcond=rng.choice([2, 8, 14, 18]), repeats=rng.randint(0, max(0, n - 1)))


def search(ctx, hints, broken):
  fails, n = [], 0
  from props import C05 as c05
  qin = [h["input"] for h in hints if isinstance(h.get("input"), dict) and h["input"].get("kind") == "qei"]
  for inp in qin + [c05.gen_qei_case(ctx.rng) for _ in range(ctx.n(40, 600))]:   # parallel EI: per-set factor / means / draws (exact Fractions oracle)
    n += 1
    r = c05.qei_oracle(inp)
    if r:
      r = dict(r, signature=r["signature"].replace("C05:", "C17:", 1))
      if r["signature"] not in {f["signature"] for f in fails}:
        fails.append(r)
  for _ in range(ctx.n(800, 12000) * (3 if broken else 1)):
    inp = gen_input(ctx.rng, True)
    n += 1
    try:
      r = oracle(inp)
    except Exception as e:
      r = dict(signature=f"C17:raises:{type(e).__name__}", what=f"raised {type(e).__name__}: {e}", input=inp, observed=repr(e), expected="a factor", oracle="no exception")
    if r:
      fails.append(r)
      if len(fails) >= 3:
        break
  return dict(evaluations=n, failures=fails, oracle="max|L L^T - A| against an untouched copy; 6-sigma sample-moment bands",
              samples=[dict(kind="lowrank", n=4, rank=2, order="F")])


def replay(ctx, payload):
  if isinstance(payload.get("input"), dict) and payload["input"].get("kind") == "qei":
    from props import C05 as c05
    r = c05.qei_oracle(payload["input"])
    return dict(r, signature=r["signature"].replace("C05:", "C17:", 1)) if r else None
  return oracle(payload["input"])

# --- second build round: additions to the claimed level
LEVEL_TEXT += ("; the parallel-EI loop (which factor, means and draws each candidate set gets) is the executable model Model/ParallelEI.v with theorems "
               "Props/C05_qei.v, tied to the running _evaluate_at_point_list by an exact correspondence on a stub predictor")
TECHNIQUE += " + in-Coq differential correspondence for the parallel-EI loop"
