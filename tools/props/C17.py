"""C17 — posterior sampling uses a factor that reproduces the covariance."""
import numpy

from lib import common as C
from lib import gpgen
from py2v import units_chol, units_gp

PROP = "C17"
PROPS_FILES = ["Props/C17.v", "Props/C05_qei.v", "Props/C05_qeif.v"]
ASSUMPTIONS = [
  "exact arithmetic over a real closed field; rounding is outside the model (searcher tolerance 1e-9 * n * |A|)",
  "LAPACK contracts: successful cholesky => L L^T = a; svd of a symmetric PSD matrix => U diag(E) U^T = a with E >= 0; qr(B, mode='r') => R^T R = B^T B",
  "what a failed in-place factorisation leaves in its buffer is arbitrary (oracle junk): the theorem needs the fallback to read the caller's matrix",
  "sample moments: only the algebraic identity (deviation second moment = L (Z Z^T) L^T) is proved; the statistical step is checked by the searcher with 6-sigma bands",
]
TRUSTED = ["tools/py2v/units_chol.py structural matcher for compute_cholesky_for_gp_sampling (fail-closed, reads the overwrite_a flag)",
           "tools/py2v matrix back-end for the sample formula"]
LEVEL_TEXT = ("MathComp theorem over the call structure of compute_cholesky_for_gp_sampling regenerated from python_utils.py with buffer semantics "
              "(the overwrite_a flag of the first LAPACK call is translated): for every symmetric PSD matrix of any rank L L^T = covariance; "
              "the sample formula mean + (L Z)^T has deviation second moment L (Z Z^T) L^T; searcher: PSD matrices of every rank in C and Fortran "
              "order against an untouched copy, and sample moments of GP / sum-of-GP draws")
LEVEL_NOTE = "LAPACK contracts and rounding outside the model; statistical clause by search; no axioms (closed under the global context)"
TECHNIQUE = "MathComp proof on a model regenerated from source with effect flags (translator) + independent-oracle search"
DESIGN_REF = "DESIGN.md section 7, C17"


def generate(ctx):
  return units_chol.generate(ctx) + units_gp.generate(ctx)


def correspondence(ctx):
  """The third anchored mechanism, 'factor of the joint covariance of candidate and pending points' in
  ExpectedParallelImprovement._evaluate_at_point_list: which factor, which means and which draws every candidate set gets is the
  executable model Model/ParallelEI.v (theorems in Props/C05_qei.v), tied to the running code by the exact correspondence built for C05."""
  from props import C05 as c05
  qc = c05.qei_correspondence(ctx)
  # the same mechanism in the subclass ExpectedParallelImprovementWithFailures: one factor per MODEL (objective and every failure model) and
  # candidate set, all driven by the same draws - Model/ParallelEIF.v (theorems in Props/C05_qeif.v), exact correspondence built for C05
  fc = c05.qeif_correspondence(ctx)
  return dict(evaluations=qc["evaluations"] + fc["evaluations"], distinct_nontrivial=qc["distinct"] + fc["distinct"], rule=qc["rule"] + "; " + fc["rule"],
              samples=qc["samples"] + fc["samples"][:1], distribution=dict(qc["distribution"], **fc["distribution"]),
              disagreements=qc["disagreements"] + fc["disagreements"])


def build_matrix(inp):
  rng = numpy.random.RandomState(inp["seed"])
  n, r = inp["n"], inp["rank"]
  if inp["kind"] == "lowrank":
    B = rng.normal(size=(n, max(r, 1))) * inp["scale"]
    A = B @ B.T if r > 0 else numpy.zeros((n, n))
  elif inp["kind"] == "illcond":
    Q, _ = numpy.linalg.qr(rng.normal(size=(n, n)))
    ev = numpy.logspace(0, -inp["logcond"], n) * inp["scale"]
    A = (Q * ev) @ Q.T
    A = (A + A.T) / 2
  elif inp["kind"] == "zeroblock":   # exact zero rows / columns (zero-variance points) anywhere, the first position included, around a PSD block
    k = max(1, min(n, r))
    B = rng.normal(size=(k, int(rng.randint(1, k + 1)))) * inp["scale"]
    pos = sorted(rng.choice(n, size=k, replace=False).tolist()) if inp["seed"] % 3 else list(range(n - k, n))
    A = numpy.zeros((n, n))
    A[numpy.ix_(pos, pos)] = B @ B.T
  else:  # kernel Gram matrix with repeated points
    pts = rng.uniform(0, 1, size=(max(n - inp["repeats"], 1), 2))
    pts = numpy.vstack([pts] + [pts[:1]] * (n - len(pts)))
    d2 = ((pts[:, None, :] - pts[None, :, :]) ** 2).sum(-1)
    A = inp["scale"] * numpy.exp(-0.5 * d2 / 0.09)
  return numpy.array(A, order=inp["order"])


QEIREAL_STATS = {}     # how the real-model parallel-EI cases of this run ended (decided / not decided and why); reported by search()


def _stat(key):
  QEIREAL_STATS[key] = QEIREAL_STATS.get(key, 0) + 1


def oracle_qeireal(inp):
  """Parallel EI on REAL models (GP objective, 0-2 GP failure models, pending points), real compute_cholesky_for_gp_sampling, NumPy's own
  normal draws (seeded).  A recording wrapper notes every (covariance, factor) pair the call computes.  Clauses: every factor reproduces
  its covariance; and the estimates are what the samples  mean + L z  give, L being the factor computed for THAT model's posterior
  covariance of THAT candidate set ++ pending points: mean over the executed draws of max(0, best - min over the points whose failure-model
  samples are all strictly below their thresholds).  Passes in which every such term vanishes switch to a success-probability fallback (C05's
  subject): such a case is not decided here.  Cases in which a failure-model sample sits within rounding of its threshold are skipped."""
  import libsigopt.compute.expected_improvement as EI
  from libsigopt.compute.probabilistic_failures import ProbabilisticFailures, ProbabilisticFailuresCDF, ProductOfListOfProbabilisticFailures
  def fail(what, observed, expected):
    return dict(signature=f"C17:qei-real:{what}", what=f"parallel EI on real models: {what}", input=inp, observed=observed, expected=expected,
                oracle="recording wrapper around the factorisation + plain NumPy restatement of the sampled improvement")
  gi = inp["gp"]
  gp = gpgen.make_gp(gi)
  fgps = [gpgen.make_gp(dict(gi, values=f["values"])) for f in inp["fails"]]
  q, dim = inp["q"], len(gi["points"][0])
  pend = numpy.array(inp["pending"], dtype=float).reshape(len(inp["pending"]), dim)
  p, c = len(pend), q + len(pend)
  sets = numpy.array(inp["sets"], dtype=float).reshape(len(inp["sets"]), q, dim)
  pairs = []
  real = EI.compute_cholesky_for_gp_sampling

  def recording(cov):
    keep = numpy.array(cov, dtype=float).copy()
    L = real(cov)
    pairs.append((keep, numpy.array(L, dtype=float).copy()))
    return L
  state = numpy.random.get_state()
  EI.compute_cholesky_for_gp_sampling = recording
  try:
    if fgps:
      pfs = [(ProbabilisticFailures if f["kind"] == "logistic" else ProbabilisticFailuresCDF)(g, f["threshold"]) for f, g in zip(inp["fails"], fgps)]
      af = EI.ExpectedParallelImprovementWithFailures(gp, q, ProductOfListOfProbabilisticFailures(pfs), points_being_sampled=pend if p else None,
                                                      num_mc_iterations=inp["N"], num_mc_iterations_per_loop=inp["B"])
    else:
      af = EI.ExpectedParallelImprovement(gp, q, points_being_sampled=pend if p else None, num_mc_iterations=inp["N"], num_mc_iterations_per_loop=inp["B"])
    best = float(af.best_value)
    numpy.random.seed(inp["seed"])
    if inp.get("direct"):      # the vectorised method itself also takes one-point candidate sets as an (n, 1, dim) array
      got = numpy.asarray(af._evaluate_at_point_list(sets), dtype=float)
    else:
      got = numpy.asarray(af.evaluate_at_point_list(sets if q > 1 else sets[:, 0, :]), dtype=float)
  finally:
    EI.compute_cholesky_for_gp_sampling = real
    numpy.random.set_state(state)
  for cov, L in pairs:
    tol = 1e-9 * c * max(1e-300, float(numpy.abs(cov).max())) + 1e-300
    if not numpy.isfinite(L).all() or float(numpy.abs(L @ L.T - cov).max()) > tol:
      return fail("factor does not reproduce the covariance", float(numpy.abs(L @ L.T - cov).max()), f"<= {tol}")

  def factor_of(cov):
    for a, L in pairs:
      if a.shape == cov.shape and numpy.array_equal(a, cov):
        return L
    return None
  b = min(inp["B"], inp["N"])
  passes = -(-inp["N"] // b)
  rs = numpy.random.RandomState(inp["seed"])
  blocks = [rs.normal(size=(b, c)) for _ in range(passes)]
  models = [gp] + fgps
  per_set = []
  for k in range(len(sets)):
    union = numpy.concatenate((sets[k], pend), axis=0)
    ml = []
    for m in models:
      L = factor_of(m.compute_covariance_of_points(union))
      if L is None:
        return fail("no factor was computed for the posterior covariance of a model at a candidate set ++ pending points", k, "one factorisation per model and set")
      ml.append((m.compute_mean_of_points(union), L))
    per_set.append(ml)
  want = numpy.zeros(len(sets))
  scale = 1.0
  for z in blocks:
    terms = numpy.zeros((len(sets), b))
    for k, ml in enumerate(per_set):
      # (b, c) samples of every model at the c points.  The class without failure models adds L z to (best - mean), i.e. its sample is
      # mean - L z (the same law: z and -z are equally distributed); the class with failure models forms mean + L z for every model
      sgn = 1.0 if fgps else -1.0
      ys = [mean[None, :] + sgn * (z @ L.T) for mean, L in ml]
      scale = max([scale] + [float(numpy.abs(y).max()) for y in ys])
      feas = numpy.ones((b, c), dtype=bool)
      for y, f in zip(ys[1:], inp["fails"]):
        if float(numpy.abs(y - f["threshold"]).min()) < 1e-9 * (1.0 + float(numpy.abs(y).max())):
          _stat("undecided:sample-on-threshold")
          return None     # a sample within rounding of its threshold: the indicator is not decided by this oracle
        feas &= y < f["threshold"]
      imp = numpy.where(feas, best - ys[0], 0.0)
      terms[k] = numpy.maximum(0.0, imp.max(axis=1))
    if fgps and float(terms.sum()) == 0.0:
      _stat("undecided:pass-falls-back")
      return None       # the whole pass vanishes: the library switches to its success-probability fallback (C05), not decided here
    want += terms.sum(axis=1)
  want /= passes * b
  tol = 1e-9 * (1.0 + scale + abs(best))
  if got.shape != want.shape or not numpy.isfinite(got).all() or float(numpy.abs(got - want).max()) > tol:
    return fail("the estimate is not the mean sampled improvement of mean + L z with each model's own factor", got.tolist(), want.tolist())
  _stat(f"decided:models={len(models)}:points={c}" + (":positive" if float(want.max()) > 0 else ":zero"))
  return None


def gen_qeireal(rng):
  gi = gpgen.gen_gp_input(rng, well_conditioned=True, allow_multitask=False, max_n=6, caller_writes=True)
  dim, n = len(gi["points"][0]), len(gi["points"])
  gi["xs"] = []
  lo, hi = min(gi["values"]), max(gi["values"])
  fails = [dict(values=[rng.uniform(-1, 1) for _ in range(n)], threshold=rng.uniform(-0.2, 0.9), kind=rng.choice(["logistic", "cdf"]))
           for _ in range(rng.choice([0, 1, 1, 1, 2]))]
  q, p = rng.choice([1, 1, 2, 3]), rng.choice([0, 1, 1, 2])
  pending = [[rng.uniform(-0.1, 1.1) for _ in range(dim)] for _ in range(p)]
  sets = [[[rng.uniform(-0.1, 1.1) for _ in range(dim)] for _ in range(q)] for _ in range(rng.randint(1, 3))]
  r = rng.random()
  if r < 0.2 and p:
    sets[0][0] = list(pending[0])          # a candidate coincides with a pending point: singular joint covariance (SVD + QR factor)
  elif r < 0.35 and q >= 2:
    sets[-1][1] = list(sets[-1][0])        # a point repeated inside a candidate set
  elif r < 0.45:
    sets[0][0] = list(gi["points"][0])     # a candidate on a training point
  return dict(kind="qeireal", gp=gi, fails=fails, q=q, pending=pending, sets=sets, N=rng.choice([12, 16, 40]), B=rng.choice([5, 16, 64]),
              direct=rng.random() < 0.3, seed=rng.randrange(2 ** 31))


def oracle(inp):
  from libsigopt.compute.python_utils import compute_cholesky_for_gp_sampling
  def fail(what, observed, expected):
    return dict(signature=f"C17:{what}", what=what, input=inp, observed=observed, expected=expected, oracle="L L^T against an untouched copy / sample moments")
  if inp["kind"] == "qeireal":
    return oracle_qeireal(inp)
  if inp["kind"] == "samples":
    gi = inp["gp"]
    gp = gpgen.make_gp(gi)
    xs = numpy.array(gi["xs"], dtype=float)
    if inp.get("repeat_point"):
      xs = numpy.vstack([xs, xs[:1]])
    if inp.get("sum"):
      from libsigopt.compute.gaussian_process_sum import GaussianProcessSum
      gp2 = gpgen.make_gp(dict(gi, values=list(reversed(gi["values"]))))
      if inp.get("weights_inplace"):    # the sum holds the caller's weight array by reference: it is the model with the weights that array holds NOW
        warr = numpy.array([3.0 * w + 1.0 for w in inp["sum"]], dtype=float)
        model = GaussianProcessSum([gp, gp2], warr)
        _ = model.compute_mean_of_points(xs), model.compute_covariance_of_points(xs)
        warr[:] = inp["sum"]
      else:
        model = GaussianProcessSum([gp, gp2], inp["sum"])
    else:
      model = gp
    numpy.random.seed(inp["seed"])
    N = inp["draws"]
    training = inp.get("entry") == "training" and not inp.get("sum")
    if training:
      xs = numpy.array(gp.points_sampled, dtype=float)
    # a history of operations before the draw that is checked: earlier draws at the same points, then new data (the factor must be
    # the one of the CURRENT posterior covariance)
    for step in inp.get("steps") or []:
      if step == "draw":
        model.draw_posterior_samples(7) if training else model.draw_posterior_samples_of_points(7, xs)
      elif step == "append_lie":
        model.append_lie_data(numpy.array(inp["extra_points"], dtype=float))
      elif step == "update" and not inp.get("sum"):
        from libsigopt.compute.misc.data_containers import HistoricalData
        hd = HistoricalData(gp.dim)
        hd.append_historical_data(numpy.vstack([gp.points_sampled, numpy.array(inp["extra_points"], dtype=float)]),
                                  numpy.concatenate([gp.points_sampled_value, numpy.array(inp["extra_values"], dtype=float)]),
                                  numpy.concatenate([gp.points_sampled_noise_variance, numpy.full(len(inp["extra_points"]), 1e-3)]))
        gp.update_historical_data(hd)
    if training and inp.get("steps") and not inp.get("sum"):
      xs = numpy.array(gp.points_sampled, dtype=float)
    S = model.draw_posterior_samples(N) if training else model.draw_posterior_samples_of_points(N, xs)
    mean, cov = model.compute_mean_of_points(xs), model.compute_covariance_of_points(xs)
    if not (inp.get("steps") or []) or all(st == "draw" for st in inp["steps"]):
      # the data are still those of the input: the posterior mean and covariance "of the model" are then also known independently of the library
      # (gpgen's saddle-point closed form; a weighted sum of independent GPs has the weighted mean and the squared-weight covariance).  The bands
      # below are statistical (6 sigma at N draws), far wider than the closed form's rounding
      ws, gis = (inp["sum"], [gi, dict(gi, values=list(reversed(gi["values"])))]) if inp.get("sum") else ([1.0], [gi])
      refs = [gpgen.reference_posterior(dict(g, xs=xs.tolist())) for g in gis]
      if max(r[3] for r in refs) < 1e9:
        mean = sum(w * r[0] for w, r in zip(ws, refs))
        cov = sum(w * w * r[2] for w, r in zip(ws, refs))
    sd = numpy.sqrt(numpy.maximum(numpy.diag(cov), 0))
    tol_mean = 6 * sd / numpy.sqrt(N) + 1e-6 * (1 + numpy.abs(mean))
    if (numpy.abs(S.mean(axis=0) - mean) > tol_mean).any():
      return fail("sample mean differs from the posterior mean", S.mean(axis=0).tolist(), mean.tolist())
    D = S - mean[None, :]
    emp = D.T @ D / N
    band = 6 * numpy.sqrt(2.0 / N) * numpy.outer(sd, sd) + 1e-6 * float(numpy.abs(cov).max()) + 1e-9
    if (numpy.abs(emp - cov) > band).any():
      return fail("sample covariance differs from the posterior covariance", emp.tolist(), cov.tolist())
    return None
  A = build_matrix(inp)
  keep = A.copy()
  L = compute_cholesky_for_gp_sampling(A)
  err = float(numpy.abs(L @ L.T - keep).max())
  tol = 1e-9 * inp["n"] * max(1e-300, float(numpy.abs(keep).max())) + 1e-300
  if not numpy.isfinite(L).all() or err > tol:
    return fail("factor does not reproduce the covariance", err, f"<= {tol}")
  return None


def gen_input(rng, samples_ok):
  if samples_ok and rng.random() < 0.1:
    gi = gpgen.gen_gp_input(rng, well_conditioned=True, allow_multitask=False, max_n=6, caller_writes=True)
    dim = len(gi["points"][0])
    if rng.random() < 0.4:     # noise-free history, with or without a nugget standing in for the noise
      gi["noise"] = [0.0] * len(gi["noise"])
      gi["tikhonov"] = rng.choice([1e-3, 0.05, 0.05])
    k = rng.randint(1, 2)
    return dict(kind="samples", gp=gi, seed=rng.randrange(10 ** 6), draws=4000, repeat_point=rng.random() < 0.4,
                sum=[rng.choice([rng.uniform(0.2, 0.8), -rng.uniform(0.2, 0.8), 0.0]), rng.uniform(0.2, 0.8)] if rng.random() < 0.3 else None,
                weights_inplace=rng.random() < 0.4,
                entry=rng.choice(["of_points", "of_points", "training"]), steps=rng.choice([[], [], ["draw"], ["draw", "append_lie"], ["draw", "update"]]),
                extra_points=[[rng.uniform(0, 1) for _ in range(dim)] for _ in range(k)], extra_values=[rng.uniform(-1, 1) for _ in range(k)])
  n = rng.randint(1, 9)
  kind = rng.choice(["lowrank", "lowrank", "illcond", "gram", "zeroblock"])
  return dict(kind=kind, n=n, rank=rng.randint(0, n), seed=rng.randrange(10 ** 6), order=rng.choice(["C", "F"]), scale=10.0 ** rng.randint(-4, 4),
              logcond=rng.choice([2, 8, 14, 18]), repeats=rng.randint(0, max(0, n - 1)))


def search(ctx, hints, broken):
  fails, n = [], 0
  from props import C05 as c05
  qin = [h["input"] for h in hints if isinstance(h.get("input"), dict) and h["input"].get("kind") in ("qei", "qeif")]
  # parallel EI, with and without failure models: per-model / per-set factor, means and draws (exact Fractions oracle on scripted posteriors)
  for inp in (qin + [c05.gen_qei_case(ctx.rng) for _ in range(ctx.n(40, 600))] + [c05.gen_qeif_case(ctx.rng) for _ in range(ctx.n(40, 600))]):
    n += 1
    r = scripted_qei_oracle(inp)
    if r and r["signature"] not in {f["signature"] for f in fails}:
      fails.append(r)
  for _ in range(ctx.n(60, 900)):        # the same on real GPs with the real factorisation (recording wrapper)
    inp = gen_qeireal(ctx.rng)
    n += 1
    try:
      r = oracle(inp)
    except numpy.linalg.LinAlgError:
      continue
    except Exception as e:
      r = dict(signature=f"C17:qei-real:raises:{type(e).__name__}", what=f"parallel EI on real models raised {type(e).__name__}: {e}", input=inp, observed=repr(e),
               expected="one estimate per candidate set", oracle="no exception")
    if r and r["signature"] not in {f["signature"] for f in fails}:
      fails.append(r)
  for _ in range(ctx.n(800, 12000) * (3 if broken else 1)):
    inp = gen_input(ctx.rng, True)
    n += 1
    try:
      r = oracle(inp)
    except Exception as e:
      r = dict(signature=f"C17:raises:{type(e).__name__}", what=f"raised {type(e).__name__}: {e}", input=inp, observed=repr(e), expected="a factor", oracle="no exception")
    if r:
      fails.append(r)
      if len(fails) >= 3:
        break
  return dict(evaluations=n, failures=fails, oracle="max|L L^T - A| against an untouched copy; 6-sigma sample-moment bands; parallel EI (scripted posteriors: "
              "exact rationals; real models: recorded factors + NumPy restatement)",
              samples=[dict(kind="lowrank", n=4, rank=2, order="F"), dict(kind="qeireal-outcomes", counts=dict(QEIREAL_STATS))])


def scripted_qei_oracle(inp):
  """C05's exact oracles on scripted posteriors, read for C17 (which factor multiplies which draws, for which model and candidate set); the
  instance of C05's registered finding (whole-pass fallback) is C05's business, not a statement about the factor"""
  from props import C05 as c05
  if inp.get("regime") == "fallback-finding":
    return None
  r = c05.qeif_oracle(inp) if inp["kind"] == "qeif" else c05.qei_oracle(inp)
  return dict(r, signature=r["signature"].replace("C05:", "C17:", 1)) if r else None


def replay(ctx, payload):
  if isinstance(payload.get("input"), dict) and payload["input"].get("kind") in ("qei", "qeif"):
    return scripted_qei_oracle(payload["input"])
  return oracle(payload["input"])

# --- second build round: additions to the claimed level
LEVEL_TEXT += ("; the parallel-EI loop (which factor, means and draws each candidate set gets) is the executable model Model/ParallelEI.v with theorems "
               "Props/C05_qei.v, tied to the running _evaluate_at_point_list by an exact correspondence on a stub predictor")
TECHNIQUE += " + in-Coq differential correspondence for the parallel-EI loop"

# --- gap round A: the factor mechanism in the subclass with failure models
LEVEL_TEXT += ("; likewise for ExpectedParallelImprovementWithFailures, where every failure model has its own factor per candidate set and all models share "
               "the draws: Model/ParallelEIF.v, theorems Props/C05_qeif.v (the sample of model i at point j is (m_i + L_i z)_j), exact correspondence on the "
               "real class; searcher: the same statement on real GPs with the real factorisation (recorded factors, seeded NumPy draws)")
LEVEL_NOTE += ("; sample moments are compared with the posterior mean / covariance of an independent closed form (gpgen saddle point) whenever the data are "
               "those of the input, with the library's own otherwise; sums of GPs also with a weight array rewritten in place after construction")
