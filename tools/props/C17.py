"""C17 — posterior sampling uses a factor that reproduces the covariance."""
import numpy

from lib import common as C
from lib import gpgen
from py2v import units_chol, units_gp

PROP = "C17"
PROPS_FILES = ["Props/C17.v", "Props/C05_qei.v", "Props/C05_qeif.v"]
ASSUMPTIONS = [
  "exact arithmetic over a real closed field; rounding is outside the model (searcher tolerance 1e-9 * n * |A|)",
  "LAPACK contracts: successful cholesky => L L^T = a; svd of a symmetric PSD matrix => U diag(E) U^T = a with E >= 0; qr(B, mode='r') => R^T R = B^T B",
  "what a failed in-place factorisation leaves in its buffer is arbitrary (oracle junk): the theorem needs the fallback to read the caller's matrix",
  "sample moments: only the algebraic identity (deviation second moment = L (Z Z^T) L^T) is proved; the statistical step is checked by the searcher with 6-sigma bands",
]
TRUSTED = ["tools/py2v/units_chol.py structural matcher for compute_cholesky_for_gp_sampling (fail-closed, reads the overwrite_a flag)",
           "tools/py2v matrix back-end for the sample formula"]
LEVEL_TEXT = ("MathComp theorem over the call structure of compute_cholesky_for_gp_sampling regenerated from python_utils.py with buffer semantics "
              "(the overwrite_a flag of the first LAPACK call is translated): for every symmetric PSD matrix of any rank L L^T = covariance; "
              "the sample formula mean + (L Z)^T has deviation second moment L (Z Z^T) L^T; searcher: PSD matrices of every rank in C and Fortran "
              "order against an untouched copy, and sample moments of GP / sum-of-GP draws")
LEVEL_NOTE = "LAPACK contracts and rounding outside the model; statistical clause by search; no axioms (closed under the global context)"
TECHNIQUE = "MathComp proof on a model regenerated from source with effect flags (translator) + independent-oracle search"
DESIGN_REF = "DESIGN.md section 7, C17"


def generate(ctx):
  return units_chol.generate(ctx) + units_gp.generate(ctx)


def correspondence(ctx):
  """The third anchored mechanism, 'factor of the joint covariance of candidate and pending points' in
  ExpectedParallelImprovement._evaluate_at_point_list: which factor, which means and which draws every candidate set gets is the
  executable model Model/ParallelEI.v (theorems in Props/C05_qei.v), tied to the running code by the exact correspondence built for C05."""
  from props import C05 as c05
  qc = c05.qei_correspondence(ctx)
  # the same mechanism in the subclass ExpectedParallelImprovementWithFailures: one factor per MODEL (objective and every failure model) and
  # candidate set, all driven by the same draws - Model/ParallelEIF.v (theorems in Props/C05_qeif.v), exact correspondence built for C05
  fc = c05.qeif_correspondence(ctx)
  return dict(evaluations=qc["evaluations"] + fc["evaluations"], distinct_nontrivial=qc["distinct"] + fc["distinct"], rule=qc["rule"] + "; " + fc["rule"],
              samples=qc["samples"] + fc["samples"][:1], distribution=dict(qc["distribution"], **fc["distribution"]),
              disagreements=qc["disagreements"] + fc["disagreements"])


def build_matrix(inp):
  rng = numpy.random.RandomState(inp["seed"])
  n, r = inp["n"], inp["rank"]
  if inp["kind"] == "lowrank":
    B = rng.normal(size=(n, max(r, 1))) * inp["scale"]
    A = B @ B.T if r > 0 else numpy.zeros((n, n))
  elif inp["kind"] == "illcond":
    Q, _ = numpy.linalg.qr(rng.normal(size=(n, n)))
    ev = numpy.logspace(0, -inp["logcond"], n) * inp["scale"]
    A = (Q * ev) @ Q.T
    A = (A + A.T) / 2
  elif inp["kind"] == "zeroblock":   # exact zero rows / columns (zero-variance points) anywhere, the first position included, around a PSD block
    k = max(1, min(n, r))
    B = rng.normal(size=(k, int(rng.randint(1, k + 1)))) * inp["scale"]
    pos = sorted(rng.choice(n, size=k, replace=False).tolist()) if inp["seed"] % 3 else list(range(n - k, n))
    A = numpy.zeros((n, n))
    A[numpy.ix_(pos, pos)] = B @ B.T
  else:  # kernel Gram matrix with repeated points
    pts = rng.uniform(0, 1, size=(max(n - inp["repeats"], 1), 2))
    pts = numpy.vstack([pts] + [pts[:1]] * (n - len(pts)))
    d2 = ((pts[:, None, :] - pts[None, :, :]) ** 2).sum(-1)
    A = inp["scale"] * numpy.exp(-0.5 * d2 / 0.09)
  return numpy.array(A, order=inp["order"])


QEIREAL_STATS = {}     # how the real-model parallel-EI cases of this run ended (decided / not decided and why); reported by search()


def _stat(key):
  QEIREAL_STATS[key] = QEIREAL_STATS.get(key, 0) + 1


def oracle_qeireal(inp):
  """Parallel EI on REAL models (GP objective, 0-2 GP failure models, pending points), real compute_cholesky_for_gp_sampling, NumPy's own
  normal draws (seeded).  A recording wrapper notes every (covariance, factor) pair the call computes.  Clauses: every factor reproduces
  its covariance; and the estimates are what the samples  mean + L z  give, L being the factor computed for THAT model's posterior
  covariance of THAT candidate set ++ pending points: mean over the executed draws of max(0, best - min over the points whose failure-model
  samples are all strictly below their thresholds).  Passes in which every such term vanishes switch to a success-probability fallback (C05's
  subject): such a case is not decided here.  Cases in which a failure-model sample sits within rounding of its threshold are skipped."""
  import libsigopt.compute.expected_improvement as EI
  from libsigopt.compute.probabilistic_failures import ProbabilisticFailures, ProbabilisticFailuresCDF, ProductOfListOfProbabilisticFailures
  def fail(what, observed, expected):
    return dict(signature=f"C17:qei-real:{what}", what=f"parallel EI on real models: {what}", input=inp, observed=observed, expected=expected,
                oracle="recording wrapper around the factorisation + plain NumPy restatement of the sampled improvement")
  gi = inp["gp"]
  gp = gpgen.make_gp(gi)
  fgps = [gpgen.make_gp(dict(gi, values=f["values"])) for f in inp["fails"]]
  q, dim = inp["q"], len(gi["points"][0])
  pend = numpy.array(inp["pending"], dtype=float).reshape(len(inp["pending"]), dim)
  p, c = len(pend), q + len(pend)
  sets = numpy.array(inp["sets"], dtype=float).reshape(len(inp["sets"]), q, dim)
  pairs = []
  real = EI.compute_cholesky_for_gp_sampling

  def recording(cov):
    keep = numpy.array(cov, dtype=float).copy()
    L = real(cov)
    pairs.append((keep, numpy.array(L, dtype=float).copy()))
    return L
  state = numpy.random.get_state()
  EI.compute_cholesky_for_gp_sampling = recording
  try:
    if fgps:
      pfs = [(ProbabilisticFailures if f["kind"] == "logistic" else ProbabilisticFailuresCDF)(g, f["threshold"]) for f, g in zip(inp["fails"], fgps)]
      af = EI.ExpectedParallelImprovementWithFailures(gp, q, ProductOfListOfProbabilisticFailures(pfs), points_being_sampled=pend if p else None,
                                                      num_mc_iterations=inp["N"], num_mc_iterations_per_loop=inp["B"])
    else:
      af = EI.ExpectedParallelImprovement(gp, q, points_being_sampled=pend if p else None, num_mc_iterations=inp["N"], num_mc_iterations_per_loop=inp["B"])
    best = float(af.best_value)
    numpy.random.seed(inp["seed"])
    if inp.get("direct"):      # the vectorised method itself also takes one-point candidate sets as an (n, 1, dim) array
      got = numpy.asarray(af._evaluate_at_point_list(sets), dtype=float)
    else:
      got = numpy.asarray(af.evaluate_at_point_list(sets if q > 1 else sets[:, 0, :]), dtype=float)
  finally:
    EI.compute_cholesky_for_gp_sampling = real
    numpy.random.set_state(state)
  for cov, L in pairs:
    tol = 1e-9 * c * max(1e-300, float(numpy.abs(cov).max())) + 1e-300
    if not numpy.isfinite(L).all() or float(numpy.abs(L @ L.T - cov).max()) > tol:
      return fail("factor does not reproduce the covariance", float(numpy.abs(L @ L.T - cov).max()), f"<= {tol}")

  def factor_of(cov):
    for a, L in pairs:
      if a.shape == cov.shape and numpy.array_equal(a, cov):
        return L
    return None
  b = min(inp["B"], inp["N"])
  passes = -(-inp["N"] // b)
  rs = numpy.random.RandomState(inp["seed"])
  blocks = [rs.normal(size=(b, c)) for _ in range(passes)]
  models = [gp] + fgps
  per_set = []
  # How much a model's own posterior mean moves with the GROUPING of the points it is asked at (the union at once / candidates and pending points apart):
  # rounding, ~1e-16 - except for a kernel that is not differentiable at r = 0 (C0 Matern) at a candidate that IS a sampled point, where the batched
  # distance |x|^2 + |z|^2 - 2 x.z leaves r ~ 1e-8 instead of 0 and the mean moves by ~1e-8 (thorough tier, seed 31337).  Which grouping the class
  # uses is not C17's subject; the measured spread is added to the tolerance and to the threshold guard.
  mean_sens = 0.0
  for k in range(len(sets)):
    union = numpy.concatenate((sets[k], pend), axis=0)
    ml = []
    for m in models:
      apart = numpy.concatenate([m.compute_mean_of_points(sets[k])] + ([m.compute_mean_of_points(pend)] if p else []))
      mean_sens = max(mean_sens, float(numpy.abs(apart - m.compute_mean_of_points(union)).max()))
      L = factor_of(m.compute_covariance_of_points(union))
      if L is None:
        return fail("no factor was computed for the posterior covariance of a model at a candidate set ++ pending points", k, "one factorisation per model and set")
      ml.append((m.compute_mean_of_points(union), L))
    per_set.append(ml)
  if mean_sens > 1e-6:
    _stat("undecided:mean-depends-on-grouping")
    return None
  want = numpy.zeros(len(sets))
  scale = 1.0
  for z in blocks:
    terms = numpy.zeros((len(sets), b))
    for k, ml in enumerate(per_set):
      # (b, c) samples of every model at the c points.  The class without failure models adds L z to (best - mean), i.e. its sample is
      # mean - L z (the same law: z and -z are equally distributed); the class with failure models forms mean + L z for every model
      sgn = 1.0 if fgps else -1.0
      ys = [mean[None, :] + sgn * (z @ L.T) for mean, L in ml]
      scale = max([scale] + [float(numpy.abs(y).max()) for y in ys])
      feas = numpy.ones((b, c), dtype=bool)
      for y, f in zip(ys[1:], inp["fails"]):
        if float(numpy.abs(y - f["threshold"]).min()) < 1e-9 * (1.0 + float(numpy.abs(y).max())) + 2.0 * mean_sens:
          _stat("undecided:sample-on-threshold")
          return None     # a sample within rounding of its threshold: the indicator is not decided by this oracle
        feas &= y < f["threshold"]
      imp = numpy.where(feas, best - ys[0], 0.0)
      terms[k] = numpy.maximum(0.0, imp.max(axis=1))
    if fgps and float(terms.sum()) == 0.0:
      _stat("undecided:pass-falls-back")
      return None       # the whole pass vanishes: the library switches to its success-probability fallback (C05), not decided here
    want += terms.sum(axis=1)
  want /= passes * b
  tol = 1e-9 * (1.0 + scale + abs(best)) + 2.0 * mean_sens
  if got.shape != want.shape or not numpy.isfinite(got).all() or float(numpy.abs(got - want).max()) > tol:
    return fail("the estimate is not the mean sampled improvement of mean + L z with each model's own factor", got.tolist(), want.tolist())
  _stat(f"decided:models={len(models)}:points={c}" + (":positive" if float(want.max()) > 0 else ":zero"))
  return None


def gen_qeireal(rng):
  gi = gpgen.gen_gp_input(rng, well_conditioned=True, allow_multitask=False, max_n=6, caller_writes=True)
  dim, n = len(gi["points"][0]), len(gi["points"])
  gi["xs"] = []
  lo, hi = min(gi["values"]), max(gi["values"])
  fails = [dict(values=[rng.uniform(-1, 1) for _ in range(n)], threshold=rng.uniform(-0.2, 0.9), kind=rng.choice(["logistic", "cdf"]))
           for _ in range(rng.choice([0, 1, 1, 1, 2]))]
  q, p = rng.choice([1, 1, 2, 3]), rng.choice([0, 1, 1, 2])
  pending = [[rng.uniform(-0.1, 1.1) for _ in range(dim)] for _ in range(p)]
  sets = [[[rng.uniform(-0.1, 1.1) for _ in range(dim)] for _ in range(q)] for _ in range(rng.randint(1, 3))]
  r = rng.random()
  if r < 0.2 and p:
    sets[0][0] = list(pending[0])          # a candidate coincides with a pending point: singular joint covariance (SVD + QR factor)
  elif r < 0.35 and q >= 2:
    sets[-1][1] = list(sets[-1][0])        # a point repeated inside a candidate set
  elif r < 0.45:
    sets[0][0] = list(gi["points"][0])     # a candidate on a training point
  return dict(kind="qeireal", gp=gi, fails=fails, q=q, pending=pending, sets=sets, N=rng.choice([12, 16, 40]), B=rng.choice([5, 16, 64]),
              direct=rng.random() < 0.3, seed=rng.randrange(2 ** 31))


def rounding_bounds(cur, xs):
  """Independent posterior of the data `cur` at xs (gpgen's saddle point in extended precision) with the justified rounding bounds of the library's
  double computation - the reading "conditioning-scaled rounding" of DESIGN 11.5 as C02's searcher states it: forward error of the Cholesky solves,
  first-order effect of the kernel-entry rounding, forward error of the GLS coefficient solve.  Returns mean, cov, cond, tol_mean, tol_var."""
  g = dict(cur, xs=[list(map(float, x)) for x in xs])
  rm, _, rc, cond = gpgen.reference_posterior(g)
  ex, dk = gpgen.reference_posterior.extra, gpgen.kernel_entry_error(g)
  alpha = g["cov"]["hp"][0]
  scale = max(1.0, float(numpy.abs(g["values"]).max()))
  tol_m = (1e-14 * cond * (alpha * ex["a_l1"] + float(numpy.abs(rm).max()) + scale) + 4 * dk * ex["a_l1"] + 1e-9 * scale
           + 1e-14 * ex["gls_cond"] * (1 + cond * 1e-6) * ex["pb_l1"])
  tol_v = 1e-14 * cond * alpha * (1 + ex["card_l1"]) ** 2 + 8 * dk * ex["card_l1"] + 1e-9 * alpha
  return rm, rc, cond, tol_m, tol_v


SAMPLE_STATS = {}      # how the sample-moment cases of this run were decided; reported by search()


def _sstat(key):
  SAMPLE_STATS[key] = SAMPLE_STATS.get(key, 0) + 1


def _historical(points, values, noise, dim):
  from libsigopt.compute.misc.data_containers import HistoricalData
  hd = HistoricalData(dim)
  hd.append_historical_data(numpy.array(points, dtype=float).reshape(len(points), dim), numpy.array(values, dtype=float), numpy.array(noise, dtype=float))
  return hd


def oracle_samples(inp, fail):
  """Sample moments of draws from a GP / a sum of GPs against the posterior of THE DATA THE MODEL HOLDS NOW, whatever the history of the live
  object: the whole data set replaced (update_historical_data with data that do not extend the old ones), earlier draws, appended lies, extended
  data.  The data held now are known from the input at every step, so the posterior is always the independent closed form (gpgen saddle point) -
  for every mean (zero, constant, linear, custom monomials) and every diagonal (recorded noise; a supplied nugget, which REPLACES the recorded
  noise, a nugget of exactly 0 included: an interpolating model whose samples at its training points reproduce the data)."""
  gi = inp["gp"]
  dim = len(gi["points"][0])
  comps = [gi] + ([dict(gi, values=list(reversed(gi["values"])))] if inp.get("sum") else [])
  try:
    gps = [gpgen.make_gp(g) for g in comps]
  except numpy.linalg.LinAlgError:
    if gi.get("tikhonov") == 0.0:
      _sstat("skipped:nugget-0-factorisation-fails")
      return None       # reading of DESIGN 11.5: a request on which the factorisation fails because the supplied nugget is 0 is skipped
    raise
  cur = [dict(g) for g in comps]              # the data each component holds now
  xs = numpy.array(gi["xs"], dtype=float).reshape(len(gi["xs"]), dim)
  if inp.get("repeat_point"):
    xs = numpy.vstack([xs, xs[:1]])
  training = inp.get("entry") == "training" and not inp.get("sum")
  new = inp.get("replace")
  if new:
    # the data of the live object replaced as a whole, before the model (the sum) is formed; optionally after a draw from the old posterior
    for k, g in enumerate(gps):
      if new.get("draw_before"):
        g.draw_posterior_samples_of_points(5, xs)
      vals = list(new["values"]) if k == 0 else list(reversed(new["values"]))
      try:
        g.update_historical_data(_historical(new["points"], vals, new["noise"], dim))
      except numpy.linalg.LinAlgError:
        if gi.get("tikhonov") == 0.0:
          _sstat("skipped:nugget-0-factorisation-fails")
          return None
        raise
      cur[k] = dict(cur[k], points=[list(p) for p in new["points"]], values=vals, noise=list(new["noise"]))
  gp = gps[0]
  if inp.get("sum"):
    from libsigopt.compute.gaussian_process_sum import GaussianProcessSum
    if inp.get("weights_inplace"):    # the sum holds the caller's weight array by reference: it is the model with the weights that array holds NOW
      warr = numpy.array([3.0 * w + 1.0 for w in inp["sum"]], dtype=float)
      model = GaussianProcessSum(gps, warr)
      _ = model.compute_mean_of_points(xs), model.compute_covariance_of_points(xs)
      warr[:] = inp["sum"]
    else:
      model = GaussianProcessSum(gps, inp["sum"])
  else:
    model = gp
  numpy.random.seed(inp["seed"])
  N = inp["draws"]
  if training:
    xs = numpy.array(gp.points_sampled, dtype=float)
  # a history of operations before the draw that is checked: earlier draws at the same points, then new data (the factor must be
  # the one of the CURRENT posterior covariance)
  for step in inp.get("steps") or []:
    if step == "draw":
      model.draw_posterior_samples(7) if training else model.draw_posterior_samples_of_points(7, xs)
    elif step == "append_lie":
      model.append_lie_data(numpy.array(inp["extra_points"], dtype=float))
      for c in cur:     # constant liar (minimisation): the lie is the worst value held, with the lie noise variance 1e-12
        c.update(points=c["points"] + [list(p) for p in inp["extra_points"]], values=c["values"] + [max(c["values"])] * len(inp["extra_points"]),
                 noise=list(c["noise"]) + [1e-12] * len(inp["extra_points"]))
    elif step == "update" and not inp.get("sum"):
      c = cur[0]
      c.update(points=c["points"] + [list(p) for p in inp["extra_points"]], values=c["values"] + list(inp["extra_values"]),
               noise=list(c["noise"]) + [1e-3] * len(inp["extra_points"]))
      gp.update_historical_data(_historical(c["points"], c["values"], c["noise"], dim))
  if training:
    xs = numpy.array(gp.points_sampled, dtype=float)
  S = model.draw_posterior_samples(N) if training else model.draw_posterior_samples_of_points(N, xs)
  own = (model.compute_mean_of_points(xs), model.compute_covariance_of_points(xs))
  ws = inp["sum"] if inp.get("sum") else [1.0]
  if training:         # the training points are those of the data held now (deep-compared: the model must hold exactly the data it was given)
    if xs.shape != (len(cur[0]["points"]), dim) or not numpy.array_equal(xs, numpy.array(cur[0]["points"], dtype=float)):
      return fail("the model does not hold the data it was given", xs.tolist(), cur[0]["points"])
  try:
    refs = [rounding_bounds(c, xs) for c in cur]
  except numpy.linalg.LinAlgError:      # the closed form itself cannot be solved in double precision: only the model's own posterior is compared
    refs = [(None, None, float("inf"), 0.0, 0.0) for _ in cur]
  independent = max(r[2] for r in refs) < 1e9
  _sstat(("independent-posterior" if independent else "library-posterior(cond>=1e9)") + (":nugget-0" if gi.get("tikhonov") == 0.0 else ""))
  # the justified rounding of the library's double computation (it matters where the posterior variance vanishes: training points of a
  # noise-free / interpolating model); a weighted sum of independent GPs has the weighted mean and the squared-weight covariance
  tol_m = sum(abs(w) * r[3] for w, r in zip(ws, refs))
  tol_v = sum(w * w * r[4] for w, r in zip(ws, refs))
  posteriors = []
  if independent:
    # the posterior mean and covariance "of the model" known independently of the library
    posteriors.append((sum(w * r[0] for w, r in zip(ws, refs)), sum(w * w * r[1] for w, r in zip(ws, refs))))
  # ... and the mean and covariance the model itself reports (what parallel EI factors): the samples must have those too - always compared;
  # the only comparison when the data are too ill-conditioned for the closed form
  posteriors.append(own)
  for mean, cov in posteriors:      # bands: statistical (6 sigma at N draws) + rounding
    sd = numpy.sqrt(numpy.maximum(numpy.diag(cov), 0) + 4 * tol_v)
    tol_mean = 6 * sd / numpy.sqrt(N) + tol_m + 1e-6 * (1 + numpy.abs(mean))
    if (numpy.abs(S.mean(axis=0) - mean) > tol_mean).any():
      return fail("sample mean differs from the posterior mean", S.mean(axis=0).tolist(), mean.tolist())
    D = S - mean[None, :]
    emp = D.T @ D / N
    band = 6 * numpy.sqrt(2.0 / N) * numpy.outer(sd, sd) + 4 * tol_v + tol_m ** 2 + 1e-6 * float(numpy.abs(cov).max()) + 1e-9
    if (numpy.abs(emp - cov) > band).any():
      return fail("sample covariance differs from the posterior covariance", emp.tolist(), cov.tolist())
  if gi.get("tikhonov") == 0.0 and training and not independent:
    # interpolating model (nugget exactly 0, whatever noise was recorded) too ill-conditioned for the closed form above: at its own training
    # points the samples still reproduce the data, up to the conditioning-scaled rounding of the mean and 6 standard deviations of the
    # rounding-level variance
    y = numpy.array(cur[0]["values"], dtype=float)
    t = refs[0][3] + 6 * numpy.sqrt(4 * refs[0][4] / N) + 1e-6 * (1 + numpy.abs(y))
    if (numpy.abs(S.mean(axis=0) - y) > t).any():
      return fail("samples of an interpolating model (nugget 0) at its training points do not reproduce the data", S.mean(axis=0).tolist(), y.tolist())
  return None


def oracle(inp):
  from libsigopt.compute.python_utils import compute_cholesky_for_gp_sampling
  def fail(what, observed, expected):
    return dict(signature=f"C17:{what}", what=what, input=inp, observed=observed, expected=expected, oracle="L L^T against an untouched copy / sample moments")
  if inp["kind"] == "qeireal":
    return oracle_qeireal(inp)
  if inp["kind"] == "samples":
    return oracle_samples(inp, fail)
  A = build_matrix(inp)
  keep = A.copy()
  L = compute_cholesky_for_gp_sampling(A)
  err = float(numpy.abs(L @ L.T - keep).max())
  tol = 1e-9 * inp["n"] * max(1e-300, float(numpy.abs(keep).max())) + 1e-300
  if not numpy.isfinite(L).all() or err > tol:
    return fail("factor does not reproduce the covariance", err, f"<= {tol}")
  return None


def gen_input(rng, samples_ok):
  if samples_ok and rng.random() < 0.1:
    gi = gpgen.gen_gp_input(rng, well_conditioned=True, allow_multitask=False, max_n=6, caller_writes=True)
    dim = len(gi["points"][0])
    if rng.random() < 0.4:     # noise-free history, with or without a nugget standing in for the noise
      gi["noise"] = [0.0] * len(gi["noise"])
      gi["tikhonov"] = rng.choice([1e-3, 0.05, 0.05])
    k = rng.randint(1, 2)
    return dict(kind="samples", gp=gi, seed=rng.randrange(10 ** 6), draws=4000, repeat_point=rng.random() < 0.4,
                sum=[rng.choice([rng.uniform(0.2, 0.8), -rng.uniform(0.2, 0.8), 0.0]), rng.uniform(0.2, 0.8)] if rng.random() < 0.3 else None,
                weights_inplace=rng.random() < 0.4,
                entry=rng.choice(["of_points", "of_points", "training"]), steps=rng.choice([[], [], ["draw"], ["draw", "append_lie"], ["draw", "update"]]),
                extra_points=[[rng.uniform(0, 1) for _ in range(dim)] for _ in range(k)], extra_values=[rng.uniform(-1, 1) for _ in range(k)])
  n = rng.randint(1, 9)
  kind = rng.choice(["lowrank", "lowrank", "illcond", "gram", "zeroblock"])
  return dict(kind=kind, n=n, rank=rng.randint(0, n), seed=rng.randrange(10 ** 6), order=rng.choice(["C", "F"]), scale=10.0 ** rng.randint(-4, 4),
              logcond=rng.choice([2, 8, 14, 18]), repeats=rng.randint(0, max(0, n - 1)))


MEAN_KINDS = ("zero", "constant", "linear", "custom")
LIVES = ("replace-fewer", "replace-same", "replace-more", "draw-replace", "draw-append_lie", "draw-update", "replace-append_lie")
DIAGONALS = ("noise", "nugget0+noise", "nugget+noise", "nugget", "nugget0")


def gen_history_samples(rng, i):
  """Draws from a live GP (or a sum built on live GPs) over the product of
    mean      zero / constant / linear / custom monomials (the polynomial matrix of the mean belongs to the data: it must follow them),
    life      the whole data set replaced by fewer / as many / more points elsewhere (update_historical_data with data that do NOT extend the
              old ones), with or without a draw before; draw then lies / extended data; replacement then lies,
    diagonal  recorded noise; a supplied nugget together with non-zero recorded noise (the nugget replaces it) - exactly 0 (an interpolating
              model: valid, DESIGN 11.5) or positive; a nugget on a noise-free history.
  The three cycles have pairwise coprime lengths driven by the case index i: every combination occurs within 4 * 7 * 5 = 140 cases and every PAIR
  within 35, independently of the random stream."""
  mk, life, dg = MEAN_KINDS[i % 4], LIVES[i % 7], DIAGONALS[i % 5]
  gi = gpgen.gen_gp_input(rng, well_conditioned=True, allow_multitask=False, max_n=7, caller_writes=True)
  dim, n = len(gi["points"][0]), len(gi["points"])
  if mk == "zero":
    gi["mean_idx"] = None
  elif mk == "constant":
    gi["mean_idx"] = [[0] * dim]
  elif mk == "linear":
    gi["mean_idx"] = [[0] * dim] + [[int(a == b) for a in range(dim)] for b in range(dim)]
  else:
    e = [0] * dim
    e[rng.randrange(dim)] = rng.choice([1, 2])
    gi["mean_idx"] = rng.choice([[e], [[0] * dim, e], [e, [2 if k == 0 else 0 for k in range(dim)]]])
    if len(gi["mean_idx"]) == 2 and gi["mean_idx"][0] == gi["mean_idx"][1]:
      gi["mean_idx"] = [e]
  terms = len(gi["mean_idx"] or [])
  if dg == "nugget0+noise":
    gi["tikhonov"] = 0.0
  elif dg == "nugget+noise":
    gi["tikhonov"] = rng.choice([1e-6, 1e-3, 0.05])
  elif dg in ("nugget", "nugget0"):
    gi["noise"] = [0.0] * n
    gi["tikhonov"] = 0.0 if dg == "nugget0" else rng.choice([1e-3, 0.05])
  if gi.get("tikhonov") == 0.0 and gi["cov"]["cls"] == "SquareExponential" and rng.random() < 0.7:
    gi["cov"]["cls"] = rng.choice(["C0RadialMatern", "C2RadialMatern"])     # keep most interpolating models decidable by the closed form (cond < 1e9)
  k = rng.randint(1, 2)
  inp = dict(kind="samples", gp=gi, seed=rng.randrange(10 ** 6), draws=20000, repeat_point=rng.random() < 0.3,
             sum=[rng.choice([rng.uniform(0.2, 0.8), -rng.uniform(0.2, 0.8)]), rng.uniform(0.2, 0.8)] if rng.random() < 0.25 else None,
             weights_inplace=rng.random() < 0.3, entry=rng.choice(["of_points", "training"]), steps=[],
             extra_points=[[rng.uniform(0, 1) for _ in range(dim)] for _ in range(k)], extra_values=[rng.uniform(-1, 1) for _ in range(k)])
  if rng.random() < 0.4:
    gi["xs"][0] = list(gi["points"][rng.randrange(n)])       # a query on a point of the ORIGINAL data (a training point only while they are held)
  if "replace" in life:
    n2 = {"replace-fewer": n - rng.randint(1, 2), "replace-same": n, "replace-more": n + rng.randint(1, 2)}.get(life, n + rng.choice([-1, 0, 1]))
    n2 = max(n2, terms + 2, dim + 2)
    lvl = sum(gi["noise"]) / n
    inp["replace"] = dict(points=[[rng.uniform(0, 1) for _ in range(dim)] for _ in range(n2)], values=[rng.uniform(-1, 1) for _ in range(n2)],
                          noise=[lvl * rng.uniform(0.5, 2) for _ in range(n2)], draw_before=life == "draw-replace" or rng.random() < 0.3)
    if rng.random() < 0.3:
      gi["xs"][-1] = list(inp["replace"]["points"][0])       # a query on a training point of the data held now
  if life.endswith("append_lie"):
    inp["steps"] = (["draw"] if life.startswith("draw") else []) + ["append_lie"]
  elif life == "draw-update":
    inp["steps"] = ["draw", "update"]
  return inp


def search(ctx, hints, broken):
  fails, n = [], 0
  from props import C05 as c05
  qin = [h["input"] for h in hints if isinstance(h.get("input"), dict) and h["input"].get("kind") in ("qei", "qeif")]
  # parallel EI, with and without failure models: per-model / per-set factor, means and draws (exact Fractions oracle on scripted posteriors)
  for inp in (qin + [c05.gen_qei_case(ctx.rng) for _ in range(ctx.n(40, 600))] + [c05.gen_qeif_case(ctx.rng) for _ in range(ctx.n(40, 600))]):
    n += 1
    r = scripted_qei_oracle(inp)
    if r and r["signature"] not in {f["signature"] for f in fails}:
      fails.append(r)
  for _ in range(ctx.n(60, 900)):        # the same on real GPs with the real factorisation (recording wrapper)
    inp = gen_qeireal(ctx.rng)
    n += 1
    try:
      r = oracle(inp)
    except numpy.linalg.LinAlgError:
      continue
    except Exception as e:
      r = dict(signature=f"C17:qei-real:raises:{type(e).__name__}", what=f"parallel EI on real models raised {type(e).__name__}: {e}", input=inp, observed=repr(e),
               expected="one estimate per candidate set", oracle="no exception")
    if r and r["signature"] not in {f["signature"] for f in fails}:
      fails.append(r)
  for _ in range(ctx.n(800, 12000) * (3 if broken else 1)):
    inp = gen_input(ctx.rng, True)
    n += 1
    try:
      r = oracle(inp)
    except Exception as e:
      r = dict(signature=f"C17:raises:{type(e).__name__}", what=f"raised {type(e).__name__}: {e}", input=inp, observed=repr(e), expected="a factor", oracle="no exception")
    if r:
      fails.append(r)
      if len(fails) >= 3:
        break
  # draws from live GPs over mean kind x life (whole-data replacement, lies, extended data) x diagonal (noise / nugget incl. exactly 0): dense by
  # construction (index-driven cycles), placed last so that the random stream of the classes above does not depend on it
  for i in range(ctx.n(140, 1400)):
    inp = gen_history_samples(ctx.rng, i)
    n += 1
    try:
      r = oracle(inp)
    except Exception as e:
      r = dict(signature=f"C17:history:raises:{type(e).__name__}", what=f"draws from a live GP raised {type(e).__name__}: {e}", input=inp, observed=repr(e),
               expected="samples", oracle="no exception")
    if r and r["signature"] not in {f["signature"] for f in fails}:
      fails.append(r)
  return dict(evaluations=n, failures=fails, oracle="max|L L^T - A| against an untouched copy; 6-sigma sample-moment bands; parallel EI (scripted posteriors: "
              "exact rationals; real models: recorded factors + NumPy restatement)",
              samples=[dict(kind="lowrank", n=4, rank=2, order="F"), dict(kind="qeireal-outcomes", counts=dict(QEIREAL_STATS)),
                       dict(kind="sample-moment-outcomes", counts=dict(SAMPLE_STATS))])


def scripted_qei_oracle(inp):
  """C05's exact oracles on scripted posteriors, read for C17 (which factor multiplies which draws, for which model and candidate set); the
  instance of C05's registered finding (whole-pass fallback) is C05's business, not a statement about the factor"""
  from props import C05 as c05
  if inp.get("regime") == "fallback-finding":
    return None
  r = c05.qeif_oracle(inp) if inp["kind"] == "qeif" else c05.qei_oracle(inp)
  return dict(r, signature=r["signature"].replace("C05:", "C17:", 1)) if r else None


def replay(ctx, payload):
  if isinstance(payload.get("input"), dict) and payload["input"].get("kind") in ("qei", "qeif"):
    return scripted_qei_oracle(payload["input"])
  return oracle(payload["input"])

# --- second build round: additions to the claimed level
LEVEL_TEXT += ("; the parallel-EI loop (which factor, means and draws each candidate set gets) is the executable model Model/ParallelEI.v with theorems "
               "Props/C05_qei.v, tied to the running _evaluate_at_point_list by an exact correspondence on a stub predictor")
TECHNIQUE += " + in-Coq differential correspondence for the parallel-EI loop"

# --- gap round A: the factor mechanism in the subclass with failure models
LEVEL_TEXT += ("; likewise for ExpectedParallelImprovementWithFailures, where every failure model has its own factor per candidate set and all models share "
               "the draws: Model/ParallelEIF.v, theorems Props/C05_qeif.v (the sample of model i at point j is (m_i + L_i z)_j), exact correspondence on the "
               "real class; searcher: the same statement on real GPs with the real factorisation (recorded factors, seeded NumPy draws)")
LEVEL_NOTE += ("; sample moments are compared with the posterior mean / covariance of an independent closed form (gpgen saddle point) whenever the data are "
               "those of the input, with the library's own otherwise; sums of GPs also with a weight array rewritten in place after construction")

# --- gap round B (seeded C17_m12 / C17_m13): histories and diagonals of the sampled GP
LEVEL_NOTE += ("; the posterior the samples are compared with is the independent closed form of THE DATA THE MODEL HOLDS NOW after every history "
               "(whole data set replaced by fewer / as many / more points elsewhere - update_historical_data with data that do not extend the old ones - "
               "earlier draws, lies, extended data) for zero / constant / linear / custom polynomial means, and under every diagonal: recorded noise, a "
               "supplied nugget next to non-zero recorded noise (the nugget replaces it; exactly 0 = an interpolating model whose samples at its training "
               "points reproduce the data - reading of DESIGN 11.5, a request whose factorisation then fails is skipped); bands = 6 sigma + the "
               "conditioning-scaled rounding bounds of C02; the samples are also compared with the mean / covariance the model itself reports "
               "(mean kind x life x diagonal enumerated by index-driven cycles of coprime lengths 4 x 7 x 5)")
