"""C11 -- Hyperparameter fitting scores the right likelihood and returns usable values."""
import copy
import math
import multiprocessing
import random
import types
import warnings

import numpy

from lib import c11_util as U
from lib import common as C

PROP = "C11"
PROPS_FILES = ["Props/C11_loglik.v", "Props/C11.v", "Props/C11_live.v"]
ASSUMPTIONS = [
  "exact arithmetic (rationals in Model.HyperOpt, an abstract real field in Gen.GenGP); floating-point rounding is met only in the harness: "
  "1e-11 relative / 1e-12 absolute in the in-Coq comparison, 1e-10 * cond(K) in the likelihood oracle",
  "numpy.exp / numpy.log are oracles with log(exp a) = a (Section hypothesis of C11_hyper_set_get_id)",
  "LAPACK factor/solve have their exact-arithmetic meaning (cho_solve A b = A^-1 b; log det K is 2*sum(log(diag(chol K))))",
  "what SLSQP returns is arbitrary: the theorems quantify over every outcome of every inner run (point, success flag, value, LinAlgError) "
  "and over every quasi-random start",
  "validity conditions of a request: grid (quantized) elements are listed in increasing order (C09 speaks of sorted grids; an unsorted grid "
  "makes form_one_hot_hyperparameter_domain produce an inverted entry, see C11_search_box_unsorted_grid_refuted); at least one successful "
  "observation (numpy.ptp of an empty array raises otherwise); supplied alpha / length scales / task length positive and of the domain's "
  "structure, a supplied nugget is any value >= 0 (exactly 0.0 is a given nugget: 'given' is `is not None`; the fit never reads its value); "
  "the two metric index lists come in any order (position k pairs with raw column list[k]); "
  "zero or constant mean on domains with categorical parameters (a linear mean is collinear with the one-hot columns)",
  "'equal to the supplied values' is read as: equal to the start vector built from the supplied alpha, length scales and task length; its "
  "nugget slot holds the likelihood object's initial 1e-10, not the supplied nugget (known finding C11:endpoint:fallback-nugget-is-default-1e-10)",
]
TRUSTED = ["tools/props/C11.py + tools/lib/c11_util.py: case generators, the stub optimiser and the introspection of the constructed likelihood objects, "
           "the Q-literal printers", "Model/HyperOptCorr.v check function", "tools/py2v (translator of the likelihood value, dual-rendering self-check)"]

HEADER = ("From Coq Require Import List QArith ZArith Bool.\nFrom LV Require Import Model.Domain Model.HyperOpt Model.HyperOptCorr.\n"
          "From LV Require Model.Midpoint Model.Multistart.\nOpen Scope Q_scope.")
KNOWN_SIG = "C11:endpoint:fallback-nugget-is-default-1e-10"


def generate(ctx):
  from py2v import units_gp
  return units_gp.generate(ctx)


# ------------------------------------------------------------------------------------------ generators


def dy(rng, lo, hi, den):
  return rng.randint(int(lo * den), int(hi * den)) / den


def gen_components(rng, exact, maxc=3):
  comps = []
  for _ in range(rng.randint(1, maxc)):
    t = rng.choice(["double", "int", "categorical", "quantized"])
    if t == "double":
      a = dy(rng, -4, 4, 4) if exact else rng.uniform(-5, 5)
      w = rng.choice([0.5, 1, 2, 8, 1024]) if exact else 10 ** rng.uniform(-3, 3)
      comps.append({"var_type": t, "elements": [a, a + w]})
    elif t == "int":
      a = rng.randint(-5, 5)
      comps.append({"var_type": t, "elements": [a, a + rng.choice([1, 2, 7, 300])]})
    elif t == "categorical":
      comps.append({"var_type": t, "elements": sorted(rng.sample([1, 2, 3, 5, 8, 13], rng.randint(2, 4)))})
    else:
      k = rng.randint(2, 5)
      if exact:
        es = sorted(rng.sample([x / 4 for x in range(-20, 41)], k))
      else:
        es = sorted({round(rng.uniform(-5, 5) * 10 ** rng.choice([-2, 0, 2]), 3) for _ in range(k)} | {7.0, 8.5})
      comps.append({"var_type": t, "elements": es})
  return comps


def gen_point(rng, comps, exact):
  p = []
  for c in comps:
    e = c["elements"]
    if c["var_type"] == "double":
      p.append(e[0] + (e[1] - e[0]) * (rng.randint(0, 16) / 16 if exact else rng.random()))
    elif c["var_type"] == "int":
      p.append(float(rng.randint(e[0], e[1])))
    else:
      p.append(float(rng.choice(e)))
  return p


def gen_column(rng, n, kind, exact):
  if kind == "regular":
    if exact:
      return [rng.randint(-40, 40) / 8 for _ in range(n)]
    s, o = 10 ** rng.uniform(-3, 3), rng.choice([0, 0, 1e3, -1e5]) * rng.random()
    return [o + s * rng.gauss(0, 1) for _ in range(n)]
  c = rng.choice([0.0, 0.5, -3.0, 1000.0, 3.14])
  if kind == "constant":
    return [c] * n
  step = 2.0 ** -30 if kind == "near_fit" else 2.0 ** -36      # spans about 9e-10 (fitted) or 1.5e-11 (skipped)
  return [c + (i % 2) * step for i in range(n)]


def gen_request(rng, exact, real=False):
  comps = gen_components(rng, exact)
  n = rng.randint(3, 7) if not real else rng.randint(4, 12)
  pts = []
  while len(pts) < n:
    p = gen_point(rng, comps, exact)
    if p not in pts:
      pts.append(p)
    elif rng.random() < 0.2:
      n -= 1
  n = len(pts)
  multitask = rng.random() < 0.3
  m = rng.randint(1, 4)
  roles = ["opt"] + [rng.choice(["opt", "con", "con", "stored"]) for _ in range(m - 1)]
  if roles.count("opt") > 2:
    roles = ["opt" if i == 0 else ("con" if r == "opt" else r) for i, r in enumerate(roles)]
  rng.shuffle(roles)
  if "opt" not in roles and "con" not in roles:
    roles[0] = "opt"
  fails = [rng.random() < rng.choice([0.0, 0.2, 0.5]) for _ in range(n)]
  while sum(1 for f in fails if not f) < min(n, 3):
    fails[rng.randrange(n)] = False
  kinds = [rng.choice(["regular", "regular", "regular", "constant", "near_fit", "near_skip"]) for _ in range(m)]
  cols = [gen_column(rng, n, k, exact) for k in kinds]
  if real:
    kinds = [k if k != "near_fit" else "regular" for k in kinds]      # keep the real optimiser on well-posed fits
    cols = [gen_column(rng, n, k, exact) for k in kinds]
  hps = []
  for j in range(m):
    ls = []
    for c in comps:
      if c["var_type"] == "categorical":
        l = [dy(rng, 0.25, 1.0, 8) if exact else rng.uniform(0.2, 1.0) for _ in c["elements"]]
        if rng.random() < 0.15:
          l[rng.randrange(len(l))] = None
        ls.append(l)
      else:
        w = max(c["elements"]) - min(c["elements"])
        ls.append([w * rng.choice([0.125, 0.25, 0.5]) if exact else w * rng.uniform(0.05, 0.9)])
    hps.append({"alpha": dy(rng, 0.125, 4, 8) if exact else 10 ** rng.uniform(-2, 1), "length_scales": ls,
                "task_length": (rng.choice([0.5, 0.75, 1.0]) if multitask else None),
                "tikhonov": (rng.choice([2.0 ** -10, 2.0 ** -6, 0.25, 0.0]) if rng.random() < 0.5 else None)})
  # a supplied nugget of exactly 0.0 is a GIVEN nugget ("nugget iff one was given": the test is `is not None`, and the fit
  # never reads the supplied value - it starts from 1e-10).  The two index lists come in ANY order (a request lists its
  # metrics as the caller pleases): position k of a list pairs with raw column list[k], not with the k-th smallest index.
  optimized = [j for j, r in enumerate(roles) if r == "opt"]
  constraint = [j for j, r in enumerate(roles) if r == "con"]
  rng.shuffle(optimized)
  rng.shuffle(constraint)
  return dict(
    components=comps, points=pts, task_options=[0.25, 0.5, 1.0] if multitask else [],
    task_costs=[rng.choice([0.25, 0.5, 1.0]) for _ in range(n)] if multitask else None,
    values=[[cols[j][i] for j in range(m)] for i in range(n)],
    value_vars=[[rng.choice([0.0, 2.0 ** -10, 2.0 ** -6]) if exact else 10 ** rng.uniform(-6, -2) for _ in range(m)] for _ in range(n)],
    failures=fails, objectives=[rng.choice(["maximize", "minimize"]) for _ in range(m)],
    optimized=optimized, constraint=constraint,
    hps=hps, mean_type=rng.choice(["zero", "constant"]), kinds=kinds, np_seed=rng.getrandbits(31))


def gen_script(rng):
  pat = rng.choice(["allfail", "first_ok", "mixed", "mixed", "mixed", "late_ok"])
  out = []
  for j in range(10):
    ts = [rng.randint(0, 8) / 8 for _ in range(24)]
    if pat == "allfail" or (pat == "late_ok" and j < 7):
      out.append(dict(raised=True) if rng.random() < 0.3 else dict(raised=False, success=rng.random() < 0.3,
                                                                   end=("out", rng.randrange(24), rng.choice(["below", "above"]), ts) if rng.random() < 0.7 else ("start",),
                                                                   fun=rng.choice([None, 1.0])))
      if out[-1].get("success") and out[-1]["end"][0] != "out":
        out[-1]["success"] = False
      continue
    if pat == "first_ok" and j == 0:
      out.append(dict(raised=False, success=True, end=("in", ts), fun=rng.randint(-2, 2) / 2))
      continue
    r = rng.random()
    if r < 0.15:
      out.append(dict(raised=True))
      continue
    end = rng.choice([("in", ts), ("in", ts), ("corner", [rng.random() < 0.5 for _ in range(24)]), ("start",),
                      ("out", rng.randrange(24), rng.choice(["below", "above"]), ts)])
    out.append(dict(raised=False, success=rng.random() < 0.75, end=end, fun=None if rng.random() < 0.1 else rng.randint(-3, 3) / 2))
  return out


# ------------------------------------------------------------------------------------------ correspondence


def case_setget(rng):
  from libsigopt.compute.covariance import C4RadialMatern, SquareExponential
  from libsigopt.compute.covariance_base import HyperparameterInvalidError
  from libsigopt.compute.log_likelihood import GaussianProcessLogMarginalLikelihood
  from libsigopt.compute.misc.data_containers import HistoricalData
  from libsigopt.compute.multitask_covariance import MultitaskTensorCovariance
  d = rng.randint(1, 4)
  multitask = rng.random() < 0.3
  dim = d + (1 if multitask else 0)
  auto, lg = rng.random() < 0.5, rng.random() < 0.5
  cov0 = [dy(rng, 0.25, 3, 8) for _ in range(dim + 1)]
  cov = MultitaskTensorCovariance(cov0, C4RadialMatern, SquareExponential) if multitask else C4RadialMatern(cov0)
  n = rng.randint(2, 5)
  hd = HistoricalData(dim)
  pts = numpy.array([[i + rng.random() for _ in range(dim)] for i in range(n)])
  if multitask:
    pts[:, -1] = [rng.choice([0.25, 0.5, 1.0]) for _ in range(n)]
  hd.append_historical_data(pts, numpy.array([rng.gauss(0, 1) for _ in range(n)]), numpy.full(n, 0.125))
  ll = GaussianProcessLogMarginalLikelihood(cov, hd, use_auto_noise=auto, log_domain=lg)
  size = dim + 1 + (1 if auto else 0)
  mode = rng.choice(["ok"] * 7 + ["len", "len", "bad"])
  hp = [dy(rng, -2, 2, 8) if lg else dy(rng, 0.125, 3, 8) for _ in range(size)]
  if mode == "len":
    hp = hp[:-1] if rng.random() < 0.5 else hp + [0.5]
  if mode == "bad" and not lg:
    hp[rng.randrange(dim + 1)] = rng.choice([0.0, -0.5])
  get_before = [float(x) for x in ll.hyperparameters]
  status, cov_after, tik_after, get_after = 0, [], None, []
  try:
    ll.hyperparameters = numpy.array(hp, dtype=float)
    cov_after = [float(x) for x in ll.covariance.hyperparameters]
    tik_after = None if ll.gp.tikhonov_param is None else float(ll.gp.tikhonov_param)
    get_after = [float(x) for x in ll.hyperparameters]
  except HyperparameterInvalidError:
    status = 2
  except ValueError:
    status = 1
  ex = numpy.exp(numpy.array(hp, dtype=float)) if lg else numpy.array([])
  etab = list(zip(hp, [float(x) for x in ex])) if lg else []
  keys = cov0 + [1.0e-10] + [float(x) for x in ex]
  ltab = [(k, float(numpy.log(k))) for k in keys] if lg else []
  tab = lambda t: C.listlit([f"({C.qlit(a)}, {C.qlit(b)})" for a, b in t])
  inp = dict(dim=dim, auto=auto, log=lg, cov0=cov0, hp=hp, multitask=multitask, mode=mode)
  term = (f"CSetGet {C.nlit(dim)} {C.blit(auto)} {C.blit(lg)} {C.listlit(cov0, C.qlit)} {C.listlit(hp, C.qlit)} {tab(etab)} {tab(ltab)} "
          f"{C.listlit(get_before, C.qlit)} {C.nlit(status)} {C.listlit(cov_after, C.qlit)} {C.optlit(tik_after, C.qlit)} {C.listlit(get_after, C.qlit)}")
  return term, inp, dict(status=status, cov_after=cov_after, tik_after=tik_after, get_after=get_after, get_before=get_before), mode


def case_box(rng):
  from libsigopt.compute.domain import CategoricalDomain
  from libsigopt.views.rest.gp_hyper_opt_multimetric import form_one_hot_hyperparameter_domain
  comps = gen_components(rng, rng.random() < 0.5, maxc=4)
  kind = rng.choice(["regular", "regular", "constant", "near_fit", "empty", "single"])
  n = rng.randint(2, 8)
  vals = [] if kind == "empty" else ([0.75] if kind == "single" else [x / 40 for x in gen_column(rng, n, kind, True)])
  auto, mt = rng.random() < 0.5, rng.random() < 0.4
  dll = rng.choice([0.14, 0.14, 0.5, 0.18, rng.randint(1, 15) / 16])
  with warnings.catch_warnings():
    warnings.simplefilter("ignore")
    dom = form_one_hot_hyperparameter_domain(CategoricalDomain(copy.deepcopy(comps)), types.SimpleNamespace(points_sampled_value=numpy.array(vals, dtype=float)),
                                             auto, dll, mt)
  bounds = numpy.array(dom.domain_bounds, dtype=float).tolist()
  inp = dict(components=comps, vals=vals, auto=auto, multitask=mt, dll=dll)
  term = f"CBox {C.listlit(comps, U.comp_lit)} {C.listlit(vals, C.qlit)} {C.blit(auto)} {C.blit(mt)} {C.qlit(dll)} {U.box_lit(bounds)}"
  return term, inp, dict(bounds=bounds), kind


def case_ls(rng):
  from libsigopt.compute.domain import CategoricalDomain
  comps = gen_components(rng, True, maxc=5)
  dom = CategoricalDomain(copy.deepcopy(comps))
  ls = []
  for c in comps:
    k = len(c["elements"]) if c["var_type"] == "categorical" else 1
    l = [rng.randint(1, 40) / 8 for _ in range(k)]
    if c["var_type"] == "categorical" and rng.random() < 0.3:
      l[rng.randrange(k)] = None
    ls.append(l)
  one_hot = [float(x) for x in dom.map_categorical_length_scales_to_one_hot(ls)]
  v = [rng.randint(1, 80) / 16 for _ in range(U.own_one_hot_dim(comps) + rng.randint(0, 1))]
  reg = [[float(x) for x in l] for l in dom.map_one_hot_length_scales_to_categorical(v)]
  lslit = C.listlit([C.listlit(l, lambda x: C.optlit(x, C.qlit)) for l in ls])
  term = f"CLs {C.listlit(comps, U.comp_lit)} {lslit} {C.listlit(one_hot, C.qlit)} {C.listlit(v, C.qlit)} {U.qrows(reg)}"
  return term, dict(components=comps, ls=ls, v=v), dict(one_hot=one_hot, regrouped=reg), "ls"


def case_endpoint(rng):
  inp = gen_request(rng, True)
  scripts = [gen_script(rng) for _ in range(len(inp["optimized"]) + len(inp["constraint"]))]
  numpy.random.seed(inp["np_seed"])
  res = U.run_endpoint(inp, scripts)
  return inp, scripts, res


def loglik_numeric(rng):
  """One numeric comparison of compute_log_likelihood with the slogdet oracle and of the two parameterisations."""
  from libsigopt.compute import covariance as cv
  from libsigopt.compute.log_likelihood import GaussianProcessLogMarginalLikelihood
  from libsigopt.compute.misc.data_containers import HistoricalData
  from libsigopt.compute.python_utils import validate_polynomial_indices
  kernel = rng.choice(sorted(U.KERNELS))
  d, n = rng.randint(1, 3), rng.randint(3, 9)
  x = [[rng.uniform(-2, 2) for _ in range(d)] for _ in range(n)]
  y = [rng.gauss(0, 1) * rng.choice([0.1, 1, 10]) for _ in range(n)]
  alpha = 10 ** rng.uniform(-1, 1)
  hp = [alpha] + [10 ** rng.uniform(-0.5, 0.7) for _ in range(d)]
  noise = [alpha * 10 ** rng.uniform(-3, -1) for _ in range(n)]
  auto = rng.random() < 0.5
  tik = alpha * 10 ** rng.uniform(-3, -1) if auto else None
  mean = rng.choice(["zero", "constant", "linear"]) if n > d + 2 else rng.choice(["zero", "constant"])
  scale = rng.choice([1.0, 0.5, 0.01, 7.0])
  inp = dict(kind="loglik", kernel=kernel, x=x, y=y, hp=hp, noise=noise, tik=tik, mean=mean, scale=scale)
  if rng.random() < 0.4:
    inp["history"] = gen_loglik_history(rng, inp)
  return inp


def gen_loglik_history(rng, inp):
  """The life of ONE likelihood object after its first vector (what a hyperparameter search does with it, and what happens to the data container it
  holds): further vectors, a vector whose kernel matrix cannot be factored (LinAlgError - caught, as the optimisers' wrappers do), the SAME vector sent
  again (optimisers re-send the point they have just evaluated), observations appended to the live HistoricalData before a vector is (re-)sent.
  A noise-free variant (no nugget slot) makes the unfactorable vectors reachable: length scales far beyond the spread of the points."""
  d, auto = len(inp["x"][0]), inp["tik"] is not None
  if not auto and rng.random() < 0.5:
    inp["noise"] = [0.0] * len(inp["x"])           # noise-free data: K is singular to working precision for very long length scales
  def good():
    a = 10 ** rng.uniform(-1, 1)
    return [a] + [10 ** rng.uniform(-0.5, 0.7) for _ in range(d)] + ([a * 10 ** rng.uniform(-3, -1)] if auto else [])
  def flat():
    return [10 ** rng.uniform(-1, 1)] + [10 ** rng.uniform(2.5, 4) for _ in range(d)] + ([1e-300] if auto else [])
  steps = []
  for _ in range(rng.randint(1, 4)):
    c = rng.random()
    if c < 0.3:
      steps.append(["set", good()])
    elif c < 0.5:
      steps.append(["set", flat()])
    elif c < 0.75:
      steps.append(["resend"])
    else:
      k = rng.randint(1, 3)
      steps.append(["append", [[rng.uniform(-2, 2) for _ in range(d)] for _ in range(k)], [rng.gauss(0, 1) for _ in range(k)],
                    [0.0 if inp["noise"][0] == 0.0 else inp["hp"][0] * 10 ** rng.uniform(-3, -1) for _ in range(k)]])
      steps.append(["resend"] if rng.random() < 0.7 else ["set", good()])
  return steps


def run_loglik(inp):
  from libsigopt.compute import covariance as cv
  from libsigopt.compute.log_likelihood import GaussianProcessLogMarginalLikelihood
  from libsigopt.compute.misc.data_containers import HistoricalData
  from libsigopt.compute.python_utils import validate_polynomial_indices
  x = numpy.array(inp["x"], dtype=float)
  n, d = x.shape
  auto = inp["tik"] is not None
  vec = list(inp["hp"]) + ([inp["tik"]] if auto else [])
  out = {}
  for lg in (False, True):
    hd = HistoricalData(d)
    hd.append_historical_data(x, numpy.array(inp["y"], dtype=float), numpy.array(inp["noise"], dtype=float))
    cov = getattr(cv, inp["kernel"])([1.0] * (d + 1))
    idx = validate_polynomial_indices(None, inp["mean"], d) if inp["mean"] != "zero" else None
    ll = GaussianProcessLogMarginalLikelihood(cov, hd, mean_poly_indices=idx, use_auto_noise=auto, log_domain=lg, scaling_factor=inp["scale"])
    ll.hyperparameters = numpy.log(numpy.array(vec)) if lg else numpy.array(vec)
    out["log" if lg else "lin"] = dict(value=float(ll.compute_log_likelihood()), read=[float(v) for v in ll.hyperparameters],
                                       objective=float(ll.compute_objective_function()))
  return out


LIVE_HEADER = "From Coq Require Import List QArith Bool Arith.\nFrom LV Require Import Model.LogLikLive.\nOpen Scope Q_scope."


def gen_liklive(rng):
  """a likelihood-history input (same shape as loglik_numeric + gen_loglik_history, replayable by oracle_loglik) on dyadic data, for the op-sequence
  correspondence with Model.LogLikLive: distinct points, noise-free or noise 1/8, with / without the nugget slot; vectors that fit, vectors whose kernel
  matrix is EXACTLY alpha * ones (length scales 2^40: every profile rounds to 1) and cannot be factored when there is no noise and no nugget, the last
  vector sent again, observations appended before a vector is (re-)sent"""
  kernel = rng.choice(sorted(U.KERNELS))
  d, n = rng.randint(1, 2), rng.randint(3, 5)
  def newpt(i):
    return [i + dy(rng, 0, 0.75, 4) for _ in range(d)]
  x = [newpt(i) for i in range(n)]
  y = [dy(rng, -2, 2, 4) for _ in range(n)]
  quiet = rng.random() < 0.6
  auto = rng.random() < 0.3
  lvl = 0.0 if quiet else 0.125
  def good():
    return [dy(rng, 0.25, 3, 8) for _ in range(d + 1)] + ([dy(rng, 0.125, 1, 8)] if auto else [])
  def flat():
    return [dy(rng, 0.25, 3, 8)] + [2.0 ** 40] * d + ([dy(rng, 0.125, 1, 8)] if auto else [])
  first = good()
  steps, m = [], n
  for _ in range(rng.randint(2, 5)):
    c = rng.random()
    if c < 0.3:
      steps.append(["set", good()])
    elif c < 0.55:
      steps.append(["set", flat()])
    elif c < 0.8:
      steps.append(["resend"])
    else:
      k = rng.randint(1, 2)
      steps.append(["append", [newpt(m + i) for i in range(k)], [dy(rng, -2, 2, 4) for _ in range(k)], [lvl] * k])
      m += k
      steps.append(["resend"] if rng.random() < 0.7 else ["set", good()])
  return dict(kind="loglik", kernel=kernel, x=x, y=y, hp=first[:d + 1], noise=[lvl] * n, tik=first[-1] if auto else None,
              mean=rng.choice(["zero", "constant"]), scale=1.0, history=steps, live=True)


def run_liklive(inp):
  """ONE live likelihood object (linear parameterisation) through the history of `inp`; after every set: read back, read the value.  Returns the
  constructor facts, the operations as Model.LogLikLive sees them (chol_ok = whether a FRESHLY built object factors the kernel matrix of the vector sent
  on the observations held then - an independent run of the external code) and what the live object showed.  A value is reported as the list of
  (kernel hyperparameters, nugget, number of observations), among the vectors sent and the container sizes seen so far, whose fresh fit reproduces it."""
  from libsigopt.compute import covariance as cv
  from libsigopt.compute.covariance_base import HyperparameterInvalidError
  from libsigopt.compute.log_likelihood import GaussianProcessLogMarginalLikelihood
  from libsigopt.compute.misc.data_containers import HistoricalData
  from libsigopt.compute.python_utils import validate_polynomial_indices
  d, auto = len(inp["x"][0]), inp["tik"] is not None
  idx = validate_polynomial_indices(None, inp["mean"], d) if inp["mean"] != "zero" else None
  def build(x, y, noise):
    hd = HistoricalData(d)
    hd.append_historical_data(numpy.array(x, dtype=float), numpy.array(y, dtype=float), numpy.array(noise, dtype=float))
    return GaussianProcessLogMarginalLikelihood(getattr(cv, inp["kernel"])([1.0] * (d + 1)), hd, mean_poly_indices=idx, use_auto_noise=auto, log_domain=False,
                                                scaling_factor=inp["scale"])
  x, y, noise = [list(r) for r in inp["x"]], list(inp["y"]), list(inp["noise"])
  ll = build(x, y, noise)
  tik0 = None if ll.gp.tikhonov_param is None else float(ll.gp.tikhonov_param)
  vectors, sizes = [([1.0] * (d + 1), tik0)], [len(x)]
  def fresh_value(cov, tik, m):
    try:
      f = build(x[:m], y[:m], noise[:m])
      f.hyperparameters = numpy.array(list(cov) + ([tik] if auto else []), dtype=float)
      return float(f.compute_log_likelihood())
    except numpy.linalg.LinAlgError:
      return None
  ops, outs = [], []
  last = list(inp["hp"]) + ([inp["tik"]] if auto else [])
  for step in [["set", last]] + inp["history"]:
    if step[0] == "append":
      ll.historical_data.append_historical_data(numpy.array(step[1], dtype=float), numpy.array(step[2], dtype=float), numpy.array(step[3], dtype=float))
      x, y, noise = x + [list(r) for r in step[1]], y + list(step[2]), noise + list(step[3])
      sizes.append(len(x))
      ops.append(("append", len(step[1])))
      outs.append(("set", "RNormal"))
      continue
    vec = list(step[1]) if step[0] == "set" else last
    last = vec
    vectors.append((vec[:d + 1], vec[-1] if auto else None))
    chol_ok = fresh_value(vec[:d + 1], vec[-1] if auto else None, len(x)) is not None
    try:
      ll.hyperparameters = numpy.array(vec, dtype=float)
      res = "RNormal"
    except numpy.linalg.LinAlgError:
      res = "RLinAlg"
    except HyperparameterInvalidError:
      res = "RInvalid"
    except ValueError:
      res = "RLen"
    ops += [("set", vec, chol_ok), ("get",), ("value",)]
    v = float(ll.compute_log_likelihood())
    rep = []
    for cov, tik in vectors:
      for m in sizes:
        fv = fresh_value(cov, tik, m)
        if fv is not None and abs(fv - v) <= 1e-9 * max(1.0, abs(v)) and (cov, tik, m) not in rep:
          rep.append((cov, tik, m))
    outs += [("set", res), ("get", [float(t) for t in ll.hyperparameters]), ("value", rep)]
  return dict(dim=d, auto=auto, cov0=[1.0] * (d + 1), tik0=tik0, n=len(inp["x"]), ops=ops, outs=outs)


def liklive_term(r):
  ql = lambda v: C.listlit(v, C.qlit)
  ops = C.listlit([f"(LSet {ql(o[1])} {C.blit(o[2])})" if o[0] == "set" else f"(LAppend {C.nlit(o[1])})" if o[0] == "append" else "LGet" if o[0] == "get" else "LValue" for o in r["ops"]])
  snap = lambda t: f"(mksnap {ql(t[0])} {C.optlit(t[1], C.qlit)} {C.nlit(t[2])})"
  outs = C.listlit([f"(ISet {o[1]})" if o[0] == "set" else f"(IGet {ql(o[1])})" if o[0] == "get" else f"(IValue {C.listlit([snap(t) for t in o[1]])})" for o in r["outs"]])
  return f"mklcase {C.nlit(r['dim'])} {C.blit(r['auto'])} {ql(r['cov0'])} {C.optlit(r['tik0'], C.qlit)} {C.nlit(r['n'])} {ops} {outs}"


def liklive_correspondence(ctx):
  cases, meta, dist, dis, seen = [], [], {}, [], set()
  for _ in range(ctx.n(150, 2000)):
    inp = gen_liklive(ctx.rng)
    try:
      r = run_liklive(inp)
    except C.TieBroken:
      raise
    except Exception as e:  # noqa: BLE001
      dis.append(dict(what=f"C11 live likelihood object: the history raised {type(e).__name__}: {e}", kind="loglik", input=inp, observed=repr(e)))
      continue
    cases.append(liklive_term(r))
    meta.append((inp, r))
    res = [o[1] for o in r["outs"] if o[0] == "set"]
    for t in (["liklive:unfactorable-vector-refused"] if "RLinAlg" in res else []) + (["liklive:appended-then-sent"] if any(o[0] == "append" for o in r["ops"]) else []) + \
             (["liklive:resent"] if any(s[0] == "resend" for s in inp["history"]) else []) + (["liklive:nugget-slot"] if r["auto"] else []):
      dist[t] = dist.get(t, 0) + 1
    if len(res) >= 3:
      seen.add(C.canon_hash(inp))
  bad = C.run_cases("C11live", LIVE_HEADER, "lcase", "lcheck", cases, shard=50)
  for i in bad:
    inp, r = meta[i]
    dis.append(dict(what=f"C11 live likelihood object, case {i}: outcome of a set / read-back / the model a value belongs to differs from Model.LogLikLive (a set that returns "
                         "normally fits the vector sent on the observations held then; a vector that cannot be factored is refused every time)", kind="loglik", input=inp,
                    observed=[list(o) for o in r["outs"]]))
  return dict(evaluations=len(cases), distinct=len(seen), distribution=dist, disagreements=dis)


def oracle_loglik_history(inp):
  """One live likelihood object per parameterisation.  Whenever `ll.hyperparameters = h` RETURNS NORMALLY the object has fitted the model h names on the
  data it holds: reading back gives h, the value is -scale*(r'K^-1 r + log det K) for the kernel at h on the observations the container holds NOW (own
  formula, conditioning-scaled tolerance), and the factorisation that a normal return vouches for exists - a freshly built object given the same vector
  and the same data does not fail (the setter has nothing but the vector and the data to factor: a normal return for a vector whose kernel matrix cannot
  be factored means nothing was fitted).  A set that raises LinAlgError claims nothing."""
  from libsigopt.compute import covariance as cv
  from libsigopt.compute.covariance_base import HyperparameterInvalidError
  from libsigopt.compute.log_likelihood import GaussianProcessLogMarginalLikelihood
  from libsigopt.compute.misc.data_containers import HistoricalData
  from libsigopt.compute.python_utils import validate_polynomial_indices
  def fail(what, observed, expected, when=""):
    return dict(signature=f"C11:loglik:{what}", what=f"likelihood: {what} {when}", input=inp, observed=observed, expected=expected,
                oracle="numpy.linalg.solve / slogdet closed form, own kernel formula, GLS residual; a freshly built object for the existence of the factorisation")
  d, auto = len(inp["x"][0]), inp["tik"] is not None
  idx = validate_polynomial_indices(None, inp["mean"], d) if inp["mean"] != "zero" else None
  def build(x, y, noise, lg):
    hd = HistoricalData(d)
    hd.append_historical_data(numpy.array(x, dtype=float), numpy.array(y, dtype=float), numpy.array(noise, dtype=float))
    return GaussianProcessLogMarginalLikelihood(getattr(cv, inp["kernel"])([1.0] * (d + 1)), hd, mean_poly_indices=idx, use_auto_noise=auto, log_domain=lg,
                                                scaling_factor=inp["scale"])
  first = list(inp["hp"]) + ([inp["tik"]] if auto else [])
  for lg in (False, True):
    x, y, noise = [list(r) for r in inp["x"]], list(inp["y"]), list(inp["noise"])
    ll = build(x, y, noise, lg)
    last, pieces = first, []
    for j, step in enumerate([["set", first]] + inp["history"]):
      if step[0] == "append":
        ll.historical_data.append_historical_data(numpy.array(step[1], dtype=float), numpy.array(step[2], dtype=float), numpy.array(step[3], dtype=float))
        x, y, noise = x + [list(r) for r in step[1]], y + list(step[2]), noise + list(step[3])
        pieces.append(step)
        continue
      vec = list(step[1]) if step[0] == "set" else last
      last = vec
      send = numpy.log(numpy.array(vec)) if lg else numpy.array(vec, dtype=float)
      when = f"(step {j}: {step[0]}, {'log' if lg else 'linear'} parameterisation, {len(x)} observations held)"
      try:
        ll.hyperparameters = send
      except (numpy.linalg.LinAlgError, HyperparameterInvalidError):
        continue                       # no fit, no value claimed
      except Exception as e:  # noqa: BLE001
        return fail(f"setting hyperparameters on a live object raised {type(e).__name__}", repr(e), "a fit or LinAlgError")
      read = [float(v) for v in ll.hyperparameters]
      if len(read) != len(vec) or any(abs(a - float(b)) > 1e-12 * max(1.0, abs(float(b))) for a, b in zip(read, send)):
        return fail("set then get is not the identity on a live object", read, [float(v) for v in send], when)
      try:
        # the fresh object receives the data in the SAME pieces: a kernel matrix at the edge of double-precision definiteness factors or not depending on the
        # rounding of its entries, which depends on the memory layout the container ends with (thorough tier, seed 31337: 15 noise-free points, one-piece copy
        # LinAlgError, three-piece copy factored) - only bit-identical data makes 'cannot be factored' a fact about the matrix rather than about the copy
        fresh = build(inp["x"], inp["y"], inp["noise"], lg)
        for p in pieces:
          fresh.historical_data.append_historical_data(numpy.array(p[1], dtype=float), numpy.array(p[2], dtype=float), numpy.array(p[3], dtype=float))
        fresh.hyperparameters = send
      except numpy.linalg.LinAlgError:
        return fail("a live object accepted a hyperparameter vector (normal return) although the kernel matrix it names on the data held cannot be factored: "
                    "nothing was fitted, the value it reports belongs to another model", dict(value=float(ll.compute_log_likelihood()), reports=read), "LinAlgError, as for a freshly built object", when)
      got = float(ll.compute_log_likelihood())
      try:
        exp, cond, sgn = U.own_loglik(inp["kernel"], vec[:d + 1], x, y, noise, vec[-1] if auto else None, inp["mean"], inp["scale"])
      except numpy.linalg.LinAlgError:
        continue                       # the reference itself cannot be evaluated in double precision: nothing to compare with
      if sgn <= 0 or not math.isfinite(exp) or not math.isfinite(cond):
        continue
      if not abs(got - exp) <= 1e-10 * cond * (1 + abs(exp)):
        return fail("value on a live object differs from -scale*(r'K^-1 r + log det K) at the hyperparameters it was given, on the observations it holds", got, exp, when)
  return None


def oracle_loglik(inp):
  if inp.get("history"):
    return oracle_loglik_history(inp)              # the object's first vector is the first step of its life
  try:
    out = run_loglik(inp)
  except Exception as e:  # noqa: BLE001
    return dict(signature=f"C11:loglik:raises:{type(e).__name__}", what=f"likelihood object raised {type(e).__name__}: {e}", input=inp,
                observed=repr(e), expected="a value", oracle="no exception on valid input")
  exp, cond, sgn = U.own_loglik(inp["kernel"], inp["hp"], inp["x"], inp["y"], inp["noise"], inp["tik"], inp["mean"], inp["scale"])
  tol = 1e-10 * cond * (1 + abs(exp))
  auto = inp["tik"] is not None
  vec = list(inp["hp"]) + ([inp["tik"]] if auto else [])
  def fail(what, observed, expected):
    return dict(signature=f"C11:loglik:{what}", what=f"likelihood: {what}", input=inp, observed=observed, expected=expected,
                oracle="numpy.linalg.solve / slogdet closed form, own kernel formula, GLS residual")
  if sgn <= 0:
    return None
  if abs(out["lin"]["value"] - exp) > tol or abs(out["lin"]["objective"] - exp) > tol:
    return fail("value differs from -scale*(r'K^-1 r + log det K)", out["lin"], exp)
  if abs(out["log"]["value"] - out["lin"]["value"]) > tol:
    return fail("log and linear parameterisation disagree", out, exp)
  if out["lin"]["read"] != vec:
    return fail("set then get is not the identity (linear)", out["lin"]["read"], vec)
  if any(abs(a - math.log(b)) > 1e-12 * max(1, abs(math.log(b))) for a, b in zip(out["log"]["read"], vec)) or len(out["log"]["read"]) != len(vec):
    return fail("set then get is not the identity (log)", out["log"]["read"], [math.log(b) for b in vec])
  return None


def correspondence(ctx):
  rng = ctx.rng
  cases, meta, dist, seen = [], [], {}, set()
  nontriv = 0
  def add(term, kind, inp, out, tag, nt):
    nonlocal nontriv
    cases.append(term)
    meta.append((kind, inp, out))
    dist[f"{kind}:{tag}"] = dist.get(f"{kind}:{tag}", 0) + 1
    h = C.canon_hash([kind, inp])
    if h not in seen and nt:
      nontriv += 1
    seen.add(h)
  dis = []
  for _ in range(ctx.n(200, 4000)):
    term, inp, out, tag = case_setget(rng)
    add(term, "setget", inp, out, tag + (":log" if inp["log"] else ":lin") + (":nugget" if inp["auto"] else ""), True)
  for _ in range(ctx.n(200, 4000)):
    term, inp, out, tag = case_box(rng)
    add(term, "box", inp, out, tag, len(inp["components"]) >= 2)
  for _ in range(ctx.n(80, 1500)):
    term, inp, out, tag = case_ls(rng)
    add(term, "ls", inp, out, tag, True)
  for _ in range(ctx.n(400, 4000)):
    inp, scripts, res = case_endpoint(rng)
    full = dict(inp, scripts=scripts)
    if res["error"] is not None and res["error"].startswith("LinAlgError"):
      dist["endpoint:skipped-ill-conditioned"] = dist.get("endpoint:skipped-ill-conditioned", 0) + 1
      continue
    if res["error"] is not None or res["out"] is None:
      dis.append(dict(what=f"C11 endpoint raised on a valid scripted request: {res['error']}", kind="endpoint", input=full, observed=res["error"]))
      continue
    nfit = len(res["fits"])
    fallback = sum(1 for f in res["fits"] if U.flatten_dict(inp["components"], res["out"][f["metric"]])[0] == f["x0"])
    add(U.endpoint_case(inp, res), "endpoint", full, dict(out=res["out"], fits=[{k: f[k] for k in ("metric", "vals", "box", "x0")} for f in res["fits"]]),
        f"fits{nfit}" + (":multitask" if inp["task_options"] else "") + (":fallback" if fallback else "")
        + (":unsorted-index-list" if inp["constraint"] != sorted(inp["constraint"]) or inp["optimized"] != sorted(inp["optimized"]) else "")
        + (":zero-nugget-fitted" if any(inp["hps"][f["metric"]]["tikhonov"] == 0.0 for f in res["fits"] if 0 <= f["metric"] < len(inp["hps"])) else ""),
        nfit >= 1)
  nll = ctx.n(150, 3000)
  for _ in range(nll):
    inp = loglik_numeric(rng)
    r = oracle_loglik(inp)
    dist["loglik-numeric"] = dist.get("loglik-numeric", 0) + 1
    if r:
      dis.append(dict(what="C11 numeric correspondence: " + r["what"], kind="loglik", input=inp, observed=r["observed"]))
  lv = liklive_correspondence(ctx)
  dist.update(lv["distribution"])
  dis += lv["disagreements"]
  nontriv += lv["distinct"]
  nll += lv["evaluations"]
  bad = C.run_cases("C11", HEADER, "case", "check", cases, shard=60)
  for i in bad:
    dis.append(dict(what=f"C11 correspondence case {i} ({meta[i][0]}): implementation output differs from Model.HyperOpt / its specification",
                    kind=meta[i][0], input=meta[i][1], observed=meta[i][2]))
  return dict(evaluations=len(cases) + nll, distinct_nontrivial=nontriv,
              rule="likelihood objects (C4 radial and multitask tensor kernels, dim 1-5, both parameterisations, with/without nugget slot, wrong lengths, "
                   "non-positive entries); search boxes (1-4 parameters of all four types, regular / constant / near-constant / empty / single value lists, "
                   "task and nugget slots, several discrete lower limits); length-scale regrouping (None defaults); endpoint requests (1-3 parameters, 3-7 "
                   "distinct observations, 1-4 metrics in optimised / constraint / stored roles with both index lists in any order, constant and "
                   "near-constant metrics, failures, tasks, supplied nuggets incl. exactly 0.0) with ten scripted SLSQP outcomes per fit (raised / failed / out-of-box / corner / NaN value / ties); non-trivial = at least one "
                   "fit constructed (endpoint), >= 2 parameters (box); distinct by hash of the canonical input; plus numeric likelihood comparisons; plus histories on ONE live "
                   "likelihood object against Model.LogLikLive (dyadic data, noise-free / noisy, with / without nugget slot; vectors that fit, vectors whose kernel matrix is exactly "
                   "alpha*ones and cannot be factored, the last vector re-sent, observations appended before a vector is sent; after every set the read-back and the model the value "
                   "belongs to - identified by re-fitting every vector sent so far on every container size seen so far)",
              samples=[dict(kind=k, input=i, impl_output=o) for k, i, o in meta[:1] + meta[-2:]], distribution=dist, disagreements=dis)


# ------------------------------------------------------------------------------------------ independent oracle for the endpoint


def close(a, b, tol=1e-9):
  return abs(a - b) <= tol * max(abs(a), abs(b)) + 1e-300


def oracle_endpoint(inp, scripts=None):
  """Run the endpoint (real SLSQP when scripts is None) and check the property as stated.  Returns a failure dict or None."""
  numpy.random.seed(inp.get("np_seed", 0))
  res = U.run_endpoint(inp, scripts)
  full = dict(inp, kind="endpoint", scripts=scripts)
  def fail(sig, what, observed=None, expected=None):
    return dict(signature=sig, what=f"hyperparameter endpoint: {what}", input=full, observed=observed if observed is not None else res["out"],
                expected=expected, oracle="plain-Python statement of C11: own metric scaling, own search box, structure / positivity / untouched checks")
  if res["error"] == "request-modified":
    return fail("C11:endpoint:request-modified", "the supplied hyperparameters were modified in place")
  if res["error"] is not None:
    return fail(f"C11:endpoint:raises:{res['error'].split(':')[0]}", f"raised {res['error']}", observed=res["error"], expected="a response")
  out, comps, hps = res["out"], inp["components"], inp["hps"]
  m = len(hps)
  fails = inp["failures"]
  multitask = bool(inp["task_options"])
  if not isinstance(out, list) or len(out) != m:
    return fail("C11:endpoint:wrong-number-of-dictionaries", "number of returned dictionaries differs from the number supplied")
  fitted = list(inp["optimized"]) + list(inp["constraint"])
  expect_fit = []
  for j in range(m):
    col = [row[j] for row in inp["values"]]
    scaled = own_sc = U.own_scaled(col, fails, inp["objectives"][j])
    span = max(scaled) - min(scaled)
    if j not in fitted or span <= 0.5e-10:
      if out[j] != hps[j]:
        return fail("C11:endpoint:untouched-metric-changed", f"metric {j} is stored or constant-valued but its hyperparameters changed", out[j], hps[j])
      continue
    if span < 2e-10:
      continue                      # within rounding of the skip threshold: either behaviour is acceptable
    expect_fit.append(j)
    v, problem = U.flatten_dict(comps, out[j])
    if problem and v is None:
      return fail("C11:endpoint:structure", f"metric {j}: {problem}", out[j])
    if (out[j]["tikhonov"] is None) != (hps[j]["tikhonov"] is None):
      return fail("C11:endpoint:structure", f"metric {j}: nugget returned iff supplied is violated", out[j])
    if (out[j]["task_length"] is None) == multitask:
      return fail("C11:endpoint:structure", f"metric {j}: task length returned iff multitask is violated", out[j])
    if problem:
      return fail("C11:endpoint:not-finite-positive", f"metric {j}: {problem}", out[j])
    box = U.own_box(comps, own_sc, hps[j]["tikhonov"] is not None, multitask)
    supplied = [hps[j]["alpha"]]
    for c, l in zip(comps, hps[j]["length_scales"]):
      supplied += [1.0] * len(c["elements"]) if None in l else list(l)
    supplied += ([hps[j]["task_length"]] if multitask else []) + ([hps[j]["tikhonov"]] if hps[j]["tikhonov"] is not None else [])
    inbox = len(v) == len(box) and all(lo * (1 - 1e-9) <= x <= hi * (1 + 1e-9) for x, (lo, hi) in zip(v, box))
    if not inbox and v != supplied:
      if hps[j]["tikhonov"] is not None and v[:-1] == supplied[:-1] and v[-1] == 1e-10:
        return fail(KNOWN_SIG, f"metric {j}: every optimiser run failed and the returned nugget is the likelihood object's initial 1e-10, "
                               "neither inside the search box nor the supplied nugget", out[j], dict(box=box, supplied=supplied))
      return fail("C11:endpoint:result-outside-box-and-not-supplied", f"metric {j}: returned values are neither in the data-derived box nor the supplied ones",
                  out[j], dict(box=box, supplied=supplied))
  if scripts is not None:            # the dictionary must pack to one of the vectors the scripted runs ended at, or to the start
    for f in res["fits"]:
      v, _ = U.flatten_dict(comps, out[f["metric"]])
      cands = [o["end"] for o in f["outcomes"] if not o["raised"]] + [f["x0"]]
      if v is not None and v not in cands:
        return fail("C11:endpoint:result-not-an-optimiser-vector", f"metric {f['metric']}: the returned dictionary does not pack to any end point of the "
                    "optimiser runs nor to the start vector (a value was moved or lost)", out[f["metric"]], cands[:3])
  # which data each fit was given (introspection of the constructed likelihood objects)
  got = [f["metric"] for f in res["fits"]]
  if sorted(got) != sorted(expect_fit) and not any(0.5e-10 < (max(s) - min(s)) < 2e-10 for s in [U.own_scaled([r[j] for r in inp["values"]], fails, inp["objectives"][j]) for j in fitted]):
    return fail("C11:endpoint:wrong-set-of-fitted-metrics", "the metrics fitted are not exactly the non-constant optimised and constraint metrics",
                got, expect_fit)
  nsucc = sum(1 for f in fails if not f)
  for f in res["fits"]:
    j = f["metric"]
    if j not in fitted:
      return fail("C11:endpoint:wrong-set-of-fitted-metrics", f"a likelihood was built for metric {j}, which is neither optimised nor a constraint", got, expect_fit)
    own = U.own_scaled([r[j] for r in inp["values"]], fails, inp["objectives"][j])
    if len(f["vals"]) != nsucc or len(f["rows"]) != nsucc or any(abs(a - b) > 1e-12 + 1e-9 * abs(b) for a, b in zip(f["vals"], own)):
      return fail("C11:endpoint:fitted-on-wrong-data", f"metric {j} was not fitted on its own scaled values at the successful observations",
                  dict(vals=f["vals"], rows=len(f["rows"])), dict(vals=own, rows=nsucc))
    box = U.own_box(comps, own, hps[j]["tikhonov"] is not None, multitask)
    if len(box) != len(f["box"]) or any(not (close(a[0], b[0]) and close(a[1], b[1])) for a, b in zip(f["box"], box)):
      return fail("C11:endpoint:search-box", f"metric {j}: search box differs from the bounds derived from sample variance and parameter widths", f["box"], box)
    if any(not (0 < lo < hi and math.isfinite(hi)) for lo, hi in f["box"]):
      return fail("C11:endpoint:search-box", f"metric {j}: a search-box entry is not finite positive with lo < hi", f["box"], box)
  return None


def oracle_ls(inp):
  """Length-scale regrouping against an own walk over the components (positions preserved, one entry per category)."""
  from libsigopt.compute.domain import CategoricalDomain
  comps, v, ls = inp["components"], inp["v"], inp["ls"]
  dom = CategoricalDomain(copy.deepcopy(comps))
  got = [[float(x) for x in l] for l in dom.map_one_hot_length_scales_to_categorical(list(v))]
  exp, k = [], 0
  for c in comps:
    w = len(c["elements"]) if c["var_type"] == "categorical" else 1
    exp.append(list(v[k:k + w]))
    k += w
  full = dict(inp, kind="ls")
  if got != exp:
    return dict(signature="C11:regroup:length-scales-moved", what="map_one_hot_length_scales_to_categorical does not keep every length scale at its parameter / category",
                input=full, observed=got, expected=exp, oracle="own walk over the components")
  oh = [float(x) for x in dom.map_categorical_length_scales_to_one_hot(copy.deepcopy(ls))]
  exp2 = []
  for c, l in zip(comps, ls):
    exp2 += [1.0] * len(c["elements"]) if None in l else list(l)
  if oh != exp2:
    return dict(signature="C11:regroup:one-hot-length-scales", what="map_categorical_length_scales_to_one_hot does not flatten the supplied length scales in order",
                input=full, observed=oh, expected=exp2, oracle="own walk over the components")
  return None


def known_finding_case():
  """The deterministic witness of the registered finding: supplied nugget, every scripted SLSQP run fails."""
  inp = dict(components=[{"var_type": "double", "elements": [0.0, 1.0]}], points=[[0.0], [0.5], [1.0]], task_options=[], task_costs=None,
             values=[[0.0], [1.0], [3.0]], value_vars=[[0.0], [0.0], [0.0]], failures=[False, False, False], objectives=["maximize"],
             optimized=[0], constraint=[], hps=[{"alpha": 1.0, "length_scales": [[1.0]], "task_length": None, "tikhonov": 0.01}],
             mean_type="constant", np_seed=1)
  return inp, [[dict(raised=False, success=False, end=("start",), fun=None) for _ in range(10)]]


def _search_shard(args):
  seed, count, tier = args
  rng = random.Random(seed)
  fails, n = [], 0
  for _ in range(count):
    inp = gen_request(rng, exact=rng.random() < 0.3, real=True)
    n += 1
    r = oracle_endpoint(inp)
    if r:
      fails.append(r)
      if len(fails) >= 2:
        break
  return n, fails


def search(ctx, hints, broken):
  fails, n = [], 0
  for h in hints:
    if not (isinstance(h, dict) and "kind" in h and "input" in h):
      continue
    n += 1
    if h["kind"] == "endpoint":
      inp = dict(h["input"])
      r = oracle_endpoint(inp, inp.pop("scripts", None))
    elif h["kind"] == "loglik":
      r = oracle_loglik(h["input"])
    elif h["kind"] == "ls":
      r = oracle_ls(h["input"])
    else:
      r = None
    if r:
      fails.append(r)
  inp, scripts = known_finding_case()
  n += 1
  r = oracle_endpoint(inp, scripts)
  if r:
    fails.append(r)
  for _ in range(ctx.n(60, 1000)):
    n += 1
    r = oracle_ls(case_ls(ctx.rng)[1])
    if r:
      fails.append(r)
      break
  budget = ctx.n(320, 2400) * (2 if broken else 1)
  shards = 8
  args = [(ctx.rng.getrandbits(64), budget // shards, ctx.tier) for _ in range(shards)]
  with multiprocessing.get_context("fork").Pool(shards) as pool:
    for k, fl in pool.map(_search_shard, args):
      n += k
      fails += fl
    pool.close()
    pool.join()
  for _ in range(ctx.n(300, 6000) * (2 if broken else 1)):
    n += 1
    r = oracle_loglik(loglik_numeric(ctx.rng))
    if r:
      fails.append(r)
      if len(fails) >= 6:
        break
  return dict(evaluations=n, failures=fails[:6],
              oracle="real endpoint runs checked against a plain-Python statement of C11; numpy.linalg.slogdet likelihood with own kernel formulas")


def replay(ctx, payload):
  inp = dict(payload["input"])
  kind = inp.get("kind", "endpoint")
  if kind == "loglik":
    return oracle_loglik(inp)
  if kind == "ls":
    return oracle_ls(inp)
  inp.pop("kind", None)
  r = oracle_endpoint(inp, inp.pop("scripts", None))
  if r and r["signature"] == KNOWN_SIG and payload.get("signature") not in (None, KNOWN_SIG):
    return None          # the recorded failure is gone; what remains on this input is the separately registered finding
  return r


LEVEL_TEXT = ("Coq theorems for all inputs: set-then-get identity of the likelihood object's hyperparameters in both parameterisations with and without "
              "the nugget slot, equality of the log-parameterised value at a and the linear one at exp a, the likelihood value as "
              "-scale*(r'K^-1 r + log det K) on definitions regenerated from the source; for the endpoint: the search box is positive with lo < hi for "
              "every well-formed domain, the result dictionary has the supplied structure and loses no value, the multistart returns an in-box end point "
              "or the start vector for every behaviour of SLSQP, every fit uses its own metric's scaled successful values (the raw column named by its "
              "position in the index list, lists in any order: C11_fit_on_own_raw_column), constant and stored metrics are "
              "returned untouched; the models are tied to the code by in-Coq differential runs through the real endpoint with scripted SLSQP outcomes and "
              "introspected likelihood objects, and by a slogdet-based numeric comparison of the likelihood value")
LEVEL_NOTE = ("Exact arithmetic; exp/log and SLSQP are oracles; the multistart model is C07's, the value scaling C12's, the one-hot rows C09's; "
              "sorted grids and >= 1 success are validity conditions; the nugget slot of the fallback start vector is 1e-10 (known finding); "
              "harness, stub optimiser and case printer trusted; no axioms beyond the standard library (MathComp part: closed)")
TECHNIQUE = "Coq proof (induction over the per-metric loop, multistart invariant, list algebra) + py2v-generated likelihood definitions + in-Coq differential correspondence"
DESIGN_REF = "DESIGN.md section 7, C11"

# --- gap round B (seeded C11_m12): the life of one likelihood object
LEVEL_TEXT += ("; the searcher's likelihood oracle follows ONE live likelihood object through a history (further vectors, vectors whose kernel matrix cannot be factored - LinAlgError "
               "caught -, the same vector sent again, observations appended to the live HistoricalData before a vector is re-sent): after every set that returns normally the "
               "read-back, the value on the observations held NOW, and the existence of the factorisation (a freshly built object does not fail) are stated")
LEVEL_TEXT += ("; Model/LogLikLive.v follows set_hyperparameters statement by statement on a live object (what is assigned when ValueError / HyperparameterInvalidError / LinAlgError leaves it; "
               "the container is held by reference): a set that returns normally has fitted the vector sent on all observations held then, a vector whose kernel matrix cannot be "
               "factored is never accepted however often it is sent, the outcome of a set does not depend on what the object held before (C11_live_*), tied to the running class by an "
               "op-sequence correspondence")
