#!/bin/bash
# MANIFEST.setup_cmd: build the whole Coq development (full .vo) from files on disk; regenerates coq/Gen from /repo first.
set -e
cd "$(dirname "$0")/.."
export PYTHONPATH=/repo:/verif/tools PYTHONHASHSEED=0 PYTHONDONTWRITEBYTECODE=1
mkdir -p coq/Gen coq/Cases evidence replays
/venv/bin/python -u tools/setup.py
