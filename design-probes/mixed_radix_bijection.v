From Coq Require Import List ZArith Lia.
Import ListNotations.
Open Scope Z_scope.

(* map_index_to_discrete_point / map_discrete_point_to_index of generate_distinct_random_points,
   on digit positions (the element lookup discrete_elements[k][digit] is a separate, injective map) *)
Fixpoint to_digits (bases : list Z) (index : Z) : list Z :=
  match bases with
  | [] => []
  | b :: rest => (index mod b) :: to_digits rest ((index - index mod b) / b)
  end.
Fixpoint of_digits (bases digits : list Z) : Z :=
  match bases, digits with
  | b :: rest, dg :: ds => dg + b * of_digits rest ds
  | _, _ => 0
  end.
Fixpoint prodZ (l : list Z) : Z := match l with [] => 1 | x :: r => x * prodZ r end.
Fixpoint digits_ok (bases digits : list Z) : Prop :=
  match bases, digits with
  | [], [] => True
  | b :: rest, dg :: ds => 0 <= dg < b /\ digits_ok rest ds
  | _, _ => False
  end.

Lemma prod_pos bases : Forall (fun b => 0 < b) bases -> 0 < prodZ bases.
Proof. induction 1; cbn; nia. Qed.

Lemma of_to bases : Forall (fun b => 0 < b) bases ->
  forall i, 0 <= i < prodZ bases -> of_digits bases (to_digits bases i) = i /\ digits_ok bases (to_digits bases i).
Proof.
  induction 1 as [|b rest Hb Hrest IH]; intros i Hi; cbn in *.
  - split; [lia|exact I].
  - assert (Hp := prod_pos rest Hrest).
    assert (Hm := Z.mod_pos_bound i b Hb).
    assert (Hq : (i - i mod b) / b = i / b).
    { rewrite (Z.div_mod i b) at 1 by lia. replace (b * (i / b) + i mod b - i mod b) with ((i / b) * b) by ring.
      apply Z.div_mul. lia. }
    rewrite Hq.
    assert (Hr : 0 <= i / b < prodZ rest).
    { split; [apply Z.div_pos; lia|]. apply Z.div_lt_upper_bound; nia. }
    destruct (IH (i / b) Hr) as [E D]. split.
    + rewrite E. rewrite (Z.div_mod i b) at 3 by lia. ring.
    + split; [exact Hm|exact D].
Qed.

Lemma to_of bases : Forall (fun b => 0 < b) bases ->
  forall ds, digits_ok bases ds -> to_digits bases (of_digits bases ds) = ds /\ 0 <= of_digits bases ds < prodZ bases.
Proof.
  induction 1 as [|b rest Hb Hrest IH]; intros ds Hd; destruct ds as [|dg ds]; cbn in *; try contradiction.
  - split; [reflexivity|lia].
  - destruct Hd as [Hdg Hds]. destruct (IH ds Hds) as [E R].
    assert (Hmod : (dg + b * of_digits rest ds) mod b = dg).
    { replace (dg + b * of_digits rest ds) with (dg + of_digits rest ds * b) by ring.
      rewrite Z.mod_add by lia. apply Z.mod_small. exact Hdg. }
    rewrite Hmod. replace (dg + b * of_digits rest ds - dg) with (of_digits rest ds * b) by ring.
    rewrite Z.div_mul by lia. rewrite E. split; [reflexivity|nia].
Qed.
Print Assumptions of_to.
Print Assumptions to_of.
