From Coq Require Import Reals Lra Psatz.
From Coquelicot Require Import Coquelicot.
Open Scope R_scope.

(* as emitted by the translator prototype from covariance.py (C4RadialMatern) *)
Definition C4_eval_radial_kernel (d2 : R) : R := (((1 + (sqrt d2)) + ((1 / 3) * d2)) * (exp (- (sqrt d2)))).
Definition C4_eval_radial_kernel_grad (d2 diff lsq : R) : R := (((((- (1 / 3)) * (1 + (sqrt d2))) * (exp (- (sqrt d2)))) * diff) / lsq).
Definition C4_eval_radial_kernel_hparam_grad (d2 diff lcu : R) : R := (((((1 / 3) * (1 + (sqrt d2))) * (exp (- (sqrt d2)))) * (diff ^ 2)) / lcu).

(* squared scaled distance along the coordinate line through coordinate k: c collects the other coordinates *)
Definition d2of (c z l t : R) : R := c + ((t - z) / l) ^ 2.

Ltac norm_fun f :=
  repeat match goal with
  | |- context [f ?a] =>
      match goal with
      | |- context [f ?b] =>
          lazymatch a with b => fail | _ => idtac end;
          let H := fresh in
          assert (H : a = b) by (try unfold Rdiv; try field; auto);
          rewrite H; clear H
      end
  end.

(* gradient w.r.t. the input coordinate, away from coincidence *)
Theorem C4_grad_input c z l t : l <> 0 -> 0 < d2of c z l t ->
  is_derive (fun t => C4_eval_radial_kernel (d2of c z l t)) t
            (C4_eval_radial_kernel_grad (d2of c z l t) (t - z) (l ^ 2)).
Proof.
  intros Hl Hpos. unfold C4_eval_radial_kernel, C4_eval_radial_kernel_grad, d2of in *.
  auto_derive.
  { repeat split; auto; match goal with |- 0 < ?a => replace a with (c + ((t - z) / l) ^ 2) by (field; auto) end; auto. }
  norm_fun sqrt.
  set (s := sqrt _).
  assert (Hs : s <> 0) by (unfold s; apply Rgt_not_eq, sqrt_lt_R0; exact Hpos).
  assert (Hss : s * s = c + ((t - z) / l) ^ 2) by (unfold s; apply sqrt_sqrt; lra).
  rewrite <- Hss. field. split; auto.
Qed.

(* gradient w.r.t. the length scale l_k (the code passes diff^2 / l^3) *)
Theorem C4_grad_lengthscale c z t l : 0 < l -> 0 < d2of c z l t ->
  is_derive (fun l => C4_eval_radial_kernel (d2of c z l t)) l
            (C4_eval_radial_kernel_hparam_grad (d2of c z l t) (t - z) (l ^ 3)).
Proof.
  intros Hl Hpos. assert (Hl0 : l <> 0) by lra.
  unfold C4_eval_radial_kernel, C4_eval_radial_kernel_hparam_grad, d2of in *.
  auto_derive.
  { repeat split; auto; match goal with |- 0 < ?a => replace a with (c + ((t - z) / l) ^ 2) by (field; auto) end; auto. }
  norm_fun sqrt.
  set (s := sqrt _).
  assert (Hs : s <> 0) by (unfold s; apply Rgt_not_eq, sqrt_lt_R0; exact Hpos).
  assert (Hss : s * s = c + ((t - z) / l) ^ 2) by (unfold s; apply sqrt_sqrt; lra).
  rewrite <- Hss. field. split; auto.
Qed.

(* value at coincident points, and monotonicity in r *)
Theorem C4_diag : C4_eval_radial_kernel 0 = 1.
Proof. unfold C4_eval_radial_kernel. rewrite sqrt_0, Ropp_0, exp_0. lra. Qed.

Definition phi4 (r : R) : R := (1 + r + r ^ 2 / 3) * exp (- r).
Lemma C4_is_phi4 d2 : 0 <= d2 -> C4_eval_radial_kernel d2 = phi4 (sqrt d2).
Proof. intros H. unfold C4_eval_radial_kernel, phi4. replace (sqrt d2 ^ 2) with d2 by (simpl; rewrite Rmult_1_r, sqrt_sqrt; lra). lra. Qed.
Lemma phi4_deriv r : is_derive phi4 r (- (r / 3) * (1 + r) * exp (- r)).
Proof. unfold phi4. auto_derive; [exact I|]. field. Qed.
Theorem phi4_nonincreasing r1 r2 : 0 <= r1 -> r1 <= r2 -> phi4 r2 <= phi4 r1.
Proof.
  intros H0 H12. destruct (Req_dec r1 r2) as [->|Hne]; [lra|].
  assert (Hlt : r1 < r2) by lra.
  destruct (MVT_cor2 phi4 (fun r => - (r / 3) * (1 + r) * exp (- r)) r1 r2 Hlt) as (cc & Heq & Hc).
  { intros x _. apply is_derive_Reals, phi4_deriv. }
  assert (Hneg : - (cc / 3) * (1 + cc) * exp (- cc) <= 0).
  { assert (0 < exp (- cc)) by apply exp_pos. assert (0 <= cc) by lra. nra. }
  nra.
Qed.
Print Assumptions C4_grad_input.
