"""Two-metric extension of the scratch reference EI pipeline (design round). Takes the phase parameters the view drew."""
import math, numpy
from scipy.stats import norm
from ref_ei import midpoint, scale_val, scale_var, one_hot, oh_length_scales, RefGP

def ref_ei_two_metric(params, method, mparams):
    di=params["domain_info"]; comps=di.domain_components; mi=params["metrics_info"]; ps=params["points_sampled"]; model=params["model_info"]
    fails=numpy.array(ps.failures,bool); n=len(ps.points); pend=params["points_being_sampled"]; npend=len(pend.points)
    oi=list(mi.optimized_metrics_index); assert len(oi)==2
    mids=[midpoint(list(ps.values[:,c]),list(fails),mi.objectives[c]) for c in oi]
    lies=[scale_val(m,m["lie"]) for m in mids]
    Y=numpy.array([[lies[a] if fails[r] else scale_val(mids[a],ps.values[r,oi[a]]) for a in range(2)] for r in range(n)])
    NV=numpy.array([[scale_var(mids[a],ps.value_vars[r,oi[a]]) for a in range(2)] for r in range(n)])
    thr=[None if numpy.isnan(mi.user_specified_thresholds[c]) else scale_val(mids[a],float(mi.user_specified_thresholds[c])) for a,c in enumerate(oi)]
    X=[one_hot(comps,p) for p in ps.points]; XP=[one_hot(comps,p) for p in pend.points]
    def gp_of(a, rows, yvals, nvals, lie):
        Xr=[X[r] for r in rows]; y=list(yvals); nv=list(nvals)
        if params["parallelism"]=="constant_liar":
            for x in XP: Xr.append(x); y.append(lie); nv.append(1e-12)
        hp=model.hyperparameters[oi[a]]
        return RefGP(Xr,y,nv,hp["alpha"],oh_length_scales(comps,hp["length_scales"]),None,hp["tikhonov"],const_mean=(model.nonzero_mean_info["mean_type"]=="constant"))
    pe=params["points_to_evaluate"]; Q=[one_hot(comps,p) for p in pe.points]
    allrows=list(range(n))
    if method=="convex_combination":
        w=list(mparams.weights); gps=[gp_of(a,allrows,Y[:,a],NV[:,a],lies[a]) for a in range(2)]
        ysum=[w[0]*u+w[1]*v for u,v in zip(gps[0].y,gps[1].y)]; best=min(ysum)
        noise=[w[0]**2*u+w[1]**2*v for u,v in zip(gps[0].noise,gps[1].noise)]
        def pred(q):
            (m0,v0),(m1,v1)=gps[0].predict(q),gps[1].predict(q); return w[0]*m0+w[1]*m1, w[0]**2*v0+w[1]**2*v1
        aug=numpy.mean(noise)>1e-7
        if aug:
            q75=norm.ppf(0.75); preds=[pred(x) for x in gps[0].X]; j=min(range(len(preds)),key=lambda i: preds[i][0]+q75*math.sqrt(preds[i][1])); best=preds[j][0]; nu=float(numpy.mean(noise))
        out=[]
        for q in Q:
            mu,v=pred(q); s=math.sqrt(v); z=(best-mu)/s; ei=s*max(0.0,z*norm.cdf(z)+norm.pdf(z))
            if aug: ei*=1-math.sqrt(nu/(v+nu))
            out.append(ei)
        return out
    om=mparams.optimizing_metric
    if method=="optimizing_one_metric":
        gp=gp_of(om,allrows,Y[:,om],NV[:,om],lies[om]); best=min(gp.y); aug=numpy.mean(gp.noise)>1e-7
        if aug:
            q75=norm.ppf(0.75); preds=[gp.predict(x) for x in gp.X]; j=min(range(len(preds)),key=lambda i: preds[i][0]+q75*math.sqrt(preds[i][1])); best=preds[j][0]; nu=float(numpy.mean(gp.noise))
        out=[]
        for q in Q:
            mu,v=gp.predict(q); s=math.sqrt(v); z=(best-mu)/s; ei=s*max(0.0,z*norm.cdf(z)+norm.pdf(z))
            if aug: ei*=1-math.sqrt(nu/(v+nu))
            out.append(ei)
        return out
    assert method=="epsilon_constraint"
    cm=mparams.constraint_metric; eps=mparams.epsilon
    def eps_value(vals, thresholds):
        if all(t is None for t in thresholds):
            b=[int(numpy.argmin(vals[:,0])),int(numpy.argmin(vals[:,1]))]; lo=min(vals[b[0],cm],vals[b[1],cm]); hi=max(vals[b[0],cm],vals[b[1],cm]); return (1-eps)*lo+eps*hi
        raise NotImplementedError
    # GP data: epsilon failures computed on successful rows only, WITHOUT user thresholds; real failures are not OR-ed in
    succ=Y[~fails]
    e_gp=eps_value(succ,[None,None]); efail=Y[:,cm]>=e_gp
    ns=int((~efail).sum())
    if ns<5:
        fi=numpy.nonzero(efail)[0]; order=numpy.argsort(Y[fi,om])[:5-ns]; efail=efail.copy(); efail[fi[order]]=False
    rows=[r for r in range(n) if not efail[r]]
    gp=gp_of(om,rows,Y[rows,om],NV[rows,om],lies[om])
    # failure model: logistic on the constraint metric's GP over ALL rows; threshold from all rows with user thresholds
    t_con=eps_value(Y,thr)
    tlist=[None,None]
    if all(t is not None for t in thr): tlist=list(thr)
    tlist[cm]=t_con
    pfs=[]
    for a in range(2):
        if tlist[a] is None: continue
        g=gp_of(a,allrows,Y[:,a],NV[:,a],lies[a]); rng_=max(g.y)-min(g.y); kappa=1.0 if rng_==0 else math.log(9)/(0.1*rng_); pfs.append((g,tlist[a],kappa))
    def psucc(q):
        p=1.0
        for g,t,kap in pfs: mu,_=g.predict(q); p*=1/(1+math.exp(min(kap*(mu-t),40.0)))
        return p
    cand=[yy for x,yy in zip(gp.X,gp.y) if psucc(x)>0.5]; best=min(cand) if cand else min(gp.y)
    out=[]
    for q in Q:
        mu,v=gp.predict(q); s=math.sqrt(v); z=(best-mu)/s; out.append(s*max(0.0,z*norm.cdf(z)+norm.pdf(z))*psucc(q))
    return out
