From Coq Require Import Reals Lra.
From Coquelicot Require Import Coquelicot.
Open Scope R_scope.

Definition pdf (z : R) : R := exp (-(1/2) * z ^ 2) / sqrt (2 * PI).
Definition Phi (z : R) : R := 1/2 + RInt pdf 0 z.

Lemma sqrt2pi_neq : sqrt (2*PI) <> 0.
Proof. apply Rgt_not_eq. apply sqrt_lt_R0. generalize PI_RGT_0; lra. Qed.

Lemma pdf_cont z : continuous pdf z.
Proof.
  apply (ex_derive_continuous pdf z). unfold pdf. auto_derive. exact I.
Qed.

Lemma Phi_deriv z : is_derive Phi z (pdf z).
Proof.
  unfold Phi. evar_last.
  apply @is_derive_plus. apply is_derive_const.
  apply (is_derive_RInt pdf (fun x => RInt pdf 0 x) 0 z).
  - apply filter_forall. intros x. apply (@RInt_correct R_CompleteNormedModule). apply (@ex_RInt_continuous R_CompleteNormedModule). intros t _. apply pdf_cont.
  - apply pdf_cont.
  - unfold plus, zero; simpl. ring.
Qed.

(* squeeze: |f t - f t0| <= C (t-t0)^2  ->  derivative 0 *)
Lemma is_derive_sq_bound (f : R -> R) (t0 C : R) :
  (forall t, Rabs (f t - f t0) <= C * (t - t0) ^ 2) -> is_derive f t0 0.
Proof.
  intros H. apply is_derive_Reals. 
  assert (HC : 0 <= C). { specialize (H (t0 + 1)). replace (t0 + 1 - t0) with 1 in H by ring. 
     generalize (Rabs_pos (f (t0+1) - f t0)). lra. }
  intros eps Heps.
  assert (Hd : 0 < eps / (C + 1)) by (apply Rdiv_lt_0_compat; lra).
  exists (mkposreal _ Hd). intros h Hh Hlt. simpl in Hlt.
  rewrite Rminus_0_r. unfold Rdiv. rewrite Rabs_mult, Rabs_Rinv by exact Hh.
  specialize (H (t0 + h)). replace (t0 + h - t0) with h in H by ring.
  assert (Hp : 0 < Rabs h) by (apply Rabs_pos_lt; exact Hh).
  apply Rmult_lt_reg_r with (Rabs h); [exact Hp|].
  rewrite Rmult_assoc, Rinv_l, Rmult_1_r by lra.
  assert (h ^ 2 = Rabs h * Rabs h). { rewrite <- Rabs_mult. rewrite Rabs_pos_eq; [ring|nra]. }
  assert (Rabs h * (C + 1) < eps). { apply Rlt_div_r in Hlt; lra. }
  rewrite H0 in H. nra.
Qed.
Print Assumptions Phi_deriv.
