From mathcomp Require Import all_ssreflect all_algebra.
Set Implicit Arguments. Unset Strict Implicit. Unset Printing Implicit Defensive.
Import GRing.Theory Num.Theory.
Local Open Scope ring_scope.

(* C17: compute_cholesky_for_gp_sampling, call structure with buffer semantics.
   [overwrite] is the translated overwrite_a flag of the FIRST cholesky call. *)
Section Chol.
Variable F : rcfType.
Variable n : nat.
Definition sqrt_diag (E : 'rV[F]_n) : 'M[F]_n := diag_mx (map_mx Num.sqrt E).

(* oracles for LAPACK with their exact-arithmetic contracts *)
Variable chol_try : 'M[F]_n -> option 'M[F]_n.
Hypothesis chol_ok : forall A L, chol_try A = Some L -> L *m L^T = A.
Variable junk : 'M[F]_n -> 'M[F]_n.                 (* what a failed in-place factorisation leaves in the buffer *)
Variable svdU : 'M[F]_n -> 'M[F]_n.
Variable svdE : 'M[F]_n -> 'rV[F]_n.
Definition sympsd (A : 'M[F]_n) := A^T = A /\ forall v : 'cV[F]_n, 0 <= (v^T *m A *m v) 0 0.
Hypothesis svd_ok : forall A, sympsd A ->
  svdU A *m diag_mx (svdE A) *m (svdU A)^T = A /\ forall i, 0 <= svdE A 0 i.
Variable qr_r : 'M[F]_n -> 'M[F]_n.                 (* R factor of qr(B, mode="r") *)
Hypothesis qr_ok : forall B, (qr_r B)^T *m qr_r B = B^T *m B.

Definition factor (overwrite : bool) (A : 'M[F]_n) : 'M[F]_n :=
  match chol_try A with
  | Some L => L
  | None =>
      let buf := if overwrite then junk A else A in
      let B := svdU buf *m sqrt_diag (svdE buf) in          (* U * sqrt(E)[None, :] *)
      (qr_r B^T)^T                                          (* qr(chol_cov.T, mode="r")[0].T *)
  end.

Lemma sqrt_diag_sq (E : 'rV[F]_n) : (forall i, 0 <= E 0 i) -> sqrt_diag E *m (sqrt_diag E)^T = diag_mx E.
Proof.
  move=> HE; rewrite /sqrt_diag tr_diag_mx mul_diag_mx. 
  apply/matrixP=> i j; rewrite !mxE. 
  case: (i == j) / eqP => [->|_]; rewrite ?mulr1n ?mulr0n ?mulr0 //.
  by rewrite -expr2 sqr_sqrtr.
Qed.

Theorem factor_reproduces A : sympsd A -> factor false A *m (factor false A)^T = A.
Proof.
  move=> HA; rewrite /factor; case E: (chol_try A) => [L|]; first exact: chol_ok E.
  case: (svd_ok HA) => Hsvd Hpos.
  rewrite trmxK qr_ok trmxK trmx_mul -mulmxA [sqrt_diag _ *m _]mulmxA.
  by rewrite [_ *m (sqrt_diag _)^T](sqrt_diag_sq Hpos) mulmxA.
Qed.
End Chol.
Print Assumptions factor_reproduces.
