From Coq Require Import Reals Lra.
From Coquelicot Require Import Coquelicot.
Open Scope R_scope.

Ltac norm_fun f :=
  repeat match goal with
  | |- context [f ?a] =>
      match goal with
      | |- context [f ?b] =>
          lazymatch a with b => fail | _ => idtac end;
          let H := fresh in
          assert (H : a = b) by (try unfold Rdiv; try field; auto);
          rewrite H; clear H
      end
  end.

Definition se (d2 : R) : R := exp (-(1/2) * d2).
Definition d2of (c z l t : R) : R := c + ((t - z) / l) ^ 2.

Lemma se_grad c z l t : l <> 0 ->
  is_derive (fun t => se (d2of c z l t)) t (- exp (-(1/2) * d2of c z l t) * (t - z) / (l^2)).
Proof.
  intros Hl. unfold se, d2of.
  auto_derive; [exact I|]. norm_fun exp. field. exact Hl.
Qed.

Definition c2 (d2 : R) : R := (1 + sqrt d2) * exp (- sqrt d2).
Lemma c2_grad c z l t : l <> 0 -> 0 < d2of c z l t ->
  is_derive (fun t => c2 (d2of c z l t)) t (- exp (- sqrt (d2of c z l t)) * (t - z) / (l^2)).
Proof.
  intros Hl Hpos. unfold c2, d2of in *.
  auto_derive. { Show. repeat split; auto. all: match goal with |- 0 < ?a => replace a with (c + ((t - z) / l) ^ 2) by (field; auto) end; auto. }
  norm_fun sqrt. 
  set (s := sqrt _). 
  assert (Hs : s <> 0). { unfold s. apply Rgt_not_eq. apply sqrt_lt_R0. exact Hpos. }
  field. split; auto.
Qed.
Print Assumptions c2_grad.
