(* Type-checked statement sketches for DESIGN.md Appendix A (design round; definitions of the long
   functions are Section variables here — only the *types* and the *theorem statements* are being fixed). *)
From Coq Require Import List QArith ZArith Bool SetoidList.
Import ListNotations.
Open Scope Q_scope.

(* ------------------------------------------------------------------ Domain (C01, C09, C10) *)
Inductive component :=
| Double (lo hi : Q) | Int (lo hi : Z) | Cat (elems : list Z) | Grid (elems : list Q).
Inductive ctype := CDouble | CInt.
Record constraint := { weights : list Q; rhs : Q; cty : ctype }.      (* weights . x >= rhs *)
Record domain := { comps : list component; cons : list constraint }.
Definition point := list Q.
Definition peq : point -> point -> Prop := Forall2 Qeq.           (* points are compared up to Qeq, never by Leibniz equality *)
Fixpoint peqb (a b : point) : bool :=
  match a, b with [], [] => true | x :: a', y :: b' => Qeq_bool x y && peqb a' b' | _, _ => false end.

Definition in_component (c : component) (x : Q) : Prop :=
  match c with
  | Double lo hi => lo <= x /\ x <= hi
  | Int lo hi => exists z : Z, x == inject_Z z /\ (lo <= z <= hi)%Z
  | Cat es => exists z, In z es /\ x == inject_Z z
  | Grid es => exists e, In e es /\ x == e
  end.
Fixpoint dot (a b : list Q) : Q := match a, b with x :: a', y :: b' => x * y + dot a' b' | _, _ => 0 end.
Definition Admissible (d : domain) (p : point) : Prop :=
  Forall2 in_component (comps d) p /\ Forall (fun c => rhs c <= dot (weights c) p) (cons d).

Section Statements.
(* executable functions of Model/Domain.v, Model/Decode.v, Model/Distinct.v (bodies elided here) *)
Variable wf_domain : domain -> bool.                         (* mirrors _verify_domain_components *)
Variable admissibleb : domain -> point -> bool.
Variable one_hot_box : domain -> list (Q * Q).               (* relaxed box, form_one_hot_domain *)
Variable encode : domain -> point -> list Q.                 (* map_categorical_point_to_one_hot *)
Variable decode_det : domain -> list Q -> point.             (* the three round_* functions composed *)
Variable decode : domain -> Q (*temperature*) -> list Q (*uniform draws*) -> list Q -> option point.
Variable in_box : list (Q * Q) -> list Q -> Prop.
Variable sat_double_cons : domain -> list Q -> Prop.         (* double-typed constraints on the relaxed point *)
Variable draws_ok : list Q -> Prop.                          (* every draw in [0,1) *)
Variable tiny : domain -> Q.                                 (* k * 1e-300, k = largest category count *)

Definition C09_round_roundtrip : Prop :=
  forall d p, wf_domain d = true -> Admissible d p -> peq (decode_det d (encode d p)) p.
Definition C09_decode_roundtrip : Prop :=
  forall d T us p, wf_domain d = true -> Admissible d p -> draws_ok us -> Forall (fun u => tiny d <= u) us ->
    exists q, decode d T us (encode d p) = Some q /\ peq q p.
Definition C09_decode_admissible : Prop :=
  forall d T us x q, wf_domain d = true -> in_box (one_hot_box d) x -> sat_double_cons d x -> draws_ok us ->
    decode d T us x = Some q -> Admissible d q.
Definition C01_admissibleb_spec : Prop := forall d p, admissibleb d p = true <-> Admissible d p.

(* Distinct sampling *)
Variable configs : domain -> list point.                     (* enumeration of a finite unconstrained domain *)
Variable total : domain -> Z.
Variable distinct_points :                                   (* generate_distinct_random_points *)
  domain -> Z (*k*) -> list point (*history*) -> Q (*duplicate_prob*) -> list Z (*oracle: choice w/o replacement*) -> list point.
Variable choice_ok : Z -> list Z -> Prop.                    (* distinct, in range *)
Definition unobserved (d : domain) (h : list point) : list point :=
  filter (fun c => negb (existsb (peqb c) h)) (configs d).
Definition C10_distinct_spec : Prop :=
  forall d k h dp orc, wf_domain d = true -> cons d = [] -> (total d < 100000)%Z -> (0 <= k)%Z ->
    dp * inject_Z (total d) < inject_Z (k + Z.of_nat (length h)) ->       (* enumerative branch, see §7 C10 *)
    choice_ok (total d) orc ->
    let r := distinct_points d k h dp orc in
    Z.of_nat (length r) = Z.min k (Z.of_nat (length (unobserved d h))) /\
    NoDupA peq r /\ Forall (Admissible d) r /\ Forall (fun p => ~ InA peq p h) r.
End Statements.

(* ------------------------------------------------------------------ Optimiser bookkeeping (C07) *)
Section Optim.
Variable pt : Type.
Variable af : pt -> Q.                                       (* deterministic acquisition function *)
Variable in_dom : pt -> Prop.
Variable restrict : list Q -> pt -> pt.                      (* draws -> point -> restricted point *)
Hypothesis restrict_in_dom : forall us p, in_dom (restrict us p).   (* discharged by C08's theorem *)
Record ostate := { best : option (pt * Q); trace : list (list pt) }.
Variable de_run : nat (*maxiter*) -> list pt (*starts*) -> list (list Q) (*draw streams*) -> ostate.
Definition evaluated (s : ostate) : list pt := concat (trace s).
Definition C07_evaluated_in_domain : Prop :=
  forall it starts us, Forall in_dom (evaluated (de_run it starts us)).
Definition C07_best_is_max_evaluated : Prop :=
  forall it starts us, starts <> [] ->
    exists b v, best (de_run it starts us) = Some (b, v) /\ v == af b /\ In b (evaluated (de_run it starts us)) /\
                Forall (fun p => af p <= v) (evaluated (de_run it starts us)).
End Optim.
