From Coq Require Import Reals.
From Interval Require Import Tactic.
Open Scope R_scope.
Definition c4 (d2 : R) : R := (1 + sqrt d2 + 1/3 * d2) * exp (- sqrt d2).
Goal Rabs (c4 (1234567/1000000) - 8304334440016352/10000000000000000) <= 1/100000000000000.
Proof. unfold c4. interval with (i_prec 80). Qed.
Goal Rabs (c4 (1234567/1000000) - 8304334440026352/10000000000000000) <= 1/100000000000000.
Proof. unfold c4. Fail interval with (i_prec 80). Abort.
