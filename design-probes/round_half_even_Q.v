From Coq Require Import QArith Qround Qabs ZArith Lia Lra Psatz.
Open Scope Q_scope.

Definition round_half_even (x : Q) : Z :=
  let f := Qfloor x in
  let r := x - inject_Z f in
  match Qcompare r (1#2) with
  | Lt => f
  | Gt => (f + 1)%Z
  | Eq => if Z.even f then f else (f + 1)%Z
  end.

Lemma floor_bounds x : inject_Z (Qfloor x) <= x /\ x < inject_Z (Qfloor x + 1).
Proof. split; [apply Qfloor_le | apply Qlt_floor]. Qed.

Lemma round_near x : Qabs (x - inject_Z (round_half_even x)) <= 1#2.
Proof.
  unfold round_half_even. destruct (floor_bounds x) as [H1 H2].
  rewrite inject_Z_plus in H2. change (inject_Z 1) with 1 in H2.
  destruct (Qcompare (x - inject_Z (Qfloor x)) (1#2)) eqn:Hc.
  - apply Qeq_alt in Hc. destruct (Z.even (Qfloor x)).
    + apply Qabs_Qle_condition; split; lra.
    + rewrite inject_Z_plus. change (inject_Z 1) with 1. apply Qabs_Qle_condition; split; lra.
  - apply Qlt_alt in Hc. apply Qabs_Qle_condition; split; lra.
  - apply Qgt_alt in Hc. rewrite inject_Z_plus. change (inject_Z 1) with 1. apply Qabs_Qle_condition; split; lra.
Qed.

Lemma round_in_range x (lo hi : Z) :
  inject_Z lo <= x -> x <= inject_Z hi -> (lo <= round_half_even x <= hi)%Z.
Proof.
  intros Hlo Hhi. destruct (floor_bounds x) as [H1 H2].
  assert (Hf1 : (lo <= Qfloor x)%Z). { pose proof (Qfloor_resp_le _ _ Hlo) as H. rewrite Qfloor_Z in H. exact H. }
  assert (Hf2 : (Qfloor x <= hi)%Z). { pose proof (Qfloor_resp_le _ _ Hhi) as H. rewrite Qfloor_Z in H. exact H. }
  unfold round_half_even.
  destruct (Z.eq_dec (Qfloor x) hi) as [He|Hne].
  - (* floor = hi, so x = hi and the fractional part is 0 *)
    assert (Hx : x - inject_Z (Qfloor x) == 0). { rewrite He in H1 |- *. lra. }
    assert (Hc : Qcompare (x - inject_Z (Qfloor x)) (1#2) = Lt). { apply (proj1 (Qlt_alt _ _)). lra. }
    rewrite Hc. lia.
  - destruct (Qcompare (x - inject_Z (Qfloor x)) (1#2)); try destruct (Z.even (Qfloor x)); lia.
Qed.
Print Assumptions round_in_range.
