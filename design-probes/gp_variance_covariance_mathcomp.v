From mathcomp Require Import all_ssreflect all_algebra.
Set Implicit Arguments. Unset Strict Implicit. Unset Printing Implicit Defensive.
Import GRing.Theory Num.Theory.
Local Open Scope ring_scope.

Section MxAux.
Variable F : realFieldType.
Definition cho_solve n q (A : 'M[F]_n) (b : 'M[F]_(n,q)) := invmx A *m b.
Definition colsumsq r c (V : 'M[F]_(r,c)) : 'M[F]_(c,1) := \matrix_(j, _) \sum_i (V i j) ^+ 2.
Definition rowdot r c (A B : 'M[F]_(r,c)) : 'M[F]_(r,1) := \matrix_(i, _) \sum_j A i j * B i j.
Definition diagcol r (A : 'M[F]_r) : 'M[F]_(r,1) := \matrix_(i, _) A i i.
Lemma colsumsq_diag r c (V : 'M[F]_(r,c)) : colsumsq V = diagcol (V^T *m V).
Proof. by apply/matrixP=> j k; rewrite !mxE; apply: eq_bigr => i _; rewrite !mxE expr2. Qed.
Lemma rowdot_diag r c (A B : 'M[F]_(r,c)) : rowdot A B = diagcol (A *m B^T).
Proof. by apply/matrixP=> i k; rewrite !mxE; apply: eq_bigr => j _; rewrite !mxE. Qed.
End MxAux.

Section GenGP.
Variable F : realFieldType.
Variables n m : nat.
(* contract on LAPACK's Cholesky: chol K is an invertible factor of K *)
Variable chol : 'M[F]_n -> 'M[F]_n.
Variable K : 'M[F]_n.
Hypothesis cholK : chol K *m (chol K)^T = K.
Hypothesis cholu : chol K \in unitmx.
Definition tri_solve q (b : 'M[F]_(n,q)) := invmx (chol K) *m b.
Variables (K_eval : 'M[F]_(m,n)) (kxx : 'M[F]_(m,1)) (Kss : 'M[F]_m).
(* generated: _compute_variance_of_points, triangular-solve branch *)
Definition V := tri_solve (K_eval^T).
Definition scc_tri := colsumsq V.
(* generated: cardinal-function branch, with card from _compute_core_posterior_components *)
Definition card := (cho_solve K (K_eval^T))^T.
Definition scc_card := rowdot K_eval card.
(* generated: compute_covariance_of_points *)
Definition cov := Kss - V^T *m V.

Lemma Ku : K \in unitmx. Proof. by rewrite -cholK unitmx_mul unitmx_tr cholu. Qed.
Lemma invK : invmx K = invmx ((chol K)^T) *m invmx (chol K).
Proof.
  have LTu : (chol K)^T \in unitmx by rewrite unitmx_tr.
  rewrite -[RHS]mul1mx -(mulVmx Ku) -!mulmxA -[X in invmx K *m (X *m _)]cholK.
  by rewrite -!mulmxA [(chol K)^T *m _]mulmxA mulmxV // mul1mx mulmxV // mulmx1.
Qed.
Lemma VtV : V^T *m V = K_eval *m invmx K *m K_eval^T.
Proof. by rewrite /V /tri_solve trmx_mul trmxK invK trmx_inv !mulmxA. Qed.

Theorem gp_var_branches_agree : scc_tri = scc_card.
Proof.
  rewrite /scc_tri /scc_card colsumsq_diag rowdot_diag VtV /card trmxK /cho_solve mulmxA. done.
Qed.
Theorem gp_var_closed_form : scc_tri = diagcol (K_eval *m invmx K *m K_eval^T).
Proof. by rewrite /scc_tri colsumsq_diag VtV. Qed.
Theorem gp_cov_closed_form : cov = Kss - K_eval *m invmx K *m K_eval^T.
Proof. by rewrite /cov VtV. Qed.
Theorem gp_cov_symmetric : Kss^T = Kss -> K^T = K -> cov^T = cov.
Proof.
  move=> Hs HK; rewrite gp_cov_closed_form linearB /= Hs !trmx_mul trmxK trmx_inv HK mulmxA. done.
Qed.
End GenGP.
Print Assumptions gp_var_branches_agree.
Print Assumptions gp_cov_symmetric.
