"""Scratch exploration of endpoints on the unchanged tree (design round; not framework code)."""
import sys, copy, traceback, time, json
import numpy
from libsigopt.aux.adapter_info_containers import DomainInfo, GPModelInfo, MetricsInfo, PointsContainer
from libsigopt.compute.domain import CategoricalDomain

def rand_domain(rng, allow_constraints=True, allow_priors=True, discrete_only=False):
    comps=[]; dim=int(rng.integers(1,6))
    for _ in range(dim):
        t = rng.choice(["double","int","categorical","quantized"], p=[0.0,0.4,0.3,0.3] if discrete_only else [0.4,0.25,0.2,0.15])
        if t=="double":
            lo=float(rng.choice([-3.5,0.0,1e-3,-100.0,2.0])); w=float(rng.choice([0.5,1.0,7.25,1000.0]))
            comps.append({"var_type":"double","elements":[lo,lo+w]})
        elif t=="int":
            lo=int(rng.integers(-6,4)); comps.append({"var_type":"int","elements":[lo,lo+int(rng.integers(1,7))]})
        elif t=="categorical":
            k=int(rng.integers(2,5)); comps.append({"var_type":"categorical","elements":sorted(int(x) for x in rng.choice(12,k,replace=False))})
        else:
            k=int(rng.integers(2,5)); comps.append({"var_type":"quantized","elements":sorted(float(x) for x in rng.choice([-7.5,-2.0,-0.25,0.0,0.125,1.0,3.5,10.0,40.0],k,replace=False))})
    cons=[]
    if allow_constraints:
        dbl=[i for i,c in enumerate(comps) if c["var_type"]=="double"]; ints=[i for i,c in enumerate(comps) if c["var_type"]=="int"]
        if len(dbl)>=2 and rng.random()<0.6:
            w=[0.0]*dim; i,j=rng.choice(dbl,2,replace=False); s1,s2=float(rng.choice([-1,1,0.5,2])),float(rng.choice([-1,1,0.5]))
            w[i]=s1; w[j]=s2
            mid=sum(w[k]*(comps[k]["elements"][0]+comps[k]["elements"][1])/2 for k in (i,j))
            span=sum(abs(w[k])*(comps[k]["elements"][1]-comps[k]["elements"][0])/2 for k in (i,j))
            cons.append({"weights":w,"rhs":mid-0.5*span,"var_type":"double"})
        if len(ints)>=2 and rng.random()<0.6:
            w=[0]*dim; i,j=rng.choice(ints,2,replace=False); w[i]=int(rng.choice([-1,1])); w[j]=int(rng.choice([-1,1,2]))
            mid=sum(w[k]*(comps[k]["elements"][0]+comps[k]["elements"][1])/2 for k in (i,j))
            cons.append({"weights":w,"rhs":float(numpy.floor(mid))-1,"var_type":"int"})
    priors=None
    if allow_priors and not cons and rng.random()<0.4:
        priors=[]
        for c in comps:
            if c["var_type"]=="double" and rng.random()<0.7:
                lo,hi=c["elements"]
                if rng.random()<0.5: priors.append({"name":"normal","params":{"mean":float(lo+(hi-lo)*rng.random()),"scale":float((hi-lo)*rng.choice([0.05,0.5,3.0]))}})
                else: priors.append({"name":"beta","params":{"shape_a":float(rng.choice([0.5,1,2,5])),"shape_b":float(rng.choice([0.5,1,3]))}})
            else: priors.append({"name":None,"params":None})
    return comps, cons, priors

def member(comps, cons, p, tol=1e-9):
    if len(p)!=len(comps): return "length"
    for x,c in zip(p,comps):
        e=c["elements"]
        if c["var_type"]=="double":
            if not (e[0]-tol<=x<=e[1]+tol): return f"double {x} not in {e}"
        elif c["var_type"]=="int":
            if x!=round(x) or not (e[0]<=x<=e[1]): return f"int {x} not in {e}"
        else:
            if not any(x==v for v in e): return f"{c['var_type']} {x} not in {e}"
    for k in cons:
        s=sum(w*x for w,x in zip(k["weights"],p))
        if s < k["rhs"]-tol*max(1,abs(k["rhs"])): return f"constraint {k['weights']}.x={s} < {k['rhs']}"
    return None

def hyper(rng, comps, ntask, use_tik):
    ls=[]
    for c in comps:
        if c["var_type"]=="categorical": ls.append([float(rng.uniform(0.5,2)) for _ in c["elements"]])
        else:
            e=c["elements"]; ls.append([float(rng.gamma(1,0.3)+0.05)*(max(e)-min(e))])
    return {"alpha":float(rng.gamma(1,0.1)+1e-3),"length_scales":ls,"tikhonov":float(rng.gamma(1,0.01)+1e-6) if use_tik else None,"task_length":0.3 if ntask else None}

def request(rng, kind, comps, cons, priors, n, nopt, ncon, nstored, ntask, npend, num_to_sample, budget, failp, noise, thresholds_opt=False, parallelism="constant_liar", mean_type="constant", use_tik=False, dup_heavy=False):
    dom=CategoricalDomain(comps, cons or None, priors=priors)
    pts=dom.generate_quasi_random_points_in_domain(n)
    if dup_heavy and len(pts)>3:
        pts=pts[rng.integers(0,3,len(pts))]
    n=len(pts)
    nm=nopt+ncon+nstored
    vals=rng.choice([1.0,1e3,1e-3])*rng.normal(size=(n,nm))+rng.choice([0,50.0])
    fails=rng.random(n)<failp
    tasks=numpy.sort(rng.random(ntask)) if ntask else numpy.array([])
    perm=rng.permutation(nm); oi=[int(x) for x in perm[:nopt]]; ci=[int(x) for x in perm[nopt:nopt+ncon]]
    thr=numpy.full(nm,numpy.nan)
    for c in ci: thr[c]=float(numpy.quantile(vals[:,c], rng.choice([0.0,0.3,0.7,1.0]))) + (1 if rng.random()<0.1 else 0)
    if thresholds_opt:
        for o in oi: thr[o]=float(numpy.quantile(vals[:,o],0.3))
    objs=[str(rng.choice(["maximize","minimize"])) for _ in range(nm)]
    mi=MetricsInfo(requires_pareto_frontier_optimization=(nopt==2),observation_budget=budget,user_specified_thresholds=thr,objectives=objs,optimized_metrics_index=oi,constraint_metrics_index=ci)
    ps=PointsContainer(points=pts,values=vals,value_vars=numpy.full_like(vals,noise),failures=fails,task_costs=rng.choice(tasks,size=n) if ntask else None)
    pend=dom.generate_quasi_random_points_in_domain(npend)
    pb=PointsContainer(points=pend,task_costs=rng.choice(tasks,size=len(pend)) if ntask else None)
    params={"domain_info":DomainInfo(constraint_list=cons,domain_components=comps,force_hitandrun_sampling=False,priors=priors),
            "num_to_sample":num_to_sample,"points_sampled":ps,"points_being_sampled":pb,"tag":{"e":1},"metrics_info":mi,"task_options":tasks,
            "parallelism":parallelism,"max_simultaneous_af_points":1000}
    if kind in ("gp","search","ei","hyper"):
        params["model_info"]=GPModelInfo(hyperparameters=[hyper(rng,comps,ntask,use_tik) for _ in range(nm)],max_simultaneous_af_points=777,
            nonzero_mean_info={"mean_type":mean_type,"poly_indices":None},task_selection_strategy="a_priori" if ntask else None)
    return params, dom
