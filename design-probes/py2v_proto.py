"""Scratch feasibility probe for the py2v idea: symbolic evaluation of numpy elementwise code
with index signatures -> scalar Coq-R expression. Not framework code."""
import ast, sys, fractions

class TErr(Exception): pass

class T:  # tensor value: scalar expression string (Coq) + tuple of index names (broadcast axes; None = size-1 axis)
    def __init__(self, expr, idx): self.expr, self.idx = expr, tuple(idx)

def lit(x):
    if isinstance(x, int): return f"({x})" if x < 0 else f"{x}"
    f = fractions.Fraction(str(x))
    return f"({f.numerator}/{f.denominator})" if f.denominator != 1 else lit(f.numerator)

def bcast(a, b):
    # numpy broadcasting on trailing axes; idx entries are names or None (length-1 axis)
    la, lb = list(a.idx), list(b.idx)
    n = max(len(la), len(lb)); la = [None]*(n-len(la)) + la; lb = [None]*(n-len(lb)) + lb
    out = []
    for x, y in zip(la, lb):
        if x is None: out.append(y)
        elif y is None or x == y: out.append(x)
        else: raise TErr(f"broadcast mismatch {a.idx} vs {b.idx}")
    return out

class Ev(ast.NodeVisitor):
    def __init__(self, env, funcs): self.env, self.funcs = dict(env), funcs
    def run(self, fn):
        for st in fn.body:
            if isinstance(st, ast.Expr) and isinstance(st.value, ast.Constant): continue  # docstring
            if isinstance(st, ast.Assign) and len(st.targets) == 1 and isinstance(st.targets[0], ast.Name):
                self.env[st.targets[0].id] = self.visit(st.value)
            elif isinstance(st, ast.Return): return self.visit(st.value)
            else: raise TErr(f"stmt {ast.dump(st)[:60]} line {st.lineno}")
        raise TErr("no return")
    def visit_Name(self, n):
        if n.id not in self.env: raise TErr(f"unknown name {n.id} line {n.lineno}")
        return self.env[n.id]
    def visit_Attribute(self, n):
        key = ast.unparse(n)
        if key in self.env: return self.env[key]
        raise TErr(f"unknown attribute {key} line {n.lineno}")
    def visit_Constant(self, n):
        if isinstance(n.value, (int, float)) and not isinstance(n.value, bool): return T(lit(n.value), ())
        raise TErr(f"constant {n.value!r}")
    def visit_UnaryOp(self, n):
        if isinstance(n.op, ast.USub): v = self.visit(n.operand); return T(f"(- {v.expr})", v.idx)
        raise TErr("unary")
    def visit_BinOp(self, n):
        a, b = self.visit(n.left), self.visit(n.right)
        if isinstance(n.op, ast.Pow):
            if b.idx == () and b.expr.isdigit(): return T(f"({a.expr} ^ {b.expr})", a.idx)
            raise TErr("pow exponent")
        op = {ast.Add: "+", ast.Sub: "-", ast.Mult: "*", ast.Div: "/"}.get(type(n.op))
        if not op: raise TErr("binop")
        return T(f"({a.expr} {op} {b.expr})", bcast(a, b))
    def visit_Subscript(self, n):
        v = self.visit(n.value); s = ast.unparse(n.slice).strip("()")
        pats = {":, :, None": lambda i: list(i) + [None], ":, None": lambda i: list(i) + [None], "None, :": lambda i: [None] + list(i)}
        if s in pats: return T(v.expr, pats[s](v.idx))
        raise TErr(f"subscript [{s}] line {n.lineno}")
    def visit_Call(self, n):
        f = ast.unparse(n.func)
        args = [self.visit(a) for a in n.args]
        if n.keywords: raise TErr(f"keywords in {f}")
        if f in ("numpy.exp", "numpy.sqrt"): return T(f"({f.split('.')[1]} {args[0].expr})", args[0].idx)
        if f in self.funcs:  # inline a whitelisted helper
            fn = self.funcs[f]; sub = Ev({a.arg: v for a, v in zip(fn.args.args, args)}, self.funcs); return sub.run(fn)
        raise TErr(f"call {f} line {n.lineno}")
    def generic_visit(self, n): raise TErr(f"node {type(n).__name__} line {getattr(n,'lineno','?')}")

src = open("/repo/libsigopt/compute/covariance.py").read(); mod = ast.parse(src)
helpers = {f.name: f for f in mod.body if isinstance(f, ast.FunctionDef)}
env_mat = {"distance_matrix_squared": T("d2", ("i","j")), "difference_matrix": T("diff", ("i","j","k")),
           "self._length_scales_squared": T("lsq", ("k",)), "self._length_scales_cubed": T("lcu", ("k",))}
for cls in [c for c in mod.body if isinstance(c, ast.ClassDef)]:
    for m in [m for m in cls.body if isinstance(m, ast.FunctionDef) and m.name.startswith("eval_radial")]:
        try:
            r = Ev(env_mat, helpers).run(m)
            print(f"Definition {cls.name}_{m.name} (d2 diff lsq lcu : R) : R := {r.expr}.  (* idx {r.idx} *)")
        except TErr as e: print("ERR", cls.name, m.name, e)
