From Coq Require Import List Arith Bool Lia.
Import ListNotations.

Section Pareto.
Variable A : Type.
Variable d : A.
Variable dom : A -> A -> bool.          (* dom c v : c strictly dominates v *)
Hypothesis dom_trans : forall a b c, dom a b = true -> dom b c = true -> dom a c = true.

(* the numpy loop: for i, c in enumerate(values): if good[i]: good[good] = keep(c, values[good]) *)
Definition step (vals : list A) (good : list bool) (i : nat) : list bool :=
  if nth i good false
  then map (fun gv => fst gv && negb (dom (nth i vals d) (snd gv))) (combine good vals)
  else good.
Definition filter_loop (vals : list A) (n : nat) : list bool :=
  fold_left (step vals) (seq 0 n) (repeat true (length vals)).

Definition Inv (vals : list A) (S : list nat) (good : list bool) : Prop :=
  length good = length vals /\
  (forall j, j < length vals -> nth j good false = false ->
     exists i, In i S /\ i < length vals /\ dom (nth i vals d) (nth j vals d) = true) /\
  (forall i j, In i S -> j < length vals -> nth j good false = true ->
     dom (nth i vals d) (nth j vals d) = false).

Lemma nth_step_true vals good i j :
  length good = length vals -> nth i good false = true -> j < length vals ->
  nth j (step vals good i) false = nth j good false && negb (dom (nth i vals d) (nth j vals d)).
Proof.
  intros Hl Hi Hj. unfold step. rewrite Hi.
  set (f := fun gv : bool * A => fst gv && negb (dom (nth i vals d) (snd gv))).
  rewrite nth_indep with (d' := f (false, d)).
  2:{ rewrite map_length, combine_length. lia. }
  rewrite (map_nth f). rewrite combine_nth by exact Hl. reflexivity.
Qed.

Lemma step_length vals good i : length good = length vals -> length (step vals good i) = length vals.
Proof.
  intros Hl. unfold step. destruct (nth i good false); [|exact Hl].
  rewrite map_length, combine_length. lia.
Qed.

Lemma step_inv vals S good i :
  i < length vals -> Inv vals S good -> Inv vals (i :: S) (step vals good i).
Proof.
  intros Hi (Hl & H1 & H2). split; [apply step_length; exact Hl|].
  destruct (nth i good false) eqn:Hgi.
  - (* i is still good: it removes what it dominates *)
    split.
    + intros j Hj Hf. rewrite nth_step_true in Hf by assumption.
      apply andb_false_iff in Hf. destruct Hf as [Hf|Hf].
      * destruct (H1 j Hj Hf) as (i0 & Hin & Hlt & Hd). exists i0. split; [right; exact Hin|split; assumption].
      * apply negb_false_iff in Hf. exists i. split; [left; reflexivity|split; assumption].
    + intros i0 j Hin Hj Ht. rewrite nth_step_true in Ht by assumption.
      apply andb_true_iff in Ht. destruct Ht as [Hg Hn]. apply negb_true_iff in Hn.
      destruct Hin as [<-|Hin]; [exact Hn|]. apply H2; assumption.
  - (* i was already removed: skipped *)
    assert (Hs : step vals good i = good) by (unfold step; rewrite Hgi; reflexivity). rewrite Hs.
    split.
    + intros j Hj Hf. destruct (H1 j Hj Hf) as (i0 & Hin & Hlt & Hd). exists i0. split; [right; exact Hin|split; assumption].
    + intros i0 j Hin Hj Ht. destruct Hin as [<-|Hin]; [|apply H2; assumption].
      destruct (H1 i Hi Hgi) as (i0 & Hin0 & Hlt0 & Hd0).
      destruct (dom (nth i vals d) (nth j vals d)) eqn:Hd; [|reflexivity].
      pose proof (dom_trans _ _ _ Hd0 Hd) as Hc. rewrite (H2 i0 j Hin0 Hj Ht) in Hc. discriminate.
Qed.

Lemma loop_inv vals : forall idxs S good,
  (forall i, In i idxs -> i < length vals) -> Inv vals S good ->
  Inv vals (rev idxs ++ S) (fold_left (step vals) idxs good).
Proof.
  induction idxs as [|i idxs IH]; intros S good Hb HI; cbn [fold_left rev app]; [exact HI|].
  rewrite <- app_assoc. cbn [app]. apply IH.
  - intros k Hk. apply Hb. right; exact Hk.
  - apply step_inv; [apply Hb; left; reflexivity|exact HI].
Qed.

Theorem pareto_filter_exact vals j :
  j < length vals ->
  (nth j (filter_loop vals (length vals)) false = true <->
   forall k, k < length vals -> dom (nth k vals d) (nth j vals d) = false).
Proof.
  intros Hj. unfold filter_loop.
  assert (HI0 : Inv vals [] (repeat true (length vals))).
  { split; [apply repeat_length|]. split.
    - intros j0 Hj0 Hf. exfalso. rewrite nth_indep with (d' := true) in Hf by (rewrite repeat_length; exact Hj0).
      rewrite nth_repeat in Hf. discriminate.
    - intros i j0 [] _ _. }
  pose proof (loop_inv vals (seq 0 (length vals)) [] _ (fun i Hi => proj2 (proj1 (in_seq _ _ _) Hi)) HI0) as (Hl & H1 & H2).
  rewrite app_nil_r in *. split.
  - intros Ht k Hk. apply (H2 k j); [|exact Hj|exact Ht]. apply -> in_rev. apply in_seq. lia.
  - intros Hnd. destruct (nth j (fold_left _ _ _) false) eqn:Hg; [reflexivity|].
    destruct (H1 j Hj Hg) as (i & _ & Hlt & Hd). rewrite (Hnd i Hlt) in Hd. discriminate.
Qed.
End Pareto.
Print Assumptions pareto_filter_exact.
