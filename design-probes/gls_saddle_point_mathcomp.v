From mathcomp Require Import all_ssreflect all_algebra.
Set Implicit Arguments. Unset Strict Implicit. Unset Printing Implicit Defensive.
Import GRing.Theory Num.Theory.
Local Open Scope ring_scope.

Section GP.
Variable F : realFieldType.
Variables n m p : nat.
Variables (K : 'M[F]_n) (P : 'M[F]_(n,p)) (y : 'cV[F]_n).
Hypothesis Ku : K \in unitmx.
Definition cho_solve q (A : 'M[F]_n) (b : 'M[F]_(n,q)) := invmx A *m b.
Definition cho_solve' q (A : 'M[F]_p) (b : 'M[F]_(p,q)) := invmx A *m b.
(* generated from fit_nonzero_gp_mean_function *)
Definition K_inv_y := cho_solve K y.
Definition K_inv_P := cho_solve K P.
Definition PT_K_inv_P := P^T *m K_inv_P.
Definition poly_coef := cho_solve' PT_K_inv_P (P^T *m K_inv_y).
Definition nonzero_gp_mean := P *m poly_coef.
Definition demeaned_y := y - nonzero_gp_mean.
Definition K_inv_demeaned_y := K_inv_y - cho_solve K nonzero_gp_mean.
Hypothesis PKPu : PT_K_inv_P \in unitmx.

Theorem saddle1 : K *m K_inv_demeaned_y + P *m poly_coef = y.
Proof.
  rewrite /K_inv_demeaned_y /K_inv_y /cho_solve mulmxBr !mulKVmx //.
  by rewrite /nonzero_gp_mean subrK.
Qed.

Theorem saddle2 : P^T *m K_inv_demeaned_y = 0.
Proof.
  rewrite /K_inv_demeaned_y mulmxBr /nonzero_gp_mean /cho_solve.
  rewrite [invmx K *m (P *m _)]mulmxA [P^T *m (_ *m poly_coef)]mulmxA.
  rewrite [P^T *m (invmx K *m P)](_ : _ = PT_K_inv_P); last by rewrite /PT_K_inv_P /K_inv_P /cho_solve.
  by rewrite /poly_coef /cho_solve' mulKVmx // subrr.
Qed.
End GP.
Print Assumptions saddle2.
