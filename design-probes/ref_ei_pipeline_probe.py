"""Independent reference of the EI endpoint pipeline (scratch, design round). Scalar Python + numpy.linalg only;
no libsigopt imports in the reference part."""
import math, numpy
from scipy.stats import norm

def c4(r): return (1+r+r*r/3)*math.exp(-r)
def se(r): return math.exp(-0.5*r*r)
def midpoint(vals, fails, objective):
    nf=[v for v,f in zip(vals,fails) if not f]
    neg = 1.0 if objective=="minimize" else -1.0
    if not nf: return dict(skip=True,neg=neg,mid=None,scale=None,lie=-0.0123456789)
    lo,hi=min(nf),max(nf); mid=(hi+lo)*0.5
    if (hi-lo)*0.5<1e-8:
        if min(abs(hi),abs(lo))>1: scale=1/max(abs(lo),abs(hi)); mid=lo
        else: scale=1; mid=0
    else: scale=0.2/(hi-lo)
    lie = lo if objective!="minimize" else hi     # worst non-failed value in the user's sense
    return dict(skip=False,neg=neg,mid=mid,scale=scale,lie=lie)
def scale_val(m,v): return m["neg"]*v if m["skip"] else m["neg"]*m["scale"]*(v-m["mid"])
def scale_var(m,v): return max(v,1e-6) if m["skip"] else max(v*m["scale"]**2,1e-10)

def one_hot(comps,p):
    out=[]
    for x,c in zip(p,comps):
        if c["var_type"]=="categorical": out+= [1.0 if x==e else 0.0 for e in c["elements"]]
        else: out.append(float(x))
    return out
def oh_length_scales(comps,ls):
    out=[]
    for l,c in zip(ls,comps): out+= [float(x) for x in l]
    return out

class RefGP:
    def __init__(self, X, y, noise, alpha, ls, task_len, tik, const_mean=True):
        self.X=[list(x) for x in X]; self.alpha=alpha; self.ls=ls; self.task_len=task_len
        n=len(X); K=numpy.array([[self.k(a,b) for b in self.X] for a in self.X])
        K+=numpy.diag([tik]*n if tik is not None else list(noise))
        self.K=K; y=numpy.array(y,float)
        if const_mean:
            P=numpy.ones((n,1)); big=numpy.block([[K,P],[P.T,numpy.zeros((1,1))]]); sol=numpy.linalg.solve(big,numpy.concatenate([y,[0.0]]))
            self.a=sol[:n]; self.b=sol[n]
        else: self.a=numpy.linalg.solve(K,y); self.b=0.0
        self.y=y; self.noise=list(noise)
    def k(self,a,b):
        if self.task_len is None:
            r=math.sqrt(sum(((u-v)/l)**2 for u,v,l in zip(a,b,self.ls))); return self.alpha*c4(r)
        r=math.sqrt(sum(((u-v)/l)**2 for u,v,l in zip(a[:-1],b[:-1],self.ls))); rt=abs(a[-1]-b[-1])/self.task_len
        return self.alpha*c4(r)*se(rt)
    def predict(self,q):
        ks=numpy.array([self.k(q,x) for x in self.X]); m=ks@self.a+self.b
        v=self.k(q,q)-ks@numpy.linalg.solve(self.K,ks); return m,max(v,1e-100)

def ref_ei_single(params):
    """single optimised metric, optional constraint metrics, optional tasks, constant liar only"""
    di=params["domain_info"]; comps=di.domain_components; mi=params["metrics_info"]; ps=params["points_sampled"]; model=params["model_info"]
    tasks=numpy.asarray(params["task_options"]); has_task=tasks.size>0
    fails=list(ps.failures); n=len(ps.points)
    pend=params["points_being_sampled"]; npend=len(pend.points)
    def build(col, hp, obj):
        m=midpoint(list(ps.values[:,col]),fails,obj)
        lie=scale_val(m,m["lie"]) if not m["skip"] else m["neg"]*m["lie"]
        y=[lie if f else scale_val(m,v) for v,f in zip(ps.values[:,col],fails)]
        nv=[scale_var(m,v) for v in ps.value_vars[:,col]]
        X=[one_hot(comps,p)+([float(t)] if has_task else []) for p,t in zip(ps.points, ps.task_costs if has_task else [None]*n)]
        if params["parallelism"]=="constant_liar":
            for j in range(npend):
                X.append(one_hot(comps,pend.points[j])+([float(pend.task_costs[j])] if has_task else [])); y.append(lie); nv.append(1e-12)
        gp=RefGP(X,y,nv,hp["alpha"],oh_length_scales(comps,hp["length_scales"]),hp["task_length"],hp["tikhonov"],const_mean=(model.nonzero_mean_info["mean_type"]=="constant"))
        return gp,m
    oi=mi.optimized_metrics_index[0]
    gp,m=build(oi,model.hyperparameters[oi],mi.objectives[oi])
    pfs=[]
    for ci in mi.constraint_metrics_index:
        g,mc=build(ci,model.hyperparameters[ci],mi.objectives[ci]); thr=scale_val(mc,float(mi.user_specified_thresholds[ci])); pfs.append((g,thr))
    def psucc(q):
        p=1.0
        for g,thr in pfs:
            mu,v=g.predict(q); p*=norm.cdf((thr-mu)/math.sqrt(v))
        return p
    # incumbent
    if pfs:
        cand=[(yy,i) for i,(x,yy) in enumerate(zip(gp.X,gp.y)) if psucc(x)>0.5]
        best=min(cand)[0] if cand else min(gp.y)
        aug=False
    else:
        aug = numpy.mean(gp.noise)>1e-7 if gp is not None else False
        if model.hyperparameters[oi]["tikhonov"] is not None: pass
        if aug:
            q75=norm.ppf(0.75); preds=[gp.predict(x) for x in gp.X]; j=min(range(len(preds)),key=lambda i: preds[i][0]+q75*math.sqrt(preds[i][1])); best=preds[j][0]; nu=float(numpy.mean(gp.noise))
        else: best=min(gp.y)
    out=[]
    pe=params["points_to_evaluate"]
    for j,p in enumerate(pe.points):
        q=one_hot(comps,p)+([float(pe.task_costs[j])] if has_task else [])
        mu,v=gp.predict(q); s=math.sqrt(v); z=(best-mu)/s; ei=s*max(0.0,z*norm.cdf(z)+norm.pdf(z))
        if pfs: ei*=psucc(q)
        elif aug: ei*=1-math.sqrt(nu/(v+nu))
        if has_task: ei/=q[-1]
        out.append(ei)
    return out
