From Coq Require Import List QArith Lia Bool.
Import ListNotations.
Open Scope Q_scope.

(* ---- executable model of GaussianProcessSum's data bookkeeping (values only; noise is analogous) ---- *)
Record gp := { vals : list Q }.                       (* one component GP: its points_sampled_value *)
Record gpsum := { comps : list gp; weights : list Q; cache_vals : option (list Q) }.

Fixpoint qmax (l : list Q) (d : Q) : Q :=
  match l with [] => d | x :: r => let m := qmax r x in if Qle_bool m x then x else m end.
(* worst observed value = numpy.max (constant-liar-min), lies appended to every component *)
Definition gp_append (n_lies : nat) (g : gp) : gp :=
  {| vals := vals g ++ repeat (qmax (vals g) 0) n_lies |}.

Definition zipadd (a b : list Q) := map (fun p => fst p + snd p) (combine a b).
Definition fresh_sum (s : gpsum) : list Q :=
  fold_left (fun acc wg => zipadd acc (map (Qmult (fst wg)) (vals (snd wg))))
            (combine (weights s) (comps s))
            (repeat 0 (length (vals (hd {| vals := [] |} (comps s))))).

Inductive op := ReadValues | Append (n_lies : nat).

(* parameter [reset]: whether append_lie_data clears the memoised sums (False = the code as shipped) *)
Definition step (reset : bool) (s : gpsum) (o : op) : gpsum * option (list Q) :=
  match o with
  | ReadValues =>
      match cache_vals s with
      | Some v => (s, Some v)
      | None => let v := fresh_sum s in
                ({| comps := comps s; weights := weights s; cache_vals := Some v |}, Some v)
      end
  | Append n =>
      ({| comps := map (gp_append n) (comps s); weights := weights s;
          cache_vals := if reset then None else cache_vals s |}, None)
  end.

Definition run (reset : bool) (s : gpsum) (ops : list op) : gpsum :=
  fold_left (fun st o => fst (step reset st o)) ops s.

(* the property: whatever happened before, a read returns the sums over the components' current data *)
Definition reads_fresh (reset : bool) : Prop :=
  forall s0 ops, cache_vals s0 = None ->
    snd (step reset (run reset s0 ops) ReadValues) = Some (fresh_sum (run reset s0 ops)).

(* ---- with the reset: proved for every op sequence ---- *)
Definition Inv (s : gpsum) : Prop := cache_vals s = None \/ cache_vals s = Some (fresh_sum s).

Lemma step_inv s o : Inv s -> Inv (fst (step true s o)).
Proof.
  intros H. destruct o; cbn [step].
  - destruct (cache_vals s) eqn:Hc; cbn [fst]; [exact H|]. right. reflexivity.
  - left. reflexivity.
Qed.
Lemma run_inv ops : forall s, Inv s -> Inv (run true s ops).
Proof. induction ops as [|o ops IH]; intros s H; cbn; [exact H|]. apply IH, step_inv, H. Qed.

Theorem gpsum_fresh_reads : reads_fresh true.
Proof.
  intros s0 ops H0. pose proof (run_inv ops s0 (or_introl H0)) as HI.
  set (s := run true s0 ops) in *. cbn [step].
  destruct HI as [Hn|Hs]; [rewrite Hn|rewrite Hs]; reflexivity.
Qed.

(* ---- the shipped code (no reset): refuted by a three-op witness ---- *)
Definition witness : gpsum :=
  {| comps := [ {| vals := [1; 2] |}; {| vals := [1; 2] |} ]; weights := [1#2; 1#2]; cache_vals := None |}.
Theorem gpsum_fresh_reads_refuted : ~ reads_fresh false.
Proof.
  intros H. specialize (H witness [ReadValues; Append 1] eq_refl).
  vm_compute in H. discriminate H.
Qed.
Print Assumptions gpsum_fresh_reads.
Print Assumptions gpsum_fresh_reads_refuted.
Eval vm_compute in snd (step false (run false witness [ReadValues; Append 1]) ReadValues).
Eval vm_compute in fresh_sum (run false witness [ReadValues; Append 1]).
