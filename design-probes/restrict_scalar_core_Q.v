From Coq Require Import QArith Lia Lra Psatz List.
Open Scope Q_scope.

(* scalar core of restrict_points_using_constraints, per constraint:
   P = a.p (clipped point), V = a.v (viable point), B = rhs of a.x <= B, t = fraction moved toward v *)
Lemma fix_violated P V B t :
  V < B -> P > B -> (B - P) / (V - P) <= t -> t <= 1 -> P + t * (V - P) <= B.
Proof.
  intros HV HP Ht H1.
  assert (Hd : V - P < 0) by lra.
  assert (Hm : t * (V - P) <= B - P).
  { assert (H := Ht). 
    setoid_replace (B - P) with (((B - P) / (V - P)) * (V - P)) by (field; lra).
    nra. }
  lra.
Qed.

Lemma keep_satisfied P V B t :
  P <= B -> V <= B -> 0 <= t -> t <= 1 -> P + t * (V - P) <= B.
Proof. intros. nra. Qed.

Lemma box_kept lo hi p v t :
  lo <= p -> p <= hi -> lo <= v -> v <= hi -> 0 <= t -> t <= 1 ->
  lo <= p + t * (v - p) /\ p + t * (v - p) <= hi.
Proof. intros. split; nra. Qed.
