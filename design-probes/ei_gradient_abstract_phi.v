From Coq Require Import Reals Lra.
From Coquelicot Require Import Coquelicot.
Open Scope R_scope.

Section EI.
Variable Phi : R -> R.
Definition pdf (z : R) : R := exp (-(1/2) * z ^ 2) / sqrt (2 * PI).
Hypothesis HPhi : forall z, is_derive Phi z (pdf z).

Lemma pdf_deriv z : is_derive pdf z (- z * pdf z).
Proof.
  assert (sqrt (2*PI) <> 0). { apply Rgt_not_eq. apply sqrt_lt_R0. generalize PI_RGT_0; lra. }
  unfold pdf. auto_derive; [exact I|].
  replace (- (1 / 2) * (z * (z * 1))) with (- (1 / 2) * z ^ 2) by ring.
  field. auto.
Qed.

(* mu, s : differentiable functions of a coordinate t; b incumbent *)
Variables (mu s : R -> R) (dmu ds : R -> R) (b : R).
Hypothesis Hmu : forall t, is_derive mu t (dmu t).
Hypothesis Hs : forall t, is_derive s t (ds t).
Hypothesis spos : forall t, 0 < s t.

Definition zf t := (b - mu t) / s t.
Definition G z := z * Phi z + pdf z.
Definition EI t := s t * G (zf t).

Lemma G_deriv z : is_derive G z (Phi z).
Proof.
  unfold G.
  evar_last. apply @is_derive_plus. apply @is_derive_mult. apply is_derive_id. apply HPhi.
  intros; apply Rmult_comm. apply pdf_deriv.
  unfold plus, mult, one; simpl. ring.
Qed.

Lemma zf_deriv t : is_derive zf t (- dmu t / s t - zf t * ds t / s t).
Proof.
  unfold zf. evar_last.
  apply (is_derive_div (fun t => b - mu t) s t (- dmu t) (ds t)).
  - evar_last. apply @is_derive_minus. apply is_derive_const. apply Hmu. unfold minus, plus, opp, zero; simpl; ring.
  - apply Hs.
  - apply Rgt_not_eq, spos.
  - unfold minus, plus, opp, scal, mult; simpl. unfold mult; simpl. field. apply Rgt_not_eq, spos.
Qed.

Theorem EI_grad t : is_derive EI t (ds t * pdf (zf t) - dmu t * Phi (zf t)).
Proof.
  unfold EI. evar_last.
  apply @is_derive_mult. apply Hs. apply (is_derive_comp G zf). apply G_deriv. apply zf_deriv.
  intros; apply Rmult_comm.
  unfold plus, mult, scal; simpl. unfold mult; simpl. unfold G. field. apply Rgt_not_eq, spos.
Qed.
End EI.
Print Assumptions EI_grad.
