From mathcomp Require Import all_ssreflect all_algebra.
Set Implicit Arguments. Unset Strict Implicit. Unset Printing Implicit Defensive.
Import GRing.Theory Num.Theory.
Local Open Scope ring_scope.

Section Schur.
Variable F : realFieldType.
Variables n m : nat.
Definition psd k (M : 'M[F]_k) := forall v : 'cV[F]_k, 0 <= (v^T *m M *m v) 0 0.

Variables (A : 'M[F]_n) (B : 'M[F]_(n,m)) (C : 'M[F]_m).
Hypothesis Au : A \in unitmx.
Hypothesis Hpsd : psd (block_mx A B B^T C).

Lemma schur_psd : psd (C - B^T *m invmx A *m B).
Proof.
  move=> v.
  pose u := invmx A *m B *m v.
  have Aueq : A *m u = B *m v by rewrite /u !mulmxA mulmxV // mul1mx.
  have := Hpsd (col_mx (- u) v).
  rewrite tr_col_mx mul_row_block mul_row_col.
  suff -> : ((- u)^T *m A + v^T *m B^T) *m - u + ((- u)^T *m B + v^T *m C) *m v
            = v^T *m (C - B^T *m invmx A *m B) *m v by [].
  rewrite mulmxDl [in RHS]mulmxBr [in RHS]mulmxBl mulmxDl.
  rewrite !linearN /= ?mulNmx ?mulmxN ?opprK -?mulmxA Aueq.
  have -> : invmx A *m (B *m v) = u by rewrite /u !mulmxA.
  set a := u^T *m (B *m v); set b := v^T *m (B^T *m u); set c := v^T *m (C *m v).
  by rewrite addrACA subrr add0r addrC.
Qed.
End Schur.
Print Assumptions schur_psd.
