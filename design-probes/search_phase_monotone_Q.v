From Coq Require Import QArith ZArith Lia Lra Psatz.
Open Scope Q_scope.

Inductive sphase := SInit | SExploit | SResolve.
Definition stage (p : sphase) : Z := match p with SInit => 0 | SExploit => 1 | SResolve => 2 end.

(* identify_search_phase(observation_budget, observation_count, num_open_suggestions, failure_count) *)
Definition adjusted_budget (budget failures opens : Z) : Z := Z.max (budget - failures) (Z.max opens 1).
Definition search_phase (budget count opens failures : Z) : sphase :=
  let fs := inject_Z (count + opens) / inject_Z (adjusted_budget budget failures opens) in
  if Qle_bool fs (2#10) then SInit else if Qle_bool fs (4#10) then SExploit else SResolve.

Lemma adjusted_pos b f o : (1 <= adjusted_budget b f o)%Z.
Proof. unfold adjusted_budget. lia. Qed.

Lemma frac_mono (a a' d : Z) : (1 <= d)%Z -> (a <= a')%Z -> inject_Z a / inject_Z d <= inject_Z a' / inject_Z d.
Proof.
  intros Hd Ha. unfold Qdiv. apply Qmult_le_compat_r.
  - rewrite <- Zle_Qle. exact Ha.
  - apply Qinv_le_0_compat. change 0 with (inject_Z 0). rewrite <- Zle_Qle. lia.
Qed.

Theorem search_phase_monotone b c o f :
  (stage (search_phase b c o f) <= stage (search_phase b (c + 1) o f))%Z.
Proof.
  unfold search_phase.
  set (d := adjusted_budget b f o).
  assert (Hd : (1 <= d)%Z) by apply adjusted_pos.
  assert (Hm := frac_mono (c + o) (c + 1 + o) d Hd ltac:(lia)).
  set (x := inject_Z (c + o) / inject_Z d) in *. set (y := inject_Z (c + 1 + o) / inject_Z d) in *.
  destruct (Qle_bool x (2#10)) eqn:E1, (Qle_bool y (2#10)) eqn:E2,
           (Qle_bool x (4#10)) eqn:E3, (Qle_bool y (4#10)) eqn:E4; cbn; try lia;
  repeat match goal with
  | H : Qle_bool _ _ = true |- _ => apply Qle_bool_iff in H
  | H : Qle_bool _ _ = false |- _ => apply (fun h => proj1 (not_true_iff_false _) h) in H || idtac
  end.
  all: try (exfalso;
    repeat match goal with H : Qle_bool ?a ?b = false |- _ =>
      assert (~ a <= b) by (intro hh; apply Qle_bool_iff in hh; congruence); clear H end; lra).
Qed.
Print Assumptions search_phase_monotone.
