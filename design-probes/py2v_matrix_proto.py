"""Scratch probe: matrix back-end of py2v on gaussian_process.py (design round; not framework code).
Symbolically executes selected GaussianProcess methods with matrix-typed values and emits MathComp text."""
import ast, sys

class TErr(Exception): pass

class M:  # matrix-typed symbolic value
    def __init__(self, expr, rows, cols): self.expr, self.rows, self.cols = expr, rows, cols
    def __repr__(self): return f"{self.expr} : M({self.rows},{self.cols})"
class Chol:  # token returned by cho_factor(A, lower=True): stands for the factorisation of A
    def __init__(self, of): self.of = of
class Tup:
    def __init__(self, items): self.items = items

def par(e): return e if e.isidentifier() else f"({e})"

class Exec:
    def __init__(self, cls, env, flags):
        self.cls, self.env, self.flags, self.defs = cls, dict(env), flags, []
    def method(self, name): 
        for m in self.cls.body:
            if isinstance(m, ast.FunctionDef) and m.name == name: return m
        raise TErr(f"no method {name}")
    def define(self, name, val):
        if isinstance(val, M) and not val.expr.isidentifier():
            self.defs.append((name, val)); val = M(name, val.rows, val.cols)
        self.env[name] = val
    def run(self, name, args=()):
        m = self.method(name)
        params = [a.arg for a in m.args.args][1:]
        saved = {p: self.env.get(p) for p in params}
        for p, a in zip(params, args): self.env[p] = a
        r = self.block(m.body, name)
        for p, v in saved.items():
            if v is None: self.env.pop(p, None)
            else: self.env[p] = v
        return r
    def block(self, body, ctx):
        for st in body:
            if isinstance(st, ast.Expr) and isinstance(st.value, ast.Constant): continue
            if isinstance(st, ast.Assert): continue
            if isinstance(st, ast.Assign) and len(st.targets) == 1:
                t = st.targets[0]; v = self.ev(st.value)
                if isinstance(t, ast.Name): self.define(t.id, v)
                elif isinstance(t, ast.Attribute) and ast.unparse(t.value) == "self": self.define(t.attr, v)
                else: raise TErr(f"assign target {ast.unparse(t)} line {st.lineno}")
            elif isinstance(st, ast.If):
                key = ast.unparse(st.test)
                if key not in self.flags: raise TErr(f"undeclared mode flag `{key}` line {st.lineno}")
                r = self.block(st.body if self.flags[key] else st.orelse, ctx)
                if r is not None: return r
            elif isinstance(st, ast.Return): return self.ev(st.value)
            elif isinstance(st, ast.Raise): raise TErr(f"reached raise line {st.lineno}")
            else: raise TErr(f"stmt {type(st).__name__} line {st.lineno}")
        return None
    def ev(self, n):
        if isinstance(n, ast.Name):
            if n.id in self.env: return self.env[n.id]
            raise TErr(f"unknown name {n.id} line {n.lineno}")
        if isinstance(n, ast.Attribute):
            if ast.unparse(n.value) == "self":
                if n.attr in self.env: return self.env[n.attr]
                raise TErr(f"unknown self.{n.attr} line {n.lineno}")
            if n.attr == "T": v = self.ev(n.value); return M(f"{par(v.expr)}^T", v.cols, v.rows)
            raise TErr(f"attribute {ast.unparse(n)} line {n.lineno}")
        if isinstance(n, ast.BinOp):
            a, b = self.ev(n.left), self.ev(n.right)
            if isinstance(n.op, (ast.Add, ast.Sub)):
                if (a.rows, a.cols) != (b.rows, b.cols): raise TErr(f"shape mismatch {a} {b} line {n.lineno}")
                return M(f"{par(a.expr)} {'+' if isinstance(n.op, ast.Add) else '-'} {par(b.expr)}", a.rows, a.cols)
            raise TErr(f"binop {type(n.op).__name__} line {n.lineno}")
        if isinstance(n, ast.Subscript):  # self.K_chol[0] / [1]
            v = self.ev(n.value)
            if isinstance(v, Chol) and ast.unparse(n.slice) == "0": return ("chol_lower_factor", v)
            if isinstance(v, Chol) and ast.unparse(n.slice) == "1": return ("chol_lower_flag", v)
            raise TErr(f"subscript {ast.unparse(n)} line {n.lineno}")
        if isinstance(n, ast.Call):
            f = ast.unparse(n.func); kw = {k.arg: ast.unparse(k.value) for k in n.keywords}
            if f == "numpy.dot" and not kw:
                a, b = self.ev(n.args[0]), self.ev(n.args[1])
                if a.cols != b.rows: raise TErr(f"dot shape {a} {b} line {n.lineno}")
                return M(f"{par(a.expr)} *m {par(b.expr)}", a.rows, b.cols)
            if f == "cho_factor":
                if kw != {"lower": "True", "overwrite_a": "True"}: raise TErr(f"cho_factor keywords {kw} line {n.lineno}")
                return Chol(self.ev(n.args[0]))
            if f == "cho_solve" and not kw:
                c, b = self.ev(n.args[0]), self.ev(n.args[1])
                if not isinstance(c, Chol): raise TErr("cho_solve of non-factor")
                if c.of.rows != b.rows: raise TErr("cho_solve shape")
                return M(f"cho_solve {par(c.of.expr)} {par(b.expr)}", b.rows, b.cols)
            if f == "solve_triangular":
                L, b = self.ev(n.args[0]), self.ev(n.args[1])
                if not (isinstance(L, tuple) and L[0] == "chol_lower_factor"): raise TErr("solve_triangular arg")
                lowflag = self.ev(ast.parse(kw.get("lower", "None"), mode="eval").body) if "lower" in kw else None
                if not (isinstance(lowflag, tuple) and lowflag[0] == "chol_lower_flag"): raise TErr(f"solve_triangular lower= {kw}")
                if set(kw) - {"lower", "overwrite_b"}: raise TErr(f"solve_triangular keywords {kw}")
                return M(f"tri_solve {par(L[1].of.expr)} {par(b.expr)}", b.rows, b.cols)   # L^-1 b with L L^T = of
            if f == "numpy.copy": return self.ev(n.args[0])
            if f == "numpy.sum" and kw == {"axis": "0"} and isinstance(n.args[0], ast.BinOp) and isinstance(n.args[0].op, ast.Pow) and ast.unparse(n.args[0].right) == "2":
                v = self.ev(n.args[0].left); return M(f"colsumsq {par(v.expr)}", v.cols, "1")
            if f == "numpy.sum" and kw == {"axis": "1"} and isinstance(n.args[0], ast.BinOp) and isinstance(n.args[0].op, ast.Mult):
                a, b = self.ev(n.args[0].left), self.ev(n.args[0].right)
                if (a.rows, a.cols) != (b.rows, b.cols): raise TErr("rowdot shape")
                return M(f"rowdot {par(a.expr)} {par(b.expr)}", a.rows, "1")
            if f == "numpy.fmax" and not kw:
                c = ast.unparse(n.args[0]); v = self.ev(n.args[1])
                return M(f"floor_at {c} {par(v.expr)}", v.rows, v.cols)
            if f.startswith("self.") and f[5:] in ("_compute_mean_of_points", "_compute_variance_of_points"):
                return self.run(f[5:], [self.ev(a) for a in n.args] + [self.ev(k.value) for k in n.keywords])
            if f in self.env and callable(self.env[f]): return self.env[f](*[self.ev(a) for a in n.args], **kw)
            raise TErr(f"call {f} {kw} line {n.lineno}")
        if isinstance(n, ast.Constant) and n.value is None: return None
        raise TErr(f"expr {type(n).__name__} `{ast.unparse(n)}` line {getattr(n,'lineno','?')}")

src = open("/repo/libsigopt/compute/gaussian_process.py").read()
cls = [c for c in ast.parse(src).body if isinstance(c, ast.ClassDef) and c.name == "GaussianProcess"][0]
def emit(title, ex, result=None):
    print(f"(* {title} *)")
    for name, v in ex.defs: print(f"Definition {name} : 'M[F]_({v.rows},{v.cols}) := {v.expr}.")
    if result is not None: print(f"(* returns {result} *)")
    print()
base = {"K": M("K","n","n"), "points_sampled_value": M("y","n","1"),
        "build_polynomial_matrix": lambda idx, pts: M("P","n","p") if pts.expr=="X" else M("Peval","m","p"),
        "polynomial_index_point_check": lambda idx, dim, **k: None, "mean_poly_indices": None, "dim": None,
        "points_sampled": M("X","n","d"), "len": None}
# precompute, non-zero mean
ex = Exec(cls, base, {"self.has_zero_mean": False, "m < n": False})
ex.env["K_chol"] = Chol(M("K","n","n")); ex.define("K_inv_y", M("cho_solve K y","n","1"))
ex.env["len"] = lambda v: None
try:
    ex.run("fit_nonzero_gp_mean_function"); emit("fit_nonzero_gp_mean_function, non-zero mean", ex)
    ex.defs = []
    r = ex.run("_compute_mean_of_points", [M("Xs","m","d"), M("K_eval","m","n")]); emit("_compute_mean_of_points", ex, r)
    ex.env["covariance.covariance"] = None
except TErr as e: print("TErr", e)

# ---- variance (two branches) and covariance
def kxx(*a, **k): return M("kxx","m","1")
for flag, title in ((True, "triangular-solve branch"), (False, "cardinal-function branch")):
    ex2 = Exec(cls, base, {"cardinal_functions_at_points_to_sample is None": flag})
    ex2.env["K_chol"] = Chol(M("K","n","n")); ex2.env["self.covariance.covariance"] = kxx
    ex2.env["MINIMUM_KRIGING_VARIANCE"] = None
    try:
        r = ex2.run("_compute_variance_of_points", [M("Xs","m","d"), M("K_eval","m","n"), M("card","m","n")])
        emit("_compute_variance_of_points, " + title, ex2, r)
    except TErr as e: print("TErr", e)
ex3 = Exec(cls, base, {"self.num_sampled == 0": False})
ex3.env["K_chol"] = Chol(M("K","n","n"))
def bkm(*a, **k):
    if "points_to_sample" in k: return M("K_eval","m","n")
    return M("Kss","m","m")
ex3.env["self.covariance.build_kernel_matrix"] = bkm
try:
    r = ex3.run("compute_covariance_of_points", [M("Xs","m","d")]); emit("compute_covariance_of_points", ex3, r)
except TErr as e: print("TErr", e)
