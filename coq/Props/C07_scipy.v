(* C07, clause "a single constrained SLSQP run started inside the domain ends inside it": what the library contributes is the
   inequality it hands to SciPy (domain.py form_constraint_fun_and_jac / get_constraints_for_scipy, model LV.Model.ScipyCons).
   Only statements, each closed by `exact`, with Print Assumptions beneath.  SLSQP itself is a contract: it returns a point at
   which every inequality function is >= -delta (delta its absolute feasibility error, 0 in exact arithmetic). *)
From Coq Require Import List QArith Qabs Bool.
From LV Require Import Model.Restrict Model.ScipyCons Proofs.ScipyCons.
Import ListNotations.
Open Scope Q_scope.

(* the right-hand side given to SciPy is the user's, moved inwards by MARGIN * |rhs| (never outwards, whatever its sign) *)
Theorem C07_scipy_rhs_is_tightened r : scipy_rhs r == r + safety_margin * Qabs r /\ r <= scipy_rhs r /\ (~ r == 0 -> r < scipy_rhs r).
Proof. exact (conj (scipy_rhs_abs r) (conj (scipy_rhs_tightens r) (scipy_rhs_strict r))). Qed.
Print Assumptions C07_scipy_rhs_is_tightened.

(* a point that satisfies SciPy's inequalities up to delta satisfies every user constraint with slack MARGIN*|rhs| - delta: an
   SLSQP feasibility error not larger than a constraint's margin is absorbed, and with delta = 0 the point is inside *)
Theorem C07_scipy_feasible_is_inside d x delta :
  scipy_feasible_b delta d x = true ->
  Forall (fun c => snd c + (safety_margin * Qabs (snd c) - delta) <= dot (fst c) x) (cstrs d) /\
  Forall (fun c => delta <= safety_margin * Qabs (snd c) -> snd c <= dot (fst c) x) (cstrs d).
Proof. exact (scipy_feasible_inside d x delta). Qed.
Print Assumptions C07_scipy_feasible_is_inside.

(* the Jacobian handed to SciPy is the gradient of the inequality function (which is affine) *)
Theorem C07_scipy_jac_is_gradient w r x h : length x = length h ->
  scipy_fun w r (map2 Qplus x h) - scipy_fun w r x == dot (scipy_jac w x) h.
Proof. exact (scipy_jac_is_gradient w r x h). Qed.
Print Assumptions C07_scipy_jac_is_gradient.

(* non-vacuity: a negative right-hand side (the case a sign slip loosens) and a point on SciPy's boundary *)
Example C07_scipy_example :
  let d := Dom [(0, 4); (0, 4)] [([1; -(1)], -(2))] in
  scipy_feasible_b 0 d [1; 2999999980 # 1000000000] = true /\ scipy_rhs (-(2)) == -(2) + (2 # 100000000).
Proof. vm_compute. split; reflexivity. Qed.
