(* C03, "positive semi-definite Gram matrices", an extra beyond the SquareExponential kernel (Props/C03_se_psd.v): in DIMENSION ONE the
   C0 Matern kernel alpha * exp(-|s - t| / l) (Gen.GenCovariance.C0RadialMatern with dim = 1) has positive semi-definite Gram matrices for
   every n and every point set, and is a Schur multiplier (entrywise product with any PSD matrix stays PSD).  Elementary proof in
   Proofs/C0Psd1d.v: exp(-|s-t|) = exp(-s) min(exp 2s, exp 2t) exp(-t), and min(c_a, c_b) of non-negative numbers is a finite sum of
   non-negative rank-one matrices.  NOT covered: C0 in dimension >= 2, C2 and C4 in any dimension (PSD of their Gram matrices stays a
   hypothesis, decided numerically).  Only statements + exact + Print Assumptions here. *)
From Coq Require Import Reals Arith Lra.
From LV Require Import Lib.RBase Gen.GenCovariance Gen.GenMultitask Proofs.Hadamard Proofs.SEPsd Proofs.C0Psd1d.
Open Scope R_scope.

(* the min matrix of non-negative numbers: PSD, and its entrywise product with any PSD matrix is PSD *)
Theorem C03_min_matrix_psd n (c : nat -> R) (B : nat -> nat -> R) :
  (forall a, (a < n)%nat -> 0 <= c a) ->
  psdR n (fun a b => Rmin (c a) (c b)) /\ (psdR n B -> psdR n (fun a b => Rmin (c a) (c b) * B a b)).
Proof. exact (fun Hc => conj (schur_psd n _ (min_schur n c Hc)) (min_schur n c Hc B)). Qed.
Print Assumptions C03_min_matrix_psd.

(* build_kernel_matrix(points_sampled, noise_variance) of the C0 kernel, one-dimensional points *)
Theorem C03_c0_1d_gram_psd n xs ls lsq lcu alpha noise :
  (forall k, 0 < ls k) -> 0 <= alpha -> (forall j, 0 <= noise j) ->
  psdR n (fun a b => C0RadialMatern.kernel_matrix_sym 1 xs noise ls lsq lcu alpha a b).
Proof. exact (C0_1d_sym_gram_psd n xs ls lsq lcu alpha noise). Qed.
Print Assumptions C03_c0_1d_gram_psd.

Theorem C03_c0_1d_gram_schur_multiplier n xs ls lsq lcu alpha noise (B : nat -> nat -> R) :
  (forall k, 0 < ls k) -> 0 <= alpha -> (forall j, 0 <= noise j) -> psdR n B ->
  psdR n (fun a b => C0RadialMatern.kernel_matrix_sym 1 xs noise ls lsq lcu alpha a b * B a b).
Proof. exact (fun _ Ha Hn => C0_1d_sym_gram_schur n xs noise ls lsq lcu alpha Ha Hn B). Qed.
Print Assumptions C03_c0_1d_gram_schur_multiplier.

(* a multitask kernel whose task factor is the one-dimensional C0 kernel (the library's default task kernel is SquareExponential) *)
Theorem C03_multitask_gram_psd_c0_task n (P : nat -> nat -> R) ts lst lsqt lcut alphat pg tg ph th :
  (forall k, 0 < lst k) -> psdR n P ->
  psdR n (fun a b => GenMultitask._covariance (fun _ => P a b)
                       (fun i => C0RadialMatern._covariance 1 (fun _ => ts a) (fun _ => ts b) lst lsqt lcut alphat i) pg tg ph th 0%nat).
Proof. exact (fun _ => multitask_c0_task_psd n P ts lst lsqt lcut alphat pg tg ph th). Qed.
Print Assumptions C03_multitask_gram_psd_c0_task.

(* non-vacuity: points -1, 2, 1/2 on the line, length scale 2, alpha = 3, noise (0, 1/10, 1/100) *)
Definition ex1_xs (a k : nat) : R := match a with O => -1 | S O => 2 | _ => 1/2 end.
Definition ex1_noise (j : nat) : R := match j with O => 0 | S O => 1/10 | _ => 1/100 end.
Example C03_c0_1d_gram_psd_example :
  psdR 3 (fun a b => C0RadialMatern.kernel_matrix_sym 1 ex1_xs ex1_noise (fun _ => 2) (fun _ => 4) (fun _ => 8) 3 a b) /\
  C0RadialMatern.kernel_matrix_sym 1 ex1_xs ex1_noise (fun _ => 2) (fun _ => 4) (fun _ => 8) 3 0 1 = 3 * exp (- (3 / 2)).
Proof.
  split.
  - apply C03_c0_1d_gram_psd; [intros; lra|lra|intros [|[|j]]; simpl; lra].
  - rewrite C0_1d_sym_abs. simpl. rewrite Rplus_0_r. f_equal. f_equal. f_equal.
    replace (-1 / 2 - 2 / 2) with (- (3 / 2)) by field. rewrite Rabs_Ropp. apply Rabs_right. lra.
Qed.
