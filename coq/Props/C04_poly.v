(* C04, gradient of the GP posterior mean, polynomial part: every entry of python_utils.build_grad_polynomial_tensor is the partial
   derivative of the corresponding entry of build_polynomial_matrix (model LV.Model.Poly; this discharges the hypothesis
   "is_derive (pc c) t (dpc c)" of C04_gp_mean_grad for the polynomial builder the library uses).  Only statements. *)
From Coq Require Import List Reals Arith.
From Coquelicot Require Import Coquelicot.
From LV Require Import Model.Poly Proofs.Poly.
Import ListNotations.
Open Scope R_scope.

(* for every point x, exponent vector e of the same length and coordinate d: d/dt monomial(x with x_d := t) at t = x_d is the
   tensor entry (zero when the exponent of x_d is zero; pow(0, 0) = 1 as in the code) *)
Theorem C04_polynomial_gradient_entry x e d : (d < length x)%nat -> length x = length e ->
  is_derive (fun t => monoR (upd x d t) e) (nth d x 0) (grad_entryR x e d) /\ upd x d (nth d x 0) = x.
Proof. exact (fun H1 H2 => conj (mono_partial_derivative x e d H1 H2) (upd_nth x d H1)). Qed.
Print Assumptions C04_polynomial_gradient_entry.

(* the tensor the code returns is made of exactly these entries, the all-zero shortcut of the constant mean included *)
Theorem C04_polynomial_gradient_tensor dim idx pts : idx <> [] -> List.Forall (fun p => length p = dim) pts ->
  gradtenR dim idx pts = map (fun p => map (fun e => map (grad_entryR p e) (seq 0 dim)) idx) pts.
Proof. exact (gradten_entries dim idx pts). Qed.
Print Assumptions C04_polynomial_gradient_tensor.

Example C04_polynomial_gradient_example :
  grad_entryR [2; 3] [1; 2]%nat 1 = 1 * (2 * 1) * (INR 2 * (3 * 1)) /\ grad_entryR [0; 8] [0; 2]%nat 0 = 0 * (8 * (8 * 1)).
Proof. split; reflexivity. Qed.
