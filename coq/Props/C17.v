(* C17 — posterior sampling uses a factor that reproduces the covariance.
   Statements about Gen.GenChol (regenerated from python_utils.compute_cholesky_for_gp_sampling, including the
   overwrite_a flag of its first LAPACK call) and Gen.GenGP (the sample formula). *)
From mathcomp Require Import all_ssreflect all_algebra.
From LV Require Import Lib.MxAux Gen.GenChol Gen.GenGP Proofs.Chol Proofs.GP.
Set Implicit Arguments. Unset Strict Implicit. Unset Printing Implicit Defensive.
Import GRing.Theory Num.Theory.
Local Open Scope ring_scope.

(* For every symmetric positive semi-definite matrix of any rank, L L^T = covariance, given the exact-arithmetic contracts of
   cholesky / svd / qr; the fallback must read the caller's matrix, not a buffer clobbered by the failed first attempt. *)
Theorem C17_factor_reproduces (F : rcfType) (n : nat) chol_try junk svdU svdE qr_r :
  (forall A L, chol_try A = Some L -> L *m L^T = A) ->
  (forall A : 'M[F]_n, sympsd A -> svdU A *m diag_mx (svdE A) *m (svdU A)^T = A /\ forall i, 0 <= svdE A 0 i) ->
  (forall B : 'M[F]_n, (qr_r B)^T *m qr_r B = B^T *m B) ->
  forall A, sympsd A ->
  Chol.factor chol_try junk svdU svdE qr_r A *m (Chol.factor chol_try junk svdU svdE qr_r A)^T = A.
Proof. move=> H1 H2 H3 A HA. exact: (@factor_reproduces F n chol_try junk svdU svdE qr_r H1 H2 H3 A HA). Qed.
Print Assumptions C17_factor_reproduces.

(* samples = mean + (L Z)^T: the deviations' second moment is L (Z Z^T) L^T, i.e. L L^T = covariance for white Z *)
Theorem C17_sample_second_moment (F : realFieldType) (m s : nat) (Lsamp : 'M[F]_m) (Z : 'M[F]_(m,s)) :
  (GPNoise.sample_dev Lsamp Z)^T *m GPNoise.sample_dev Lsamp Z = Lsamp *m (Z *m Z^T) *m Lsamp^T.
Proof. exact: sample_second_moment. Qed.
Print Assumptions C17_sample_second_moment.
