(* C11 - the LIVE likelihood object: which model a value belongs to after a history of hyperparameter vectors (accepted, rejected, such
   that the kernel matrix cannot be factored, sent twice) and of observations appended to the container it holds.  Statements about
   Model.LogLikLive (set_hyperparameters statement by statement, including what is assigned when an exception leaves it), tied to the
   running class by the op-sequence correspondence (lcase / lcheck).  Only statements, each closed by `exact`.
   chol_ok is LAPACK's outcome on the kernel matrix of (the vector sent, the observations held then): external code, an input. *)
From Coq Require Import List QArith Bool Arith.
From LV Require Import Model.LogLikLive Proofs.LogLikLive.
Import ListNotations.
Open Scope Q_scope.

(* a set that returns normally has fitted THIS vector (kernel hyperparameters and nugget slot) on ALL observations held now: the GP that
   compute_log_likelihood reads was built from exactly these, and what the object reports is what it fitted *)
Theorem C11_live_normal_set_fits o hp ok o' : l_set o hp ok = (o', RNormal) ->
  ok = true /\ length hp = problem_size o /\
  l_cov o' = firstn (S (l_dim o)) hp /\
  l_gp o' = mksnap (firstn (S (l_dim o)) hp) (if l_auto o then Some (last hp 0) else None) (l_n o) /\
  l_n o' = l_n o /\ l_dim o' = l_dim o /\ l_auto o' = l_auto o /\ fitted o'.
Proof. exact (set_normal_fits o hp ok o'). Qed.
Print Assumptions C11_live_normal_set_fits.

(* a vector whose kernel matrix cannot be factored is never accepted - in whatever state the object is, however often it is sent *)
Theorem C11_live_unfactorable_never_accepted o hp : snd (l_set o hp false) <> RNormal.
Proof. exact (set_unfactorable_never_normal o hp). Qed.
Print Assumptions C11_live_unfactorable_never_accepted.

(* what a set does is independent of the hyperparameters and of the fit the object held before: re-sending the vector it already
   reports is a fit like any other (on the observations held NOW) *)
Theorem C11_live_set_is_history_free o1 o2 hp ok : l_dim o1 = l_dim o2 -> l_auto o1 = l_auto o2 -> l_n o1 = l_n o2 ->
  snd (l_set o1 hp ok) = snd (l_set o2 hp ok) /\
  (snd (l_set o1 hp ok) = RNormal -> fst (l_set o1 hp ok) = fst (l_set o2 hp ok)).
Proof. exact (set_outcome_history_free o1 o2 hp ok). Qed.
Print Assumptions C11_live_set_is_history_free.

(* in ANY history: the value read right after a set that returned normally belongs to the vector just sent and to the
   n0 + (everything appended so far) observations - never to an earlier fit *)
Theorem C11_live_value_after_normal_set o ops1 hp ok ops2 :
  nth (length ops1) (snd (l_run o (ops1 ++ LSet hp ok :: LValue :: ops2))) (MSet RLen) = MSet RNormal ->
  nth (S (length ops1)) (snd (l_run o (ops1 ++ LSet hp ok :: LValue :: ops2))) (MSet RLen)
  = MValue (mksnap (firstn (S (l_dim o)) hp) (if l_auto o then Some (last hp 0) else None) (l_n o + appended ops1)).
Proof. exact (history_value_after_normal_set o ops1 hp ok ops2). Qed.
Print Assumptions C11_live_value_after_normal_set.

(* a concrete history (hypotheses satisfiable): fit [2, 1/2] on 3 observations; a vector that cannot be factored is refused twice (the
   object then REPORTS it - the covariance was updated - while its value is still that of [2, 1/2]: no fit, no claim); two observations are
   appended and [2, 1/2] is sent again: the value now belongs to 5 observations *)
Example C11_live_example :
  snd (l_run (l_init 1 false [1; 1] None 3)
             [LSet [2; 1#2] true; LValue; LSet [1; 1024] false; LSet [1; 1024] false; LGet; LValue; LSet [2; 1#2] true; LAppend 2; LSet [2; 1#2] true; LValue])
  = [MSet RNormal; MValue (mksnap [2; 1#2] None 3); MSet RLinAlg; MSet RLinAlg; MGet [1; 1024]; MValue (mksnap [2; 1#2] None 3);
     MSet RNormal; MSet RNormal; MSet RNormal; MValue (mksnap [2; 1#2] None 5)].
Proof. vm_compute. reflexivity. Qed.
