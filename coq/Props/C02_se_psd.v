(* C02 composed with C03 (SquareExponential): the posterior covariance matrix the generated GP computes is positive semi-definite,
   UNCONDITIONALLY apart from the Cholesky contract C02 already carries.

   C02_variance_and_covariance (Props/C02.v, abstract real field) ends with
       psd (block_mx K K_eval^T K_eval Kss) -> psd (GPNoise.cov chol Kker noise K_eval Kss)
   and C03_se_gram_psd (Props/C03_se_psd.v, Coq's R, nat-indexed sums) says every SquareExponential Gram matrix is PSD.  Here the two are
   joined at F := R (Lib/RStruct.v): for the SE kernel the hypothesis "the joint Gram matrix is PSD" is discharged, because the block matrix
   [[Kker + diag noise, K_eval^T], [K_eval, Kss]] IS the generated kernel_matrix_sym of the concatenated point set (sampled points first,
   then the evaluation points) with the noise vector padded by zeros (C02_se_joint_gram_is_generated).

   Which generated definition (Gen.GenCovariance.SquareExponential, regenerated from covariance.py on every run) gives which block —
   as gaussian_process.py calls them; xs a k / xe a k = coordinate k of sampled / evaluation point a (nat-indexed, as generated):
     Kker    n x n   build_kernel_matrix(points_sampled)               kernel_matrix_sym dim xs (zero noise) i j — GenGP's kernel_matrix
                                                                       adds diag(noise) itself (C02_se_kernel_matrix_is_generated: the sum
                                                                       is kernel_matrix_sym with the noise vector)
     K_eval  m x n   build_kernel_matrix(points_sampled, points_to_sample)
                                                                       kernel_matrix_cross dim xs xe i j: ROW i = evaluation point i,
                                                                       COLUMN j = sampled point j
     Kss     m x m   build_kernel_matrix(points_to_sample)             kernel_matrix_sym dim xe (zero noise) i j
   (C02_se_posterior_covariance_psd_cross_blocks: the same with both square blocks built by kernel_matrix_cross on one point set.)
   Hypotheses: 0 <= alpha, noise >= 0 on the sampled points, the Cholesky contract; the guard "all length scales positive" is stated as the
   library enforces it although the proof does not use it (as in C03_se_gram_psd).  Any n, m, dimension, points, length scales.
   Axioms: the Reals axioms, classic, functional extensionality, constructive_indefinite_description (choiceType structure on R, RStruct).
   Only statements + exact + Print Assumptions here (proofs: Proofs/ComposePsd.v). *)
From Coq Require Import Reals.
From mathcomp Require Import all_ssreflect all_fingroup all_algebra.
From LV Require Import Lib.RBase Lib.MxAux Lib.RStruct Gen.GenGP Gen.GenCovariance Proofs.Hadamard Proofs.LogLikFull Proofs.ComposePsd.
Set Implicit Arguments. Unset Strict Implicit. Unset Printing Implicit Defensive.
Import GRing.Theory.
Local Open Scope ring_scope.

(* the bridge: the bigsum / nat-indexed notion of PSD (C03) and the MathComp one at R (C02) are the same notion *)
Theorem C02_psdR_iff_psd n (M : nat -> nat -> R) : psdR n M <-> psd (\matrix_(i, j) M i j : 'M[R]_n).
Proof. exact: psdR_iff_psd. Qed.
Print Assumptions C02_psdR_iff_psd.

Theorem C02_psd_iff_psdR n (A : 'M[R]_n) : psd A <-> psdR n (mxv A).
Proof. exact: psd_mxv. Qed.
Print Assumptions C02_psd_iff_psdR.

(* block matrices = concatenated index ranges *)
Theorem C02_block_mx_is_joint_matrix n m (G : nat -> nat -> R) :
  block_mx (\matrix_(i < n, j < n) G i j) (\matrix_(i < n, j < m) G i (n + j)%N)
           (\matrix_(i < m, j < n) G (n + i)%N j) (\matrix_(i < m, j < m) G (n + i)%N (n + j)%N)
  = (\matrix_(a, b) G a b : 'M[R]_(n + m)).
Proof. exact: block_mx_joint. Qed.
Print Assumptions C02_block_mx_is_joint_matrix.

(* GenGP's kernel_matrix (kernel part + diag noise) is the generated symmetric SE kernel matrix with the noise vector *)
Theorem C02_se_kernel_matrix_is_generated n dim xs ls lsq lcu alpha (noise : 'cV[R]_n) :
  GPNoise.kernel_matrix (\matrix_(i, j) SquareExponential.kernel_matrix_sym dim xs (fun _ => 0%Re) ls lsq lcu alpha i j) noise
  = \matrix_(i, j) SquareExponential.kernel_matrix_sym dim xs (cvv noise) ls lsq lcu alpha i j.
Proof. exact: SE_kernel_matrix_generated. Qed.
Print Assumptions C02_se_kernel_matrix_is_generated.

(* the joint Gram matrix of C02 is the generated kernel matrix of the concatenated point set: joinp n xs xe a = xs a for a < n, xe (a - n) otherwise;
   cvv noise a = noise a for a < n, 0 otherwise *)
Theorem C02_se_joint_gram_is_generated n m dim xs xe ls lsq lcu alpha (noise : 'cV[R]_n) :
  let Kker : 'M[R]_n := \matrix_(i, j) SquareExponential.kernel_matrix_sym dim xs (fun _ => 0%Re) ls lsq lcu alpha i j in
  let K_eval : 'M[R]_(m, n) := \matrix_(i, j) SquareExponential.kernel_matrix_cross dim xs xe ls lsq lcu alpha i j in
  let Kss : 'M[R]_m := \matrix_(i, j) SquareExponential.kernel_matrix_sym dim xe (fun _ => 0%Re) ls lsq lcu alpha i j in
  (forall a, (a < n)%N -> joinp n xs xe a = xs a) /\ (forall i, joinp n xs xe (n + i)%N = xe i) /\
  block_mx (GPNoise.kernel_matrix Kker noise) K_eval^T K_eval Kss
  = (\matrix_(a, b) SquareExponential.kernel_matrix_sym dim (joinp n xs xe) (cvv noise) ls lsq lcu alpha a b : 'M[R]_(n + m)).
Proof.
  move=> Kker K_eval Kss. split; first exact: joinp_l. split; first exact: joinp_r.
  exact: (SE_joint_block noise lsq lcu (@SE_Kker_entry n dim xs ls lsq lcu alpha) (@SE_K_eval_entry n m dim xs xe ls lsq lcu alpha)
                         (@SE_Kss_entry m dim xe ls lsq lcu alpha)).
Qed.
Print Assumptions C02_se_joint_gram_is_generated.

(* THE COMPOSED THEOREM: SquareExponential kernel, per-point noise.  The kernel matrix the GP factors is the generated SE matrix with noise;
   the joint Gram matrix is PSD; the posterior covariance (polynomial-mean and zero-mean instances: the same dataflow) is PSD. *)
Theorem C02_se_posterior_covariance_psd n m dim (chol : 'M[R]_n -> 'M[R]_n) xs xe ls lsq lcu alpha (noise : 'cV[R]_n) :
  (forall k, Rlt 0 (ls k)) -> Rle 0 alpha -> (forall i, Rle 0 (noise i 0)) ->
  let Kker : 'M[R]_n := \matrix_(i, j) SquareExponential.kernel_matrix_sym dim xs (fun _ => 0%Re) ls lsq lcu alpha i j in
  let K_eval : 'M[R]_(m, n) := \matrix_(i, j) SquareExponential.kernel_matrix_cross dim xs xe ls lsq lcu alpha i j in
  let Kss : 'M[R]_m := \matrix_(i, j) SquareExponential.kernel_matrix_sym dim xe (fun _ => 0%Re) ls lsq lcu alpha i j in
  let K := GPNoise.kernel_matrix Kker noise in
  chol K *m (chol K)^T = K -> chol K \in unitmx ->
  K = \matrix_(i, j) SquareExponential.kernel_matrix_sym dim xs (cvv noise) ls lsq lcu alpha i j /\
  psd (block_mx K K_eval^T K_eval Kss) /\
  psd (GPNoise.cov chol Kker noise K_eval Kss) /\
  psd (GPNoiseZeroMean.cov chol Kker noise K_eval Kss).
Proof. move=> _ Ha Hn Kker K_eval Kss K. exact: (@SE_posterior_cov_psd n m dim chol xs xe ls lsq lcu alpha noise Ha Hn). Qed.
Print Assumptions C02_se_posterior_covariance_psd.

(* pointwise posterior variance (compute_variance_of_points): with K_x_x_array = the generated pairwise covariance(points_to_sample, points_to_sample),
   the value the code floors at min_var is the diagonal of the posterior covariance and is NON-NEGATIVE in exact arithmetic - the floor
   MINIMUM_KRIGING_VARIANCE only guards against rounding *)
Theorem C02_se_posterior_variance_nonneg n m dim (chol : 'M[R]_n -> 'M[R]_n) xs xe ls lsq lcu alpha (noise : 'cV[R]_n) (min_var : R) :
  (forall k, Rlt 0 (ls k)) -> Rle 0 alpha -> (forall i, Rle 0 (noise i 0)) ->
  let Kker : 'M[R]_n := \matrix_(i, j) SquareExponential.kernel_matrix_sym dim xs (fun _ => 0%Re) ls lsq lcu alpha i j in
  let K_eval : 'M[R]_(m, n) := \matrix_(i, j) SquareExponential.kernel_matrix_cross dim xs xe ls lsq lcu alpha i j in
  let Kss : 'M[R]_m := \matrix_(i, j) SquareExponential.kernel_matrix_sym dim xe (fun _ => 0%Re) ls lsq lcu alpha i j in
  let kxx : 'cV[R]_m := \col_i SquareExponential.covariance dim xe xe ls lsq lcu alpha i in
  let K := GPNoise.kernel_matrix Kker noise in
  chol K *m (chol K)^T = K -> chol K \in unitmx ->
  let v := kxx - diagcol (K_eval *m invmx K *m K_eval^T) in
  GPNoise.var_tri chol Kker noise K_eval kxx min_var = floor_at min_var v /\
  (forall i, v i 0 = GPNoise.cov chol Kker noise K_eval Kss i i) /\
  (forall i, Rle 0 (v i 0)).
Proof. move=> _ Ha Hn Kker K_eval Kss kxx K. exact: (@SE_posterior_variance n m dim chol xs xe ls lsq lcu alpha noise min_var Ha Hn). Qed.
Print Assumptions C02_se_posterior_variance_nonneg.

(* both square blocks built by the other entry point (points_to_sample = the same point set: the clamped-expansion path) *)
Theorem C02_se_posterior_covariance_psd_cross_blocks n m dim (chol : 'M[R]_n -> 'M[R]_n) xs xe ls lsq lcu alpha (noise : 'cV[R]_n) :
  (forall k, Rlt 0 (ls k)) -> Rle 0 alpha -> (forall i, Rle 0 (noise i 0)) ->
  let Kker : 'M[R]_n := \matrix_(i, j) SquareExponential.kernel_matrix_cross dim xs xs ls lsq lcu alpha i j in
  let K_eval : 'M[R]_(m, n) := \matrix_(i, j) SquareExponential.kernel_matrix_cross dim xs xe ls lsq lcu alpha i j in
  let Kss : 'M[R]_m := \matrix_(i, j) SquareExponential.kernel_matrix_cross dim xe xe ls lsq lcu alpha i j in
  let K := GPNoise.kernel_matrix Kker noise in
  chol K *m (chol K)^T = K -> chol K \in unitmx ->
  psd (GPNoise.cov chol Kker noise K_eval Kss).
Proof. move=> _ Ha Hn Kker K_eval Kss K. exact: (@SE_posterior_cov_psd_cross n m dim chol xs xe ls lsq lcu alpha noise Ha Hn). Qed.
Print Assumptions C02_se_posterior_covariance_psd_cross_blocks.

(* Tikhonov nugget instead of the per-point noise (GPNugget): a corollary, the nugget being the constant noise vector *)
Theorem C02_se_posterior_covariance_psd_nugget n m dim (chol : 'M[R]_n -> 'M[R]_n) xs xe ls lsq lcu alpha (tik : R) :
  (forall k, Rlt 0 (ls k)) -> Rle 0 alpha -> Rle 0 tik ->
  let Kker : 'M[R]_n := \matrix_(i, j) SquareExponential.kernel_matrix_sym dim xs (fun _ => 0%Re) ls lsq lcu alpha i j in
  let K_eval : 'M[R]_(m, n) := \matrix_(i, j) SquareExponential.kernel_matrix_cross dim xs xe ls lsq lcu alpha i j in
  let Kss : 'M[R]_m := \matrix_(i, j) SquareExponential.kernel_matrix_sym dim xe (fun _ => 0%Re) ls lsq lcu alpha i j in
  let K := GPNugget.kernel_matrix Kker tik in
  chol K *m (chol K)^T = K -> chol K \in unitmx ->
  psd (GPNugget.cov chol Kker tik K_eval Kss).
Proof. move=> _ Ha Ht Kker K_eval Kss K. exact: (@SE_posterior_cov_psd_nugget n m dim chol xs xe ls lsq lcu alpha tik Ha Ht). Qed.
Print Assumptions C02_se_posterior_covariance_psd_nugget.

(* non-vacuity: one observation at the origin of the plane with noise 1/10, three evaluation points (1,0), (2,0), (3,0), length scales (1/2, 2),
   alpha = 3; the Cholesky factor of the 1 x 1 kernel matrix is its square root: the contract holds and the 3 x 3 posterior covariance is PSD *)
Definition ex_xs (a k : nat) : R := 0%Re.
Definition ex_xe (a k : nat) : R := match k with O => INR (S a) | _ => 0%Re end.
Definition ex_ls (k : nat) : R := match k with O => (1 / 2)%Re | _ => 2%Re end.
Example C02_se_posterior_covariance_psd_example :
  let Kker : 'M[R]_1 := \matrix_(i, j) SquareExponential.kernel_matrix_sym 2 ex_xs (fun _ => 0%Re) ex_ls ex_ls ex_ls 3%Re i j in
  let K_eval : 'M[R]_(3, 1) := \matrix_(i, j) SquareExponential.kernel_matrix_cross 2 ex_xs ex_xe ex_ls ex_ls ex_ls 3%Re i j in
  let Kss : 'M[R]_3 := \matrix_(i, j) SquareExponential.kernel_matrix_sym 2 ex_xe (fun _ => 0%Re) ex_ls ex_ls ex_ls 3%Re i j in
  let noise : 'cV[R]_1 := const_mx (1 / 10)%Re in
  let K := GPNoise.kernel_matrix Kker noise in
  (chol11 K *m (chol11 K)^T = K /\ chol11 K \in unitmx) /\ psd (GPNoise.cov chol11 Kker noise K_eval Kss).
Proof.
  move=> Kker K_eval Kss noise K.
  have Ha : Rlt 0 3 by apply: (IZR_lt 0 3).
  have Hn : forall i, Rle 0 (noise i 0) by move=> i; rewrite mxE; apply: Rlt_le; apply: Rdiv_lt_0_compat; [exact: Rlt_0_1|apply: (IZR_lt 0 10)].
  exact: (@SE_posterior_cov_psd_instance 3 2 ex_xs ex_xe ex_ls ex_ls ex_ls 3%Re noise Ha Hn).
Qed.
