(* C07 — acquisition optimizers stay in the domain and return the best point they saw.
   Only statements, each closed by `exact`, with Print Assumptions beneath.  Models: LV.Model.Optim, LV.Model.Multistart.
   af is any deterministic acquisition function, possibly undefined at some points (af p = None: the value there is NaN -
   the code's numpy.nanargmax anticipates exactly that); "highest value" ranges over the points that have a value.
   restrict is the k-th call of the domain's restriction (it may draw),
   gen the quasi-random generator, dom the (possibly constrained, possibly partially fixed) domain; the only contract
   used is  forall k b, Forall dom (restrict k b)  and  length (restrict k b) = length b. *)
From Coq Require Import List QArith Bool Arith Qabs.
From LV Require Import Model.Optim Model.Multistart Model.OptimCorr Proofs.Optim Proofs.OptimAdam Proofs.Multistart.
Import ListNotations.
Open Scope Q_scope.

(* Differential evolution, any parameters / starts / draws: every evaluated batch is in the domain; the returned point
   is the first evaluated point of maximal value among those that have one (first_max: af p = Some v, every defined value
   before it is smaller, every defined value after it is not larger) and best_value is af of it - a value, never NaN; it is
   >= the value at every restricted start that has a value; the reported results are the final population, in the domain,
   with re-evaluable values (NaN where af is undefined). *)
Theorem C07_de_optimize af restrict gen dom :
  (forall k b, Forall dom (restrict k b)) -> (forall k b, length (restrict k b) = length b) ->
  forall P maxiter selected ds o,
  de_optimize af restrict gen P maxiter selected ds = Ok o ->
  let s := o_state o in
  Forall (Forall dom) (evals s) /\
  (exists p v, best s = Some (p, v) /\ first_max af (concat (evals s)) p v /\
     (forall q w, In q (restrict 0%nat (starting_points gen (de_n P) selected)) -> af q = Some w -> w <= v)) /\
  o_start o = starting_points gen (de_n P) selected /\ o_vals o = map af (o_end o) /\ Forall dom (o_end o) /\
  exists pre, evals s = pre ++ [o_end o].
Proof. exact (de_optimize_ok af restrict gen dom). Qed.
Print Assumptions C07_de_optimize.

(* The same for Adam, whatever the update vectors are (so for every learning rate, betas, epsilon and gradient). *)
Theorem C07_adam_optimize af restrict gen dom :
  (forall k b, Forall dom (restrict k b)) -> (forall k b, length (restrict k b) = length b) ->
  forall n maxiter selected ups o,
  adam_optimize af restrict gen n maxiter selected ups = Ok o ->
  let s := o_state o in
  Forall (Forall dom) (evals s) /\
  (exists p v, best s = Some (p, v) /\ first_max af (concat (evals s)) p v /\
     (forall q w, In q (restrict 0%nat (starting_points gen n selected)) -> af q = Some w -> w <= v)) /\
  o_start o = starting_points gen n selected /\ o_vals o = map af (o_end o) /\ Forall dom (o_end o) /\
  exists pre, evals s = pre ++ [o_end o].
Proof. exact (fun H1 _ => adam_optimize_ok af restrict gen dom H1). Qed.
Print Assumptions C07_adam_optimize.

(* After any number of generations the next one keeps the population in the domain and replaces a member only by a
   point that HAS a value, which is >= the member's if the member has one (it equals the best value seen so far): a trial
   where af is undefined never enters the population. *)
Theorem C07_de_no_worse_replacement af restrict gen dom :
  (forall k b, Forall dom (restrict k b)) -> (forall k b, length (restrict k b) = length b) ->
  forall P selected ds1 d s1 s pop s' pop',
  let start := do_restrict restrict init (starting_points gen (de_n P) selected) in
  monitor af (fst start) (snd start) = Ok s1 ->
  de_loop af restrict P ds1 (s1, snd start) = Ok (s, pop) ->
  de_step af restrict P (s, pop) d = Ok (s', pop') ->
  Forall dom pop /\ Forall dom pop' /\ length pop = de_n P /\
  exists bv, option_map snd (best s') = Some bv /\
    Forall2 (fun old new => new = old \/
               exists w, af new = Some w /\ w == bv /\ forall u, af old = Some u -> u <= w) pop pop'.
Proof. exact (de_no_worse_replacement af restrict gen dom). Qed.
Print Assumptions C07_de_no_worse_replacement.

(* The bookkeeping step (evaluate_and_monitor) raises exactly when the batch holds no value at all - it is empty or af is
   undefined at every one of its points (numpy.nanargmax: "All-NaN slice") - and then it raises ValueError; a batch with a
   single defined value is monitored, whatever else it contains.  So the Ok hypotheses of the theorems above exclude, besides
   the documented DE preconditions, only runs in which some evaluated batch is undefined throughout. *)
Theorem C07_monitor_raises_only_without_a_value af s pts :
  (forall e, monitor af s pts = Err e -> e = ValueError /\ forall q, In q pts -> af q = None) /\
  (forall q w, pts <> [] -> In q pts -> af q = Some w -> exists s', monitor af s pts = Ok s').
Proof. exact (conj (monitor_err af s pts) (monitor_defined af s pts)). Qed.
Print Assumptions C07_monitor_raises_only_without_a_value.

(* Fixed coordinates are re-imposed after every (box) restriction; the free coordinates are those of the clipped point. *)
Theorem C07_fixed_indices_reimposed lb ub fixed b q k v d :
  In q (restrict_box lb ub fixed b) -> lookup k fixed = Some v -> (k < length q)%nat -> nth k q d = v.
Proof. exact (restrict_box_fixed lb ub fixed b q k v d). Qed.
Print Assumptions C07_fixed_indices_reimposed.

(* PARTIAL (name says so): full clause = "restrict_box lands in box /\ fixed /\ constraints"; proved here: fixed values
   (above) and the scalar clip range; the constrained part is C08's theorem and enters C07 as the contract. *)
Theorem C07_restrict_box_in_range_partial lo hi x : lo <= hi -> lo <= clip lo hi x /\ clip lo hi x <= hi.
Proof. exact (clip_range lo hi x). Qed.
Print Assumptions C07_restrict_box_in_range_partial.

(* Adam: with s the square root of the unbiased second moment, the first step is lr * g / (|g| + eps) ... *)
Theorem C07_adam_first_step b1 b2 lr eps g s :
  ~ b1 == 1 -> 0 <= s -> s * s == a_vhat (adam_coord b1 b2 lr eps 1 0 0 g s) -> ~ b2 == 1 -> 0 < Qabs g + eps ->
  a_upd (adam_coord b1 b2 lr eps 1 0 0 g s) == adam_first lr eps g.
Proof. exact (adam_first_step b1 b2 lr eps g s). Qed.
Print Assumptions C07_adam_first_step.

(* ... which has the sign of the gradient (strictly, unless the gradient is zero), so the first update vector has a
   non-negative inner product with the gradient ... *)
Theorem C07_adam_first_step_ascent lr eps :
  (forall g, 0 <= lr -> 0 < Qabs g + eps -> 0 <= adam_first lr eps g * g) /\
  (forall g, 0 < lr -> 0 < Qabs g + eps -> ~ g == 0 -> 0 < adam_first lr eps g * g) /\
  (forall g, 0 <= lr -> 0 < eps -> 0 <= dot (map (adam_first lr eps) g) g).
Proof. exact (conj (adam_first_ascent lr eps) (conj (adam_first_ascent_strict lr eps) (adam_first_inner lr eps))). Qed.
Print Assumptions C07_adam_first_step_ascent.

(* ... and while the gradient of a coordinate keeps one sign, every update of that coordinate has that sign. *)
Theorem C07_adam_constant_sign_ascent b1 b2 lr eps gs ss :
  0 < b1 -> b1 < 1 -> 0 <= lr -> Forall (fun s => 0 < s + eps) ss ->
  (Forall (fun g => 0 <= g) gs -> Forall (fun o => 0 <= a_upd o) (adam_coord_run b1 b2 lr eps 1 0 0 gs ss)) /\
  (Forall (fun g => g <= 0) gs -> Forall (fun o => a_upd o <= 0) (adam_coord_run b1 b2 lr eps 1 0 0 gs ss)).
Proof. exact (adam_constant_sign_ascent b1 b2 lr eps gs ss). Qed.
Print Assumptions C07_adam_constant_sign_ascent.

(* Multistart (DESIGN `multistart_best_successful`): "the multistart SciPy wrappers return an in-domain point whose value
   is the best among their successful runs".  PROVED IN FULL for MultistartOptimizer.optimize (Model.Multistart), for every
   acceptability predicate, inner optimiser, generator, num_multistarts and selected starts: whenever the loop returns,
   the runs made are those of the first num_runs starts of all_starts (num_runs = len(selected_starts) if
   num_multistarts = 0, else num_multistarts; at least one), and with rows = what the code records for these runs
   (a failed / out-of-domain run has value NaN and success False; a run that raised keeps its start as end point)
   (a) starting_points, ending_points, function_values (and the success list) are these rows, in order;
   (b) if some run is recorded successful (so its end point is acceptable) with a real value, the result is the end
       point of the FIRST such run of maximal value (strictly larger than all earlier, >= all later ones), the best value
       is that value, and the result is acceptable;
   (c) otherwise the best value stays -inf and the result is the first start -- except when the first run itself is
       recorded successful with a NaN value: then the result is that run's (acceptable) end point.  In particular if no
       run is recorded successful the result is the first start.
   The exception in (c) is what the code does (see C07_multistart_first_start_fallback_refuted below). *)
Theorem C07_multistart_best_successful acc run gen nm selected st :
  ms_optimize acc run gen nm selected = Ok st ->
  exists p1 ran' rest,
    ms_all_starts gen nm selected = (p1 :: ran') ++ rest /\ length (p1 :: ran') = ms_num_runs nm selected /\
    let rows := ms_rows acc run 0 (p1 :: ran') in
    let row1 := ms_row_of acc run 0 p1 in
    ms_starts st = p1 :: ran' /\ ms_ends st = map r_end rows /\ ms_vals st = map r_val rows /\ ms_succ st = map r_succ rows /\
    ((exists r, In r rows /\ good_row r) ->
       exists e v, ms_best st = Some e /\ ms_bestv st = Some v /\ first_max_success rows e v /\ acc e = true) /\
    (no_good_row rows ->
       ms_bestv st = None /\
       ms_best st = Some (if r_succ row1 then r_end row1 else p1) /\
       (r_succ row1 = true -> acc (r_end row1) = true) /\
       ((forall r, In r rows -> r_succ r = false) -> ms_best st = Some p1)).
Proof. exact (ms_optimize_best_successful acc run gen nm selected st). Qed.
Print Assumptions C07_multistart_best_successful.

(* (b) and (c) are exhaustive: either some row counts or none does. *)
Theorem C07_multistart_cases_exhaustive (rows : list ms_row) : (exists r, In r rows /\ good_row r) \/ no_good_row rows.
Proof. exact (good_row_dec rows). Qed.
Print Assumptions C07_multistart_cases_exhaustive.

(* first_max_success is what it says: the value is >= the value of every row that counts. *)
Theorem C07_multistart_first_max_is_max rows e v :
  first_max_success rows e v -> forall r' w, In r' rows -> r_succ r' = true -> r_val r' = Some w -> w <= v.
Proof. exact (first_max_success_all_le rows e v). Qed.
Print Assumptions C07_multistart_first_max_is_max.

(* The fall-back clause read literally ("no successful in-domain run with a real value => the first start is returned")
   does not hold: one start [0], whose run reports success with x = [1] (acceptable) and fun = NaN, returns [1].
   Same on MultistartOptimizer in /repo (best_point [1.], function_values [nan]). *)
Theorem C07_multistart_first_start_fallback_refuted :
  exists acc run gen nm selected st p1,
    ms_optimize acc run gen nm selected = Ok st /\ ms_starts st = [p1] /\
    no_good_row (ms_rows acc run 0 [p1]) /\ ms_best st <> Some p1.
Proof. exact ms_first_start_fallback_refuted. Qed.
Print Assumptions C07_multistart_first_start_fallback_refuted.

(* Corollary kept from before: the result is an acceptable end point or one of the starting points. *)
Theorem C07_multistart_result_acceptable acc run gen nm selected st :
  ms_optimize acc run gen nm selected = Ok st ->
  exists p, ms_best st = Some p /\
    (acc p = true \/ In p (match selected with Some s => s | None => [] end) \/ exists k, In p (gen k)).
Proof. exact (ms_optimize_acceptable acc run gen nm selected st). Qed.
Print Assumptions C07_multistart_result_acceptable.

(* The loop returns (no RuntimeError) after exactly len(selected_starts) runs when num_multistarts = 0, resp. num_multistarts
   runs otherwise, whatever the runs' outcomes, as long as that many starts are available.  (Before the repair of the
   `continue` branch in /repo this was false for num_multistarts = 0 with a single failing start.) *)
Theorem C07_multistart_stops acc run nm nsel todo k st :
  (length (ms_vals st) < (if Nat.eqb nm 0 then nsel else nm))%nat ->
  ((if Nat.eqb nm 0 then nsel else nm) <= length (ms_vals st) + length todo)%nat ->
  exists st', ms_loop acc run nm nsel k todo st = Ok st' /\ length (ms_vals st') = (if Nat.eqb nm 0 then nsel else nm).
Proof. exact (ms_loop_stops acc run nm nsel todo k st). Qed.
Print Assumptions C07_multistart_stops.

(* non-vacuity: a 3-member best1bin generation on [0,4]^2 with a fixed second coordinate, af = -(x-3)^2, starts inside / outside
   the box, a tie for the best value (the first one is kept) and a replacement by an equally good trial *)
Example C07_example :
  let af := fun p : list Q => Some (Qred (- ((nth 0 p 0 - 3) * (nth 0 p 0 - 3)))) in
  let restrict := fun (_ : nat) b => restrict_box [0; 0] [4; 4] [(1%nat, 2)] b in
  match de_optimize af restrict (fun _ => []) (mkde 3 2 true (1#2) 1) 1 (Some [[0; 0]; [5; 1]; [2; 9]])
          [([(0, 1, 0); (1, 0, 0); (0, 1, 1)]%nat, [[0; 0]; [0; 0]; [0; 0]])] with
  | Ok o => best (o_state o) = Some ([4; 2], -1) /\ evals (o_state o) = [[[0; 2]; [4; 2]; [2; 2]]; [[4; 2]; [4; 2]; [2; 2]]; [[4; 2]; [4; 2]; [2; 2]]]
            /\ o_end o = [[4; 2]; [4; 2]; [2; 2]]
  | Err _ => False
  end.
Proof. vm_compute. repeat split. Qed.

(* non-vacuity with undefined values: the same run with af undefined where x0 > 3.  The start [5;1] is clipped to [4;2], where
   af is undefined (it would have been the maximiser): it is evaluated, never becomes the incumbent and keeps its place in the
   population; the best is [2;2] with value -1; the trials of members 0 and 1 land on [4;2] (undefined) and do NOT replace
   [0;2] resp. [4;2], the trial [0;2] of member 2 is worse than the best; the reported values carry None at the undefined member. *)
Example C07_example_undefined :
  let af := fun p : list Q => if Qltb 3 (nth 0 p 0) then None else Some (Qred (- ((nth 0 p 0 - 3) * (nth 0 p 0 - 3)))) in
  let restrict := fun (_ : nat) b => restrict_box [0; 0] [4; 4] [(1%nat, 2)] b in
  match de_optimize af restrict (fun _ => []) (mkde 3 2 true 2 1) 1 (Some [[0; 0]; [5; 1]; [2; 9]])
          [([(0, 1, 0); (1, 0, 0); (0, 1, 1)]%nat, [[0; 0]; [0; 0]; [0; 0]])] with
  | Ok o => best (o_state o) = Some ([2; 2], -1) /\
            evals (o_state o) = [[[0; 2]; [4; 2]; [2; 2]]; [[4; 2]; [4; 2]; [0; 2]]; [[0; 2]; [4; 2]; [2; 2]]]
            /\ o_end o = [[0; 2]; [4; 2]; [2; 2]] /\ o_vals o = [Some (-9); None; Some (-1)]
  | Err _ => False
  end.
Proof. vm_compute. repeat split. Qed.

(* non-vacuity of the multistart theorem: 5 runs on [0,4] from the starts [0], [1] and three generated [2]; the second run
   raises (start kept as end point, NaN), the fourth ends outside the domain (NaN, its value 100 is ignored), the third and
   the fifth tie for the best value 5: the third (first) is kept *)
Example C07_multistart_example :
  exists st, ms_optimize ms_example_acc ms_example_run (fun k => repeat [2] k) 5 (Some [[0]; [1]]) = Ok st /\
    ms_best st = Some [3] /\ ms_bestv st = Some 5 /\
    ms_starts st = [[0]; [1]; [2]; [2]; [2]] /\ ms_ends st = [[1]; [1]; [3]; [9]; [2]] /\
    ms_vals st = [Some 3; None; Some 5; None; Some 5] /\ ms_succ st = [true; false; true; false; true] /\
    first_max_success (ms_rows ms_example_acc ms_example_run 0 (ms_starts st)) [3] 5.
Proof. exact ms_example_run_result. Qed.
