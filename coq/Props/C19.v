(* C19 — search acquisition is a success probability that vanishes near known points.
   Only statements, each closed by `exact`, with Print Assumptions beneath.  Model: LV.Model.SearchAF.
   Squared distances over Q (no sqrt): "within the repulsion radius" is `squared distance < distance parameter`
   (DESIGN 7.0); the categorical target t stands for numpy.sqrt(one_hot_dim). *)
From Coq Require Import List QArith Bool Arith.
From LV Require Import Model.SearchAF Proofs.SearchAF.
Import ListNotations.
Open Scope Q_scope.

(* The library's distance formula fmax(0, |x|^2 + |z|^2 - 2 x.z) is the sum of squared coordinate differences. *)
Theorem C19_distance_formula x z : length x = length z -> dist2 x z == sqdist x z.
Proof. exact (dist2_sqdist x z). Qed.
Print Assumptions C19_distance_formula.

(* The value at a point is exactly 0 when some repulsor is at squared distance < the distance parameter from the point's
   normalised image, is the failure model's probability when every repulsor is at squared distance >= it, and lies in [0,1]
   either way (failure model: any function into [0,1]). *)
Theorem C19_value_is_probability_or_zero d t s fm p :
  reps_wf d s -> length p = one_hot_dim d -> 0 <= fm p <= 1 ->
  let v := eval_point d t s fm p in
  ((exists r, In r (reps s) /\ sqdist r (to_search d t p) < dpar s) -> v = 0) /\
  ((forall r, In r (reps s) -> dpar s <= sqdist r (to_search d t p)) -> v = fm p) /\
  0 <= v <= 1.
Proof. exact (value_is_probability_or_zero d t s fm p). Qed.
Print Assumptions C19_value_is_probability_or_zero.

(* One evaluated batch is eval_point row by row. *)
Theorem C19_batch_is_pointwise d t s fm pts : (forall p, In p pts -> length p = one_hot_dim d) ->
  eval_batch d t s fm pts = Some (map (eval_point d t s fm) pts).
Proof. exact (eval_batch_spec d t s fm pts). Qed.
Print Assumptions C19_batch_is_pointwise.

(* A product of failure models, each with values in [0,1], has values in [0,1]; the logistic model 1/(1+e), e >= 0, too. *)
Theorem C19_product_is_probability fms p : (forall f, In f fms -> 0 <= f p <= 1) -> 0 <= prod_fm fms p <= 1.
Proof. exact (prod_fm_range fms p). Qed.
Print Assumptions C19_product_is_probability.

Theorem C19_logistic_is_probability e : 0 <= e -> 0 < logistic e /\ logistic e <= 1.
Proof. exact (logistic_range e). Qed.
Print Assumptions C19_logistic_is_probability.

(* Every state reachable by the constructor and by add_normalized_repulsor_point keeps repulsors of the right shape
   (the hypothesis reps_wf of the value theorem). *)
Theorem C19_repulsors_well_shaped d t dp r0 s pts s' :
  pi_search_init d t dp r0 = Some s -> add_repulsors d t s pts = Some s' ->
  reps_wf d s /\ reps_wf d s' /\ reps s' = reps s ++ map (to_search d t) pts /\ dpar s' = dpar s.
Proof. exact (repulsors_well_shaped d t dp r0 s pts s'). Qed.
Print Assumptions C19_repulsors_well_shaped.

(* Mapping to the unit cube and back (and back and forth) is the identity whenever no bound interval is degenerate. *)
Theorem C19_unit_cube_roundtrip bs : Forall (fun b => ~ snd b == fst b) bs -> forall p, length p = length bs ->
  Forall2 Qeq (from_unit bs (to_unit bs p)) p /\ Forall2 Qeq (to_unit bs (from_unit bs p)) p.
Proof. exact (unit_cube_roundtrip bs). Qed.
Print Assumptions C19_unit_cube_roundtrip.

(* In-bounds coordinates are scaled into [0,1]; a numeric parameter's normalised coordinate is (x - lo)/(hi - lo). *)
Theorem C19_unit_cube_range bs p : Forall2 (fun b x => fst b < snd b /\ fst b <= x <= snd b) bs p ->
  Forall (fun u => 0 <= u <= 1) (to_unit bs p).
Proof. exact (unit_cube_range bs p). Qed.
Print Assumptions C19_unit_cube_range.

Theorem C19_numeric_coordinate lo hi d t x p :
  to_search (Num lo hi :: d) t (x :: p) = to_unit1 (lo, hi) x :: to_search d t p.
Proof. exact (to_search_num lo hi d t x p). Qed.
Print Assumptions C19_numeric_coordinate.

(* A categorical parameter's block becomes t at the first maximum and 0 elsewhere. *)
Theorem C19_categorical_block k d t blk p : length blk = k ->
  to_search (Cat k :: d) t (blk ++ p) = one_hot_block k (argmax blk) t ++ to_search d t p.
Proof. exact (to_search_cat k d t blk p). Qed.
Print Assumptions C19_categorical_block.

(* Two points that select different categories in some categorical parameter are at squared distance >= 2 t^2
   (= 2 * one_hot_dim when t = sqrt(one_hot_dim)), i.e. at distance >= sqrt 2 * sqrt(one-hot dimension). *)
Theorem C19_categories_apart d t p q : length p = one_hot_dim d -> length q = one_hot_dim d ->
  cat_choice d p <> cat_choice d q -> 2 * (t * t) <= sqdist (to_search d t p) (to_search d t q).
Proof. exact (categories_apart d t p q). Qed.
Print Assumptions C19_categories_apart.

(* Hence a repulsor of another category never zeroes a point while the squared radius is <= 2 t^2, and every scheduled
   radius dim * {0.04, 0.01, 0.0025, 0.0004} is below that gap when t^2 is within 1% of the one-hot dimension. *)
Theorem C19_categories_never_repel d t dp p q : length p = one_hot_dim d -> length q = one_hot_dim d ->
  cat_choice d p <> cat_choice d q -> dp <= 2 * (t * t) ->
  Qltb (dist2 (to_search d t q) (to_search d t p)) dp = false.
Proof. exact (categories_never_repel d t dp p q). Qed.
Print Assumptions C19_categories_never_repel.

Theorem C19_schedule_below_category_gap d t w : d <> [] -> (forall k, In (Cat k) d -> (1 <= k)%nat) -> (w < 4)%nat ->
  inject_Z (Z.of_nat (one_hot_dim d)) * (99 # 100) <= t * t ->
  0 < get_dp (length d) w /\ get_dp (length d) w < 2 * (t * t).
Proof. exact (schedule_positive_below_category_gap d t w). Qed.
Print Assumptions C19_schedule_below_category_gap.

(* Evaluation does not depend on the batch size: any positive batch size, or none, gives eval_point row by row. *)
Theorem C19_batch_independent d t s fm pts b : pts <> [] -> (0 < b)%nat ->
  (forall p, In p pts -> length p = one_hot_dim d) ->
  evaluate (Some b) d t s fm pts = Some (map (eval_point d t s fm) pts) /\
  evaluate None d t s fm pts = Some (map (eval_point d t s fm) pts).
Proof. exact (batch_independent d t s fm pts b). Qed.
Print Assumptions C19_batch_independent.

(* Within one search optimisation (any optimiser `opt`, any random draws): the i-th pick is chosen in a state whose
   repulsors are the initial ones followed by the normalised images of picks 0..i-1, with the radius drawn after pick
   i-1; so every earlier pick is a repulsor and, the radius being positive, the value at every earlier pick is 0. *)
Theorem C19_picks_become_repulsors d t opt s0 draws picks s_after tr :
  search_opt d t opt s0 draws = Some (picks, s_after, tr) ->
  length picks = length draws /\ picks = map snd tr /\
  forall i si pi, nth_error tr i = Some (si, pi) ->
    pi = opt si /\
    reps si = reps s0 ++ map (to_search d t) (firstn i picks) /\
    dpar si = match i with O => dpar s0 | S j => get_dp (length d) (nth j draws O) end /\
    forall j pj, (j < i)%nat -> nth_error picks j = Some pj ->
      In (to_search d t pj) (reps si) /\
      (0 < dpar si -> forall fm, eval_point d t si fm pj = 0).
Proof. exact (picks_become_repulsors d t opt s0 draws picks s_after tr). Qed.
Print Assumptions C19_picks_become_repulsors.

(* ... and the acquisition function's repulsors and radius are restored afterwards. *)
Theorem C19_state_restored d t opt s0 draws picks s_after tr :
  search_opt d t opt s0 draws = Some (picks, s_after, tr) ->
  reps s_after = reps s0 /\ dpar s_after = dpar s0.
Proof. exact (state_restored d t opt s0 draws picks s_after tr). Qed.
Print Assumptions C19_state_restored.

(* The view seeds the repulsors with the observed points followed by the pending points. *)
Theorem C19_view_repulsors d t sampled pending w s : view_init d t sampled pending w = Some s ->
  reps s = map (to_search d t) (sampled ++ pending) /\ dpar s = get_dp (length d) w /\ reps_wf d s.
Proof. exact (view_repulsors d t sampled pending w s). Qed.
Print Assumptions C19_view_repulsors.

(* non-vacuity: int [0,8] x categorical(3) x double [-4,4], t = 2 (one-hot dimension 5 is not a square; 2 is a stand-in),
   one repulsor; a point near it is zeroed, the same point in another category is not, and a two-pick optimisation
   with a scripted optimiser restores the state. *)
Example C19_example :
  let d := [Num 0 8; Cat 3; Num (-4) 4] in
  let s := mkst [to_search d 2 [2; 1; 0; 0; 0]] (1 # 4) in
  let fm := fun _ : point => 3 # 4 in
  to_search d 2 [2; (1#2); 0; (1#4); 0] = [(2 - 0) / (8 - 0); 2; 0; 0; (0 - -4) / (4 - -4)] /\
  evaluate (Some 2%nat) d 2 s fm [[3; 1; 0; 0; 1]; [3; 0; 1; 0; 1]; [8; 1; 0; 0; 4]] = Some [0; 3 # 4; 3 # 4] /\
  (exists picks tr, search_opt d 2 (fun st => [inject_Z (Z.of_nat (length (reps st))); 0; 0; 1; 0]) s [0; 3]%nat
                    = Some (picks, s, tr) /\ length picks = 2%nat).
Proof. vm_compute. repeat split; try reflexivity. eexists. eexists. split; reflexivity. Qed.
