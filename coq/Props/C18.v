(* C18 — multi-solution best assignments are distinct, valid and best in their cluster.
   Only statements, each closed by `exact`, with Print Assumptions beneath. Model: LV.Model.KCenter.
   Distances are SQUARED distances throughout (d2ix pts i j = dist2 of points i and j), as in the source, which never takes
   the square root; x -> x^2 is increasing on x >= 0, so the farthest / nearest index is the same for both.
   omind pts pre t = the least squared distance from observation t to a centre listed in `pre`. *)
From Coq Require Import List QArith Bool Arith Lia.
From LV Require Import Model.KCenter Proofs.KCenter.
Import ListNotations.
Open Scope Q_scope.

(* the expanded form the source computes, fmax(0, |a|^2 + |b|^2 - 2 a.b), is the sum of squared coordinate differences *)
Theorem C18_dist2_is_squared_distance a b : length a = length b -> dist2 a b == sqdiff a b.
Proof. exact (dist2_sqdiff a b). Qed.
Print Assumptions C18_dist2_is_squared_distance.

Theorem C18_nearest_centre_distance pts pre t : pre <> [] ->
  (forall c, In c pre -> omind pts pre t <= d2ix pts c t) /\ exists c, In c pre /\ omind pts pre t = d2ix pts c t.
Proof. exact (fun H => conj (fun c Hc => omind_le pts pre t c Hc) (omind_attained pts pre t H)). Qed.
Print Assumptions C18_nearest_centre_distance.

(* k_center_clustering raises no AssertionError on 0 < k < n and a first index in range *)
Theorem C18_k_center_accepts_valid_input pts first k :
  (0 < k < length pts)%nat -> (first < length pts)%nat -> k_center pts first k <> None.
Proof. exact (k_center_total pts first k). Qed.
Print Assumptions C18_k_center_accepts_valid_input.

(* first_centre_is_given, centres_distinct, next_centre_farthest (first on ties):
   k centres, the first is the given index, pairwise distinct, in range; centre i (i >= 1) is not among centres 0..i-1, every
   other not-yet-chosen observation is no farther from the chosen centres, and every such observation with a smaller index is
   strictly nearer. *)
Theorem C18_centres_farthest_first pts first k cs part :
  k_center pts first k = Some (cs, part) ->
  length cs = k /\ hd O cs = first /\ NoDup cs /\ (forall c, In c cs -> (c < length pts)%nat) /\
  forall i, (1 <= i < k)%nat ->
    let pre := firstn i cs in let c := nth i cs O in
    (c < length pts)%nat /\ ~ In c pre /\
    (forall t, (t < length pts)%nat -> ~ In t pre -> omind pts pre t <= omind pts pre c) /\
    (forall t, (t < c)%nat -> ~ In t pre -> omind pts pre t < omind pts pre c).
Proof. exact (k_center_centres pts first k cs part). Qed.
Print Assumptions C18_centres_farthest_first.

(* partition_nearest, clusters_nonempty: every observation gets one cluster label < k; centre i is in cluster i; the centre of
   an observation's cluster is a nearest centre, and for a non-centre it is the first nearest one *)
Theorem C18_partition_nearest pts first k cs part :
  k_center pts first k = Some (cs, part) ->
  length part = length pts /\
  forall t, (t < length pts)%nat ->
    let c := nth t part O in
    (c < k)%nat /\
    (forall i, (i < k)%nat -> nth i cs O = t -> c = i) /\
    (forall j, (j < k)%nat -> d2ix pts (nth c cs O) t <= d2ix pts (nth j cs O) t) /\
    (~ In t cs -> forall j, (j < c)%nat -> d2ix pts (nth c cs O) t < d2ix pts (nth j cs O) t).
Proof. exact (k_center_partition pts first k cs part). Qed.
Print Assumptions C18_partition_nearest.

(* best_indices_distinct_valid, overall_best_included, each_is_cluster_best, for the endpoint body on ANY values and search
   points: no AssertionError for 2 <= k < n; k distinct indices in range; the first one is the first minimum of the values
   (which is also the first centre); entry c lies in cluster c and is the first minimum of the values over that cluster. *)
Theorem C18_best_assignments values spts k :
  length values = length spts -> (2 <= k < length spts)%nat ->
  exists cs part best,
    k_center spts (qargmin values) k = Some (cs, part) /\
    best_assignments values spts k = Some best /\
    length best = k /\ NoDup best /\ (forall i, In i best -> (i < length spts)%nat) /\
    hd O best = qargmin values /\
    forall c, (c < k)%nat ->
      let b := nth c best O in
      nth b part O = c /\
      (forall t, (t < length spts)%nat -> nth t part O = c -> nth b values 0 <= nth t values 0) /\
      (forall t, (t < b)%nat -> nth t part O = c -> nth b values 0 < nth t values 0).
Proof. exact (best_assignments_spec values spts k). Qed.
Print Assumptions C18_best_assignments.

Theorem C18_first_minimum l : l <> [] ->
  let r := qargmin l in
  (r < length l)%nat /\ (forall k, (k < length l)%nat -> nth r l 0 <= nth k l 0) /\ (forall k, (k < r)%nat -> nth r l 0 < nth k l 0).
Proof. exact (qargmin_first l). Qed.
Print Assumptions C18_first_minimum.

(* the same through the glue of the view: any domain (categoricals separated by tgt = sqrt(one_hot_dim)), any history whose
   categorical values are legal, failures, both objectives; values are the scaled values with failures set to the lie *)
Theorem C18_view cs tgt points vals fails maximize k ohs :
  all_some (map (to_one_hot cs) points) = Some ohs ->
  length vals = length points -> length fails = length points -> (2 <= k < length points)%nat ->
  let sv := scaled_values maximize vals fails in
  let spts := map (search_point cs tgt) ohs in
  exists centres part best,
    k_center spts (qargmin sv) k = Some (centres, part) /\
    view cs tgt points vals fails maximize k = Some best /\
    length best = k /\ NoDup best /\ (forall i, In i best -> (i < length points)%nat) /\
    hd O best = qargmin sv /\
    forall c, (c < k)%nat ->
      let b := nth c best O in
      nth b part O = c /\
      (forall t, (t < length points)%nat -> nth t part O = c -> nth b sv 0 <= nth t sv 0) /\
      (forall t, (t < b)%nat -> nth t part O = c -> nth b sv 0 < nth t sv 0).
Proof. exact (view_spec cs tgt points vals fails maximize k ohs). Qed.
Print Assumptions C18_view.

(* scaled values (failures set to the lie): with at least one success they are negate * s * (w - m) for ONE s > 0 and one m,
   w = raw value of a success, = the worst successful raw value for a failure; such a map keeps the order of the objective.
   So "best scaled value" = best raw value among successes, and a failure is never strictly better than any success; it TIES
   with the worst success (see the refuted strict reading below).  NOT proved as one theorem: "when two successes differ, the
   first minimum of the scaled values is a success with the best raw value" (needs lmin/lmax facts about the lie; decided by
   the searcher's overall-best oracle on every run). *)
Theorem C18_scaled_values_affine_partial (maximize : bool) vals fails :
  select (map negb fails) vals <> [] ->
  exists s m lie, 0 < s /\
    lie = (if maximize then lmin (select (map negb fails) vals) else lmax (select (map negb fails) vals)) /\
    scaled_values maximize vals fails =
    map (fun vf : Q * bool => (if maximize then Qopp 1 else 1) * s * ((if snd vf then lie else fst vf) - m)) (combine vals fails).
Proof. exact (scaled_values_affine maximize vals fails). Qed.
Print Assumptions C18_scaled_values_affine_partial.

Theorem C18_affine_scaling_keeps_order (neg s m a b : Q) : 0 < s -> (neg == 1 \/ neg == -(1)) ->
  (neg * s * (a - m) <= neg * s * (b - m) <-> neg * a <= neg * b).
Proof. exact (affine_order neg s m a b). Qed.
Print Assumptions C18_affine_scaling_keeps_order.

(* STRICT reading of "one of which is the overall best observation" (a SUCCESSFUL observation with the best raw value is
   returned) is false of the faithful model: with one success among failures every scaled value ties with the lie, the first
   index is taken as the best and only failed observations come back.  Witness replayed on the real endpoint by the searcher
   (corpus/C18/c18_only_failed_returned.json). *)
Theorem C18_overall_best_strict_refuted :
  exists cs tgt points vals fails maximize k best,
    length vals = length points /\ length fails = length points /\ (2 <= k < length points)%nat /\
    view cs tgt points vals fails maximize k = Some best /\
    (exists i, nth i fails true = false) /\ (forall i, In i best -> nth i fails false = true).
Proof.
  exists [CNum 0 4], 1, [[0]; [4]; [1]], [5; 7; 3], [true; true; false], false, 2%nat, [0; 1]%nat.
  split; [reflexivity|]. split; [reflexivity|]. split; [simpl; lia|]. split; [vm_compute; reflexivity|].
  split; [exists 2%nat; reflexivity|]. intros i [<-|[<-|[]]]; reflexivity.
Qed.
Print Assumptions C18_overall_best_strict_refuted.

(* non-vacuity: duplicated points (the test-suite's repeated-point instance, shortened) and a mixed domain with a categorical *)
Example C18_example :
  k_center [[1;1]; [1;1]; [1;1]; [9;9]; [1;1]; [1;1]] 4 3 = Some ([4; 3; 0]%nat, [2; 0; 0; 1; 0; 0]%nat) /\
  view [CNum 0 4; CCat [1; 2; 5]] 2 [[0;1]; [4;2]; [1;5]; [1;1]] [5; 7; 3; 3] [false; false; false; false] true 3
    = Some [1; 0; 2]%nat.
Proof. vm_compute. split; reflexivity. Qed.
