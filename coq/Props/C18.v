(* C18 — multi-solution best assignments are distinct, valid and best in their cluster.
   Only statements, each closed by `exact`, with Print Assumptions beneath. Model: LV.Model.KCenter.
   Distances are SQUARED distances throughout (d2ix pts i j = dist2 of points i and j), as in the source, which never takes
   the square root; x -> x^2 is increasing on x >= 0, so the farthest / nearest index is the same for both.
   omind pts pre t = the least squared distance from observation t to a centre listed in `pre`. *)
From Coq Require Import List QArith Bool Arith Lia.
From LV Require Import Model.KCenter Proofs.KCenter.
Import ListNotations.
Open Scope Q_scope.

(* the expanded form the source computes, fmax(0, |a|^2 + |b|^2 - 2 a.b), is the sum of squared coordinate differences *)
Theorem C18_dist2_is_squared_distance a b : length a = length b -> dist2 a b == sqdiff a b.
Proof. exact (dist2_sqdiff a b). Qed.
Print Assumptions C18_dist2_is_squared_distance.

Theorem C18_nearest_centre_distance pts pre t : pre <> [] ->
  (forall c, In c pre -> omind pts pre t <= d2ix pts c t) /\ exists c, In c pre /\ omind pts pre t = d2ix pts c t.
Proof. exact (fun H => conj (fun c Hc => omind_le pts pre t c Hc) (omind_attained pts pre t H)). Qed.
Print Assumptions C18_nearest_centre_distance.

(* k_center_clustering raises no AssertionError on 0 < k < n and a first index in range *)
Theorem C18_k_center_accepts_valid_input pts first k :
  (0 < k < length pts)%nat -> (first < length pts)%nat -> k_center pts first k <> None.
Proof. exact (k_center_total pts first k). Qed.
Print Assumptions C18_k_center_accepts_valid_input.

(* first_centre_is_given, centres_distinct, next_centre_farthest (first on ties):
   k centres, the first is the given index, pairwise distinct, in range; centre i (i >= 1) is not among centres 0..i-1, every
   other not-yet-chosen observation is no farther from the chosen centres, and every such observation with a smaller index is
   strictly nearer. *)
Theorem C18_centres_farthest_first pts first k cs part :
  k_center pts first k = Some (cs, part) ->
  length cs = k /\ hd O cs = first /\ NoDup cs /\ (forall c, In c cs -> (c < length pts)%nat) /\
  forall i, (1 <= i < k)%nat ->
    let pre := firstn i cs in let c := nth i cs O in
    (c < length pts)%nat /\ ~ In c pre /\
    (forall t, (t < length pts)%nat -> ~ In t pre -> omind pts pre t <= omind pts pre c) /\
    (forall t, (t < c)%nat -> ~ In t pre -> omind pts pre t < omind pts pre c).
Proof. exact (k_center_centres pts first k cs part). Qed.
Print Assumptions C18_centres_farthest_first.

(* partition_nearest, clusters_nonempty: every observation gets one cluster label < k; centre i is in cluster i; the centre of
   an observation's cluster is a nearest centre, and for a non-centre it is the first nearest one *)
Theorem C18_partition_nearest pts first k cs part :
  k_center pts first k = Some (cs, part) ->
  length part = length pts /\
  forall t, (t < length pts)%nat ->
    let c := nth t part O in
    (c < k)%nat /\
    (forall i, (i < k)%nat -> nth i cs O = t -> c = i) /\
    (forall j, (j < k)%nat -> d2ix pts (nth c cs O) t <= d2ix pts (nth j cs O) t) /\
    (~ In t cs -> forall j, (j < c)%nat -> d2ix pts (nth c cs O) t < d2ix pts (nth j cs O) t).
Proof. exact (k_center_partition pts first k cs part). Qed.
Print Assumptions C18_partition_nearest.

(* The values the view compares are EXTENDED values (Model.KCenter.xv): `Val q` = a finite scaled value, `PInf` = +inf, which
   the view substitutes for every failed observation (values = numpy.where(failures, inf, scaled[:, 0])).  vltb is the
   comparison `<` the code makes (inf < inf is false); vlt a b := vltb a b = true; vle a b := vltb b a = false (a <= b). *)

(* best_indices_distinct_valid, overall_best_included, each_is_cluster_best, for the endpoint body on ANY values and search
   points: no AssertionError for 2 <= k < n; k distinct indices in range; the first one is the first minimum of the values
   (which is also the first centre); entry c lies in cluster c and is the first minimum of the values over that cluster. *)
Theorem C18_best_assignments values spts k :
  length values = length spts -> (2 <= k < length spts)%nat ->
  exists cs part best,
    k_center spts (vargmin values) k = Some (cs, part) /\
    best_assignments values spts k = Some best /\
    length best = k /\ NoDup best /\ (forall i, In i best -> (i < length spts)%nat) /\
    hd O best = vargmin values /\
    forall c, (c < k)%nat ->
      let b := nth c best O in
      nth b part O = c /\
      (forall t, (t < length spts)%nat -> nth t part O = c -> vle (nth b values PInf) (nth t values PInf)) /\
      (forall t, (t < b)%nat -> nth t part O = c -> vlt (nth b values PInf) (nth t values PInf)).
Proof. exact (best_assignments_spec values spts k). Qed.
Print Assumptions C18_best_assignments.

Theorem C18_first_minimum l : l <> [] ->
  let r := vargmin l in
  (r < length l)%nat /\ (forall k, (k < length l)%nat -> vle (nth r l PInf) (nth k l PInf)) /\
  (forall k, (k < r)%nat -> vlt (nth r l PInf) (nth k l PInf)).
Proof. exact (vargmin_first l). Qed.
Print Assumptions C18_first_minimum.

(* the same through the glue of the view: any domain (categoricals separated by tgt = sqrt(one_hot_dim)), any history whose
   categorical values are legal, failures, both objectives; the compared values are the scaled values, +inf for failures *)
Theorem C18_view cs tgt points vals fails maximize k ohs :
  all_some (map (to_one_hot cs) points) = Some ohs ->
  length vals = length points -> length fails = length points -> (2 <= k < length points)%nat ->
  let mv := masked_values (scaled_values maximize vals fails) fails in
  let spts := map (search_point cs tgt) ohs in
  exists centres part best,
    k_center spts (vargmin mv) k = Some (centres, part) /\
    view cs tgt points vals fails maximize k = Some best /\
    length best = k /\ NoDup best /\ (forall i, In i best -> (i < length points)%nat) /\
    hd O best = vargmin mv /\
    forall c, (c < k)%nat ->
      let b := nth c best O in
      nth b part O = c /\
      (forall t, (t < length points)%nat -> nth t part O = c -> vle (nth b mv PInf) (nth t mv PInf)) /\
      (forall t, (t < b)%nat -> nth t part O = c -> vlt (nth b mv PInf) (nth t mv PInf)).
Proof. exact (view_spec cs tgt points vals fails maximize k ohs). Qed.
Print Assumptions C18_view.

(* scaled values (views/view.py; a failed row holds the lie there): with at least one success they are negate * s * (w - m)
   for ONE s > 0 and one m, w = raw value of a success (= the worst successful raw value for a failure); such a map keeps the
   order of the objective.  The view then replaces the entry of every failed observation by +inf, so a failure is strictly
   after every success and "best compared value" = best raw value among the successes.  The link to the RAW values:
   C18_compared_order_is_raw_order, C18_first_min_is_best_success, C18_cluster_min_is_best_success and, through the whole
   endpoint, C18_view_strict / C18_overall_best_strict / C18_never_only_failures. *)
Theorem C18_scaled_values_affine (maximize : bool) vals fails :
  select (map negb fails) vals <> [] ->
  exists s m lie, 0 < s /\
    lie = (if maximize then lmin (select (map negb fails) vals) else lmax (select (map negb fails) vals)) /\
    scaled_values maximize vals fails =
    map (fun vf : Q * bool => (if maximize then Qopp 1 else 1) * s * ((if snd vf then lie else fst vf) - m)) (combine vals fails).
Proof. exact (scaled_values_affine maximize vals fails). Qed.
Print Assumptions C18_scaled_values_affine.

Theorem C18_affine_scaling_keeps_order (neg s m a b : Q) : 0 < s -> (neg == 1 \/ neg == -(1)) ->
  (neg * s * (a - m) <= neg * s * (b - m) <-> neg * a <= neg * b).
Proof. exact (affine_order neg s m a b). Qed.
Print Assumptions C18_affine_scaling_keeps_order.

(* RAW values.  Throughout: nf = the raw values of the successful observations (in order), bestv = the best of them for the
   objective (greatest when maximising, least when minimising); observation t is a success when fails[t] = false;
   mv = the values the view compares. *)

(* what the view compares: +inf for a failure, the scaled value for a success; between two successes the comparison IS the
   comparison of the raw values for the objective (smaller compared value = better raw value); a success is strictly before
   every failure *)
Theorem C18_compared_order_is_raw_order (maximize : bool) vals fails t u :
  length fails = length vals ->
  let nf := select (map negb fails) vals in
  nf <> [] -> (t < length vals)%nat -> (u < length vals)%nat ->
  let mv := masked_values (scaled_values maximize vals fails) fails in
  (nth t fails false = true -> nth t mv PInf = PInf) /\
  (nth t fails true = false -> nth u fails false = true -> vlt (nth t mv PInf) (nth u mv PInf)) /\
  (nth t fails true = false -> nth u fails true = false ->
     (vle (nth t mv PInf) (nth u mv PInf) <-> if maximize then nth u vals 0 <= nth t vals 0 else nth t vals 0 <= nth u vals 0) /\
     (vlt (nth t mv PInf) (nth u mv PInf) <-> if maximize then nth u vals 0 < nth t vals 0 else nth t vals 0 < nth u vals 0)).
Proof.
  exact (fun Hl Hne Ht Hu =>
    conj (m_failed maximize vals fails Hl t Ht)
      (conj (m_success_lt_failed maximize vals fails Hl t u Ht Hu)
         (fun Et Eu => conj (m_le_success maximize vals fails Hl Hne t u Ht Hu Et Eu)
                            (m_lt_success maximize vals fails Hl Hne t u Ht Hu Et Eu)))).
Qed.
Print Assumptions C18_compared_order_is_raw_order.

(* overall_best_included in the user's sense.  b = the first minimum of the compared values (the first centre and the index the
   view returns first, C18_view): b is a SUCCESSFUL observation, its raw value is bestv, no success has a better raw value and
   every earlier success is strictly worse (b is the first success with the best raw value). *)
Theorem C18_first_min_is_best_success (maximize : bool) vals fails :
  length fails = length vals ->
  let nf := select (map negb fails) vals in
  nf <> [] ->
  let mv := masked_values (scaled_values maximize vals fails) fails in
  let bestv := if maximize then lmax nf else lmin nf in
  let b := vargmin mv in
  (b < length vals)%nat /\ nth b fails true = false /\ nth b vals 0 == bestv /\
  (forall t, (t < length vals)%nat -> nth t fails true = false ->
     if maximize then nth t vals 0 <= nth b vals 0 else nth b vals 0 <= nth t vals 0) /\
  (forall t, (t < b)%nat -> nth t fails true = false ->
     if maximize then nth t vals 0 < nth b vals 0 else nth b vals 0 < nth t vals 0).
Proof. exact (first_min_is_best_success maximize vals fails). Qed.
Print Assumptions C18_first_min_is_best_success.

(* each_is_cluster_best in the user's sense, for ANY set P of observations (a cluster) and any index b whose compared value is
   the first minimum over P (what C18_view gives for the index returned for a cluster).  If P holds a success then b is a
   success; when b is a success its raw value is at least as good as that of every successful member and strictly better than
   that of every earlier successful member; b is a failure only if EVERY member of P failed, and then no member precedes b. *)
Theorem C18_cluster_min_is_best_success (maximize : bool) vals fails (P : nat -> Prop) (b : nat) :
  length fails = length vals ->
  let nf := select (map negb fails) vals in
  nf <> [] ->
  let mv := masked_values (scaled_values maximize vals fails) fails in
  (b < length vals)%nat ->
  (forall t, (t < length vals)%nat -> P t -> vle (nth b mv PInf) (nth t mv PInf)) ->
  (forall t, (t < b)%nat -> P t -> vlt (nth b mv PInf) (nth t mv PInf)) ->
  ((exists t, (t < length vals)%nat /\ P t /\ nth t fails true = false) -> nth b fails true = false) /\
  (nth b fails true = false ->
     (forall t, (t < length vals)%nat -> P t -> nth t fails true = false ->
        if maximize then nth t vals 0 <= nth b vals 0 else nth b vals 0 <= nth t vals 0) /\
     (forall t, (t < b)%nat -> P t -> nth t fails true = false ->
        if maximize then nth t vals 0 < nth b vals 0 else nth b vals 0 < nth t vals 0)) /\
  (nth b fails false = true ->
     (forall t, (t < length vals)%nat -> P t -> nth t fails false = true) /\
     (forall t, (t < b)%nat -> ~ P t)).
Proof. exact (fun Hl Hne => set_min_is_best_success maximize vals fails Hl Hne P b). Qed.
Print Assumptions C18_cluster_min_is_best_success.

(* the whole endpoint in terms of RAW values (any domain, any history with at least one success, both objectives) - the STRICT
   reading of the property: the first returned index b0 is a success with the best raw value, the first such index.  The index
   b returned for cluster c lies in cluster c; if the cluster holds a success, b is a success whose raw value is at least as
   good as that of every successful member (strictly better than the earlier ones): the first best success of the cluster;
   b is a failed observation only for a cluster without any success, and is then its first member. *)
Theorem C18_view_strict cs tgt points vals fails maximize k ohs :
  all_some (map (to_one_hot cs) points) = Some ohs ->
  length vals = length points -> length fails = length points -> (2 <= k < length points)%nat ->
  let nf := select (map negb fails) vals in
  nf <> [] ->
  let mv := masked_values (scaled_values maximize vals fails) fails in
  let spts := map (search_point cs tgt) ohs in
  let bestv := if maximize then lmax nf else lmin nf in
  exists centres part best,
    k_center spts (vargmin mv) k = Some (centres, part) /\
    view cs tgt points vals fails maximize k = Some best /\
    length best = k /\ NoDup best /\ (forall i, In i best -> (i < length points)%nat) /\
    (let b0 := hd O best in
     In b0 best /\ nth b0 fails true = false /\ nth b0 vals 0 == bestv /\
     (forall t, (t < length points)%nat -> nth t fails true = false ->
        if maximize then nth t vals 0 <= nth b0 vals 0 else nth b0 vals 0 <= nth t vals 0) /\
     (forall t, (t < b0)%nat -> nth t fails true = false ->
        if maximize then nth t vals 0 < nth b0 vals 0 else nth b0 vals 0 < nth t vals 0)) /\
    forall c, (c < k)%nat ->
      let b := nth c best O in
      nth b part O = c /\
      ((exists t, (t < length points)%nat /\ nth t part O = c /\ nth t fails true = false) -> nth b fails true = false) /\
      (nth b fails true = false ->
         (forall t, (t < length points)%nat -> nth t part O = c -> nth t fails true = false ->
            if maximize then nth t vals 0 <= nth b vals 0 else nth b vals 0 <= nth t vals 0) /\
         (forall t, (t < b)%nat -> nth t part O = c -> nth t fails true = false ->
            if maximize then nth t vals 0 < nth b vals 0 else nth b vals 0 < nth t vals 0)) /\
      (nth b fails false = true ->
         (forall t, (t < length points)%nat -> nth t part O = c -> nth t fails false = true) /\
         (forall t, (t < b)%nat -> nth t part O <> c)).
Proof. exact (view_strict cs tgt points vals fails maximize k ohs). Qed.
Print Assumptions C18_view_strict.

(* STRICT reading of "one of which is the overall best observation", a theorem for EVERY history with at least one success:
   the endpoint answers, and the first returned index is a SUCCESSFUL observation whose raw value no success beats, every
   earlier success being strictly worse.  (Before the repair of the view - failures carried the lie and tied with the worst
   success - the opposite was provable: C18_overall_best_strict_refuted, witness corpus/C18/c18_only_failed_returned.json.) *)
Theorem C18_overall_best_strict cs tgt points vals fails maximize k ohs :
  all_some (map (to_one_hot cs) points) = Some ohs ->
  length vals = length points -> length fails = length points -> (2 <= k < length points)%nat ->
  (exists i, (i < length points)%nat /\ nth i fails true = false) ->
  exists best,
    view cs tgt points vals fails maximize k = Some best /\
    let b0 := hd O best in
    In b0 best /\ (b0 < length points)%nat /\ nth b0 fails true = false /\
    (forall t, (t < length points)%nat -> nth t fails true = false ->
       if maximize then nth t vals 0 <= nth b0 vals 0 else nth b0 vals 0 <= nth t vals 0) /\
    (forall t, (t < b0)%nat -> nth t fails true = false ->
       if maximize then nth t vals 0 < nth b0 vals 0 else nth b0 vals 0 < nth t vals 0).
Proof. exact (overall_best_strict cs tgt points vals fails maximize k ohs). Qed.
Print Assumptions C18_overall_best_strict.

(* the negation of the former finding: whenever the endpoint answers and the history holds a success, a successful
   observation is among the returned indices *)
Theorem C18_never_only_failures cs tgt points vals fails maximize k best :
  length vals = length points -> length fails = length points -> (2 <= k < length points)%nat ->
  view cs tgt points vals fails maximize k = Some best ->
  (exists i, (i < length points)%nat /\ nth i fails true = false) ->
  exists i, In i best /\ nth i fails true = false.
Proof. exact (never_only_failures cs tgt points vals fails maximize k best). Qed.
Print Assumptions C18_never_only_failures.

(* the two witnesses of the former findings (corpus/C18): one success among failures - the success is returned first and the
   failed observation 1 only represents the cluster {1}, which holds no success; a cluster {1, 3} whose only success is the
   worst success overall - the success 3 is returned, not the failed observation 1 that precedes it. *)
Example C18_example_former_findings :
  view [CNum 0 4] 1 [[0]; [4]; [1]] [5; 7; 3] [true; true; false] false 2 = Some [2; 1]%nat /\
  k_center (map (search_point [CNum 0 4] 1) [[0]; [4]; [1]]) 2 2 = Some ([2; 1]%nat, [0; 1; 0]%nat) /\
  view [CNum 0 4] 1 [[0]; [4]; [1]; [3]] [5; 7; 3; 6] [false; true; false; false] false 2 = Some [2; 3]%nat /\
  k_center (map (search_point [CNum 0 4] 1) [[0]; [4]; [1]; [3]]) 2 2 = Some ([2; 1]%nat, [0; 1; 0; 1]%nat).
Proof. vm_compute. repeat split; reflexivity. Qed.

(* non-vacuity: duplicated points (the test-suite's repeated-point instance, shortened) and a mixed domain with a categorical *)
Example C18_example :
  k_center [[1;1]; [1;1]; [1;1]; [9;9]; [1;1]; [1;1]] 4 3 = Some ([4; 3; 0]%nat, [2; 0; 0; 1; 0; 0]%nat) /\
  view [CNum 0 4; CCat [1; 2; 5]] 2 [[0;1]; [4;2]; [1;5]; [1;1]] [5; 7; 3; 3] [false; false; false; false] true 3
    = Some [1; 0; 2]%nat.
Proof. vm_compute. split; reflexivity. Qed.

(* non-vacuity of the raw-value statements: one double in [0,4], four observations at 0, 4, 1, 3 with raw values 5, 7, 3, 4,
   the second one FAILED (its 7 is ignored), two clusters {0, 2} and {1, 3}.  Successful raw values: [5; 3; 4].
   Maximising: the best success is observation 0 (5); cluster {1, 3} returns its success 3, not the failed observation 1.
   Minimising: the best success is observation 2 (3); cluster {1, 3} returns the success 3.
   Third instance (raw value 6 instead of 4, minimising): the only success of cluster {1, 3} is the worst success overall; it
   is still returned (the failed observation 1 is +inf).  Fourth instance (observation 3 failed as well): cluster {1, 3} holds
   no success and its first member 1 is returned: the failure clause of C18_view_strict is not vacuous.
   The four view results are also what the real endpoint returns on these inputs. *)
Example C18_example_raw :
  let cs := [CNum 0 4] in let pts := [[0]; [4]; [1]; [3]] in let fails := [false; true; false; false] in
  let vals := [5; 7; 3; 4] in
  all_some (map (to_one_hot cs) pts) = Some pts /\
  select (map negb fails) vals = [5; 3; 4] /\
  masked_values (scaled_values false vals fails) fails = [Val (4 # 40); PInf; Val (-4 # 40); Val (0 # 40)] /\
  k_center (map (search_point cs 1) pts) 0 2 = Some ([0; 1]%nat, [0; 1; 0; 1]%nat) /\
  vargmin (masked_values (scaled_values true vals fails) fails) = 0%nat /\
  view cs 1 pts vals fails true 2 = Some [0; 3]%nat /\
  k_center (map (search_point cs 1) pts) 2 2 = Some ([2; 1]%nat, [0; 1; 0; 1]%nat) /\
  vargmin (masked_values (scaled_values false vals fails) fails) = 2%nat /\
  view cs 1 pts vals fails false 2 = Some [2; 3]%nat /\
  view cs 1 pts [5; 7; 3; 6] fails false 2 = Some [2; 3]%nat /\
  view cs 1 pts [5; 7; 3; 6] [false; true; false; true] false 2 = Some [2; 1]%nat.
Proof. cbv zeta. repeat split; vm_compute; reflexivity. Qed.

(* "for all histories ... failures": an observation reported as FAILED still carries a stored number (a placeholder, a sentinel
   such as 1e30 or the largest double, whatever the client sent).  The endpoint never reads it: the scale, the midpoint, the lie
   and every compared value are functions of the successful values and the failure mask alone.  `overwrite fails vals junk` is
   the history whose failed observations store the entries of `junk` instead (Model.KCenter); successes keep their values. *)
Theorem C18_scaled_values_ignore_failed_values (maximize : bool) vals fails junk :
  scaled_values maximize (overwrite fails vals junk) fails = scaled_values maximize vals fails.
Proof. exact (scaled_values_overwrite maximize vals fails junk). Qed.
Print Assumptions C18_scaled_values_ignore_failed_values.

Theorem C18_view_ignores_failed_values cs tgt points vals fails maximize k junk :
  view cs tgt points (overwrite fails vals junk) fails maximize k = view cs tgt points vals fails maximize k.
Proof. exact (view_overwrite cs tgt points vals fails maximize k junk). Qed.
Print Assumptions C18_view_ignores_failed_values.

(* pointwise form: two histories of the same length that agree on every successful observation get the same scaled values and
   the same answer *)
Theorem C18_view_depends_on_successes_only cs tgt points vals vals' fails maximize k :
  length vals = length fails -> length vals' = length fails ->
  (forall t, (t < length fails)%nat -> nth t fails true = false -> nth t vals 0 = nth t vals' 0) ->
  scaled_values maximize vals' fails = scaled_values maximize vals fails /\
  view cs tgt points vals' fails maximize k = view cs tgt points vals fails maximize k.
Proof. exact (view_agree cs tgt points vals vals' fails maximize k). Qed.
Print Assumptions C18_view_depends_on_successes_only.

(* non-vacuity: the fourth-observation history of C18_example_raw with the failed observation 1 storing 10^30 (a sentinel far
   outside the successful values 5, 3, 4) or -10^30: `overwrite` really changes the history, the compared values and the answers
   (both objectives) are those of the history that stores 7 there *)
Example C18_example_failed_sentinel :
  let cs := [CNum 0 4] in let pts := [[0]; [4]; [1]; [3]] in let fails := [false; true; false; false] in
  let vals := [5; 7; 3; 4] in let big := 1000000000000000000000000000000 in
  overwrite fails vals [0; big; 0; 0] = [5; big; 3; 4] /\
  masked_values (scaled_values false [5; big; 3; 4] fails) fails = [Val (4 # 40); PInf; Val (-4 # 40); Val (0 # 40)] /\
  view cs 1 pts [5; big; 3; 4] fails false 2 = Some [2; 3]%nat /\
  view cs 1 pts [5; - big; 3; 4] fails true 2 = Some [0; 3]%nat.
Proof. cbv zeta. repeat split; vm_compute; reflexivity. Qed.
