(* C18 — multi-solution best assignments are distinct, valid and best in their cluster.
   Only statements, each closed by `exact`, with Print Assumptions beneath. Model: LV.Model.KCenter.
   Distances are SQUARED distances throughout (d2ix pts i j = dist2 of points i and j), as in the source, which never takes
   the square root; x -> x^2 is increasing on x >= 0, so the farthest / nearest index is the same for both.
   omind pts pre t = the least squared distance from observation t to a centre listed in `pre`. *)
From Coq Require Import List QArith Bool Arith Lia.
From LV Require Import Model.KCenter Proofs.KCenter.
Import ListNotations.
Open Scope Q_scope.

(* the expanded form the source computes, fmax(0, |a|^2 + |b|^2 - 2 a.b), is the sum of squared coordinate differences *)
Theorem C18_dist2_is_squared_distance a b : length a = length b -> dist2 a b == sqdiff a b.
Proof. exact (dist2_sqdiff a b). Qed.
Print Assumptions C18_dist2_is_squared_distance.

Theorem C18_nearest_centre_distance pts pre t : pre <> [] ->
  (forall c, In c pre -> omind pts pre t <= d2ix pts c t) /\ exists c, In c pre /\ omind pts pre t = d2ix pts c t.
Proof. exact (fun H => conj (fun c Hc => omind_le pts pre t c Hc) (omind_attained pts pre t H)). Qed.
Print Assumptions C18_nearest_centre_distance.

(* k_center_clustering raises no AssertionError on 0 < k < n and a first index in range *)
Theorem C18_k_center_accepts_valid_input pts first k :
  (0 < k < length pts)%nat -> (first < length pts)%nat -> k_center pts first k <> None.
Proof. exact (k_center_total pts first k). Qed.
Print Assumptions C18_k_center_accepts_valid_input.

(* first_centre_is_given, centres_distinct, next_centre_farthest (first on ties):
   k centres, the first is the given index, pairwise distinct, in range; centre i (i >= 1) is not among centres 0..i-1, every
   other not-yet-chosen observation is no farther from the chosen centres, and every such observation with a smaller index is
   strictly nearer. *)
Theorem C18_centres_farthest_first pts first k cs part :
  k_center pts first k = Some (cs, part) ->
  length cs = k /\ hd O cs = first /\ NoDup cs /\ (forall c, In c cs -> (c < length pts)%nat) /\
  forall i, (1 <= i < k)%nat ->
    let pre := firstn i cs in let c := nth i cs O in
    (c < length pts)%nat /\ ~ In c pre /\
    (forall t, (t < length pts)%nat -> ~ In t pre -> omind pts pre t <= omind pts pre c) /\
    (forall t, (t < c)%nat -> ~ In t pre -> omind pts pre t < omind pts pre c).
Proof. exact (k_center_centres pts first k cs part). Qed.
Print Assumptions C18_centres_farthest_first.

(* partition_nearest, clusters_nonempty: every observation gets one cluster label < k; centre i is in cluster i; the centre of
   an observation's cluster is a nearest centre, and for a non-centre it is the first nearest one *)
Theorem C18_partition_nearest pts first k cs part :
  k_center pts first k = Some (cs, part) ->
  length part = length pts /\
  forall t, (t < length pts)%nat ->
    let c := nth t part O in
    (c < k)%nat /\
    (forall i, (i < k)%nat -> nth i cs O = t -> c = i) /\
    (forall j, (j < k)%nat -> d2ix pts (nth c cs O) t <= d2ix pts (nth j cs O) t) /\
    (~ In t cs -> forall j, (j < c)%nat -> d2ix pts (nth c cs O) t < d2ix pts (nth j cs O) t).
Proof. exact (k_center_partition pts first k cs part). Qed.
Print Assumptions C18_partition_nearest.

(* best_indices_distinct_valid, overall_best_included, each_is_cluster_best, for the endpoint body on ANY values and search
   points: no AssertionError for 2 <= k < n; k distinct indices in range; the first one is the first minimum of the values
   (which is also the first centre); entry c lies in cluster c and is the first minimum of the values over that cluster. *)
Theorem C18_best_assignments values spts k :
  length values = length spts -> (2 <= k < length spts)%nat ->
  exists cs part best,
    k_center spts (qargmin values) k = Some (cs, part) /\
    best_assignments values spts k = Some best /\
    length best = k /\ NoDup best /\ (forall i, In i best -> (i < length spts)%nat) /\
    hd O best = qargmin values /\
    forall c, (c < k)%nat ->
      let b := nth c best O in
      nth b part O = c /\
      (forall t, (t < length spts)%nat -> nth t part O = c -> nth b values 0 <= nth t values 0) /\
      (forall t, (t < b)%nat -> nth t part O = c -> nth b values 0 < nth t values 0).
Proof. exact (best_assignments_spec values spts k). Qed.
Print Assumptions C18_best_assignments.

Theorem C18_first_minimum l : l <> [] ->
  let r := qargmin l in
  (r < length l)%nat /\ (forall k, (k < length l)%nat -> nth r l 0 <= nth k l 0) /\ (forall k, (k < r)%nat -> nth r l 0 < nth k l 0).
Proof. exact (qargmin_first l). Qed.
Print Assumptions C18_first_minimum.

(* the same through the glue of the view: any domain (categoricals separated by tgt = sqrt(one_hot_dim)), any history whose
   categorical values are legal, failures, both objectives; values are the scaled values with failures set to the lie *)
Theorem C18_view cs tgt points vals fails maximize k ohs :
  all_some (map (to_one_hot cs) points) = Some ohs ->
  length vals = length points -> length fails = length points -> (2 <= k < length points)%nat ->
  let sv := scaled_values maximize vals fails in
  let spts := map (search_point cs tgt) ohs in
  exists centres part best,
    k_center spts (qargmin sv) k = Some (centres, part) /\
    view cs tgt points vals fails maximize k = Some best /\
    length best = k /\ NoDup best /\ (forall i, In i best -> (i < length points)%nat) /\
    hd O best = qargmin sv /\
    forall c, (c < k)%nat ->
      let b := nth c best O in
      nth b part O = c /\
      (forall t, (t < length points)%nat -> nth t part O = c -> nth b sv 0 <= nth t sv 0) /\
      (forall t, (t < b)%nat -> nth t part O = c -> nth b sv 0 < nth t sv 0).
Proof. exact (view_spec cs tgt points vals fails maximize k ohs). Qed.
Print Assumptions C18_view.

(* scaled values (failures set to the lie): with at least one success they are negate * s * (w - m) for ONE s > 0 and one m,
   w = raw value of a success, = the worst successful raw value for a failure; such a map keeps the order of the objective.
   So "best scaled value" = best raw value among successes, and a failure is never strictly better than any success; it TIES
   with the worst success (see the refuted strict reading below).  The link to the RAW values is proved below:
   C18_scaled_order_is_raw_order, C18_first_min_scaled_is_best_raw, C18_cluster_min_scaled_is_best_raw and, through the
   whole endpoint, C18_view_best_raw. *)
Theorem C18_scaled_values_affine (maximize : bool) vals fails :
  select (map negb fails) vals <> [] ->
  exists s m lie, 0 < s /\
    lie = (if maximize then lmin (select (map negb fails) vals) else lmax (select (map negb fails) vals)) /\
    scaled_values maximize vals fails =
    map (fun vf : Q * bool => (if maximize then Qopp 1 else 1) * s * ((if snd vf then lie else fst vf) - m)) (combine vals fails).
Proof. exact (scaled_values_affine maximize vals fails). Qed.
Print Assumptions C18_scaled_values_affine.

Theorem C18_affine_scaling_keeps_order (neg s m a b : Q) : 0 < s -> (neg == 1 \/ neg == -(1)) ->
  (neg * s * (a - m) <= neg * s * (b - m) <-> neg * a <= neg * b).
Proof. exact (affine_order neg s m a b). Qed.
Print Assumptions C18_affine_scaling_keeps_order.

(* RAW values.  Throughout: nf = the raw values of the successful observations (in order), lie = the worst of them for the
   objective (least when maximising, greatest when minimising), bestv = the best of them; observation t is a success when
   fails[t] = false.  "w t" below = the raw value that stands behind scaled value t: vals[t] for a success, lie for a failure. *)

(* the order of the scaled values IS the order of the objective on the raw values behind them (smaller scaled = better raw) *)
Theorem C18_scaled_order_is_raw_order (maximize : bool) vals fails t u :
  length fails = length vals ->
  let nf := select (map negb fails) vals in
  nf <> [] -> (t < length vals)%nat -> (u < length vals)%nat ->
  let sv := scaled_values maximize vals fails in
  let lie := if maximize then lmin nf else lmax nf in
  let w := fun i => if nth i fails false then lie else nth i vals 0 in
  (nth t sv 0 <= nth u sv 0 <-> if maximize then w u <= w t else w t <= w u) /\
  (nth t sv 0 < nth u sv 0 <-> if maximize then w u < w t else w t < w u) /\
  lmin nf <= w t <= lmax nf.
Proof.
  exact (fun Hl Hne Ht Hu => conj (scaled_le_iff maximize vals fails t u Hl Hne Ht Hu)
                             (conj (scaled_lt_iff maximize vals fails t u Hl Hne Ht Hu)
                                   (raw_behind_range maximize vals fails t Hl Hne Ht))).
Qed.
Print Assumptions C18_scaled_order_is_raw_order.

(* overall_best_included in the user's sense.  b = the first minimum of the scaled values (the index the view returns first,
   C18_view).  Some success has raw value bestv and every successful raw value lies between lie and bestv; the raw value
   behind b IS bestv; if b is a failure then lie == bestv, i.e. ALL successes share one raw value (the tie of the known
   finding C18:view:overall-best:only-failed-observations-returned-when-successes-tie-with-lie); hence, as soon as two
   successes differ in raw value, b is a SUCCESSFUL observation with the best raw value, and the first such index (every
   earlier success is strictly worse). *)
Theorem C18_first_min_scaled_is_best_raw (maximize : bool) vals fails :
  length fails = length vals ->
  let nf := select (map negb fails) vals in
  nf <> [] ->
  let sv := scaled_values maximize vals fails in
  let lie := if maximize then lmin nf else lmax nf in
  let bestv := if maximize then lmax nf else lmin nf in
  let b := qargmin sv in
  (b < length vals)%nat /\
  (exists t, (t < length vals)%nat /\ nth t fails true = false /\ nth t vals 0 == bestv) /\
  (forall t, (t < length vals)%nat -> nth t fails true = false ->
     if maximize then lie <= nth t vals 0 <= bestv else bestv <= nth t vals 0 <= lie) /\
  (if nth b fails false then lie else nth b vals 0) == bestv /\
  (nth b fails false = true ->
     lie == bestv /\
     forall t u, (t < length vals)%nat -> (u < length vals)%nat -> nth t fails true = false -> nth u fails true = false ->
       nth t vals 0 == nth u vals 0) /\
  ((exists t u, (t < length vals)%nat /\ (u < length vals)%nat /\ nth t fails true = false /\ nth u fails true = false /\
                ~ nth t vals 0 == nth u vals 0) ->
     nth b fails true = false /\ nth b vals 0 == bestv /\
     forall t, (t < b)%nat -> nth t fails true = false ->
       if maximize then nth t vals 0 < nth b vals 0 else nth b vals 0 < nth t vals 0).
Proof. exact (first_min_scaled_is_best_raw maximize vals fails). Qed.
Print Assumptions C18_first_min_scaled_is_best_raw.

(* each_is_cluster_best in the user's sense, for ANY set P of observations (a cluster) and any index b whose scaled value is
   the first minimum over P (what C18_view gives for the index returned for a cluster).  If b is a success: its raw value is
   at least as good as that of every successful member, strictly better than that of every earlier successful member, and
   strictly better than the lie when an earlier member failed.  If b is a failure: every successful member of P has raw
   value == lie (no successful member is strictly better than the worst success overall), and no member of P precedes b. *)
Theorem C18_cluster_min_scaled_is_best_raw (maximize : bool) vals fails (P : nat -> Prop) (b : nat) :
  length fails = length vals ->
  let nf := select (map negb fails) vals in
  nf <> [] ->
  let sv := scaled_values maximize vals fails in
  let lie := if maximize then lmin nf else lmax nf in
  (b < length vals)%nat ->
  (forall t, (t < length vals)%nat -> P t -> nth b sv 0 <= nth t sv 0) ->
  (forall t, (t < b)%nat -> P t -> nth b sv 0 < nth t sv 0) ->
  (nth b fails true = false ->
     (forall t, (t < length vals)%nat -> P t -> nth t fails true = false ->
        if maximize then nth t vals 0 <= nth b vals 0 else nth b vals 0 <= nth t vals 0) /\
     (forall t, (t < b)%nat -> P t -> nth t fails true = false ->
        if maximize then nth t vals 0 < nth b vals 0 else nth b vals 0 < nth t vals 0) /\
     (forall t, (t < b)%nat -> P t -> nth t fails false = true ->
        if maximize then lie < nth b vals 0 else nth b vals 0 < lie)) /\
  (nth b fails false = true ->
     (forall t, (t < length vals)%nat -> P t -> nth t fails true = false -> nth t vals 0 == lie) /\
     (forall t, (t < b)%nat -> ~ P t)).
Proof. exact (set_min_scaled_is_best_raw maximize vals fails P b). Qed.
Print Assumptions C18_cluster_min_scaled_is_best_raw.

(* the whole endpoint in terms of RAW values (any domain, any history with at least one success, both objectives):
   the first returned index b0, when it is a success, has a raw value at least as good as every success; it is a failure only
   when all successes share one raw value; when two successes differ it is a success, the first one with the best raw value.
   The index b returned for cluster c lies in cluster c; when it is a success its raw value is at least as good as that of
   every successful member of the cluster (strictly better than the earlier ones); it is a failure only when every successful
   member of the cluster has the worst successful raw value overall (== lie) and b is the first member of the cluster. *)
Theorem C18_view_best_raw cs tgt points vals fails maximize k ohs :
  all_some (map (to_one_hot cs) points) = Some ohs ->
  length vals = length points -> length fails = length points -> (2 <= k < length points)%nat ->
  let nf := select (map negb fails) vals in
  nf <> [] ->
  let sv := scaled_values maximize vals fails in
  let spts := map (search_point cs tgt) ohs in
  let lie := if maximize then lmin nf else lmax nf in
  exists centres part best,
    k_center spts (qargmin sv) k = Some (centres, part) /\
    view cs tgt points vals fails maximize k = Some best /\
    length best = k /\ NoDup best /\ (forall i, In i best -> (i < length points)%nat) /\
    (let b0 := hd O best in
     (nth b0 fails true = false ->
        forall t, (t < length points)%nat -> nth t fails true = false ->
          if maximize then nth t vals 0 <= nth b0 vals 0 else nth b0 vals 0 <= nth t vals 0) /\
     (nth b0 fails false = true ->
        forall t u, (t < length points)%nat -> (u < length points)%nat -> nth t fails true = false -> nth u fails true = false ->
          nth t vals 0 == nth u vals 0) /\
     ((exists t u, (t < length points)%nat /\ (u < length points)%nat /\ nth t fails true = false /\ nth u fails true = false /\
                   ~ nth t vals 0 == nth u vals 0) ->
        nth b0 fails true = false /\
        forall t, (t < b0)%nat -> nth t fails true = false ->
          if maximize then nth t vals 0 < nth b0 vals 0 else nth b0 vals 0 < nth t vals 0)) /\
    forall c, (c < k)%nat ->
      let b := nth c best O in
      nth b part O = c /\
      (nth b fails true = false ->
         (forall t, (t < length points)%nat -> nth t part O = c -> nth t fails true = false ->
            if maximize then nth t vals 0 <= nth b vals 0 else nth b vals 0 <= nth t vals 0) /\
         (forall t, (t < b)%nat -> nth t part O = c -> nth t fails true = false ->
            if maximize then nth t vals 0 < nth b vals 0 else nth b vals 0 < nth t vals 0) /\
         (forall t, (t < b)%nat -> nth t part O = c -> nth t fails false = true ->
            if maximize then lie < nth b vals 0 else nth b vals 0 < lie)) /\
      (nth b fails false = true ->
         (forall t, (t < length points)%nat -> nth t part O = c -> nth t fails true = false -> nth t vals 0 == lie) /\
         (forall t, (t < b)%nat -> nth t part O <> c)).
Proof. exact (view_best_raw cs tgt points vals fails maximize k ohs). Qed.
Print Assumptions C18_view_best_raw.

(* STRICT reading of "one of which is the overall best observation" (a SUCCESSFUL observation with the best raw value is
   returned) is false of the faithful model: with one success among failures every scaled value ties with the lie, the first
   index is taken as the best and only failed observations come back.  Witness replayed on the real endpoint by the searcher
   (corpus/C18/c18_only_failed_returned.json). *)
Theorem C18_overall_best_strict_refuted :
  exists cs tgt points vals fails maximize k best,
    length vals = length points /\ length fails = length points /\ (2 <= k < length points)%nat /\
    view cs tgt points vals fails maximize k = Some best /\
    (exists i, nth i fails true = false) /\ (forall i, In i best -> nth i fails false = true).
Proof.
  exists [CNum 0 4], 1, [[0]; [4]; [1]], [5; 7; 3], [true; true; false], false, 2%nat, [0; 1]%nat.
  split; [reflexivity|]. split; [reflexivity|]. split; [simpl; lia|]. split; [vm_compute; reflexivity|].
  split; [exists 2%nat; reflexivity|]. intros i [<-|[<-|[]]]; reflexivity.
Qed.
Print Assumptions C18_overall_best_strict_refuted.

(* non-vacuity: duplicated points (the test-suite's repeated-point instance, shortened) and a mixed domain with a categorical *)
Example C18_example :
  k_center [[1;1]; [1;1]; [1;1]; [9;9]; [1;1]; [1;1]] 4 3 = Some ([4; 3; 0]%nat, [2; 0; 0; 1; 0; 0]%nat) /\
  view [CNum 0 4; CCat [1; 2; 5]] 2 [[0;1]; [4;2]; [1;5]; [1;1]] [5; 7; 3; 3] [false; false; false; false] true 3
    = Some [1; 0; 2]%nat.
Proof. vm_compute. split; reflexivity. Qed.

(* non-vacuity of the raw-value statements: one double in [0,4], four observations at 0, 4, 1, 3 with raw values 5, 7, 3, 4,
   the second one FAILED (its 7 is ignored), two clusters {0, 2} and {1, 3}.  Successful raw values: [5; 3; 4].
   Maximising: lie = 3, the best success is observation 0 (5); cluster {1, 3} returns the success 3 (4 beats the lie 3).
   Minimising: lie = 5, the best success is observation 2 (3); cluster {1, 3} returns the success 3 (4 beats the lie 5).
   Third instance (raw value 6 instead of 4, minimising): the only success of cluster {1, 3} IS the worst success (6 = lie), it
   ties with the failed observation 1, which comes first and is returned: the failure clause of C18_view_best_raw is sharp.
   The three view results are also what the real endpoint returns on these inputs. *)
Example C18_example_raw :
  let cs := [CNum 0 4] in let pts := [[0]; [4]; [1]; [3]] in let fails := [false; true; false; false] in
  let vals := [5; 7; 3; 4] in
  all_some (map (to_one_hot cs) pts) = Some pts /\
  select (map negb fails) vals = [5; 3; 4] /\
  (exists t u, (t < length pts)%nat /\ (u < length pts)%nat /\ nth t fails true = false /\ nth u fails true = false /\
               ~ nth t vals 0 == nth u vals 0) /\
  k_center (map (search_point cs 1) pts) 0 2 = Some ([0; 1]%nat, [0; 1; 0; 1]%nat) /\
  qargmin (scaled_values true vals fails) = 0%nat /\
  view cs 1 pts vals fails true 2 = Some [0; 3]%nat /\
  k_center (map (search_point cs 1) pts) 2 2 = Some ([2; 1]%nat, [0; 1; 0; 1]%nat) /\
  qargmin (scaled_values false vals fails) = 2%nat /\
  view cs 1 pts vals fails false 2 = Some [2; 3]%nat /\
  view cs 1 pts [5; 7; 3; 6] fails false 2 = Some [2; 1]%nat.
Proof.
  cbv zeta. repeat split; try (vm_compute; reflexivity).
  exists 0%nat, 2%nat. repeat split; try (simpl; lia). intros H. vm_compute in H. discriminate.
Qed.
