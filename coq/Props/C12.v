(* C12 -- Metric normalisation is an order-respecting, invertible affine map.
   Only statements, each closed by `exact`, with Print Assumptions beneath.  Model: LV.Model.Midpoint
   (smmi = SingleMetricMidpointInfo.__init__, mmi = MultiMetricMidpointInfo.__init__, rel_value / undo_value / rel_var /
   undo_var / lie_value = the methods, preprocess = View._preprocess_{optimization,constraint}_metrics).
   Every division of the code is the guarded Qdiv_safe: a result `Some _` means no division by zero happened, which is
   the only source of NaN / inf on finite inputs. *)
From Coq Require Import List QArith Qabs Bool Arith.
From LV Require Import Model.Midpoint Proofs.Midpoint.
Import ListNotations.
Open Scope Q_scope.

(* Order: for both objectives (and objective None = maximise), every branch of the constructor, all values a b (observed,
   lie or threshold): a is better than b in the user's sense  <->  a's scaled value is strictly smaller.  Hence equal
   values stay equal and no pair is ever flipped. *)
Theorem C12_order_law vals fails o i a b : smmi vals fails o = Some i ->
  (better o a b <-> rel_value i a < rel_value i b).
Proof. exact (order_law_c vals fails o i a b). Qed.
Print Assumptions C12_order_law.

(* Inverse, both directions; the division in undo_scaling never has a zero denominator. *)
Theorem C12_undo_after_scale vals fails o i v : smmi vals fails o = Some i ->
  exists v', undo_value i (rel_value i v) = Some v' /\ v' == v.
Proof. exact (undo_relative_id_c vals fails o i v). Qed.
Print Assumptions C12_undo_after_scale.

Theorem C12_scale_after_undo vals fails o i y : smmi vals fails o = Some i ->
  exists v, undo_value i y = Some v /\ rel_value i v == y.
Proof. exact (relative_undo_id_c vals fails o i y). Qed.
Print Assumptions C12_scale_after_undo.

(* Span: the regular branch is taken exactly when two non-failed values differ by at least 2e-8 (non-degenerate
   metric); then all non-failed values land in [-0.1, 0.1] and both ends are attained. *)
Theorem C12_span_exact vals fails o i : smmi vals fails o = Some i ->
  (i_branch i = BRegular <->
   exists a b, In a (nonfail vals fails) /\ In b (nonfail vals fails) /\ 2 * MIN_HALF_WIDTH <= a - b) /\
  (i_branch i = BRegular ->
   (forall v, In v (nonfail vals fails) -> -(1 # 10) <= rel_value i v <= 1 # 10) /\
   (exists lo, In lo (nonfail vals fails) /\ rel_value i lo == -(1 # 10)) /\
   (exists hi, In hi (nonfail vals fails) /\ rel_value i hi == 1 # 10)).
Proof. exact (span_exact_c vals fails o i). Qed.
Print Assumptions C12_span_exact.

(* Variances: the squared slope of the value map is var_factor (scale^2, or 1 in skip mode); the scaled variance is the
   larger of w * var_factor and the floor (1e-10, or 1e-6 in skip mode), never below the minimum variance 1e-10; when the
   floor is not hit, undo_scaling_variances recovers w. *)
Theorem C12_variance_law vals fails o i w a b : smmi vals fails o = Some i ->
  (rel_value i a - rel_value i b) * (rel_value i a - rel_value i b) == var_factor i * ((a - b) * (a - b)) /\
  MIN_VALUE_VAR <= rel_var i w /\ var_floor i <= rel_var i w /\ w * var_factor i <= rel_var i w /\
  (rel_var i w == w * var_factor i \/ rel_var i w == var_floor i) /\
  (var_floor i <= w * var_factor i -> exists w', undo_var i (rel_var i w) = Some w' /\ w' == w).
Proof. exact (variance_law_c vals fails o i w a b). Qed.
Print Assumptions C12_variance_law.

(* Lie: with at least one success, the constant-liar-min value is a non-failed value, no non-failed value is worse in
   the user's sense, and after scaling it is the largest non-failed value. *)
Theorem C12_lie_is_worst vals fails o i : smmi vals fails o = Some i -> nonfail vals fails <> [] ->
  exists l, lie_value i LieMin = Some l /\ In l (nonfail vals fails) /\
    (forall v, In v (nonfail vals fails) -> ~ better o l v) /\
    (forall v, In v (nonfail vals fails) -> rel_value i v <= rel_value i l).
Proof. exact (lie_is_worst vals fails o i). Qed.
Print Assumptions C12_lie_is_worst.

(* Never NaN / inf: for ALL value lists, failure masks (all-failed, identical values, any offsets) and objectives the
   constructor, both inverse maps and every lie method are defined (every denominator is non-zero in its branch). *)
Theorem C12_no_nan vals fails o : exists i, smmi vals fails o = Some i /\
  (forall y, undo_value i y <> None) /\ (forall w, undo_var i w <> None) /\ (forall m, lie_value i m <> None).
Proof. exact (no_nan vals fails o). Qed.
Print Assumptions C12_no_nan.

(* Degenerate inputs: nothing succeeded -> skip mode, scaling is multiplication by the sign; otherwise the scale is
   strictly positive; identical values -> one of the two degenerate-width fallbacks (never the division by max - min). *)
Theorem C12_degenerate vals fails o i : smmi vals fails o = Some i ->
  (nonfail vals fails = [] -> i_skip i = true /\ forall v, rel_value i v == negate_of o * v) /\
  (i_skip i = false -> 0 < i_scale i) /\
  (forall x, (forall v, In v (nonfail vals fails) -> v == x) -> nonfail vals fails <> [] ->
     i_skip i = false /\ (i_branch i = BDegenBig \/ i_branch i = BDegenSmall)).
Proof. exact (degenerate_c vals fails o i). Qed.
Print Assumptions C12_degenerate.

(* Any number of metrics: the multi-metric object always exists and is exactly the tuple of the single-metric objects
   of its columns (so every law above holds per metric); all metrics are in skip mode together. *)
Theorem C12_multi_is_columnwise m vals fails objs :
  exists infos, mmi m vals fails objs = Some infos /\ length infos = m /\
    forall k, (k < m)%nat ->
      smmi (column k vals) fails (obj_at objs k) = Some (nth k infos dinfo) /\
      i_skip (nth k infos dinfo) = m_skip infos.
Proof. exact (mmi_is_columnwise m vals fails objs). Qed.
Print Assumptions C12_multi_is_columnwise.

(* The view: preprocessing is always defined; for the j-th selected metric (column c = ix[j]) the outputs are those of
   the single-metric object i of that column: failed rows hold the scaled constant-liar-min lie, the other rows the scaled
   value, every entry is <= the scaled lie, and a threshold is scaled by the same map (None = no threshold stays None),
   so by C12_order_law "value better than threshold" <-> "scaled value < scaled threshold". *)
Theorem C12_view_law ix vals vars fails objs thr : length fails = length vals ->
  exists out, preprocess ix vals vars fails objs thr = Some out /\
    length (v_lie out) = length ix /\ length (v_values out) = length vals /\
    forall j, (j < length ix)%nat ->
      let c := nth j ix O in
      exists i l,
        smmi (column c vals) fails (nth c objs NoObjective) = Some i /\
        lie_value i LieMin = Some l /\
        nth j (v_lie out) 0 = rel_value i l /\
        (forall r, (r < length vals)%nat ->
           nth j (nth r (v_values out) []) 0 =
           if nth r fails false then rel_value i l else rel_value i (nth c (nth r vals []) 0)) /\
        (forall r, (r < length vals)%nat -> nth j (nth r (v_values out) []) 0 <= nth j (v_lie out) 0) /\
        nth j (v_thresholds out) None = option_map (rel_value i) (nth c thr None).
Proof. exact (view_law ix vals vars fails objs thr). Qed.
Print Assumptions C12_view_law.

(* "Failure masks (none, some, all)": an observation reported as FAILED still carries a stored number (a placeholder, a sentinel
   such as 1e30 or the largest double, whatever the client sent).  The normalisation never reads it.  `overwrite_failed fails vals
   junk` is the history whose failed observations store the entries of `junk` instead (non-failed entries kept): the whole scaling
   object of a metric - skip flag, branch, sign, MIDPOINT, SCALE, non-failed values, hence every scaled success, every lie and every
   inverse - is the same, for one metric, for several, and through the view (where the failed rows hold the scaled lie). *)
Theorem C12_failed_values_ignored vals fails junk o : smmi (overwrite_failed fails vals junk) fails o = smmi vals fails o.
Proof. exact (smmi_overwrite_failed vals fails junk o). Qed.
Print Assumptions C12_failed_values_ignored.

Theorem C12_multi_failed_values_ignored m vals fails junk objs :
  mmi m (overwrite_failed fails vals junk) fails objs = mmi m vals fails objs.
Proof. exact (mmi_overwrite_failed m vals fails junk objs). Qed.
Print Assumptions C12_multi_failed_values_ignored.

Theorem C12_view_failed_values_ignored ix vals vars fails objs thr junk :
  preprocess ix (overwrite_failed fails vals junk) vars fails objs thr = preprocess ix vals vars fails objs thr.
Proof. exact (preprocess_overwrite_failed ix vals vars fails objs thr junk). Qed.
Print Assumptions C12_view_failed_values_ignored.

(* non-vacuity: the failed observation of C12_example storing 10^30 instead of 100 (overwrite_failed really changes the history);
   midpoint 2 and scale 1/10 as before *)
Example C12_example_failed_sentinel :
  let big := 1000000000000000000000000000000 in
  overwrite_failed [false; true; false; false] [3; 100; 1; 2] [0; big; 0; 0] = [3; big; 1; 2] /\
  exists i, smmi [3; big; 1; 2] [false; true; false; false] Maximize = Some i /\ i_branch i = BRegular /\
    i_mid i == 2 /\ i_scale i == 1 # 10 /\ rel_value i 3 == -(1 # 10) /\ rel_value i 1 == 1 # 10.
Proof.
  cbv zeta. split; [reflexivity|]. eexists. split; [vm_compute; reflexivity|]. vm_compute. repeat split; reflexivity || discriminate.
Qed.

(* non-vacuity: a regular maximised metric with one failure, an all-failed one, and a constant one at a large offset *)
Example C12_example :
  (exists i, smmi [3; 100; 1; 2] [false; true; false; false] Maximize = Some i /\ i_branch i = BRegular /\
     i_mid i == 2 /\ i_scale i == 1 # 10 /\ rel_value i 3 == -(1 # 10) /\ rel_value i 1 == 1 # 10 /\
     lie_value i LieMin = Some 1 /\ undo_value i (1 # 20) = Some ((-1 * (1 # 20)) / (2 * (1 # 10) / (3 - 1)) + (3 + 1) * (1 # 2))) /\
  (exists i, smmi [3; 4] [true; true] Minimize = Some i /\ i_skip i = true /\ lie_value i LieMin = Some DEFAULT_LIE) /\
  (exists i, smmi [1000; 1000] [false; false] Minimize = Some i /\ i_branch i = BDegenBig /\ i_mid i == 1000 /\
     i_scale i == 1 # 1000).
Proof.
  split; [|split].
  - eexists. split; [vm_compute; reflexivity|]. vm_compute. repeat split; reflexivity || discriminate.
  - eexists. split; [vm_compute; reflexivity|]. vm_compute. repeat split; reflexivity.
  - eexists. split; [vm_compute; reflexivity|]. vm_compute. repeat split; reflexivity.
Qed.
