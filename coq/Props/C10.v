(* C10 — Distinct and random sampling: no repeats, full support, priors honoured.
   Only statements, each closed by `exact`, with Print Assumptions beneath.  Model: LV.Model.Distinct; the specification
   vocabulary (peq, wf_dom, typed, enumerative, oracle_ok, In_domain, draw_ok, cols_ok, keep_mask) is in LV.Proofs.Distinct. *)
From Coq Require Import List QArith ZArith Bool Arith SetoidList.
From LV Require Import Model.Distinct Proofs.Distinct.
Import ListNotations.
Open Scope Q_scope.

(* ---- index <-> configuration bijection (map_index_to_discrete_point / map_discrete_point_to_index) *)
Theorem C10_index_roundtrip els : wf_els els -> forall i, (0 <= i < total_of els)%Z ->
  point_to_index els (index_to_point els i) = Some i /\ length (index_to_point els i) = length els.
Proof. exact (index_roundtrip els). Qed.
Print Assumptions C10_index_roundtrip.

Theorem C10_point_roundtrip els : wf_els els -> forall p i, length p = length els -> point_to_index els p = Some i ->
  (0 <= i < total_of els)%Z /\ peqb (index_to_point els i) p = true.
Proof. exact (point_roundtrip els). Qed.
Print Assumptions C10_point_roundtrip.

(* the configuration space the counts refer to: the cartesian product of the element lists, total_of many rows *)
Theorem C10_configs_enumeration d :
  zlen (configs d) = total_of (map elements d) /\
  forall c, In c (configs d) <-> Forall2 (fun e x => In x e) (map elements d) c.
Proof. exact (conj (configs_length d) (configs_In d)). Qed.
Print Assumptions C10_configs_enumeration.

Theorem C10_in_domain_decided d p : in_domain_b d p = true <-> In_domain d p.
Proof. exact (in_domain_b_iff d p). Qed.
Print Assumptions C10_in_domain_decided.

(* ---- distinct sampling.  For a well-formed discrete domain with fewer than 10^5 configurations, any typed history
   (repeats, out-of-range rows), any k >= 0, on the enumerating branch (more requested than remain, or
   k + #distinct in-domain history rows > duplicate_prob * total), and whatever numpy.random.choice(replace=False)
   returns within its contract: exactly min(k, #unobserved) rows, pairwise distinct, all in the domain, none observed. *)
Theorem C10_distinct_spec d k h dp orc cols :
  wf_dom d = true -> is_discrete d = true -> (total_of (map elements d) < max_search)%Z -> (0 <= k)%Z ->
  Forall (fun p => typed d p = true) h ->
  enumerative d k h dp ->
  oracle_ok (distinct_plan d k h dp) orc ->
  exists r, distinct_points d k h dp orc cols = Some r /\
    zlen r = Z.min k (zlen (unobserved d h)) /\ NoDupA peq r /\
    Forall (fun p => in_domain_b d p = true) r /\ Forall (fun p => ~ InA peq p h) r.
Proof. exact (distinct_spec d k h dp orc cols). Qed.
Print Assumptions C10_distinct_spec.

(* Without the branch hypothesis the clause is false: 5000 configurations, 3 history rows, k = 2, default
   duplicate_prob: admissible draws return the same observed configuration twice (known finding
   "C10:iid-shortcut-below-duplicate-prob"). *)
Theorem C10_distinct_shortcut_refuted :
  exists d k h dp orc cols r,
    wf_dom d = true /\ is_discrete d = true /\ (total_of (map elements d) < max_search)%Z /\ (0 <= k)%Z /\
    Forall (fun p => typed d p = true) h /\ oracle_ok (distinct_plan d k h dp) orc /\
    cols_ok (Z.to_nat k) (quasi_requests d) cols /\
    distinct_points d k h dp orc cols = Some r /\
    ~ NoDupA peq r /\ (exists p, In p r /\ InA peq p h) /\ ~ enumerative d k h dp.
Proof. exact distinct_shortcut_refuted. Qed.
Print Assumptions C10_distinct_shortcut_refuted.

(* ---- de-duplication.  `far` is the library's test: standardised Euclidean distance > tol * sqrt(dim), on squares *)
Theorem C10_far_meaning V tol u v :
  far V tol u v = true <-> tol < 0 \/ tol * tol * inject_Z (zlen V) < sdist2 V u v.
Proof. exact (far_iff V tol u v). Qed.
Print Assumptions C10_far_meaning.

(* member j is kept iff it is far from every earlier member (dropped or not) and from every history row; in
   particular member 0 can only be dropped by the history *)
Theorem C10_dedupe_member_rule d tol eps ehs j : (j < length eps)%nat ->
  nth j (keep_mask d tol eps ehs) false =
  forallb (fun e => far (map scale1 d) tol e (nth j eps [])) (firstn j eps) &&
  forallb (fun c => far (map scale1 d) tol c (nth j eps [])) ehs.
Proof. exact (keep_mask_nth d tol eps ehs j). Qed.
Print Assumptions C10_dedupe_member_rule.

(* replace_duplicate_points = kept members in order, then the distinct sampler's rows for the dropped count
   (eps / ehs: batch and history with category labels replaced by their positions) *)
Theorem C10_dedupe_spec d pts hist tol orc cols eps ehs :
  all_some (map (enum_point d) pts) = Some eps -> all_some (map (enum_point d) hist) = Some ehs ->
  let kept := select (keep_mask d tol eps ehs) pts in
  replace_duplicates d pts hist tol orc cols =
    match distinct_points d (zlen pts - zlen kept) hist default_dup_prob orc cols with
    | Some fill => Some (kept ++ fill)
    | None => None
    end.
Proof. exact (dedupe_spec d pts hist tol orc cols eps ehs). Qed.
Print Assumptions C10_dedupe_spec.

(* batch size restored whenever enough unobserved configurations exist (enumerating branch) *)
Theorem C10_dedupe_size d pts hist tol orc cols eps ehs :
  all_some (map (enum_point d) pts) = Some eps -> all_some (map (enum_point d) hist) = Some ehs ->
  let kept := select (keep_mask d tol eps ehs) pts in
  let m := (zlen pts - zlen kept)%Z in
  wf_dom d = true -> is_discrete d = true -> (total_of (map elements d) < max_search)%Z ->
  Forall (fun p => typed d p = true) hist ->
  enumerative d m hist default_dup_prob ->
  oracle_ok (distinct_plan d m hist default_dup_prob) orc ->
  exists fill, replace_duplicates d pts hist tol orc cols = Some (kept ++ fill) /\
    zlen fill = Z.min m (zlen (unobserved d hist)) /\
    ((m <= zlen (unobserved d hist))%Z -> zlen (kept ++ fill) = zlen pts) /\
    NoDupA peq fill /\ Forall (fun p => in_domain_b d p = true) fill /\ Forall (fun p => ~ InA peq p hist) fill.
Proof. exact (dedupe_size d pts hist tol orc cols eps ehs). Qed.
Print Assumptions C10_dedupe_size.

(* ... and always on the random branches (non-discrete or huge domain, shortcut) *)
Theorem C10_dedupe_size_random d pts hist tol orc cols eps ehs n :
  all_some (map (enum_point d) pts) = Some eps -> all_some (map (enum_point d) hist) = Some ehs ->
  let kept := select (keep_mask d tol eps ehs) pts in
  distinct_plan d (zlen pts - zlen kept) hist default_dup_prob = PRandom n ->
  exists fill, replace_duplicates d pts hist tol orc cols = Some (kept ++ fill) /\ zlen (kept ++ fill) = zlen pts.
Proof. exact (dedupe_size_random d pts hist tol orc cols eps ehs n). Qed.
Print Assumptions C10_dedupe_size_random.

(* ---- plain random sampling: the draw requested for a parameter (randint(lo, hi + 1), choice over the elements,
   uniform(lo, hi)) covers exactly the parameter's values: every int with both bounds, every category, every grid
   element *)
Theorem C10_full_support c x : in_comp c x <-> draw_ok (request1 c) x.
Proof. exact (full_support c x). Qed.
Print Assumptions C10_full_support.

Theorem C10_quasi_random_in_domain d n cols : cols_ok (Z.to_nat n) (quasi_requests d) cols ->
  Forall (In_domain d) (quasi_random n cols).
Proof. exact (quasi_random_in_domain d n cols). Qed.
Print Assumptions C10_quasi_random_in_domain.

Theorem C10_quasi_random_reaches d p : In_domain d p ->
  exists cols, cols_ok 1 (quasi_requests d) cols /\ quasi_random 1 cols = [p].
Proof. exact (quasi_random_reaches d p). Qed.
Print Assumptions C10_quasi_random_reaches.

(* ---- priors: truncnorm is requested with standardised bounds ((lo-m)/s, (hi-m)/s), loc m, scale s, whose support
   is exactly [lo, hi]; beta with loc lo and scale hi-lo, support [lo, hi]; no prior = the plain draw *)
Theorem C10_prior_normal_truncated lo hi m s x : ~ s == 0 ->
  exists a b, request_prior (CDouble lo hi) (Normal m s) = RTruncnorm a b m s /\
    a == (lo - m) / s /\ b == (hi - m) / s /\
    (draw_ok (RTruncnorm a b m s) x <-> lo <= x /\ x <= hi).
Proof. exact (prior_normal_truncated lo hi m s x). Qed.
Print Assumptions C10_prior_normal_truncated.

Theorem C10_prior_beta_scaled lo hi a b x :
  request_prior (CDouble lo hi) (Beta a b) = RBeta a b lo (hi - lo) /\
  (draw_ok (RBeta a b lo (hi - lo)) x <-> lo <= x /\ x <= hi).
Proof. exact (prior_beta_scaled lo hi a b x). Qed.
Print Assumptions C10_prior_beta_scaled.

Theorem C10_prior_absent c : request_prior c NoPrior = request1 c.
Proof. exact (prior_absent c). Qed.
Print Assumptions C10_prior_absent.

(* the random, SPE-initialisation and SPE-search-initialisation paths use the prior sampler iff priors are supplied
   and the domain is unconstrained *)
Theorem C10_view_dispatch {A} (ps : list A) constrained :
  view_path ps constrained = UsePriors <-> ps <> [] /\ constrained = false.
Proof. exact (view_dispatch ps constrained). Qed.
Print Assumptions C10_view_dispatch.

(* a whole SPE request: the estimator produces the suggestions only when the experiment is past its initialisation phase, has more than
   1.7 observations per open suggestion and the estimator could be formed ... *)
Theorem C10_spe_view_estimator_iff {A} (ps : list A) constrained init obs open formed :
  spe_view_sampler ps constrained init obs open formed = SEstimator <->
  init = false /\ sample_randomly obs open = false /\ formed = true.
Proof. exact (spe_view_estimator_iff ps constrained init obs open formed). Qed.
Print Assumptions C10_spe_view_estimator_iff.

(* ... and EVERY other route (initialisation phase, many open suggestions, too little data for the estimator) is a random-suggestion path
   that draws from the priors iff priors are supplied and the domain is unconstrained *)
Theorem C10_spe_view_random_routes {A} (ps : list A) constrained init obs open formed :
  init = true \/ sample_randomly obs open = true \/ formed = false ->
  spe_view_sampler ps constrained init obs open formed = random_sampler ps constrained /\
  (spe_view_sampler ps constrained init obs open formed = SPriors <-> ps <> [] /\ constrained = false).
Proof. exact (spe_view_random_routes ps constrained init obs open formed). Qed.
Print Assumptions C10_spe_view_random_routes.

(* the search variant: its initialisation sequence, and every random route of the SPE request its exploitation phase delegates to *)
Theorem C10_spe_search_view_random_routes {A} (ps : list A) constrained ph init obs open formed :
  ph = SearchInit \/ (ph = SearchExploit /\ (init = true \/ sample_randomly obs open = true \/ formed = false)) ->
  spe_search_view_sampler ps constrained ph init obs open formed = random_sampler ps constrained /\
  (spe_search_view_sampler ps constrained ph init obs open formed = SPriors <-> ps <> [] /\ constrained = false).
Proof. exact (spe_search_view_random_routes ps constrained ph init obs open formed). Qed.
Print Assumptions C10_spe_search_view_random_routes.

Theorem C10_sample_randomly_spec obs open : sample_randomly obs open = true <-> inject_Z obs <= (17 # 10) * inject_Z open.
Proof. exact (sample_randomly_spec obs open). Qed.
Print Assumptions C10_sample_randomly_spec.

(* non-vacuity: priors on an unconstrained domain, past the initialisation phase, 6 observations, no open suggestion, the estimator refused
   (fewer than 10 observations): the suggestions come from the priors; with 12 observations and a formed estimator they come from the estimator;
   with 12 observations and 8 open suggestions (12 <= 13.6) from the priors again *)
Example C10_spe_view_example :
  spe_view_sampler [Normal (-100) 5; NoPrior] false false 6 0 false = SPriors /\
  spe_view_sampler [Normal (-100) 5; NoPrior] false false 12 0 true = SEstimator /\
  spe_view_sampler [Normal (-100) 5; NoPrior] false false 12 8 true = SPriors /\
  spe_view_sampler [Normal (-100) 5; NoPrior] true false 6 0 false = SQuasi /\
  spe_search_view_sampler [Normal (-100) 5; NoPrior] false SearchExploit false 6 0 false = SPriors.
Proof. vm_compute. repeat split; reflexivity. Qed.

(* non-vacuity: 15 configurations, one observed 14 times plus an out-of-domain row, ask 5 *)
Example C10_example :
  let d := [CInt 0 4; CCat [1; 2; 5]%Z] in
  let h := repeat [2; 5] 14 ++ [[9; 1]] in
  wf_dom d = true /\ is_discrete d = true /\ Forall (fun p => typed d p = true) h /\
  enumerative d 5 h 0 /\ oracle_ok (distinct_plan d 5 h 0) [0; 3; 7; 9; 13]%Z /\
  distinct_points d 5 h 0 [0; 3; 7; 9; 13]%Z [] = Some [[0; 1]; [3; 1]; [2; 2]; [4; 2]; [3; 5]] /\
  zlen (unobserved d h) = 14%Z.
Proof. exact distinct_example. Qed.
