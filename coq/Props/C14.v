(* C14 — Multi-metric scheduling and data filtering follow their contracts.
   Only statements, each closed by `exact`, with Print Assumptions beneath.
   Models: LV.Model.Phases, LV.Model.Filters (and LV.Model.Pareto for the epsilon-constraint labelling). *)
From Coq Require Import List QArith ZArith Bool Arith.
From LV Require Import Model.Pareto Proofs.Pareto Model.Phases Proofs.Phases Model.Filters Proofs.Filters.
Import ListNotations.
Open Scope Q_scope.

(* ---- phase selectors: total -------------------------------------------------------------------------------- *)
(* For every budget, count, failure count and number of open suggestions (any integers, budgets below the failure
   count and zero open suggestions included) the divisor is >= 1 and a phase is returned; the keyword argument
   "fraction_of_phase_completed" is present exactly for the three phases that read it and lies in (0, 1]. *)
Theorem C14_multimetric_phase_total thr b c f o :
  (1 <= adjusted_budget b f o)%Z /\
  match snd (mm_stage thr b c f o) with
  | Some cf => needs_fraction (fst (mm_stage thr b c f o)) = true /\ 0 < cf <= 1
  | None => needs_fraction (fst (mm_stage thr b c f o)) = false
  end.
Proof. exact (mm_phase_total thr b c f o). Qed.
Print Assumptions C14_multimetric_phase_total.

(* The phase is the position of the served fraction among the documented fractions 15/30/45/55/65 (55 with
   thresholds)/95 %, with initialisation also while at most 10 % is completed. *)
Theorem C14_multimetric_stage_table thr b c f o :
  let fs := fraction_served b c f o in let fc := fraction_completed b c f o in
  let s := fst (mm_stage thr b c f o) in
  (s = MInit <-> fs <= 15#100 \/ fc <= 1#10) /\
  (s = MOptOne <-> ~ (fs <= 15#100 \/ fc <= 1#10) /\ fs <= 30#100) /\
  (s = MRandom <-> ~ fc <= 1#10 /\ 30#100 < fs <= 45#100) /\
  (s = MSeq <-> ~ fc <= 1#10 /\ 45#100 < fs <= 55#100) /\
  (s = MPolish <-> ~ fc <= 1#10 /\ 55#100 < fs <= POLISH_ONE_METRIC_FRAC thr) /\
  (s = MEps <-> ~ fc <= 1#10 /\ POLISH_ONE_METRIC_FRAC thr < fs <= 95#100) /\
  (s = MCompletion <-> ~ fc <= 1#10 /\ 95#100 < fs).
Proof. exact (mm_stage_table thr b c f o). Qed.
Print Assumptions C14_multimetric_stage_table.

(* The metric optimised in the one-metric and epsilon phases alternates with the parity of the observation count. *)
Theorem C14_multimetric_label_parity thr b c f o :
  let l := fst (mm_phase thr b c f o) in
  (l = LOpt1 \/ l = LEps1 -> Z.odd c = true) /\ (l = LOpt0 \/ l = LEps0 -> Z.odd c = false).
Proof. exact (mm_label_parity thr b c f o). Qed.
Print Assumptions C14_multimetric_label_parity.

(* ---- phase selectors: monotone in the observation count (reading of DESIGN 7.0) ---------------------------- *)
Theorem C14_multimetric_phase_monotone thr b f o c c' : (c <= c')%Z ->
  (mstage_ix (fst (mm_stage thr b c f o)) <= mstage_ix (fst (mm_stage thr b c' f o)))%Z.
Proof. exact (mm_stage_monotone thr b f o c c'). Qed.
Print Assumptions C14_multimetric_phase_monotone.

Theorem C14_search_phase_table b o f c :
  let fs := fraction_served b c f o in
  (search_phase b c o f = SInit <-> fs <= 2#10) /\
  (search_phase b c o f = SExploit <-> 2#10 < fs <= 4#10) /\
  (search_phase b c o f = SResolve <-> 4#10 < fs).
Proof. exact (search_phase_table b o f c). Qed.
Print Assumptions C14_search_phase_table.

Theorem C14_search_phase_monotone b o f c c' : (c <= c')%Z ->
  (sphase_ix (search_phase b c o f) <= sphase_ix (search_phase b c' o f))%Z.
Proof. exact (search_phase_monotone b o f c c'). Qed.
Print Assumptions C14_search_phase_monotone.

(* Parzen-estimator selector: budget >= 1 (the caller substitutes 50 * dim for a missing or zero budget: C14_spe_view_budget
   below), counts >= 0. *)
Theorem C14_spe_phase_monotone b f c c' : (1 <= b)%Z -> (0 <= f)%Z -> (0 <= c <= c')%Z ->
  (pphase_ix (fst (spe_phase b c f)) <= pphase_ix (fst (spe_phase b c' f)))%Z.
Proof. exact (spe_phase_monotone b f c c'). Qed.
Print Assumptions C14_spe_phase_monotone.

(* The table of the Parzen-estimator selector: initialisation while the successful fraction is below 15 % (unless more than
   30 % of the budget is spent and more than 10 % of the observations succeeded), completion from 75 % on; the progress
   returned is the successful fraction. *)
Theorem C14_spe_phase_table b c f :
  let sp := success_progress b c f in let tp := total_progress b c in let pr := success_proportion c f in
  let p := fst (spe_phase b c f) in
  (p = PInit <-> sp < 15#100 /\ ~ (30#100 < tp /\ 1#10 < pr)) /\
  (p = PSko <-> ~ (sp < 15#100 /\ ~ (30#100 < tp /\ 1#10 < pr)) /\ sp < 75#100) /\
  (p = PCompletion <-> 75#100 <= sp) /\ snd (spe_phase b c f) = sp.
Proof. exact (spe_phase_table b c f). Qed.
Print Assumptions C14_spe_phase_table.

(* "for every budget ... the Parzen-estimator selector returns a phase": the hypothesis `1 <= b` above is DISCHARGED by the
   request view (SPENextPoints.view: `observation_budget or dim * 50`).  For every request -- no budget (None), budget 0,
   any positive budget -- on a domain of at least one parameter the budget handed to the selector is >= 1, a phase is
   served, and it is the selector's phase at the effective budget: the request's own budget when positive, the phantom
   budget 50 * dim otherwise. *)
Theorem C14_spe_view_budget ob dim : (1 <= dim)%Z -> budget_ok ob ->
  (1 <= spe_view_budget ob dim)%Z /\
  (forall b, ob = Some b -> (1 <= b)%Z -> spe_view_budget ob dim = b) /\
  (ob = None \/ ob = Some 0%Z -> spe_view_budget ob dim = (50 * dim)%Z).
Proof. exact (fun Hd Hb => conj (spe_view_budget_pos ob dim Hd Hb) (spe_view_budget_cases ob dim)). Qed.
Print Assumptions C14_spe_view_budget.

Theorem C14_spe_view_phase_total ob dim c f : (1 <= dim)%Z -> budget_ok ob ->
  let eff := match ob with Some b => if (1 <=? b)%Z then b else (50 * dim)%Z | None => (50 * dim)%Z end in
  (1 <= eff)%Z /\ spe_view_phase ob dim c f = Some (spe_phase eff c f).
Proof. exact (spe_view_phase_total ob dim c f). Qed.
Print Assumptions C14_spe_view_phase_total.

Theorem C14_spe_view_phase_monotone ob dim f c c' : (1 <= dim)%Z -> budget_ok ob -> (0 <= f)%Z -> (0 <= c <= c')%Z ->
  match spe_view_phase ob dim c f, spe_view_phase ob dim c' f with
  | Some (p, _), Some (p', _) => (pphase_ix p <= pphase_ix p')%Z
  | _, _ => False
  end.
Proof. exact (spe_view_phase_monotone ob dim f c c'). Qed.
Print Assumptions C14_spe_view_phase_monotone.

(* non-vacuity: a one-parameter request with budget 0 and one observation is in the initialisation phase of the phantom budget
   50 (progress 1/50), it reaches the SKO phase at 8 observations (8/50 >= 15 %) exactly as a request without a budget does,
   and a request with budget 10 is already past 75 % there *)
Example C14_example_spe_view :
  match spe_view_phase (Some 0%Z) 1 1 0 with Some (PInit, pr) => Qeq_bool pr (1#50) | _ => false end = true /\
  match spe_view_phase (Some 0%Z) 1 8 0, spe_view_phase None 1 8 0 with
  | Some (PSko, a), Some (PSko, b) => Qeq_bool a b | _, _ => false end = true /\
  match spe_view_phase (Some 10%Z) 1 8 0 with Some (PCompletion, _) => true | _ => false end = true /\
  spe_view_budget (Some 0%Z) 3 = 150%Z.
Proof. vm_compute. repeat split; reflexivity. Qed.

(* gamma of the solver options is a proper fraction (the code asserts 0 < gamma < 1) *)
Theorem C14_spe_gamma_range b c f u : (1 <= b)%Z -> (0 <= f <= c)%Z ->
  let '(p, progress) := spe_phase b c f in
  let gamma := fst (spe_solver_options p progress u) in
  6#100 <= gamma <= 11#100 /\ (p <> PSko -> gamma == 6#100 /\ snd (spe_solver_options p progress u) = u).
Proof. exact (spe_gamma_range b c f u). Qed.
Print Assumptions C14_spe_gamma_range.

(* ---- weights and epsilon ------------------------------------------------------------------------------------ *)
(* For every fraction (in or out of [0, 1]), every script of numpy.random.random() draws in [0, 1) and every Halton
   table satisfying its contract (101 numbers in [0.1, 0.9]): two weights in [0.1, 0.9] summing to 1, taken from the
   table of the phase. *)
Theorem C14_weights_spec rs halton f us : halton_ok halton = true -> draws_ok us ->
  exists w0 w1, form_weights rs halton f us = Some (w0, w1) /\ band w0 /\ band w1 /\ w0 + w1 == 1 /\
                In w0 (if rs then halton else grid_table).
Proof. exact (weights_spec rs halton f us). Qed.
Print Assumptions C14_weights_spec.

Theorem C14_epsilon_spec f us : draws_ok us -> exists e, form_epsilon f us = Some e /\ band e /\ In e grid_table.
Proof. exact (epsilon_spec f us). Qed.
Print Assumptions C14_epsilon_spec.

(* the table cell selected is the one the fraction lies in, and the sequential table is 0.1 + 0.8 k / 100 *)
Theorem C14_table_cell f k : 0 <= f <= 1 ->
  (let i := qtrunc (100 * f) in (0 <= i <= 100)%Z /\ qz i <= 100 * f < qz i + 1) /\
  grid k == (1#10) + (8#10) * (qz (Z.of_nat k) / 100).
Proof. intros H. exact (conj (conj (index_range f H) (index_is_cell f H)) (grid_value k)). Qed.
Print Assumptions C14_table_cell.

(* Every request - any flags, budget, counts, random choices - gets a well-formed multimetric_info. *)
Theorem C14_schedule_spec rp thr b c f o pick us halton : halton_ok halton = true -> draws_ok us ->
  exists i, view_info rp thr b c f o pick us halton = Some i /\ info_ok i.
Proof. exact (schedule_spec rp thr b c f o pick us halton). Qed.
Print Assumptions C14_schedule_spec.

(* the decidable specification evaluated on the implementation's outputs is the statement above *)
Theorem C14_info_ok_decidable i : info_ok_b i = true <-> info_ok i.
Proof. exact (info_ok_b_spec i). Qed.
Print Assumptions C14_info_ok_decidable.

(* ---- the request-level wiring: which threshold entries decide the schedule ---------------------------------------- *)
(* MetricsInfo.has_optimized_metric_thresholds: with thresholds stored per metric column and the optimised metrics in any
   columns (in range), the flag is "some OPTIMISED metric column carries a threshold". *)
Theorem C14_threshold_flag_spec thr opt : in_range thr opt ->
  exists flag, has_optimized_metric_thresholds thr opt = Some flag /\
    (flag = true <-> exists i t, In i opt /\ nth_error thr i = Some (Some t)).
Proof. exact (has_thresholds_spec thr opt). Qed.
Print Assumptions C14_threshold_flag_spec.

(* Only the entries at the optimised columns are consulted: thresholds of constraint / stored metrics, and the order in
   which the optimised columns are listed, do not matter. *)
Theorem C14_threshold_flag_only_optimized_columns thr thr' opt opt' : in_range thr opt -> in_range thr' opt' ->
  (forall i, In i opt <-> In i opt') ->
  (forall i, In i opt -> (nth_error thr i = Some None <-> nth_error thr' i = Some None)) ->
  has_optimized_metric_thresholds thr opt = has_optimized_metric_thresholds thr' opt'.
Proof. exact (has_thresholds_only_optimized_columns thr thr' opt opt'). Qed.
Print Assumptions C14_threshold_flag_only_optimized_columns.

(* View.form_multimetric_info: the phase (and the multimetric_info) computed from a request is the phase selector applied
   to the documented flag, the budget, the number of observations, the number of reported failures and the number of open
   suggestions (0 when the request carries none). *)
Theorem C14_request_phase_documented r : in_range (rq_thresholds r) (rq_optimized r) ->
  exists flag, (flag = true <-> has_optimized_threshold (rq_thresholds r) (rq_optimized r)) /\
    request_phase r =
      Some (if rq_pareto r
            then mm_phase flag (rq_budget r) (Z.of_nat (length (rq_failures r))) (Z.of_nat (count_true (rq_failures r)))
                          (match rq_open r with Some k => Z.of_nat k | None => 0%Z end)
            else (LNotMM, None)) /\
    forall pick us halton,
      request_info r pick us halton =
      view_info (rq_pareto r) flag (rq_budget r) (Z.of_nat (length (rq_failures r))) (Z.of_nat (count_true (rq_failures r)))
                (match rq_open r with Some k => Z.of_nat k | None => 0%Z end) pick us halton.
Proof. exact (request_phase_documented r). Qed.
Print Assumptions C14_request_phase_documented.

Theorem C14_request_schedule_spec r pick us halton : in_range (rq_thresholds r) (rq_optimized r) ->
  halton_ok halton = true -> draws_ok us ->
  exists i, request_info r pick us halton = Some i /\ info_ok i.
Proof. exact (request_schedule_spec r pick us halton). Qed.
Print Assumptions C14_request_schedule_spec.

(* The boundary pair that depends on the flag: past 10 % completed, with the served fraction in (55 %, 65 %], a request
   polishes one metric exactly when no optimised column carries a threshold; otherwise it is in the epsilon phase. *)
Theorem C14_request_polish_window r : in_range (rq_thresholds r) (rq_optimized r) -> rq_pareto r = true ->
  let fs := fraction_served (rq_budget r) (rq_count r) (rq_failure_count r) (rq_open_count r) in
  let fc := fraction_completed (rq_budget r) (rq_count r) (rq_failure_count r) (rq_open_count r) in
  55#100 < fs <= 65#100 -> ~ fc <= 1#10 ->
  exists l kw, request_phase r = Some (l, kw) /\
    (has_optimized_threshold (rq_thresholds r) (rq_optimized r) -> (l = LEps0 \/ l = LEps1) /\ kw <> None) /\
    (~ has_optimized_threshold (rq_thresholds r) (rq_optimized r) -> (l = LOpt0 \/ l = LOpt1) /\ kw = None).
Proof. exact (request_polish_window r). Qed.
Print Assumptions C14_request_polish_window.

(* the decidable forms evaluated by the correspondence are the statements above *)
Theorem C14_request_decidable thr opt :
  (optimized_threshold_b thr opt = true <-> has_optimized_threshold thr opt) /\
  (columns_in_range thr opt = true <-> in_range thr opt).
Proof. exact (conj (optimized_threshold_b_spec thr opt) (columns_in_range_spec thr opt)). Qed.
Print Assumptions C14_request_decidable.

(* non-vacuity: metrics [constraint (threshold 0), optimised, optimised], budget 100, 60 observations, none failed, no open
   suggestions: served fraction 0.6, no optimised threshold -> polish one metric; a threshold on column 2 -> epsilon phase;
   the constraint metric's threshold in column 0 is not consulted *)
Example C14_request_example :
  let fails := repeat false 60 in
  request_phase (mkRequest true 100 [Some 0; None; None] [1; 2]%nat fails (Some 0%nat)) = Some (LOpt0, None) /\
  fst (mm_phase true 100 60 0 0) = LEps0 /\
  match request_phase (mkRequest true 100 [Some 0; None; Some (1#2)] [1; 2]%nat fails None) with
  | Some (LEps0, Some cf) => Qeq_bool cf (1#8) | _ => false end = true /\
  has_optimized_metric_thresholds [None; Some 1; None] [0; 2]%nat = Some false /\
  has_optimized_metric_thresholds [None; Some 1; None] [2; 1]%nat = Some true /\
  has_optimized_metric_thresholds [None] [1]%nat = None.
Proof. vm_compute. repeat split; reflexivity. Qed.

(* ---- filters: equally long outputs -------------------------------------------------------------------------- *)
Theorem C14_filter_gp_lengths info n pts vals vars fails lie : aligned n pts vals vars fails ->
  let o := filter_gp info pts vals vars fails lie in
  length (o_pts o) = arr_len (o_vals o) /\ arr_len (o_vals o) = arr_len (o_vars o) /\
  (match info with EpsC _ _ _ => (arr_len (o_vals o) <= n)%nat | _ => arr_len (o_vals o) = n end).
Proof. exact (filter_gp_lengths info n pts vals vars fails lie). Qed.
Print Assumptions C14_filter_gp_lengths.

Theorem C14_filter_spe_lengths info n pts vals fails lie : aligned n pts vals vals fails ->
  let o := filter_spe info pts vals fails lie in length (fst o) = n /\ length (snd o) = n.
Proof. exact (filter_spe_lengths info n pts vals fails lie). Qed.
Print Assumptions C14_filter_spe_lengths.

(* ---- filters: the right metric columns ---------------------------------------------------------------------- *)
Theorem C14_filter_gp_columns_plain info pts vals vars fails lie :
  match info with
  | Convex _ _ => filter_gp info pts vals vars fails lie = {| o_pts := pts; o_vals := A2 vals; o_vars := A2 vars; o_lie := A1 lie |}
  | OptOne om _ => filter_gp info pts vals vars fails lie =
                   {| o_pts := pts; o_vals := A1 (col om vals); o_vars := A1 (col om vars); o_lie := Sc (nth om lie 0) |}
  | NotMM => filter_gp info pts vals vars fails lie =
             {| o_pts := pts; o_vals := A1 (col 0 vals); o_vars := A1 (col 0 vars); o_lie := Sc (nth 0 lie 0) |}
  | EpsC _ _ _ => True
  end.
Proof. exact (filter_gp_columns_plain info pts vals vars fails lie). Qed.
Print Assumptions C14_filter_gp_columns_plain.

Theorem C14_filter_gp_columns_eps eps om cm n pts vals vars fails lie : aligned n pts vals vars fails ->
  let o := filter_gp (EpsC om cm eps) pts vals vars fails lie in
  let lab := pf_labelling eps om cm vals fails in
  let thr := eps_threshold eps cm vals fails in
  length lab = n /\
  combine (o_pts o) (combine (arr1 (o_vals o)) (arr1 (o_vars o))) =
    select (map negb lab) (combine pts (combine (col om vals) (col om vars))) /\
  o_lie o = Sc (nth om lie 0) /\
  (forall j, (j < n)%nat -> nth j lab false = true -> thr <= at_ vals j cm) /\
  (forall j, (j < n)%nat -> at_ vals j cm < thr -> nth j lab false = false) /\
  (Nat.min 5 n <= count_true (map negb lab))%nat /\
  (forall a b, (a < n)%nat -> thr <= at_ vals a cm -> nth a lab false = false -> nth b lab false = true ->
     at_ vals a om <= at_ vals b om).
Proof. exact (filter_gp_columns_eps eps om cm n pts vals vars fails lie). Qed.
Print Assumptions C14_filter_gp_columns_eps.

Theorem C14_filter_spe_columns_plain info n pts vals fails lie j : aligned n pts vals vals fails -> (j < n)%nat ->
  let o := filter_spe info pts vals fails lie in
  fst o = pts /\
  match info with
  | NotMM => nth j (snd o) 0 = if nth j fails false then nth 0 lie 0 else at_ vals j 0
  | OptOne om _ => nth j (snd o) 0 = if nth j fails false then nth om lie 0 else at_ vals j om
  | Convex w0 w1 => nth j (snd o) 0 = if nth j fails false then dot lie [w0; w1] else dot (nth j vals []) [w0; w1]
  | EpsC _ _ _ => True
  end.
Proof. exact (filter_spe_columns_plain info n pts vals fails lie j). Qed.
Print Assumptions C14_filter_spe_columns_plain.

Theorem C14_weighted_sum a b w0 w1 : dot [a; b] [w0; w1] == w0 * a + w1 * b.
Proof. exact (dot2 a b w0 w1). Qed.
Print Assumptions C14_weighted_sum.

Theorem C14_filter_spe_columns_eps eps om cm n pts vals fails lie : aligned n pts vals vals fails ->
  let o := filter_spe (EpsC om cm eps) pts vals fails lie in
  let lab := eps_labelling eps om cm vals fails in
  let thr := eps_threshold eps cm vals fails in
  fst o = pts /\ length lab = n /\
  (forall j, (j < n)%nat -> nth j (snd o) 0 = if nth j lab false then nth om lie 0 else at_ vals j om) /\
  (forall j, (j < n)%nat -> nth j lab false = true -> nth j fails false = true \/ thr <= at_ vals j cm) /\
  (Nat.min 5 n <= count_true (map negb lab))%nat.
Proof. exact (filter_spe_columns_eps eps om cm n pts vals fails lie). Qed.
Print Assumptions C14_filter_spe_columns_eps.

(* ---- SPE failure augmentation ------------------------------------------------------------------------------- *)
Theorem C14_exceeds_spec vals thr j : (j < length vals)%nat ->
  (nth j (exceeds vals thr) false = true <->
   exists i t, nth_error thr i = Some (Some t) /\ t <= at_ vals j i).
Proof. exact (exceeds_spec vals thr j). Qed.
Print Assumptions C14_exceeds_spec.

Theorem C14_spe_augmentation_spec rp hc obs af_vals opt_thr pf_vals con_thr :
  length af_vals = length obs -> length pf_vals = length obs ->
  let out := augment rp hc obs af_vals opt_thr pf_vals con_thr in
  let bv := if rp then exceeds af_vals opt_thr else repeat false (length obs) in
  let cv := if hc then exceeds pf_vals con_thr else repeat false (length obs) in
  length out = length obs /\
  (forall j, nth j obs false = true -> nth j out false = true) /\
  (forall j, nth j out false = true -> nth j obs false = true \/ nth j bv false = true \/ nth j cv false = true) /\
  (out = obs \/
   (out = or3 obs bv cv /\ (5 <= count_true (map negb out))%nat /\ (1 <= count_true (map negb bv))%nat)).
Proof. exact (spe_augmentation_spec rp hc obs af_vals opt_thr pf_vals con_thr). Qed.
Print Assumptions C14_spe_augmentation_spec.

(* non-vacuity: budget 100, 40 observations -> random-spread phase two thirds done; a Halton table meeting its contract;
   the epsilon filter on six rows labels three rows at or above the threshold and the minimum rule restores the two
   with the lowest optimising value, so one row is removed *)
Example C14_example :
  match mm_phase false 100 40 0 0 with (LRandom, Some cf) => Qeq_bool cf (2#3) | _ => false end = true /\
  fst (mm_phase true 60 37 0 0) = LEps1 /\ fst (mm_phase false 10 3 7 0) = LCompletion /\
  halton_ok (repeat (1#2) 101) = true /\
  match view_info true false 100 50 0 0 false [1#2] (repeat (1#3) 101) with
  | Some (Convex w0 w1) => Qeq_bool w0 (5#10) && Qeq_bool w1 (5#10) | _ => false end = true /\
  match view_info true false 100 40 0 0 false [1#2] (repeat (1#3) 101) with
  | Some (Convex w0 w1) => Qeq_bool w0 (1#3) && Qeq_bool w1 (2#3) | _ => false end = true /\
  match view_info true false 100 80 0 0 false [1#2] (repeat (1#2) 101) with
  | Some (EpsC 0 1 e) => Qeq_bool e (1#2) | _ => false end = true /\
  fst (spe_phase 100 40 10) = PSko /\
  arr_eqb (o_vals (filter_gp (EpsC 0 1 (1#2)) [[0];[1];[2];[3];[4];[5]] [[5;0];[4;1];[3;2];[2;3];[1;4];[0;5]]
            [[1;1];[1;1];[1;1];[1;1];[1;1];[1;1]] [false;false;false;false;false;false] [9;9])) (A1 [5;4;3;1;0]) = true /\
  qlist_eqb (snd (filter_spe (Convex (1#4) (3#4)) [[0];[1]] [[4;8];[8;4]] [false;true] [16;16])) [7; 16] = true.
Proof. vm_compute. repeat split; reflexivity. Qed.
