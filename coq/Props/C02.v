(* C02 — the GP posterior equals the exact conditional Gaussian of the stated model.
   Statements about Gen.GenGP, regenerated from gaussian_process.py / gaussian_process_sum.py on every run, over an
   abstract real field (exact arithmetic); cho_solve A b = A^-1 b and tri_solve = (chol A)^-1 b are the meaning of the
   LAPACK calls; the Cholesky factor is a contract (chol K (chol K)^T = K, invertible). *)
From mathcomp Require Import all_ssreflect all_fingroup all_algebra.
From LV Require Import Lib.MxAux Gen.GenGP Proofs.GP.
Set Implicit Arguments. Unset Strict Implicit. Unset Printing Implicit Defensive.
Import GRing.Theory Num.Theory.
Local Open Scope ring_scope.

Section C02.
Variable F : realFieldType.
Variables n m p : nat.
Variable chol : 'M[F]_n -> 'M[F]_n.
Variables (Kker : 'M[F]_n) (noise : 'cV[F]_n) (tik : F) (y : 'cV[F]_n) (Pmx : 'M[F]_(n,p)).
Variables (K_eval : 'M[F]_(m,n)) (Peval : 'M[F]_(m,p)) (kxx : 'cV[F]_m) (Kss : 'M[F]_m) (min_var : F).

(* per-point noise: K = kernel + diag(noise).  The weights (a, b) the code stores solve the universal-kriging system
   K a + P b = y, P^T a = 0 — the closed-form conditional Gaussian with GLS mean — and are its only solution. *)
Theorem C02_saddle_point :
  let K := GPNoise.kernel_matrix Kker noise in
  chol K *m (chol K)^T = K -> chol K \in unitmx -> GPNoise.PT_K_inv_P Kker noise Pmx \in unitmx ->
  K = Kker + diag_mx noise^T /\
  (K *m GPNoise.K_inv_demeaned_y Kker noise y Pmx + Pmx *m GPNoise.poly_coef Kker noise y Pmx = y /\
   Pmx^T *m GPNoise.K_inv_demeaned_y Kker noise y Pmx = 0) /\
  (forall a' b', K *m a' + Pmx *m b' = y -> Pmx^T *m a' = 0 ->
     a' = GPNoise.K_inv_demeaned_y Kker noise y Pmx /\ b' = GPNoise.poly_coef Kker noise y Pmx) /\
  GPNoise.mean Kker noise y Pmx K_eval Peval
    = K_eval *m GPNoise.K_inv_demeaned_y Kker noise y Pmx + Peval *m GPNoise.poly_coef Kker noise y Pmx.
Proof.
  move=> K H1 H2 H3; split; first by []. split; first exact: (@noise_saddle_point _ _ _ chol _ _ y _ H1 H2 H3).
  split; last by []. move=> a' b'. exact: (@noise_saddle_unique _ _ _ chol _ _ _ _ H1 H2 H3).
Qed.

(* with a Tikhonov nugget K = kernel + tik * I: the per-point noise does not enter at all *)
Theorem C02_nugget_replaces_noise :
  let K := GPNugget.kernel_matrix Kker tik in
  chol K *m (chol K)^T = K -> chol K \in unitmx -> GPNugget.PT_K_inv_P Kker tik Pmx \in unitmx ->
  K = Kker + tik%:M /\
  (K *m GPNugget.K_inv_demeaned_y Kker tik y Pmx + Pmx *m GPNugget.poly_coef Kker tik y Pmx = y /\
   Pmx^T *m GPNugget.K_inv_demeaned_y Kker tik y Pmx = 0) /\
  GPNugget.var_tri chol Kker tik K_eval kxx min_var = floor_at min_var (kxx - diagcol (K_eval *m invmx K *m K_eval^T)) /\
  GPNugget.cov chol Kker tik K_eval Kss = Kss - K_eval *m invmx K *m K_eval^T.
Proof.
  move=> K H1 H2 H3. split; first exact: nugget_K. split; first exact: (@nugget_saddle_point _ _ _ chol _ _ y _ H1 H2 H3).
  split; first exact: (@nugget_var_closed_form _ _ _ chol _ _ K_eval kxx min_var H1 H2).
  exact: (@nugget_cov_closed_form _ _ _ chol _ _ K_eval Kss H1 H2).
Qed.

(* zero mean: a = K^-1 y and the mean is ks^T K^-1 y *)
Theorem C02_zero_mean :
  GPNoiseZeroMean.K_inv_demeaned_y Kker noise y = invmx (GPNoiseZeroMean.kernel_matrix Kker noise) *m y /\
  GPNoiseZeroMean.mean Kker noise y K_eval Peval = K_eval *m (invmx (GPNoiseZeroMean.kernel_matrix Kker noise) *m y).
Proof. split; first by []. exact: zero_mean_mean. Qed.

(* pointwise variance: both code paths (triangular solve / cardinal functions) give max(floor, k(x,x) - ks^T K^-1 ks),
   which is positive; joint covariance = Kss - Ks K^-1 Ks^T, symmetric, and PSD whenever the joint Gram matrix is *)
Theorem C02_variance_and_covariance :
  let K := GPNoise.kernel_matrix Kker noise in
  chol K *m (chol K)^T = K -> chol K \in unitmx ->
  GPNoise.var_tri chol Kker noise K_eval kxx min_var = GPNoise.var_card Kker noise K_eval kxx min_var /\
  GPNoise.var_tri chol Kker noise K_eval kxx min_var = floor_at min_var (kxx - diagcol (K_eval *m invmx K *m K_eval^T)) /\
  (0 < min_var -> forall i, 0 < GPNoise.var_tri chol Kker noise K_eval kxx min_var i 0) /\
  GPNoise.cov chol Kker noise K_eval Kss = Kss - K_eval *m invmx K *m K_eval^T /\
  (Kss^T = Kss -> K^T = K -> (GPNoise.cov chol Kker noise K_eval Kss)^T = GPNoise.cov chol Kker noise K_eval Kss) /\
  (psd (block_mx K K_eval^T K_eval Kss) -> psd (GPNoise.cov chol Kker noise K_eval Kss)).
Proof.
  move=> K H1 H2. split; first exact: (@noise_var_branches_agree _ _ _ chol _ _ K_eval kxx min_var H1 H2).
  split; first exact: (@noise_var_closed_form _ _ _ chol _ _ K_eval kxx min_var H1 H2).
  split; first by move=> Hm i; exact: (@noise_var_positive _ _ _ chol Kker noise K_eval kxx min_var i Hm).
  split; first exact: (@noise_cov_closed_form _ _ _ chol _ _ K_eval Kss H1 H2).
  split; first exact: (@noise_cov_symmetric _ _ _ chol _ _ K_eval Kss H1 H2).
  exact: (@noise_cov_psd _ _ _ chol _ _ _ _ H1 H2).
Qed.
End C02.
Print Assumptions C02_saddle_point.
Print Assumptions C02_nugget_replaces_noise.
Print Assumptions C02_zero_mean.
Print Assumptions C02_variance_and_covariance.

(* a weighted sum of GPs predicts the weighted sum of the means and the squared-weight sum of variances and covariances *)
Theorem C02_gpsum (F : realFieldType) (m G : nat) (w : 'I_G -> F) (mean_g var_g : 'I_G -> 'cV[F]_m) (cov_g : 'I_G -> 'M[F]_m) :
  GPSum.sum_mean w mean_g = \sum_(g < G) w g *: mean_g g /\
  GPSum.sum_var w var_g = \sum_(g < G) (w g) ^+ 2 *: var_g g /\
  GPSum.sum_cov w cov_g = \sum_(g < G) (w g) ^+ 2 *: cov_g g /\
  GPSum.sum_mv_mean w mean_g = GPSum.sum_mean w mean_g /\ GPSum.sum_mv_var w var_g = GPSum.sum_var w var_g.
Proof. exact: gpsum_laws. Qed.
Print Assumptions C02_gpsum.

(* ... and the same for the gradient entry points (joint = separate, whichever entry point is used) *)
Theorem C02_gpsum_gradients (F : realFieldType) (m G d : nat) (w : 'I_G -> F) (mean_g var_g : 'I_G -> 'cV[F]_m) (gmean_g gvar_g : 'I_G -> 'M[F]_(m, d)) :
  GPSum.sum_grad_mean w gmean_g = \sum_(g < G) w g *: gmean_g g /\
  GPSum.sum_grad_var w gvar_g = \sum_(g < G) (w g) ^+ 2 *: gvar_g g /\
  GPSum.sum_j_mean w mean_g = GPSum.sum_mean w mean_g /\ GPSum.sum_j_var w var_g = GPSum.sum_var w var_g /\
  GPSum.sum_j_grad_mean w gmean_g = GPSum.sum_grad_mean w gmean_g /\ GPSum.sum_j_grad_var w gvar_g = GPSum.sum_grad_var w gvar_g.
Proof. exact: gpsum_grad_laws. Qed.
Print Assumptions C02_gpsum_gradients.

(* ordering of the observations: for any permutation s of the data (rows of K, P, y; columns of K_eval) the permuted system's
   weights are the permuted weights and the predicted mean is unchanged (via uniqueness of the saddle-point solution) *)
Theorem C02_permutation_invariance (F : realFieldType) (n m p : nat) (K : 'M[F]_n) (P : 'M[F]_(n,p)) (y : 'cV[F]_n)
        (K_eval : 'M[F]_(m,n)) (Peval : 'M[F]_(m,p)) (s : 'S_n) :
  let Pm := perm_mx s in let K' := Pm *m K *m Pm^T in let P' := Pm *m P in let y' := Pm *m y in
  let b0 := cho_solve (P^T *m cho_solve K P) (P^T *m cho_solve K y) in
  let a0 := cho_solve K y - cho_solve K (P *m b0) in
  let b1 := cho_solve (P'^T *m cho_solve K' P') (P'^T *m cho_solve K' y') in
  let a1 := cho_solve K' y' - cho_solve K' (P' *m b1) in
  K \in unitmx -> P^T *m cho_solve K P \in unitmx -> K' \in unitmx -> P'^T *m cho_solve K' P' \in unitmx ->
  (K_eval *m Pm^T) *m a1 + Peval *m b1 = K_eval *m a0 + Peval *m b0.
Proof. move=> Pm K' P' y' b0 a0 b1 a1 H1 H2 H3 H4. exact: (@perm_mean_invariant F n m p K P y K_eval Peval s H1 H2 H3 H4). Qed.
Print Assumptions C02_permutation_invariance.
