(* C16 over HISTORIES ("for all ... sequences of lies"): a live estimator object scores the data, the kernels and the gamma it
   holds at the moment it is asked.  Only statements, each closed by `exact`, with Print Assumptions beneath.
   Model: LV.Model.ParzenHist (lie bookkeeping = the state machine of LV.Model.Lies).  `kern` is any kernel function. *)
From Coq Require Import List QArith Bool Arith.
From LV Require Import Model.ParzenSplit Model.ParzenSplitCorr Model.ParzenHist Proofs.ParzenSplit Proofs.ParzenHist.
From LV Require Model.Lies Proofs.Lies.
Import ListNotations.
Open Scope Q_scope.

(* An evaluation (expected improvement, either density, the optimiser's objective) leaves the object as it was. *)
Theorem C16_history_eval_reads_only kern s o : is_eval o = true -> fst (hstep kern s o) = s.
Proof. exact (eval_reads_only kern s o). Qed.
Print Assumptions C16_history_eval_reads_only.

(* After ANY history on one object - lies told, withdrawn and replaced (append / clear / stash / recover), kernels replaced
   (update_covariances) or re-tuned in place, gamma / lower_points / greater_points assigned directly as the search view does,
   and any number of evaluations in between, at the same points or not - an evaluation returns exactly what a freshly built
   estimator returns whose sets, kernels and gamma are those the history's MUTATIONS leave (`mutations pre` = the history with
   every evaluation erased): densities and ratio are functions of the current content only. *)
Theorem C16_history_eval_is_fresh kern s pre o post : is_eval o = true ->
  let s' := hrun kern s (mutations pre) in
  nth (length pre) (htrace kern s (pre ++ o :: post)) HNone =
    fresh_out kern (e_gamma s') (e_hl s') (e_hg s') (e_lower s') (e_greater s') o.
Proof. exact (history_eval_is_fresh kern s pre o post). Qed.
Print Assumptions C16_history_eval_is_fresh.

Theorem C16_history_same_content_same_answers kern s1 s2 o : is_eval o = true ->
  e_gamma s1 = e_gamma s2 -> e_hl s1 = e_hl s2 -> e_hg s1 = e_hg s2 -> e_lower s1 = e_lower s2 -> e_greater s1 = e_greater s2 ->
  snd (hstep kern s1 o) = snd (hstep kern s2 o).
Proof. exact (same_content_same_answers kern s1 s2 o). Qed.
Print Assumptions C16_history_same_content_same_answers.

(* When nobody assigns the sets from outside, the set a density is taken over is, after any history, the constructor's set
   followed by exactly the lies outstanding now (C15's invariant carried through kernel / gamma changes and evaluations). *)
Theorem C16_history_sets_are_base_plus_lies kern s ops :
  Lies.p_lower_lies (e_pz s) = [] -> Lies.p_greater_lies (e_pz s) = [] ->
  forallb (fun o => negb (assigns_sets o)) ops = true ->
  Forall (fun o => match o with HLie p => Proofs.Lies.pop_ok (e_dim s) p | _ => True end) ops ->
  let s' := hrun kern s ops in
  e_lower s' = e_lower s ++ Lies.p_lower_lies (e_pz s') /\ e_greater s' = e_greater s ++ Lies.p_greater_lies (e_pz s').
Proof. exact (history_sets_are_base_plus_lies kern s ops). Qed.
Print Assumptions C16_history_sets_are_base_plus_lies.

(* A lie told at p to a live estimator does not lower the density it reports at p (kernel maximal at distance 0). *)
Theorem C16_history_lie_raises_greater_density kern s p d d' :
  length p = e_dim s -> e_greater s <> [] ->
  (forall z, In z (e_greater s) -> kern (e_hg s) p z <= kern (e_hg s) p p) ->
  let s' := fst (hstep kern s (HLie (Lies.PAppend [p] false))) in
  snd (hstep kern s (HGreaterDens [p])) = HDens [Some d] -> snd (hstep kern s' (HGreaterDens [p])) = HDens [Some d'] ->
  d <= d'.
Proof. exact (history_lie_raises_greater_density kern s p d d'). Qed.
Print Assumptions C16_history_lie_raises_greater_density.

Theorem C16_history_lie_raises_lower_density kern s p l l' :
  length p = e_dim s -> e_lower s <> [] ->
  (forall z, In z (e_lower s) -> kern (e_hl s) p z <= kern (e_hl s) p p) ->
  let s' := fst (hstep kern s (HLie (Lies.PAppend [p] true))) in
  snd (hstep kern s (HLowerDens [p])) = HDens [Some l] -> snd (hstep kern s' (HLowerDens [p])) = HDens [Some l'] ->
  l <= l'.
Proof. exact (history_lie_raises_lower_density kern s p l l'). Qed.
Print Assumptions C16_history_lie_raises_lower_density.

(* The whole ratio clause at any moment of a history: gamma in (0,1), both sets non-empty, kernel values in [0, alpha]. *)
Theorem C16_history_ratio_clause kern s x alpha :
  0 < e_gamma s -> e_gamma s < 1 -> e_lower s <> [] -> e_greater s <> [] ->
  (forall z, In z (e_lower s) -> 0 <= kern (e_hl s) x z <= alpha) ->
  (forall z, In z (e_greater s) -> 0 <= kern (e_hg s) x z <= alpha) ->
  exists l g r, snd (hstep kern s (HEval [x])) = HEI [Some (l, g, r)] /\
    fresh_lower kern (e_hl s) (e_lower s) x = Some l /\ fresh_greater kern (e_hg s) (e_greater s) x = Some g /\
    0 < l /\ 0 <= g /\ r == 1 / (e_gamma s + (1 - e_gamma s) * (g / l)) /\ 0 < r /\ r <= 1 / e_gamma s.
Proof. exact (history_ratio_clause kern s x alpha). Qed.
Print Assumptions C16_history_ratio_clause.

(* The rational kernel the correspondence runs the library with satisfies the kernel contracts used above. *)
Theorem C16_rational_kernel_contract alpha ls x z : 0 < alpha -> (forall l, In l ls -> 0 < l) ->
  0 < rkern (alpha :: ls) x z <= alpha /\ rkern (alpha :: ls) x x == alpha.
Proof. exact (rkern_contract alpha ls x z). Qed.
Print Assumptions C16_rational_kernel_contract.

(* non-vacuity: one object, 1-d, lower {0, 1}, greater {4, 6}; evaluate at 5; a lie at 2 is told, withdrawn and replaced by a
   lie at 5 (same set sizes); evaluate at 5 again; the greater kernel is re-tuned; gamma is assigned; evaluate at 5 again.
   The three answers differ, each is the fresh answer for the content of that moment, and the lie at 5 raised the density at 5. *)
Example C16_history_example :
  let s0 := mkEst (Lies.mkPz 1 [[0]; [1]] [[4]; [6]] [] []) (1 # 4) [1; 1] [1; 1] in
  let ops := [HEval [[5]]; HLie (Lies.PAppend [[2]] false); HEval [[5]]; HLie Lies.PClear; HLie (Lies.PAppend [[5]] false);
              HEval [[5]]; HCov [1; 1] [2; 1 # 2]; HGamma (1 # 2); HEval [[5]]] in
  let t := htrace rkern s0 ops in
  nth 0 t HNone = HEI [fresh_ei rkern (1 # 4) [1; 1] [1; 1] [[0]; [1]] [[4]; [6]] [5]] /\
  nth 2 t HNone = HEI [fresh_ei rkern (1 # 4) [1; 1] [1; 1] [[0]; [1]] [[4]; [6]; [2]] [5]] /\
  nth 5 t HNone = HEI [fresh_ei rkern (1 # 4) [1; 1] [1; 1] [[0]; [1]] [[4]; [6]; [5]] [5]] /\
  nth 8 t HNone = HEI [fresh_ei rkern (1 # 2) [1; 1] [2; 1 # 2] [[0]; [1]] [[4]; [6]; [5]] [5]] /\
  (exists g2 g5, fresh_greater rkern [1; 1] [[4]; [6]; [2]] [5] = Some g2 /\ fresh_greater rkern [1; 1] [[4]; [6]; [5]] [5] = Some g5 /\
                 g2 == 11 # 30 /\ g5 == 2 # 3 /\ ~ g2 == g5) /\
  e_greater (hrun rkern s0 ops) = [[4]; [6]; [5]].
Proof.
  cbv zeta. repeat split; try (vm_compute; reflexivity).
  eexists _, _. split; [vm_compute; reflexivity|]. split; [vm_compute; reflexivity|]. vm_compute. repeat split; discriminate.
Qed.
