(* C19, "the modelled probability of satisfying all metric constraints, a number in [0,1]": the executable model of the search
   acquisition function (Props/C19.v) takes the failure model as any function into [0,1].  For the failure model the search
   endpoints really build - a product of normal-CDF models, one per constraint metric - that range is a theorem about the
   definitions regenerated from probabilistic_failures.py (Gen.GenAcq), now that 0 < Phi < 1 is proved (Lib/Gauss.v):
   every factor lies in (0,1), the product lies in [0,1], strictly positive when every factor is. *)
From Coq Require Import Reals Lra.
From LV Require Import Lib.RBase Gen.GenAcq Proofs.SearchCdf.
Open Scope R_scope.

Theorem C19_cdf_failure_model_is_probability nq dim x (mean var : nat -> nat -> R) gmean gvar (thr : nat -> R) i :
  (forall q, 0 < CDF.value dim x (mean q) (var q) gmean gvar (thr q) i < 1) /\
  0 <= Product.value nq (fun q i => CDF.value dim x (mean q) (var q) gmean gvar (thr q) i) i <= 1.
Proof. exact (cdf_failure_model_is_probability nq dim x mean var gmean gvar thr i). Qed.
Print Assumptions C19_cdf_failure_model_is_probability.
