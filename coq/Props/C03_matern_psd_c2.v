(* part of Props/C03_matern_psd.v, split per kernel so that the Print Assumptions of one property compile in parallel *)
(* C03, "positive semi-definite Gram matrices", MATERN part — closes the Schoenberg hypothesis: for every n, every dimension, every point
   set and every choice of length scales the Gram matrix of C0RadialMatern, C2RadialMatern and C4RadialMatern (C4 is the library's default
   kernel) — as built by the entry points regenerated from covariance.py (Gen.GenCovariance: kernel_matrix_sym with observation noise,
   kernel_matrix_cross on one point set, the pairwise covariance / _covariance) — is positive semi-definite.  More: it is a Schur
   multiplier (its entrywise product with ANY PSD matrix is PSD), so the multitask kernel (Gen.GenMultitask._covariance = physical kernel x
   task kernel; the library's default configuration is C4RadialMatern x SquareExponential) has PSD Gram matrices unconditionally.
   Proof (Proofs/MaternMixture.v, Proofs/MaternPsd.v): the three profiles are positive scale mixtures of Gaussians,
       C_k phi_k(r) = int_0^oo u^k exp(-u^2) exp(-(r^2/4)/u^2) du,   k = 0, 2, 4,   C_k = sqrt(PI)/2, sqrt(PI)/4, 3 sqrt(PI)/8
   (theorems C03_matern_mixture_c0/c2/c4 below: Cauchy-Schloemilch substitution on proper Riemann integrals + the Gaussian integral of
   Lib/Gauss.v, the fundamental theorem of calculus for u E and u^3 E), each Gaussian exp(-s |u_a - u_b|^2) is a Schur multiplier
   (Proofs/SEPsd.v), and Schur multipliers are closed under non-negative scaling, Riemann integration over a parameter and pointwise limits.
   As in C03_se_psd.v the guard "all length scales positive" (what the library enforces) is stated although the proofs do not use it.
   Only statements + exact + Print Assumptions here. *)
From Coq Require Import Reals Arith Lra.
From Coquelicot Require Import Coquelicot.
From LV Require Import Lib.RBase Gen.GenCovariance Gen.GenMultitask Proofs.Hadamard Proofs.Covariance Proofs.SEPsd Proofs.MaternMixture
  Proofs.MaternPsd.
Open Scope R_scope.


(* ================================================================== C2RadialMatern *)
(* build_kernel_matrix(points_sampled, noise_variance): alpha * phiC2(r) + noise on the diagonal *)
Theorem C03_c2_gram_psd n dim xs ls lsq lcu alpha noise :
  (forall k, 0 < ls k) -> 0 <= alpha -> (forall j, 0 <= noise j) ->
  psdR n (fun a b => C2RadialMatern.kernel_matrix_sym dim xs noise ls lsq lcu alpha a b).
Proof. exact (C2_sym_gram_psd n dim xs ls lsq lcu alpha noise). Qed.
Print Assumptions C03_c2_gram_psd.

Theorem C03_c2_gram_psd_any_ls n dim xs ls lsq lcu alpha noise :
  0 <= alpha -> (forall j, 0 <= noise j) ->
  psdR n (fun a b => C2RadialMatern.kernel_matrix_sym dim xs noise ls lsq lcu alpha a b).
Proof. exact (C2_sym_gram_psd_any_ls n dim xs ls lsq lcu alpha noise). Qed.
Print Assumptions C03_c2_gram_psd_any_ls.

(* stronger: the entrywise product of the Gram matrix with any PSD matrix B is PSD *)
Theorem C03_c2_gram_schur_multiplier n dim xs ls lsq lcu alpha noise (B : nat -> nat -> R) :
  (forall k, 0 < ls k) -> 0 <= alpha -> (forall j, 0 <= noise j) -> psdR n B ->
  psdR n (fun a b => C2RadialMatern.kernel_matrix_sym dim xs noise ls lsq lcu alpha a b * B a b).
Proof. exact (fun _ Ha Hn => C2_sym_gram_schur n dim xs noise ls lsq lcu alpha Ha Hn B). Qed.
Print Assumptions C03_c2_gram_schur_multiplier.

(* build_kernel_matrix(points_sampled, points_to_sample = the same points): the clamped-expansion path *)
Theorem C03_c2_cross_gram_psd n dim xs ls lsq lcu alpha :
  (forall k, 0 < ls k) -> 0 <= alpha ->
  psdR n (fun a b => C2RadialMatern.kernel_matrix_cross dim xs xs ls lsq lcu alpha a b).
Proof. exact (C2_cross_gram_psd n dim xs ls lsq lcu alpha). Qed.
Print Assumptions C03_c2_cross_gram_psd.

(* covariance(x, z)[i] on the pairs (point a, point b) of one point set *)
Theorem C03_c2_pairwise_gram_psd n dim xs ls lsq lcu alpha i :
  (forall k, 0 < ls k) -> 0 <= alpha ->
  psdR n (fun a b => C2RadialMatern.covariance dim (fun _ => xs a) (fun _ => xs b) ls lsq lcu alpha i).
Proof. exact (C2_pair_gram_psd n dim xs ls lsq lcu alpha i). Qed.
Print Assumptions C03_c2_pairwise_gram_psd.

(* multitask kernel, physical kernel C2RadialMatern, task kernel SquareExponential on the task coordinates ts (dimt = 1 in the library):
   unconditional (process variance alpha >= 0 on the product, as the library applies it) *)
Theorem C03_multitask_gram_psd_c2_se n dim xs ls lsq lcu alphap dimt ts lst lsqt lcut alphat alpha pg tg ph th :
  (forall k, 0 < ls k) -> (forall k, 0 < lst k) -> 0 <= alpha ->
  psdR n (fun a b => alpha * GenMultitask._covariance
                       (fun i => C2RadialMatern._covariance dim (fun _ => xs a) (fun _ => xs b) ls lsq lcu alphap i)
                       (fun i => SquareExponential._covariance dimt (fun _ => ts a) (fun _ => ts b) lst lsqt lcut alphat i) pg tg ph th 0%nat).
Proof. exact (fun _ _ => multitask_C2_se_psd n dim xs ls lsq lcu alphap dimt ts lst lsqt lcut alphat alpha pg tg ph th). Qed.
Print Assumptions C03_multitask_gram_psd_c2_se.

(* the kernel-matrix path of the multitask kernel: physical kernel matrix (with noise) .* task kernel matrix *)
Theorem C03_multitask_kernel_matrix_psd_c2_se n dim xs noise ls lsq lcu alpha dimt ts lst lsqt lcut alphat pg tg ph th :
  (forall k, 0 < ls k) -> (forall k, 0 < lst k) -> 0 <= alpha -> 0 <= alphat -> (forall j, 0 <= noise j) ->
  psdR n (fun a b => GenMultitask._covariance
                       (fun _ => C2RadialMatern.kernel_matrix_sym dim xs noise ls lsq lcu alpha a b)
                       (fun _ => SquareExponential.kernel_matrix_cross dimt ts ts lst lsqt lcut alphat a b) pg tg ph th 0%nat).
Proof. exact (fun _ _ => multitask_C2_se_matrix_psd n dim xs noise ls lsq lcu alpha dimt ts lst lsqt lcut alphat pg tg ph th). Qed.
Print Assumptions C03_multitask_kernel_matrix_psd_c2_se.

(* physical kernel C2RadialMatern with ANY PSD task Gram matrix T: no factor of either matrix is needed *)
Theorem C03_multitask_gram_psd_c2_any_task n dim xs ls lsq lcu alphap (T : nat -> nat -> R) pg tg ph th :
  (forall k, 0 < ls k) -> psdR n T ->
  psdR n (fun a b => GenMultitask._covariance
                       (fun i => C2RadialMatern._covariance dim (fun _ => xs a) (fun _ => xs b) ls lsq lcu alphap i)
                       (fun _ => T a b) pg tg ph th 0%nat).
Proof. exact (fun _ => multitask_C2_any_task_psd n dim xs ls lsq lcu alphap T pg tg ph th). Qed.
Print Assumptions C03_multitask_gram_psd_c2_any_task.
