(* C02 composed with C03 (MATERN kernels C0, C2, C4; C4 is the library's default): the posterior covariance matrix the generated GP computes
   is positive semi-definite, UNCONDITIONALLY apart from the Cholesky contract C02 already carries — the Matern counterpart of
   Props/C02_se_psd.v, with the same reading of the blocks:
     Kker    n x n   build_kernel_matrix(points_sampled)                    kernel_matrix_sym dim xs (zero noise) i j; GenGP's kernel_matrix adds
                                                                            diag(noise) (C02_*_kernel_matrix_is_generated)
     K_eval  m x n   build_kernel_matrix(points_sampled, points_to_sample)  kernel_matrix_cross dim xs xe i j: ROW i = evaluation point i
     Kss     m x m   build_kernel_matrix(points_to_sample)                  kernel_matrix_sym dim xe (zero noise) i j
   The joint Gram matrix [[Kker + diag noise, K_eval^T], [K_eval, Kss]] IS the generated kernel_matrix_sym of the concatenated point set with
   the noise padded by zeros (C02_*_joint_gram_is_generated), hence PSD by Props/C03_matern_psd.v (Schoenberg scale mixtures, proved).
   Hypotheses: 0 <= alpha, noise >= 0, the Cholesky contract; the guard on the length scales is stated as the library enforces it although
   the proofs do not use it.  Any n, m, dimension, points, length scales.
   Only statements + exact + Print Assumptions here (proofs: Proofs/ComposePsdMatern.v). *)
From Coq Require Import Reals.
From mathcomp Require Import all_ssreflect all_fingroup all_algebra.
From LV Require Import Lib.RBase Lib.MxAux Lib.RStruct Gen.GenGP Gen.GenCovariance Proofs.Hadamard Proofs.LogLikFull Proofs.ComposePsd
                       Proofs.ComposePsdMatern.
Set Implicit Arguments. Unset Strict Implicit. Unset Printing Implicit Defensive.
Import GRing.Theory.
Local Open Scope ring_scope.

(* ================================================================== C0RadialMatern *)
Theorem C02_c0_kernel_matrix_is_generated n dim xs ls lsq lcu alpha (noise : 'cV[R]_n) :
  GPNoise.kernel_matrix (\matrix_(i, j) C0RadialMatern.kernel_matrix_sym dim xs (fun _ => 0%Re) ls lsq lcu alpha i j) noise
  = \matrix_(i, j) C0RadialMatern.kernel_matrix_sym dim xs (cvv noise) ls lsq lcu alpha i j.
Proof. exact: C0_kernel_matrix_generated. Qed.
Print Assumptions C02_c0_kernel_matrix_is_generated.

Theorem C02_c0_joint_gram_is_generated n m dim xs xe ls lsq lcu alpha (noise : 'cV[R]_n) :
  let Kker : 'M[R]_n := \matrix_(i, j) C0RadialMatern.kernel_matrix_sym dim xs (fun _ => 0%Re) ls lsq lcu alpha i j in
  let K_eval : 'M[R]_(m, n) := \matrix_(i, j) C0RadialMatern.kernel_matrix_cross dim xs xe ls lsq lcu alpha i j in
  let Kss : 'M[R]_m := \matrix_(i, j) C0RadialMatern.kernel_matrix_sym dim xe (fun _ => 0%Re) ls lsq lcu alpha i j in
  (forall a, (a < n)%N -> joinp n xs xe a = xs a) /\ (forall i, joinp n xs xe (n + i)%N = xe i) /\
  block_mx (GPNoise.kernel_matrix Kker noise) K_eval^T K_eval Kss
  = (\matrix_(a, b) C0RadialMatern.kernel_matrix_sym dim (joinp n xs xe) (cvv noise) ls lsq lcu alpha a b : 'M[R]_(n + m)).
Proof.
  move=> Kker K_eval Kss. split; first exact: joinp_l. split; first exact: joinp_r.
  exact: (@C0_joint_block n m dim xs xe ls lsq lcu alpha noise).
Qed.
Print Assumptions C02_c0_joint_gram_is_generated.

(* THE COMPOSED THEOREM, per-point noise: the kernel matrix the GP factors is the generated C0 matrix with noise; the joint Gram matrix is
   PSD; the posterior covariance (polynomial-mean and zero-mean instances) is PSD *)
Theorem C02_c0_posterior_covariance_psd n m dim (chol : 'M[R]_n -> 'M[R]_n) xs xe ls lsq lcu alpha (noise : 'cV[R]_n) :
  (forall k, Rlt 0 (ls k)) -> Rle 0 alpha -> (forall i, Rle 0 (noise i 0)) ->
  let Kker : 'M[R]_n := \matrix_(i, j) C0RadialMatern.kernel_matrix_sym dim xs (fun _ => 0%Re) ls lsq lcu alpha i j in
  let K_eval : 'M[R]_(m, n) := \matrix_(i, j) C0RadialMatern.kernel_matrix_cross dim xs xe ls lsq lcu alpha i j in
  let Kss : 'M[R]_m := \matrix_(i, j) C0RadialMatern.kernel_matrix_sym dim xe (fun _ => 0%Re) ls lsq lcu alpha i j in
  let K := GPNoise.kernel_matrix Kker noise in
  chol K *m (chol K)^T = K -> chol K \in unitmx ->
  K = \matrix_(i, j) C0RadialMatern.kernel_matrix_sym dim xs (cvv noise) ls lsq lcu alpha i j /\
  psd (block_mx K K_eval^T K_eval Kss) /\
  psd (GPNoise.cov chol Kker noise K_eval Kss) /\
  psd (GPNoiseZeroMean.cov chol Kker noise K_eval Kss).
Proof. move=> _ Ha Hn Kker K_eval Kss K. exact: (@C0_posterior_cov_psd n m dim chol xs xe ls lsq lcu alpha noise Ha Hn). Qed.
Print Assumptions C02_c0_posterior_covariance_psd.

(* pointwise posterior variance (compute_variance_of_points): the value floored at min_var is the diagonal of the posterior covariance and is
   NON-NEGATIVE in exact arithmetic *)
Theorem C02_c0_posterior_variance_nonneg n m dim (chol : 'M[R]_n -> 'M[R]_n) xs xe ls lsq lcu alpha (noise : 'cV[R]_n) (min_var : R) :
  (forall k, Rlt 0 (ls k)) -> Rle 0 alpha -> (forall i, Rle 0 (noise i 0)) ->
  let Kker : 'M[R]_n := \matrix_(i, j) C0RadialMatern.kernel_matrix_sym dim xs (fun _ => 0%Re) ls lsq lcu alpha i j in
  let K_eval : 'M[R]_(m, n) := \matrix_(i, j) C0RadialMatern.kernel_matrix_cross dim xs xe ls lsq lcu alpha i j in
  let Kss : 'M[R]_m := \matrix_(i, j) C0RadialMatern.kernel_matrix_sym dim xe (fun _ => 0%Re) ls lsq lcu alpha i j in
  let kxx : 'cV[R]_m := \col_i C0RadialMatern.covariance dim xe xe ls lsq lcu alpha i in
  let K := GPNoise.kernel_matrix Kker noise in
  chol K *m (chol K)^T = K -> chol K \in unitmx ->
  let v := kxx - diagcol (K_eval *m invmx K *m K_eval^T) in
  GPNoise.var_tri chol Kker noise K_eval kxx min_var = floor_at min_var v /\
  (forall i, v i 0 = GPNoise.cov chol Kker noise K_eval Kss i i) /\
  (forall i, Rle 0 (v i 0)).
Proof. move=> _ Ha Hn Kker K_eval Kss kxx K. exact: (@C0_posterior_variance n m dim chol xs xe ls lsq lcu alpha noise Ha Hn min_var). Qed.
Print Assumptions C02_c0_posterior_variance_nonneg.

(* both square blocks built by the other entry point (points_to_sample = the same point set: the clamped-expansion path) *)
Theorem C02_c0_posterior_covariance_psd_cross_blocks n m dim (chol : 'M[R]_n -> 'M[R]_n) xs xe ls lsq lcu alpha (noise : 'cV[R]_n) :
  (forall k, Rlt 0 (ls k)) -> Rle 0 alpha -> (forall i, Rle 0 (noise i 0)) ->
  let Kker : 'M[R]_n := \matrix_(i, j) C0RadialMatern.kernel_matrix_cross dim xs xs ls lsq lcu alpha i j in
  let K_eval : 'M[R]_(m, n) := \matrix_(i, j) C0RadialMatern.kernel_matrix_cross dim xs xe ls lsq lcu alpha i j in
  let Kss : 'M[R]_m := \matrix_(i, j) C0RadialMatern.kernel_matrix_cross dim xe xe ls lsq lcu alpha i j in
  let K := GPNoise.kernel_matrix Kker noise in
  chol K *m (chol K)^T = K -> chol K \in unitmx ->
  psd (GPNoise.cov chol Kker noise K_eval Kss).
Proof. move=> _ Ha Hn Kker K_eval Kss K. exact: (@C0_posterior_cov_psd_cross n m dim chol xs xe ls lsq lcu alpha noise Ha Hn). Qed.
Print Assumptions C02_c0_posterior_covariance_psd_cross_blocks.

(* Tikhonov nugget instead of the per-point noise (GPNugget) *)
Theorem C02_c0_posterior_covariance_psd_nugget n m dim (chol : 'M[R]_n -> 'M[R]_n) xs xe ls lsq lcu alpha (tik : R) :
  (forall k, Rlt 0 (ls k)) -> Rle 0 alpha -> Rle 0 tik ->
  let Kker : 'M[R]_n := \matrix_(i, j) C0RadialMatern.kernel_matrix_sym dim xs (fun _ => 0%Re) ls lsq lcu alpha i j in
  let K_eval : 'M[R]_(m, n) := \matrix_(i, j) C0RadialMatern.kernel_matrix_cross dim xs xe ls lsq lcu alpha i j in
  let Kss : 'M[R]_m := \matrix_(i, j) C0RadialMatern.kernel_matrix_sym dim xe (fun _ => 0%Re) ls lsq lcu alpha i j in
  let K := GPNugget.kernel_matrix Kker tik in
  chol K *m (chol K)^T = K -> chol K \in unitmx ->
  psd (GPNugget.cov chol Kker tik K_eval Kss).
Proof. move=> _ Ha Ht Kker K_eval Kss K. exact: (@C0_posterior_cov_psd_nugget n m dim chol xs xe ls lsq lcu alpha tik Ha Ht). Qed.
Print Assumptions C02_c0_posterior_covariance_psd_nugget.

(* ================================================================== C2RadialMatern *)
Theorem C02_c2_kernel_matrix_is_generated n dim xs ls lsq lcu alpha (noise : 'cV[R]_n) :
  GPNoise.kernel_matrix (\matrix_(i, j) C2RadialMatern.kernel_matrix_sym dim xs (fun _ => 0%Re) ls lsq lcu alpha i j) noise
  = \matrix_(i, j) C2RadialMatern.kernel_matrix_sym dim xs (cvv noise) ls lsq lcu alpha i j.
Proof. exact: C2_kernel_matrix_generated. Qed.
Print Assumptions C02_c2_kernel_matrix_is_generated.

Theorem C02_c2_joint_gram_is_generated n m dim xs xe ls lsq lcu alpha (noise : 'cV[R]_n) :
  let Kker : 'M[R]_n := \matrix_(i, j) C2RadialMatern.kernel_matrix_sym dim xs (fun _ => 0%Re) ls lsq lcu alpha i j in
  let K_eval : 'M[R]_(m, n) := \matrix_(i, j) C2RadialMatern.kernel_matrix_cross dim xs xe ls lsq lcu alpha i j in
  let Kss : 'M[R]_m := \matrix_(i, j) C2RadialMatern.kernel_matrix_sym dim xe (fun _ => 0%Re) ls lsq lcu alpha i j in
  (forall a, (a < n)%N -> joinp n xs xe a = xs a) /\ (forall i, joinp n xs xe (n + i)%N = xe i) /\
  block_mx (GPNoise.kernel_matrix Kker noise) K_eval^T K_eval Kss
  = (\matrix_(a, b) C2RadialMatern.kernel_matrix_sym dim (joinp n xs xe) (cvv noise) ls lsq lcu alpha a b : 'M[R]_(n + m)).
Proof.
  move=> Kker K_eval Kss. split; first exact: joinp_l. split; first exact: joinp_r.
  exact: (@C2_joint_block n m dim xs xe ls lsq lcu alpha noise).
Qed.
Print Assumptions C02_c2_joint_gram_is_generated.

(* THE COMPOSED THEOREM, per-point noise: the kernel matrix the GP factors is the generated C2 matrix with noise; the joint Gram matrix is
   PSD; the posterior covariance (polynomial-mean and zero-mean instances) is PSD *)
Theorem C02_c2_posterior_covariance_psd n m dim (chol : 'M[R]_n -> 'M[R]_n) xs xe ls lsq lcu alpha (noise : 'cV[R]_n) :
  (forall k, Rlt 0 (ls k)) -> Rle 0 alpha -> (forall i, Rle 0 (noise i 0)) ->
  let Kker : 'M[R]_n := \matrix_(i, j) C2RadialMatern.kernel_matrix_sym dim xs (fun _ => 0%Re) ls lsq lcu alpha i j in
  let K_eval : 'M[R]_(m, n) := \matrix_(i, j) C2RadialMatern.kernel_matrix_cross dim xs xe ls lsq lcu alpha i j in
  let Kss : 'M[R]_m := \matrix_(i, j) C2RadialMatern.kernel_matrix_sym dim xe (fun _ => 0%Re) ls lsq lcu alpha i j in
  let K := GPNoise.kernel_matrix Kker noise in
  chol K *m (chol K)^T = K -> chol K \in unitmx ->
  K = \matrix_(i, j) C2RadialMatern.kernel_matrix_sym dim xs (cvv noise) ls lsq lcu alpha i j /\
  psd (block_mx K K_eval^T K_eval Kss) /\
  psd (GPNoise.cov chol Kker noise K_eval Kss) /\
  psd (GPNoiseZeroMean.cov chol Kker noise K_eval Kss).
Proof. move=> _ Ha Hn Kker K_eval Kss K. exact: (@C2_posterior_cov_psd n m dim chol xs xe ls lsq lcu alpha noise Ha Hn). Qed.
Print Assumptions C02_c2_posterior_covariance_psd.

(* pointwise posterior variance (compute_variance_of_points): the value floored at min_var is the diagonal of the posterior covariance and is
   NON-NEGATIVE in exact arithmetic *)
Theorem C02_c2_posterior_variance_nonneg n m dim (chol : 'M[R]_n -> 'M[R]_n) xs xe ls lsq lcu alpha (noise : 'cV[R]_n) (min_var : R) :
  (forall k, Rlt 0 (ls k)) -> Rle 0 alpha -> (forall i, Rle 0 (noise i 0)) ->
  let Kker : 'M[R]_n := \matrix_(i, j) C2RadialMatern.kernel_matrix_sym dim xs (fun _ => 0%Re) ls lsq lcu alpha i j in
  let K_eval : 'M[R]_(m, n) := \matrix_(i, j) C2RadialMatern.kernel_matrix_cross dim xs xe ls lsq lcu alpha i j in
  let Kss : 'M[R]_m := \matrix_(i, j) C2RadialMatern.kernel_matrix_sym dim xe (fun _ => 0%Re) ls lsq lcu alpha i j in
  let kxx : 'cV[R]_m := \col_i C2RadialMatern.covariance dim xe xe ls lsq lcu alpha i in
  let K := GPNoise.kernel_matrix Kker noise in
  chol K *m (chol K)^T = K -> chol K \in unitmx ->
  let v := kxx - diagcol (K_eval *m invmx K *m K_eval^T) in
  GPNoise.var_tri chol Kker noise K_eval kxx min_var = floor_at min_var v /\
  (forall i, v i 0 = GPNoise.cov chol Kker noise K_eval Kss i i) /\
  (forall i, Rle 0 (v i 0)).
Proof. move=> _ Ha Hn Kker K_eval Kss kxx K. exact: (@C2_posterior_variance n m dim chol xs xe ls lsq lcu alpha noise Ha Hn min_var). Qed.
Print Assumptions C02_c2_posterior_variance_nonneg.

(* both square blocks built by the other entry point (points_to_sample = the same point set: the clamped-expansion path) *)
Theorem C02_c2_posterior_covariance_psd_cross_blocks n m dim (chol : 'M[R]_n -> 'M[R]_n) xs xe ls lsq lcu alpha (noise : 'cV[R]_n) :
  (forall k, Rlt 0 (ls k)) -> Rle 0 alpha -> (forall i, Rle 0 (noise i 0)) ->
  let Kker : 'M[R]_n := \matrix_(i, j) C2RadialMatern.kernel_matrix_cross dim xs xs ls lsq lcu alpha i j in
  let K_eval : 'M[R]_(m, n) := \matrix_(i, j) C2RadialMatern.kernel_matrix_cross dim xs xe ls lsq lcu alpha i j in
  let Kss : 'M[R]_m := \matrix_(i, j) C2RadialMatern.kernel_matrix_cross dim xe xe ls lsq lcu alpha i j in
  let K := GPNoise.kernel_matrix Kker noise in
  chol K *m (chol K)^T = K -> chol K \in unitmx ->
  psd (GPNoise.cov chol Kker noise K_eval Kss).
Proof. move=> _ Ha Hn Kker K_eval Kss K. exact: (@C2_posterior_cov_psd_cross n m dim chol xs xe ls lsq lcu alpha noise Ha Hn). Qed.
Print Assumptions C02_c2_posterior_covariance_psd_cross_blocks.

(* Tikhonov nugget instead of the per-point noise (GPNugget) *)
Theorem C02_c2_posterior_covariance_psd_nugget n m dim (chol : 'M[R]_n -> 'M[R]_n) xs xe ls lsq lcu alpha (tik : R) :
  (forall k, Rlt 0 (ls k)) -> Rle 0 alpha -> Rle 0 tik ->
  let Kker : 'M[R]_n := \matrix_(i, j) C2RadialMatern.kernel_matrix_sym dim xs (fun _ => 0%Re) ls lsq lcu alpha i j in
  let K_eval : 'M[R]_(m, n) := \matrix_(i, j) C2RadialMatern.kernel_matrix_cross dim xs xe ls lsq lcu alpha i j in
  let Kss : 'M[R]_m := \matrix_(i, j) C2RadialMatern.kernel_matrix_sym dim xe (fun _ => 0%Re) ls lsq lcu alpha i j in
  let K := GPNugget.kernel_matrix Kker tik in
  chol K *m (chol K)^T = K -> chol K \in unitmx ->
  psd (GPNugget.cov chol Kker tik K_eval Kss).
Proof. move=> _ Ha Ht Kker K_eval Kss K. exact: (@C2_posterior_cov_psd_nugget n m dim chol xs xe ls lsq lcu alpha tik Ha Ht). Qed.
Print Assumptions C02_c2_posterior_covariance_psd_nugget.

(* ================================================================== C4RadialMatern *)
Theorem C02_c4_kernel_matrix_is_generated n dim xs ls lsq lcu alpha (noise : 'cV[R]_n) :
  GPNoise.kernel_matrix (\matrix_(i, j) C4RadialMatern.kernel_matrix_sym dim xs (fun _ => 0%Re) ls lsq lcu alpha i j) noise
  = \matrix_(i, j) C4RadialMatern.kernel_matrix_sym dim xs (cvv noise) ls lsq lcu alpha i j.
Proof. exact: C4_kernel_matrix_generated. Qed.
Print Assumptions C02_c4_kernel_matrix_is_generated.

Theorem C02_c4_joint_gram_is_generated n m dim xs xe ls lsq lcu alpha (noise : 'cV[R]_n) :
  let Kker : 'M[R]_n := \matrix_(i, j) C4RadialMatern.kernel_matrix_sym dim xs (fun _ => 0%Re) ls lsq lcu alpha i j in
  let K_eval : 'M[R]_(m, n) := \matrix_(i, j) C4RadialMatern.kernel_matrix_cross dim xs xe ls lsq lcu alpha i j in
  let Kss : 'M[R]_m := \matrix_(i, j) C4RadialMatern.kernel_matrix_sym dim xe (fun _ => 0%Re) ls lsq lcu alpha i j in
  (forall a, (a < n)%N -> joinp n xs xe a = xs a) /\ (forall i, joinp n xs xe (n + i)%N = xe i) /\
  block_mx (GPNoise.kernel_matrix Kker noise) K_eval^T K_eval Kss
  = (\matrix_(a, b) C4RadialMatern.kernel_matrix_sym dim (joinp n xs xe) (cvv noise) ls lsq lcu alpha a b : 'M[R]_(n + m)).
Proof.
  move=> Kker K_eval Kss. split; first exact: joinp_l. split; first exact: joinp_r.
  exact: (@C4_joint_block n m dim xs xe ls lsq lcu alpha noise).
Qed.
Print Assumptions C02_c4_joint_gram_is_generated.

(* THE COMPOSED THEOREM, per-point noise: the kernel matrix the GP factors is the generated C4 matrix with noise; the joint Gram matrix is
   PSD; the posterior covariance (polynomial-mean and zero-mean instances) is PSD *)
Theorem C02_c4_posterior_covariance_psd n m dim (chol : 'M[R]_n -> 'M[R]_n) xs xe ls lsq lcu alpha (noise : 'cV[R]_n) :
  (forall k, Rlt 0 (ls k)) -> Rle 0 alpha -> (forall i, Rle 0 (noise i 0)) ->
  let Kker : 'M[R]_n := \matrix_(i, j) C4RadialMatern.kernel_matrix_sym dim xs (fun _ => 0%Re) ls lsq lcu alpha i j in
  let K_eval : 'M[R]_(m, n) := \matrix_(i, j) C4RadialMatern.kernel_matrix_cross dim xs xe ls lsq lcu alpha i j in
  let Kss : 'M[R]_m := \matrix_(i, j) C4RadialMatern.kernel_matrix_sym dim xe (fun _ => 0%Re) ls lsq lcu alpha i j in
  let K := GPNoise.kernel_matrix Kker noise in
  chol K *m (chol K)^T = K -> chol K \in unitmx ->
  K = \matrix_(i, j) C4RadialMatern.kernel_matrix_sym dim xs (cvv noise) ls lsq lcu alpha i j /\
  psd (block_mx K K_eval^T K_eval Kss) /\
  psd (GPNoise.cov chol Kker noise K_eval Kss) /\
  psd (GPNoiseZeroMean.cov chol Kker noise K_eval Kss).
Proof. move=> _ Ha Hn Kker K_eval Kss K. exact: (@C4_posterior_cov_psd n m dim chol xs xe ls lsq lcu alpha noise Ha Hn). Qed.
Print Assumptions C02_c4_posterior_covariance_psd.

(* pointwise posterior variance (compute_variance_of_points): the value floored at min_var is the diagonal of the posterior covariance and is
   NON-NEGATIVE in exact arithmetic *)
Theorem C02_c4_posterior_variance_nonneg n m dim (chol : 'M[R]_n -> 'M[R]_n) xs xe ls lsq lcu alpha (noise : 'cV[R]_n) (min_var : R) :
  (forall k, Rlt 0 (ls k)) -> Rle 0 alpha -> (forall i, Rle 0 (noise i 0)) ->
  let Kker : 'M[R]_n := \matrix_(i, j) C4RadialMatern.kernel_matrix_sym dim xs (fun _ => 0%Re) ls lsq lcu alpha i j in
  let K_eval : 'M[R]_(m, n) := \matrix_(i, j) C4RadialMatern.kernel_matrix_cross dim xs xe ls lsq lcu alpha i j in
  let Kss : 'M[R]_m := \matrix_(i, j) C4RadialMatern.kernel_matrix_sym dim xe (fun _ => 0%Re) ls lsq lcu alpha i j in
  let kxx : 'cV[R]_m := \col_i C4RadialMatern.covariance dim xe xe ls lsq lcu alpha i in
  let K := GPNoise.kernel_matrix Kker noise in
  chol K *m (chol K)^T = K -> chol K \in unitmx ->
  let v := kxx - diagcol (K_eval *m invmx K *m K_eval^T) in
  GPNoise.var_tri chol Kker noise K_eval kxx min_var = floor_at min_var v /\
  (forall i, v i 0 = GPNoise.cov chol Kker noise K_eval Kss i i) /\
  (forall i, Rle 0 (v i 0)).
Proof. move=> _ Ha Hn Kker K_eval Kss kxx K. exact: (@C4_posterior_variance n m dim chol xs xe ls lsq lcu alpha noise Ha Hn min_var). Qed.
Print Assumptions C02_c4_posterior_variance_nonneg.

(* both square blocks built by the other entry point (points_to_sample = the same point set: the clamped-expansion path) *)
Theorem C02_c4_posterior_covariance_psd_cross_blocks n m dim (chol : 'M[R]_n -> 'M[R]_n) xs xe ls lsq lcu alpha (noise : 'cV[R]_n) :
  (forall k, Rlt 0 (ls k)) -> Rle 0 alpha -> (forall i, Rle 0 (noise i 0)) ->
  let Kker : 'M[R]_n := \matrix_(i, j) C4RadialMatern.kernel_matrix_cross dim xs xs ls lsq lcu alpha i j in
  let K_eval : 'M[R]_(m, n) := \matrix_(i, j) C4RadialMatern.kernel_matrix_cross dim xs xe ls lsq lcu alpha i j in
  let Kss : 'M[R]_m := \matrix_(i, j) C4RadialMatern.kernel_matrix_cross dim xe xe ls lsq lcu alpha i j in
  let K := GPNoise.kernel_matrix Kker noise in
  chol K *m (chol K)^T = K -> chol K \in unitmx ->
  psd (GPNoise.cov chol Kker noise K_eval Kss).
Proof. move=> _ Ha Hn Kker K_eval Kss K. exact: (@C4_posterior_cov_psd_cross n m dim chol xs xe ls lsq lcu alpha noise Ha Hn). Qed.
Print Assumptions C02_c4_posterior_covariance_psd_cross_blocks.

(* Tikhonov nugget instead of the per-point noise (GPNugget) *)
Theorem C02_c4_posterior_covariance_psd_nugget n m dim (chol : 'M[R]_n -> 'M[R]_n) xs xe ls lsq lcu alpha (tik : R) :
  (forall k, Rlt 0 (ls k)) -> Rle 0 alpha -> Rle 0 tik ->
  let Kker : 'M[R]_n := \matrix_(i, j) C4RadialMatern.kernel_matrix_sym dim xs (fun _ => 0%Re) ls lsq lcu alpha i j in
  let K_eval : 'M[R]_(m, n) := \matrix_(i, j) C4RadialMatern.kernel_matrix_cross dim xs xe ls lsq lcu alpha i j in
  let Kss : 'M[R]_m := \matrix_(i, j) C4RadialMatern.kernel_matrix_sym dim xe (fun _ => 0%Re) ls lsq lcu alpha i j in
  let K := GPNugget.kernel_matrix Kker tik in
  chol K *m (chol K)^T = K -> chol K \in unitmx ->
  psd (GPNugget.cov chol Kker tik K_eval Kss).
Proof. move=> _ Ha Ht Kker K_eval Kss K. exact: (@C4_posterior_cov_psd_nugget n m dim chol xs xe ls lsq lcu alpha tik Ha Ht). Qed.
Print Assumptions C02_c4_posterior_covariance_psd_nugget.

(* non-vacuity (the default kernel C4): one observation at the origin of the plane with noise 1/10, three evaluation points (1,0), (2,0),
   (3,0), length scales (1/2, 2), alpha = 3; the Cholesky factor of the 1 x 1 kernel matrix is its square root: the contract holds and the
   3 x 3 posterior covariance is PSD *)
Definition mex_xs (a k : nat) : R := 0%Re.
Definition mex_xe (a k : nat) : R := match k with O => INR (S a) | _ => 0%Re end.
Definition mex_ls (k : nat) : R := match k with O => (1 / 2)%Re | _ => 2%Re end.
Example C02_c4_posterior_covariance_psd_example :
  let Kker : 'M[R]_1 := \matrix_(i, j) C4RadialMatern.kernel_matrix_sym 2 mex_xs (fun _ => 0%Re) mex_ls mex_ls mex_ls 3%Re i j in
  let K_eval : 'M[R]_(3, 1) := \matrix_(i, j) C4RadialMatern.kernel_matrix_cross 2 mex_xs mex_xe mex_ls mex_ls mex_ls 3%Re i j in
  let Kss : 'M[R]_3 := \matrix_(i, j) C4RadialMatern.kernel_matrix_sym 2 mex_xe (fun _ => 0%Re) mex_ls mex_ls mex_ls 3%Re i j in
  let noise : 'cV[R]_1 := const_mx (1 / 10)%Re in
  let K := GPNoise.kernel_matrix Kker noise in
  (chol11 K *m (chol11 K)^T = K /\ chol11 K \in unitmx) /\ psd (GPNoise.cov chol11 Kker noise K_eval Kss).
Proof.
  move=> Kker K_eval Kss noise K.
  have Ha : Rlt 0 3 by apply: (IZR_lt 0 3).
  have Hn : forall i, Rle 0 (noise i 0) by move=> i; rewrite mxE; apply: Rlt_le; apply: Rdiv_lt_0_compat; [exact: Rlt_0_1|apply: (IZR_lt 0 10)].
  exact: (@C4_posterior_cov_psd_instance 3 2 mex_xs mex_xe mex_ls mex_ls mex_ls 3%Re noise Ha Hn).
Qed.
