(* C05 — acquisition values and success probabilities mean what they claim.
   Statements about Gen.GenAcq (regenerated on every run). *)
From Coq Require Import Reals Lra.
From Coquelicot Require Import Coquelicot.
From LV Require Import Lib.RBase Gen.GenAcq Proofs.Acq.
Open Scope R_scope.

(* value = sigma * max(0, z Phi(z) + pdf(z)), z = (best - mu)/sigma; finite and non-negative *)
Theorem C05_ei_formula dim x mean var gmean gvar best i :
  EI.value dim x mean var gmean gvar best i = sqrt (var i) * Rmax 0 (G ((best - mean i) / sqrt (var i))) /\
  0 <= EI.value dim x mean var gmean gvar best i.
Proof. split; [exact (ei_formula dim x mean var gmean gvar best i)|exact (ei_nonneg dim x mean var gmean gvar best i)]. Qed.
Print Assumptions C05_ei_formula.

(* the derivative characterisation of E[max(best - Y, 0)], Y ~ N(mu, sigma^2): d/d best [sigma G((best-mu)/sigma)] = Phi(z)
   = P(Y <= best).  PARTIAL: the boundary condition (the value tends to 0 as best -> -infinity, i.e. z Phi(z) -> 0) needs
   the Gaussian tail and is an assumption of the trusted base, not a theorem here. *)
Theorem C05_ei_incumbent_derivative_partial mu sigma best : 0 < sigma ->
  is_derive (fun b => sigma * G ((b - mu) / sigma)) best (Phi ((best - mu) / sigma)).
Proof. exact (ei_incumbent_derivative mu sigma best). Qed.
Print Assumptions C05_ei_incumbent_derivative_partial.

(* augmented EI = EI times a penalty in [0,1); failure-weighted EI = EI times the supplied probability; multitask = value / cost *)
Theorem C05_penalised_forms dim mean var z sv cdf pdfz gmean gvar gsv pen gpen nu i dimp1 x af g :
  (0 < nu -> 0 <= var i -> 0 <= AEI.penalty_value dim mean var z sv cdf pdfz gmean gvar gsv nu i < 1) /\
  EIP.value_penalty dim mean var z sv cdf pdfz gmean gvar gsv pen gpen i
    = EI.normalized dim mean var z sv cdf pdfz gmean gvar gsv i * pen i /\
  MultitaskAF.value dimp1 x af g i = af i / x i (dimp1 - 1)%nat.
Proof.
  split; [exact (aei_penalty_range dim mean var z sv cdf pdfz gmean gvar gsv nu i)|split; reflexivity].
Qed.
Print Assumptions C05_penalised_forms.

(* success probabilities: logistic model in (0,1), non-increasing in the predicted value (kappa > 0); CDF model = Phi((t-mu)/sd),
   strictly decreasing in the predicted value; its range (0,1) is the Gaussian-integral assumption H_Phi_range *)
Theorem C05_success_probabilities dim x m1 m2 mean var gmean gvar kappa thr i :
  0 < Logistic.value dim x mean var gmean gvar kappa thr i < 1 /\
  (0 < kappa -> m1 <= m2 ->
     Logistic.value dim x (C1 m2) var gmean gvar kappa thr i <= Logistic.value dim x (C1 m1) var gmean gvar kappa thr i) /\
  CDF.value dim x mean var gmean gvar thr i = Phi ((thr - mean i) / sqrt (var i)) /\
  (0 < var i -> m1 < m2 -> CDF.value dim x (C1 m2) var gmean gvar thr i < CDF.value dim x (C1 m1) var gmean gvar thr i) /\
  ((forall z, 0 < Phi z < 1) -> 0 < CDF.value dim x mean var gmean gvar thr i < 1).
Proof.
  split; [exact (logistic_range dim x mean var gmean gvar kappa thr i)|split].
  - exact (logistic_nonincreasing dim x m1 m2 var gmean gvar kappa thr i).
  - split; [reflexivity|split].
    + exact (cdf_model_decreasing dim x m1 m2 var gmean gvar thr i).
    + exact (cdf_model_range dim x mean var gmean gvar thr i).
Qed.
Print Assumptions C05_success_probabilities.

(* a product model multiplies its components' probabilities and stays in [0,1] *)
Theorem C05_product_model nq poss i :
  Product.value nq poss i = bigprod nq (fun q => poss q i) /\
  ((forall q, (q < nq)%nat -> 0 <= poss q i <= 1) -> 0 <= Product.value nq poss i <= 1).
Proof. split; [reflexivity|exact (product_model_range nq poss i)]. Qed.
Print Assumptions C05_product_model.
