(* C04, gradient of the log marginal likelihood — FULL statement (supersedes the hypotheses of C04_loglik_grad_partial in
   Props/C04_gp.v: Jacobi's formula and d(r' K^-1 r) = -(a' dK a) are proved here, for real matrices).
   Statements about Gen.GenGP (GPNoise / GPNugget / GPNoiseZeroMean / LogLik: the VALUE computed by
   log_likelihood.py compute_log_likelihood on the quantities gaussian_process.py stores) and Gen.GenAcq.LogLikGrad.grad (the
   GRADIENT loop of compute_grad_log_likelihood, with INCLUDE_NONZERO_MEAN_GRADIENT_CORRECTION = False), regenerated from the
   source on every run.  R carries the MathComp field structure of Lib/RStruct.v; derivatives are Coquelicot's is_derive.
   mxv / cvv read a MathComp matrix / column as the nat-indexed functions the generated gradient takes (0 outside the range).
   The Cholesky factor is a contract that only has to hold near the hyperparameter value: L L' = K, L lower triangular with a
   positive diagonal.  Axioms: the Reals axioms, classic, functional extensionality, and
   ClassicalEpsilon.constructive_indefinite_description (choiceType structure on R). *)
From Coq Require Import Reals.
From Coquelicot Require Import Coquelicot.
From mathcomp Require Import all_ssreflect all_fingroup all_algebra.
From LV Require Import Lib.RBase Lib.MxAux Lib.RStruct Lib.MxDet Lib.RMxDeriv Gen.GenGP Gen.GenAcq Proofs.GP Proofs.GPGrad
                       Proofs.LogLikFull.
Set Implicit Arguments. Unset Strict Implicit. Unset Printing Implicit Defensive.
Import GRing.Theory.
Local Open Scope ring_scope.

(* derivative of the determinant of a matrix with differentiable entries, and JACOBI's formula *)
Theorem C04_det_derivative n (M : R -> 'M[R]_n) (x : R) (dM : 'M[R]_n) :
  (forall i j, is_derive (fun t => M t i j) x (dM i j)) ->
  is_derive (fun t => \det (M t)) x (\sum_i \sum_j dM i j * cofactor (M x) i j) /\
  (\det (M x) != 0 -> is_derive (fun t => \det (M t)) x (\det (M x) * \tr (invmx (M x) *m dM))).
Proof. move=> H; split; [exact: (det_derive_cofactor H)|exact: (det_derive H)]. Qed.
Print Assumptions C04_det_derivative.

Theorem C04_jacobi_logdet n (M : R -> 'M[R]_n) (x : R) (dM : 'M[R]_n) :
  (forall i j, is_derive (fun t => M t i j) x (dM i j)) -> Rlt 0 (\det (M x)) ->
  is_derive (fun t => ln (\det (M t))) x (\tr (invmx (M x) *m dM)).
Proof. exact: jacobi_logdet. Qed.
Print Assumptions C04_jacobi_logdet.

(* derivative of the inverse: every entry of M(t)^-1 is differentiable at x and d(M^-1) = - M^-1 dM M^-1 *)
Theorem C04_inverse_derivative n (M : R -> 'M[R]_n) (x : R) (dM : 'M[R]_n) :
  (forall i j, is_derive (fun t => M t i j) x (dM i j)) -> \det (M x) != 0 ->
  forall i j, is_derive (fun t => invmx (M t) i j) x ((- (invmx (M x) *m dM *m invmx (M x))) i j).
Proof. exact: mx_derive_inv. Qed.
Print Assumptions C04_inverse_derivative.

(* quadratic form, constant data vector (zero-mean GP): d(y' K^-1 y) = -(a' dK a), a = K^-1 y *)
Theorem C04_quadform_const n (K : R -> 'M[R]_n) (x : R) (dK : 'M[R]_n) (y : 'cV[R]_n) :
  (forall i j, is_derive (fun t => K t i j) x (dK i j)) -> K x \in unitmx -> (K x)^T = K x ->
  let a := invmx (K x) *m y in
  is_derive (fun t => (y^T *m invmx (K t) *m y) 0 0) x (- (a^T *m dK *m a) 0 0).
Proof. exact: quad_const_derive. Qed.
Print Assumptions C04_quadform_const.

(* quadratic form of the GLS-demeaned residual r(t) = y - P b(t), b(t) the GLS coefficients, a(t) = K(t)^-1 r(t) exactly as
   gaussian_process.py computes them: d(r' K^-1 r) = -(a' dK a).  The dependence of b on t drops out by the envelope identity
   P' a = 0 (C02) — which is why the code's omitted non-zero-mean correction is exactly zero. *)
Theorem C04_quadform_gls n p (K : R -> 'M[R]_n) (x : R) (dK : 'M[R]_n) (y : 'cV[R]_n) (P : 'M[R]_(n,p)) :
  (forall i j, is_derive (fun t => K t i j) x (dK i j)) -> K x \in unitmx -> (K x)^T = K x ->
  P^T *m cho_solve (K x) P \in unitmx ->
  let b K := cho_solve (P^T *m cho_solve K P) (P^T *m cho_solve K y) in
  let r K := y - P *m b K in
  let a K := cho_solve K y - cho_solve K (P *m b K) in
  P^T *m a (K x) = 0 /\
  is_derive (fun t => ((r (K t))^T *m a (K t)) 0 0) x (- ((a (K x))^T *m dK *m a (K x)) 0 0).
Proof. move=> H1 H2 H3 H4 b r a; split; [exact: (gls_envelope y H4)|exact: (quad_gls_derive y H1 H2 H3 H4)]. Qed.
Print Assumptions C04_quadform_gls.

(* the code's 2 * sum(log(diag L)) is log det K for a Cholesky factor; such a K is symmetric with positive determinant *)
Theorem C04_chol_logdet n (L A : 'M[R]_n) :
  L *m L^T = A -> is_trig_mx L -> (forall i, Rlt 0 (L i i)) ->
  Rlt 0 (\det A) /\ A^T = A /\ 2%:R * (\sum_i ln (L i i)) = ln (\det A).
Proof. move=> H1 H2 H3. exact: (@chol_logdet n L A (conj H1 (conj H2 H3))). Qed.
Print Assumptions C04_chol_logdet.

(* textbook form, for any differentiable symmetric K(t) with positive determinant at x and P' K^-1 P invertible:
   L(t) = -s (r(t)' K(t)^-1 r(t) + log det K(t)) has the generated gradient entry as its derivative *)
Theorem C04_loglik_grad_full_logdet n p nh (K : R -> 'M[R]_n) (x : R) (dKt : nat -> 'M[R]_n) (h : nat) (y : 'cV[R]_n)
        (P : 'M[R]_(n,p)) (s : R) :
  (forall i j, is_derive (fun t => K t i j) x (dKt h i j)) -> Rlt 0 (\det (K x)) -> (K x)^T = K x ->
  P^T *m cho_solve (K x) P \in unitmx ->
  let b K := cho_solve (P^T *m cho_solve K P) (P^T *m cho_solve K y) in
  let r K := y - P *m b K in
  let a K := cho_solve K y - cho_solve K (P *m b K) in
  is_derive (fun t => - s * (((r (K t))^T *m a (K t)) 0 0 + ln (\det (K t)))) x
            (LogLikGrad.grad n nh (cvv (a (K x))) (fun j l k => mxv (dKt k) j l) (mxv (invmx (K x))) s (fun _ => 1) h).
Proof. move=> H1 H2 H3 H4 b r a. exact: (loglik_logdet_grad nh y s H1 H2 H3 H4). Qed.
Print Assumptions C04_loglik_grad_full_logdet.

(* THE FULL THEOREM, polynomial mean, per-point noise: the value compute_log_likelihood returns, as a function of one
   hyperparameter t through the kernel matrix Kker(t) (others fixed), is differentiable at x and its derivative is the h-th
   entry compute_grad_log_likelihood returns (linear parameterisation), dKt h being the h-th slice of the kernel's
   hyperparameter gradient tensor, i.e. the entrywise derivative of Kker at x (C04_kernels proves that for the kernels). *)
Theorem C04_loglik_grad_full n p nh (chol : 'M[R]_n -> 'M[R]_n) (noise y : 'cV[R]_n) (Pmx : 'M[R]_(n,p)) (s x : R)
        (dKt : nat -> 'M[R]_n) (h : nat) (Kker : R -> 'M[R]_n) :
  let K t := GPNoise.kernel_matrix (Kker t) noise in
  (forall i j, is_derive (fun t => Kker t i j) x (dKt h i j)) ->
  locally x (fun t => chol (K t) *m (chol (K t))^T = K t /\ is_trig_mx (chol (K t)) /\ forall i, Rlt 0 (chol (K t) i i)) ->
  GPNoise.PT_K_inv_P (Kker x) noise Pmx \in unitmx ->
  is_derive (fun t => LogLik.log_likelihood_value chol (fun L : 'M[R]_n => \sum_i ln (L i i)) (K t)
                        (GPNoise.demeaned_y (Kker t) noise y Pmx) (GPNoise.K_inv_demeaned_y (Kker t) noise y Pmx) s) x
    (LogLikGrad.grad n nh (cvv (GPNoise.K_inv_demeaned_y (Kker x) noise y Pmx)) (fun j l k => mxv (dKt k) j l)
                     (mxv (invmx (K x))) s (fun _ => 1) h).
Proof. move=> K H1 H2 H3. exact: (loglik_noise_grad nh y s H1 H2 H3). Qed.
Print Assumptions C04_loglik_grad_full.

(* with a nugget (use_auto_noise): kernel part and nugget may both depend on t; the tensor slice is dKk + dtik * I (the
   appended identity slice for the nugget hyperparameter: dKk = 0, dtik = 1; a kernel hyperparameter: dtik = 0) *)
Theorem C04_loglik_grad_full_nugget n p nh (chol : 'M[R]_n -> 'M[R]_n) (y : 'cV[R]_n) (Pmx : 'M[R]_(n,p)) (s x : R)
        (dKt : nat -> 'M[R]_n) (h : nat) (Kker : R -> 'M[R]_n) (tik : R -> R) (dtik : R) (dKk : 'M[R]_n) :
  let K t := GPNugget.kernel_matrix (Kker t) (tik t) in
  (forall i j, is_derive (fun t => Kker t i j) x (dKk i j)) -> is_derive tik x dtik -> dKt h = dKk + dtik%:M ->
  locally x (fun t => chol (K t) *m (chol (K t))^T = K t /\ is_trig_mx (chol (K t)) /\ forall i, Rlt 0 (chol (K t) i i)) ->
  GPNugget.PT_K_inv_P (Kker x) (tik x) Pmx \in unitmx ->
  is_derive (fun t => LogLik.log_likelihood_value chol (fun L : 'M[R]_n => \sum_i ln (L i i)) (K t)
                        (GPNugget.demeaned_y (Kker t) (tik t) y Pmx) (GPNugget.K_inv_demeaned_y (Kker t) (tik t) y Pmx) s) x
    (LogLikGrad.grad n nh (cvv (GPNugget.K_inv_demeaned_y (Kker x) (tik x) y Pmx)) (fun j l k => mxv (dKt k) j l)
                     (mxv (invmx (K x))) s (fun _ => 1) h).
Proof. move=> K H1 H2 H3 H4 H5. exact: (loglik_nugget_grad nh y s H1 H2 H3 H4 H5). Qed.
Print Assumptions C04_loglik_grad_full_nugget.

(* zero mean: r = y *)
Theorem C04_loglik_grad_full_zero_mean n nh (chol : 'M[R]_n -> 'M[R]_n) (noise y : 'cV[R]_n) (s x : R)
        (dKt : nat -> 'M[R]_n) (h : nat) (Kker : R -> 'M[R]_n) :
  let K t := GPNoiseZeroMean.kernel_matrix (Kker t) noise in
  (forall i j, is_derive (fun t => Kker t i j) x (dKt h i j)) ->
  locally x (fun t => chol (K t) *m (chol (K t))^T = K t /\ is_trig_mx (chol (K t)) /\ forall i, Rlt 0 (chol (K t) i i)) ->
  is_derive (fun t => LogLik.log_likelihood_value chol (fun L : 'M[R]_n => \sum_i ln (L i i)) (K t)
                        (GPNoiseZeroMean.demeaned_y y) (GPNoiseZeroMean.K_inv_demeaned_y (Kker t) noise y) s) x
    (LogLikGrad.grad n nh (cvv (GPNoiseZeroMean.K_inv_demeaned_y (Kker x) noise y)) (fun j l k => mxv (dKt k) j l)
                     (mxv (invmx (K x))) s (fun _ => 1) h).
Proof. move=> K H1 H2. exact: (loglik_zero_mean_grad nh y s H1 H2). Qed.
Print Assumptions C04_loglik_grad_full_zero_mean.

(* the whole gradient vector: for the kernel matrix as a function Kfun of the hyperparameter VECTOR, entry h of the generated
   gradient is the partial derivative of the value in the h-th coordinate at theta (upd theta h t replaces coordinate h by t) *)
Theorem C04_loglik_gradient_vector n p nh (chol : 'M[R]_n -> 'M[R]_n) (noise y : 'cV[R]_n) (Pmx : 'M[R]_(n,p)) (s : R)
        (Kfun : (nat -> R) -> 'M[R]_n) (theta : nat -> R) (dKt : nat -> 'M[R]_n) (h : nat) :
  (forall i j, is_derive (fun t => Kfun (upd theta h t) i j) (theta h) (dKt h i j)) ->
  locally (theta h) (fun t => let K := GPNoise.kernel_matrix (Kfun (upd theta h t)) noise in
                              chol K *m (chol K)^T = K /\ is_trig_mx (chol K) /\ forall i, Rlt 0 (chol K i i)) ->
  GPNoise.PT_K_inv_P (Kfun theta) noise Pmx \in unitmx ->
  is_derive (fun t => let Kk := Kfun (upd theta h t) in
               LogLik.log_likelihood_value chol (fun L : 'M[R]_n => \sum_i ln (L i i)) (GPNoise.kernel_matrix Kk noise)
                 (GPNoise.demeaned_y Kk noise y Pmx) (GPNoise.K_inv_demeaned_y Kk noise y Pmx) s) (theta h)
    (LogLikGrad.grad n nh (cvv (GPNoise.K_inv_demeaned_y (Kfun theta) noise y Pmx)) (fun j l k => mxv (dKt k) j l)
                     (mxv (invmx (GPNoise.kernel_matrix (Kfun theta) noise))) s (fun _ => 1) h).
Proof. exact: loglik_noise_gradient_vector. Qed.
Print Assumptions C04_loglik_gradient_vector.

(* log parameterisation (log_domain=True): the derivative in al = log t carries the generated log_scaling factor exp al *)
Theorem C04_loglik_grad_full_log_domain n p nh (chol : 'M[R]_n -> 'M[R]_n) (noise y : 'cV[R]_n) (Pmx : 'M[R]_(n,p)) (s al : R)
        (dKt : nat -> 'M[R]_n) (h : nat) (Kker : R -> 'M[R]_n) :
  let K t := GPNoise.kernel_matrix (Kker t) noise in
  (forall i j, is_derive (fun t => Kker t i j) (exp al) (dKt h i j)) ->
  locally (exp al) (fun t => chol (K t) *m (chol (K t))^T = K t /\ is_trig_mx (chol (K t)) /\ forall i, Rlt 0 (chol (K t) i i)) ->
  GPNoise.PT_K_inv_P (Kker (exp al)) noise Pmx \in unitmx ->
  is_derive (fun u => LogLik.log_likelihood_value chol (fun L : 'M[R]_n => \sum_i ln (L i i)) (K (exp u))
                        (GPNoise.demeaned_y (Kker (exp u)) noise y Pmx) (GPNoise.K_inv_demeaned_y (Kker (exp u)) noise y Pmx) s) al
    (LogLikGrad.grad n nh (cvv (GPNoise.K_inv_demeaned_y (Kker (exp al)) noise y Pmx)) (fun j l k => mxv (dKt k) j l)
                     (mxv (invmx (K (exp al)))) s (fun _ => exp al) h).
Proof. move=> K H1 H2 H3. exact: (loglik_noise_grad_log_domain nh y s H1 H2 H3). Qed.
Print Assumptions C04_loglik_grad_full_log_domain.

(* the hypotheses are satisfiable: two observations, constant mean, kernel matrix t * I, no noise, at t = 1 *)
Example C04_loglik_full_instance (y : 'cV[R]_2) (s : R) :
  is_derive (fun t : R => LogLik.log_likelihood_value chol_scalar (fun L : 'M[R]_2 => \sum_i ln (L i i))
                       (GPNoise.kernel_matrix (t%:M) 0)
                       (GPNoise.demeaned_y (t%:M) 0 y (const_mx 1 : 'M[R]_(2,1)))
                       (GPNoise.K_inv_demeaned_y (t%:M) 0 y (const_mx 1 : 'M[R]_(2,1))) s) (1 : R)
    (LogLikGrad.grad 2 1 (cvv (GPNoise.K_inv_demeaned_y (1%:M) 0 y (const_mx 1 : 'M[R]_(2,1)))) (fun j l k => mxv (1%:M : 'M[R]_2) j l)
                     (mxv (invmx (GPNoise.kernel_matrix (1%:M : 'M[R]_2) 0))) s (fun _ => 1) 0).
Proof. exact: (loglik_full_instance y s). Qed.
