(* C06 -- The EI endpoint reports the improvement of the documented model of the request.
   Only statements, each closed by `exact`, with Print Assumptions beneath.  Model: LV.Model.Wiring
   (wire = GpEiCategoricalView(params).view() up to the numeric model: the description of every Gaussian process, of the
   failure models, of the acquisition function chosen, of the encoded query points and of the cost division; None = the
   endpoint raises), composed from Model.Midpoint (C12), Model.Decode (C09), Model.Filters / Model.Pareto / Model.Phases
   (C13, C14) and Model.Lies (C15).  The posterior and the improvement formulas applied to a description are C02 and C05;
   the equality of the response with an independent end-to-end pipeline is decided numerically by the searcher. *)
From Coq Require Import List QArith ZArith Qabs Bool Arith.
From LV Require Model.Lies.
From LV Require Import Model.Domain Model.Decode Model.Midpoint Model.Pareto Model.Phases Model.Filters Model.Wiring.
From LV Require Proofs.Midpoint.
From LV Require Import Proofs.Wiring.
Import ListNotations.
Open Scope Q_scope.

(* column_selection + hyper_selection.  Every Gaussian process the endpoint builds (for the improvement or for a failure
   model) is built from ONE metric m that is optimised or constrained - never a stored one - and everything
   metric-specific about its kernel comes from hyperparameters[m]: vector [alpha] ++ one-hot length scales ++ [task length],
   of length 1 + one-hot dimension (+ 1 with tasks), all positive; nugget; kernel class; and the request's mean polynomial. *)
Theorem C06_column_and_hyper_selection r d g : wire r = Some d -> In g (all_gps d) ->
  In (g_metric g) (q_opt_ix r ++ q_con_ix r) /\
  exists h ls, nth_error (q_hypers r) (g_metric g) = Some h /\
    sequence (ls_to_one_hot (comps (q_dom r)) (hp_ls h)) = Some ls /\
    g_hyp g = hp_alpha h :: ls ++ match hp_task h with None => [] | Some t => [t] end /\
    length (g_hyp g) = S (dim_with_task r) /\ Forall (fun x => 0 < x) (g_hyp g) /\
    g_tik g = hp_tik h /\ g_kernel g = (if has_tasks r then KC4xSE else KC4) /\
    poly_indices (q_mean r) (q_poly r) (dim_with_task r) = Some (g_mean g).
Proof. exact (selection_law r d g). Qed.
Print Assumptions C06_column_and_hyper_selection.

(* Which optimised metric feeds the improvement: the first one without Pareto optimisation, the phase's optimising metric
   otherwise, all of them in order (with the drawn weights) in the convex-combination phase; in the epsilon-constraint
   phase the rows kept are exactly those the (C13/C14) labelling does not mark. *)
Theorem C06_main_metric r d : wire r = Some d ->
  match q_info r with
  | Convex w0 w1 => a_weights d = [w0; w1] /\ length (a_gps d) = length (q_opt_ix r) /\
                    forall i, (i < length (q_opt_ix r))%nat -> g_metric (nth i (a_gps d) dgp) = nth i (q_opt_ix r) O
  | EpsC om cm eps =>
      a_weights d = [] /\ exists g o pts pend, a_gps d = [g] /\ g_metric g = nth om (q_opt_ix r) O /\
        opt_of r = Some o /\ encode_rows (q_dom r) (has_tasks r) (q_points r) (q_costs r) = Some pts /\
        encode_rows (q_dom r) (has_tasks r) (q_pending r) (q_pending_costs r) = Some pend /\
        g_pts g = lied r (Pareto.select (map negb (pf_labelling eps om cm (v_values o) (q_fails r))) pts) pend
  | i => a_weights d = [] /\ exists g, a_gps d = [g] /\ g_metric g = nth (opt_metric i) (q_opt_ix r) O
  end.
Proof. exact (main_metric_law r d). Qed.
Print Assumptions C06_main_metric.

(* sign_and_scale + lies_for_failures_and_pending.  For every Gaussian process g on metric m, with i = C12's scaling object of
   raw column m (same failures, that metric's objective) and l its constant-liar-min lie: g's data is a list of
   (one-hot observation k, value) pairs where the value is the scaled lie when observation k failed and the scaled raw entry
   values[k][m] otherwise, followed - under constant liar only - by every one-hot pending point with the scaled lie; no
   value exceeds the scaled lie. *)
Theorem C06_values_and_lies r d g : wire r = Some d -> In g (all_gps d) ->
  let m := g_metric g in
  exists pts pend i l,
    encode_rows (q_dom r) (has_tasks r) (q_points r) (q_costs r) = Some pts /\
    encode_rows (q_dom r) (has_tasks r) (q_pending r) (q_pending_costs r) = Some pend /\
    smmi (column m (q_values r)) (q_fails r) (nth m (q_objs r) NoObjective) = Some i /\
    lie_value i LieMin = Some l /\
    exists dp dv, length dp = length dv /\
      g_pts g = (if is_cl r then dp ++ pend else dp) /\
      g_vals g = (if is_cl r then dv ++ repeat (rel_value i l) (length pend) else dv) /\
      Forall (row_pair r pts m i l) (combine dp dv) /\
      Forall (fun y => y <= rel_value i l) (g_vals g).
Proof. exact (values_law r d g). Qed.
Print Assumptions C06_values_and_lies.

(* ... and that scaling object obeys C12's order law: better for the user <-> strictly smaller for the model. *)
Theorem C06_sign_and_scale r d g : wire r = Some d -> In g (all_gps d) ->
  let m := g_metric g in
  exists i, smmi (column m (q_values r)) (q_fails r) (nth m (q_objs r) NoObjective) = Some i /\
    forall a b, Proofs.Midpoint.better (nth m (q_objs r) NoObjective) a b <-> rel_value i a < rel_value i b.
Proof. exact (sign_and_scale_law r d g). Qed.
Print Assumptions C06_sign_and_scale.

(* Failure models: constraint metric k (raw column con_ix[k]) gets a CDF model on that column's own Gaussian process with the
   user's threshold of THAT metric scaled by THAT metric's map; the epsilon-constraint phase adds logistic models on
   optimised metrics, one of them on the constrained metric with the epsilon threshold computed on all rows. *)
Theorem C06_failure_models r d : wire r = Some d ->
  exists pf1 pf2, a_pfs d = pf1 ++ pf2 /\
    Forall (fun p => p_kind p = PfLogistic /\ In (g_metric (p_gp p)) (q_opt_ix r)) pf1 /\
    match q_info r with
    | EpsC om cm eps => exists p o, In p pf1 /\ opt_of r = Some o /\ g_metric (p_gp p) = nth cm (q_opt_ix r) O /\
                                    p_thr p = eps_threshold_view eps cm (v_values o) (v_thresholds o)
    | _ => pf1 = []
    end /\
    length pf2 = length (q_con_ix r) /\
    forall k, (k < length (q_con_ix r))%nat ->
      let p := nth k pf2 dpf in let m := nth k (q_con_ix r) O in
      p_kind p = PfCdf /\ g_metric (p_gp p) = m /\
      exists i t, smmi (column m (q_values r)) (q_fails r) (nth m (q_objs r) NoObjective) = Some i /\
                  nth m (q_thr r) None = Some t /\ p_thr p = rel_value i t.
Proof. exact (failure_models_law r d). Qed.
Print Assumptions C06_failure_models.

(* af_choice.  Parallel form <-> qEI parallelism with at least one pending point (then the pending set is the encoded pending
   points and the batch is capped at 100); failure form <-> a constraint metric or the epsilon-constraint phase; otherwise
   augmented EI exactly when the mean noise variance of the predictor's data exceeds 1e-7, else plain EI; the incumbent
   of the plain and parallel forms is the smallest (weighted) value of the predictor's data. *)
Theorem C06_af_choice r d : wire r = Some d ->
  exists pend, encode_rows (q_dom r) (has_tasks r) (q_pending r) (q_pending_costs r) = Some pend /\
  let par := use_qei r pend in
  let fm := negb (Nat.eqb (length (a_pfs d)) 0) in
  let noise := pred_noise (a_gps d) (a_weights d) in
  (par = true <-> q_par r = QEI /\ q_pending r <> []) /\
  (fm = false <-> q_con_ix r = [] /\ forall om cm eps, q_info r <> EpsC om cm eps) /\
  (a_kind d = AfQEI <-> par = true /\ fm = false) /\ (a_kind d = AfQEIF <-> par = true /\ fm = true) /\
  (a_kind d = AfEIF <-> par = false /\ fm = true) /\
  (a_kind d = AfAEI <-> par = false /\ fm = false /\ AEI_THRESHOLD < mean_q noise) /\
  (a_kind d = AfEI <-> par = false /\ fm = false /\ mean_q noise <= AEI_THRESHOLD) /\
  a_pending d = (if par then pend else []) /\
  a_batch d = (if par then Z.min (q_max_af r) MAX_QEI_POINTS else q_max_af r) /\
  a_best d = match a_kind d with AfEI | AfQEI => min_q (pred_vals (a_gps d) (a_weights d)) | _ => None end.
Proof. exact (af_choice_law r d). Qed.
Print Assumptions C06_af_choice.

(* encoding_faithful.  One encoded query point per raw query point: C09's one-hot encoding of that point with its task cost
   appended when there are tasks; every categorical value is one of the parameter's categories; and (C09) for an admissible
   point of a well-formed domain the one-hot part decodes back to the raw point. *)
Theorem C06_encoding_faithful r d : wire r = Some d ->
  length (a_eval d) = length (q_eval r) /\ a_cost d = has_tasks r /\
  forall k, (k < length (q_eval r))%nat ->
    let p := nth k (q_eval r) [] in
    let c := if has_tasks r then Some (nth k (q_eval_costs r) 0) else None in
    nth k (a_eval d) [] = encode_with_task (q_dom r) p c /\
    encode_ok (comps (q_dom r)) p = true /\
    (has_tasks r = true -> last (nth k (a_eval d) []) 1 = nth k (q_eval_costs r) 0) /\
    (wf_domain (q_dom r) = true -> Admissible (q_dom r) p ->
       exists q, decode_det (q_dom r) (firstn (one_hot_dim (comps (q_dom r))) (nth k (a_eval d) [])) = Some q /\ peq q p).
Proof. exact (encoding_law r d). Qed.
Print Assumptions C06_encoding_faithful.

(* cost_division.  Without task options the response is the acquisition value; with task options entry k is the
   acquisition value divided by the task cost of query point k. *)
Theorem C06_cost_division r d af : wire r = Some d -> length af = length (q_eval r) ->
  (has_tasks r = false -> finalize d af = af) /\
  (has_tasks r = true -> length (finalize d af) = length af /\
     forall k, (k < length af)%nat -> nth k (finalize d af) 0 = nth k af 0 / nth k (q_eval_costs r) 0).
Proof. exact (cost_division_law r d af). Qed.
Print Assumptions C06_cost_division.

(* non-vacuity: two parameters (a double and a categorical with non-contiguous labels), three observations (one failed), a
   maximised optimised metric in raw column 2, a minimised constraint metric in column 0 with threshold 4, a stored metric
   in column 1, one pending point under constant liar, two tasks.  The reference answers: EI with failures, divided by cost;
   the optimised GP reads column 2 with hyperparameters[2]; the failed row and the pending point hold the scaled lie 0.1. *)
Definition ex_request : request :=
  mkreq {| comps := [Double 0 4; Cat [5; 2]%Z]; cons := [] |}
        [[1; 5]; [2; 2]; [3; 5]] [[1; 9; 2]; [3; 9; 6]; [5; 9; 4]] [[0; 0; 0]; [0; 0; 0]; [0; 0; 0]] [false; false; true]
        [1; (1#2); 1] [Minimize; Maximize; Maximize] [2%nat] [0%nat] [Some 4; None; None] false
        [mkhyper 1 [[Some 2]; [Some 1; Some 1]] (Some 1) None; mkhyper 7 [[Some 7]; [Some 7; Some 7]] (Some 7) None;
         mkhyper 3 [[Some (1#2)]; [None; None]] (Some (3#4)) (Some (1#100))]
        [[4; 2]] [(1#2)] [[(1#2); 2]] [(1#2)] ConstantLiar [(1#2); 1] MeanConstant None 5432 NotMM.
Example C06_example :
  exists d, wire ex_request = Some d /\ a_kind d = AfEIF /\ a_cost d = true /\
    map g_metric (all_gps d) = [2%nat; 0%nat] /\
    map g_hyp (a_gps d) = [[3; (1#2); 1; 1; (3#4)]] /\ map g_tik (a_gps d) = [Some (1#100)] /\
    map g_pts (a_gps d) = [[[1; 1; 0; 1]; [2; 0; 1; (1#2)]; [3; 1; 0; 1]; [4; 0; 1; (1#2)]]] /\
    Forall2 (Forall2 Qeq) (map g_vals (a_gps d)) [[(1#10); -(1#10); (1#10); (1#10)]] /\
    a_eval d = [[(1#2); 0; 1; (1#2)]] /\
    Forall2 Qeq (finalize d [(1#4)]) [(1#2)].
Proof.
  eexists. split; [vm_compute; reflexivity|].
  repeat split; try (vm_compute; reflexivity);
    repeat (constructor; try (vm_compute; reflexivity)).
Qed.
