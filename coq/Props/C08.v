(* C08 — restriction and sampling never leave the constrained region.
   Only statements, each closed by `exact`, with Print Assumptions beneath.
   Models: LV.Model.Restrict (domain.py, geometry_utils.py), LV.Model.Samplers (samplers.py).
   A domain is its bounds plus constraints (weights, rhs) read as weights . x >= rhs; `feasible d x` is the region
   stated directly; `interior d c` says c has the right length and is strictly inside every halfspace row (what a
   Chebyshev centre with radius >= 1e-8 is, see C08_cheby_flag_gives_interior); draws are arbitrary values in [0,1]. *)
From Coq Require Import List QArith Bool Arith ZArith Permutation.
From LV Require Import Model.Restrict Model.Samplers Proofs.Restrict Proofs.Samplers Proofs.Cheby.
Import ListNotations.
Open Scope Q_scope.

(* Projection: for every box, constraint set, interior centre, optional viable point (any point at all), on_constraint
   flag, draws and input points, each output point lies in the box and satisfies every row with >= 2 non-zero weights. *)
Theorem C08_restrict_points_correct d c vp on us ps :
  interior d c -> Forall (fun p => length p = length (bounds d)) ps -> Forall unit_interval us ->
  let out := fst (restrict_points d c vp on us ps) in
  length out = length ps /\ Forall (in_box (bounds d)) out /\ Forall (sat_all (no_bound_rows (halfspaces d))) out.
Proof. exact (restrict_points_correct d c vp on us ps). Qed.
Print Assumptions C08_restrict_points_correct.

(* With the property's precondition (two or more non-zero weights per constraint) the output is in the region. *)
Theorem C08_restrict_in_domain d c vp on us ps :
  interior d c -> Forall (fun p => length p = length (bounds d)) ps -> Forall unit_interval us ->
  (forall h, In h (cons_rows d) -> (2 <= nnz (fst h))%nat) ->
  Forall (feasible d) (fst (restrict_points d c vp on us ps)).
Proof. exact (restrict_in_domain d c vp on us ps). Qed.
Print Assumptions C08_restrict_in_domain.

(* The viable point actually used (centre / supplied point / supplied point pushed 1% toward the centre) is strictly
   inside, whatever was supplied. *)
Theorem C08_viable_point_is_strict d c vp :
  is_constrained d = true -> interior d c -> interior d (select_viable d c vp).
Proof. exact (viable_point_is_strict d c vp). Qed.
Print Assumptions C08_viable_point_is_strict.

(* Feasible points (faces included, hence all strictly feasible ones) come back unchanged and use no random draw. *)
Theorem C08_restrict_fixes_feasible d c vp on us ps :
  interior d c -> Forall (feasible d) ps -> restrict_points d c vp on us ps = (ps, us).
Proof. exact (restrict_fixes_feasible d c vp on us ps). Qed.
Print Assumptions C08_restrict_fixes_feasible.

(* The library's halfspace rows describe exactly the region. *)
Theorem C08_halfspaces_sat_iff d x : length x = length (bounds d) -> (sat_all (halfspaces d) x <-> feasible d x).
Proof. exact (halfspaces_sat_iff d x). Qed.
Print Assumptions C08_halfspaces_sat_iff.

(* Perturbation around an acceptable point followed by restriction: one feasible point per normal row. *)
Theorem C08_near_point_in_domain d c pt on zs us out rest :
  interior d c -> Forall unit_interval us -> Forall (fun z => length z = length (bounds d)) zs ->
  (forall h, In h (cons_rows d) -> (2 <= nnz (fst h))%nat) ->
  near_point d c pt on zs us = Some (out, rest) -> length out = length zs /\ Forall (feasible d) out.
Proof. exact (near_point_in_domain d c pt on zs us out rest). Qed.
Print Assumptions C08_near_point_in_domain.

(* Fixed-coordinate wrapper: overwriting coordinates no constraint mentions by values inside their bounds keeps the region. *)
Theorem C08_fixed_wrappers_in_domain d fixed c vp on us ps :
  interior d c -> Forall (fun p => length p = length (bounds d)) ps -> Forall unit_interval us ->
  (forall h, In h (cons_rows d) -> (2 <= nnz (fst h))%nat) -> fixed_valid d fixed ->
  Forall (feasible d) (fixed_restrict d fixed c vp on us ps).
Proof. exact (fixed_wrappers_in_domain d fixed c vp on us ps). Qed.
Print Assumptions C08_fixed_wrappers_in_domain.

(* Unit-cube samplers (uniform, Sobol, Halton: any unit rows in [0,1]) mapped to the box stay in the box. *)
Theorem C08_cube_sampler_in_box bs rows : ordered_bounds bs ->
  Forall (fun u => length u = length bs /\ Forall unit_interval u) rows -> Forall (in_box bs) (cube_sampler bs rows).
Proof. exact (cube_sampler_in_box bs rows). Qed.
Print Assumptions C08_cube_sampler_in_box.

(* Latin hypercube: in dimension j the strata of the n points are exactly that dimension's own permutation of 0..n-1
   (one point per stratum); the permutations of different dimensions are independent arguments. *)
Theorem C08_lhs_one_per_stratum n dim U perms j : lhs_draws_ok n dim U -> (j < dim)%nat ->
  Permutation (seq 0 n) (nth j perms []) ->
  strata_of_dim n j (lhs_unit n dim U perms) = map Z.of_nat (nth j perms []) /\
  Permutation (map Z.of_nat (seq 0 n)) (strata_of_dim n j (lhs_unit n dim U perms)).
Proof. exact (lhs_one_per_stratum n dim U perms j). Qed.
Print Assumptions C08_lhs_one_per_stratum.

Theorem C08_lhs_points_in_box bs n U perms : ordered_bounds bs -> lhs_draws_ok n (length bs) U ->
  (forall j, (j < length bs)%nat -> Permutation (seq 0 n) (nth j perms [])) ->
  length (lhs_points bs n U perms) = n /\ Forall (in_box bs) (lhs_points bs n U perms).
Proof. exact (lhs_points_in_box bs n U perms). Qed.
Print Assumptions C08_lhs_points_in_box.

(* Rejection sampling returns only candidates that satisfy every row (and keep any property R of the candidates, e.g.
   being in the box); a reported success means exactly num points. *)
Theorem C08_rejection_outputs_feasible hs num bsz budget blocks (R : point -> Prop) :
  (forall blk p, In blk blocks -> In p blk -> R p) ->
  let r := rejection_sampling hs num bsz budget blocks in
  Forall (fun p => sat_all hs p /\ R p) (fst r) /\ (snd r = true -> length (fst r) = num).
Proof. exact (rejection_outputs_feasible hs num bsz budget blocks R). Qed.
Print Assumptions C08_rejection_outputs_feasible.

(* One hit-and-run move from a point of the polytope stays in the polytope, for every direction and u in [0,1]. *)
Theorem C08_hitandrun_step_inside hs x d u x' :
  sat_all hs x -> unit_interval u -> length x = length d -> hr_step hs x d u = Some x' -> sat_all hs x'.
Proof. exact (hitandrun_step_inside hs x d u x'). Qed.
Print Assumptions C08_hitandrun_step_inside.

(* The whole hit-and-run chain, and rejection sampling padded with it, return points of the polytope. *)
Theorem C08_hitandrun_inside hs dim num x0 draws out :
  hr_draws_ok dim draws -> length x0 = dim -> sat_all hs x0 -> hitandrun hs dim num x0 draws = Some out ->
  Forall (sat_all hs) out.
Proof. exact (hitandrun_inside hs dim num x0 draws out). Qed.
Print Assumptions C08_hitandrun_inside.

Theorem C08_rejection_with_padding_feasible hs dim num bsz budget blocks x0 draws out ok :
  hr_draws_ok dim draws -> length x0 = dim -> sat_all hs x0 ->
  rejection_with_padding hs dim num bsz budget blocks x0 draws = Some (out, ok) -> Forall (sat_all hs) out.
Proof. exact (rejection_with_padding_feasible hs dim num bsz budget blocks x0 draws out ok). Qed.
Print Assumptions C08_rejection_with_padding_feasible.

(* Grid points lie in the box. *)
Theorem C08_grid_in_box bs ppd : ordered_bounds bs -> (length ppd = length bs \/ length ppd = 1%nat) ->
  Forall (in_box bs) (grid_points ppd bs).
Proof. exact (grid_in_box bs ppd). Qed.
Print Assumptions C08_grid_in_box.

(* Chebyshev LP: (x, r) satisfies the LP constraints iff r >= 0 and the ball B(x, r) is inside the polytope
   (Cauchy-Schwarz over finite sums; norms supplied with n_i >= 0, n_i^2 = sum_j a_ij^2). *)
Theorem C08_cheby_lp_is_inscribed_ball dim hs norms x r : norms_ok dim hs norms -> length x = dim ->
  (lp_feasible hs norms x r <-> 0 <= r /\ forall y, in_ball x r y -> sat_all hs y).
Proof. exact (cheby_lp_is_inscribed_ball dim hs norms x r). Qed.
Print Assumptions C08_cheby_lp_is_inscribed_ball.

(* An LP optimum is feasible with its radius, and that radius is maximal among inscribed balls. *)
Theorem C08_cheby_optimum_is_maximal dim hs norms x r : norms_ok dim hs norms -> length x = dim ->
  lp_feasible hs norms x r -> (forall x' r', length x' = dim -> lp_feasible hs norms x' r' -> r' <= r) ->
  (forall y, in_ball x r y -> sat_all hs y) /\
  (forall x' r', length x' = dim -> 0 <= r' -> (forall y, in_ball x' r' y -> sat_all hs y) -> r' <= r).
Proof. exact (cheby_optimum_is_maximal dim hs norms x r). Qed.
Print Assumptions C08_cheby_optimum_is_maximal.

(* Reported feasible iff solver success, status other than 2, and radius >= 1e-8. *)
Theorem C08_cheby_flag success status radius :
  cheby_flag success status radius = true <-> success = true /\ status <> 2%Z /\ (1 # 100000000) <= radius.
Proof. exact (cheby_flag_spec success status radius). Qed.
Print Assumptions C08_cheby_flag.

Theorem C08_cheby_flag_gives_interior dim hs norms x r success status : norms_ok dim hs norms ->
  (forall h n, In (h, n) (combine hs norms) -> 0 < n) ->
  lp_feasible hs norms x r -> cheby_flag success status r = true -> strict_all hs x.
Proof. exact (cheby_flag_gives_interior dim hs norms x r success status). Qed.
Print Assumptions C08_cheby_flag_gives_interior.

(* non-vacuity: the triangle  x + y <= 3  in [0,2]^2  (constraint -x - y >= -3), centre (1/2, 1/2); an outside point is
   pulled onto the face (on_constraint), a feasible one is kept; Latin hypercube strata with two different permutations *)
Example C08_example :
  let d := Dom [(0, 2); (0, 2)] [([-(1); -(1)], -(3))] in
  let c := [1 # 2; 1 # 2] in
  sat_all_b (halfspaces d) c = true /\
  Forall2 (Forall2 Qeq) (fst (restrict_points d c None true [] [[5; 5]; [1; 2]; [2; 2]])) [[3 # 2; 3 # 2]; [1; 2]; [3 # 2; 3 # 2]] /\
  strata_of_dim 3 0 (lhs_unit 3 2 [[1 # 4; 0]; [0; 1 # 8]; [1 # 8; 1 # 4]] [[2; 0; 1]; [1; 2; 0]]%nat) = [2; 0; 1]%Z /\
  strata_of_dim 3 1 (lhs_unit 3 2 [[1 # 4; 0]; [0; 1 # 8]; [1 # 8; 1 # 4]] [[2; 0; 1]; [1; 2; 0]]%nat) = [1; 2; 0]%Z.
Proof. vm_compute. repeat split; repeat constructor; try reflexivity; try discriminate. Qed.
