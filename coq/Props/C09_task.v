(* C09 — the task-cost column of the encode entry point (views/view.py form_one_hot_points_with_tasks) and the task
   dimension it is decoded with (views/rest/gp_next_points_categorical.py _form_domain_with_task_dimension).
   Only statements, each closed by `exact`, with Print Assumptions beneath.
   Model: LV.Model.Domain, LV.Model.Decode (encode_with_task, snap_tasks), LV.Model.EndpointTail (with_task, gp_tail), LV.Model.TaskTail. *)
From Coq Require Import List QArith ZArith Bool Arith Qround Qabs SetoidList Lia.
From LV Require Import Model.Domain Model.Decode Proofs.Domain Proofs.Decode Model.EndpointTail Model.TaskTail Proofs.DecodeTask.
Import ListNotations.
Open Scope Q_scope.

(* The encoding of a valid point lies in the relaxed one-hot box (so "decoding any point of the relaxed box" applies to it). *)
Theorem C09_encode_in_box d p : Admissible d p -> in_box (one_hot_box d) (encode d p).
Proof. exact (encode_in_box d p). Qed.
Print Assumptions C09_encode_in_box.

(* Appending the task cost to the encoding of a valid point is the encoding of (point, cost) in the domain with the task dimension:
   the cost rides along unchanged, in the last column. *)
Theorem C09_encode_with_task_is_encode d opts p c : Forall2 in_component (comps d) p ->
  encode_with_task d p (Some c) = encode (with_task d opts) (p ++ [c]).
Proof. exact (encode_with_task_is_encode d opts p c). Qed.
Print Assumptions C09_encode_with_task_is_encode.

(* Round trip with a task cost: for a valid point and a cost that is one of (at least two distinct) task options, the encoded row lies
   in the relaxed box of the task domain, the deterministic rounding functions do not move it, it has one more column than the one-hot
   dimension, decoding it returns the point followed by its cost (up to Qeq), and snapping that cost to the options returns the cost. *)
Theorem C09_task_roundtrip d opts p c : wf_domain d = true -> list_min opts < list_max opts -> Admissible d p -> In c opts ->
  let x := encode_with_task d p (Some c) in
  in_boxb (one_hot_box (with_task d opts)) x = true /\
  peq (snap_det (with_task d opts) x) x /\
  length x = S (one_hot_dim (comps d)) /\
  (exists q, decode_det (with_task d opts) x = Some q /\ peq q (p ++ [c])) /\
  peq (snap_tasks [c] opts) [c].
Proof. exact (task_roundtrip d opts p c). Qed.
Print Assumptions C09_task_roundtrip.

(* non-vacuity: a discrete-only domain (int, categorical with non-contiguous labels, integer-valued grid), task options 1/10, 3/10, 1 *)
Example C09_task_example :
  let d := {| comps := [Int (-5) 5; Cat [4; 9; 2]%Z; Grid [-4; 1; 2; 16]]; cons := [] |} in
  let opts := [(1#10); (3#10); 1] in
  wf_domain d = true /\ list_min opts < list_max opts /\ admissibleb d [-3; 9; 16] = true /\ In (3#10) opts /\
  encode_with_task d [-3; 9; 16] (Some (3#10)) = [-3; 0; 1; 0; 16; (3#10)] /\
  one_hot_box (with_task d opts) = [(inject_Z (-5), inject_Z 5); (0, 1); (0, 1); (0, 1); (-4, 16); ((1#10), 1)] /\
  decode_det (with_task d opts) [-3; 0; 1; 0; 16; (3#10)] = Some [inject_Z (-3); inject_Z 9; 16; (3#10)] /\
  snap_tasks [(3#10)] opts = [(3#10)].
Proof. vm_compute. repeat split; try reflexivity. right; left; reflexivity. Qed.

(* ------------------------------------------------------------------ "a continuous task cost is snapped to the nearest task option" on the
   multitask tail of the GP suggestion endpoint (_convert_one_hot_points_for_multitask): proposals are converted, the history is decoded
   with the task domain, duplicates (of each other, of the history) are rejected and replaced by fresh draws, and ONLY THEN is the task
   column split off and snapped.  Every returned cost is therefore an option nearest to the raw task coordinate of the row it is returned
   with - for the kept proposals and for the replacement rows alike, whatever the acquisition function, the history and the draws. *)
Theorem C09_task_tail_costs_snapped d opts parallel af xs hist hist_oh o r : opts <> [] ->
  gp_tail d opts parallel af xs hist hist_oh o = Some r ->
  exists out costs, task_tail_rows d opts af xs hist_oh o = Some out /\
    r_points r = map (@removelast Q) out /\ r_costs r = Some costs /\
    Forall2 (fun p c => In c opts /\ forall e, In e opts -> Qabs (last p 0 - c) <= Qabs (last p 0 - e)) out costs.
Proof. exact (task_tail_costs_snapped d opts parallel af xs hist hist_oh o r). Qed.
Print Assumptions C09_task_tail_costs_snapped.

(* What those rows are: the proposals kept by the two duplicate tests, in order, followed by the rows drawn for the rejected ones; on an
   unconstrained domain the latter are the per-component draws, whose last column is the uniform draw of the task dimension - a raw value
   between the smallest and the largest option, in general not an option (the domain with the task dimension is never discrete). *)
Theorem C09_task_tail_rows_structure d opts af xs hist_oh o out :
  task_tail_rows d opts af xs hist_oh o = Some out ->
  let dt := with_task d opts in
  exists pts aug kept fill,
    convert_from_one_hot dt false af (g_dec o) xs = Some pts /\ decode_b dt (g_hdec o) hist_oh = Some aug /\
    kept_of dt pts aug uniq_tol = Some kept /\ out = kept ++ fill /\
    ((DSX.zlen pts - DSX.zlen kept =? 0)%Z = true -> fill = []) /\
    ((DSX.zlen pts - DSX.zlen kept =? 0)%Z = false -> is_constrained d = false ->
       fill = DSX.quasi_random (DSX.zlen pts - DSX.zlen kept) (q_cols (g_q o))).
Proof. exact (task_tail_rows_structure d opts af xs hist_oh o out). Qed.
Print Assumptions C09_task_tail_rows_structure.

(* the decidable form evaluated by the correspondence on the implementation's own answer is sound for the clause *)
Theorem C09_task_costs_okb_sound opts rows costs : task_costs_okb opts rows costs = true ->
  Forall2 (fun p c => InA Qeq c opts /\ forall e, In e opts -> Qabs (last p 0 - c) <= Qabs (last p 0 - e)) rows costs.
Proof. exact (task_costs_okb_sound opts rows costs). Qed.
Print Assumptions C09_task_costs_okb_sound.

(* non-vacuity: the first proposal duplicates the observed point (1, 4) at task 1/2 and is rejected; its replacement is drawn with the raw
   task coordinate 11/16 and is returned with the cost 1/2; the second proposal (raw coordinate 7/8) is kept and returned with the cost 1 *)
Example C09_task_tail_example :
  let d := {| comps := [Int 0 2; Cat [1; 4]%Z]; cons := [] |} in
  let opts := [(1#8); (1#2); 1] in
  let nodec := {| o_rnds := []; o_perms := []; o_cats := [] |} in
  let o := {| g_dec := {| o_rnds := []; o_perms := []; o_cats := [[4%Z]; [1%Z]] |};
              g_hdec := {| o_rnds := []; o_perms := []; o_cats := [[4%Z]] |}; g_choice := [];
              g_q := {| q_cols := [[0]; [4]; [(11#16)]]; q_rows := []; q_dec := nodec |} |} in
  let af := fun x : row => nth 2 x 0 * (if Qle_bool (nth 0 x 0) 1 then 1 else 0) + nth 1 x 0 * (if Qle_bool 2 (nth 0 x 0) then 1 else 0) in
  let xs := [[1; 0; 1; (1#2)]; [2; 1; 0; (7#8)]] in
  let hist_oh := [[1; 0; 1; (1#2)]] in
  task_tail_rows d opts af xs hist_oh o = Some [[2; 1; (7#8)]; [0; 4; (11#16)]] /\
  gp_tail d opts false af xs [] hist_oh o = Some {| r_points := [[2; 1]; [0; 4]]; r_costs := Some [1; (1#2)] |} /\
  task_costs_okb opts [[2; 1; (7#8)]; [0; 4; (11#16)]] [1; (1#2)] = true /\
  task_costs_okb opts [[2; 1; (7#8)]; [0; 4; (11#16)]] [1; (11#16)] = false.
Proof. vm_compute. repeat split; reflexivity. Qed.
