(* C09 — the task-cost column of the encode entry point (views/view.py form_one_hot_points_with_tasks) and the task
   dimension it is decoded with (views/rest/gp_next_points_categorical.py _form_domain_with_task_dimension).
   Only statements, each closed by `exact`, with Print Assumptions beneath.
   Model: LV.Model.Domain, LV.Model.Decode (encode_with_task, snap_tasks), LV.Model.EndpointTail (with_task). *)
From Coq Require Import List QArith ZArith Bool Arith Qround Qabs SetoidList Lia.
From LV Require Import Model.Domain Model.Decode Proofs.Domain Proofs.Decode Model.EndpointTail Proofs.DecodeTask.
Import ListNotations.
Open Scope Q_scope.

(* The encoding of a valid point lies in the relaxed one-hot box (so "decoding any point of the relaxed box" applies to it). *)
Theorem C09_encode_in_box d p : Admissible d p -> in_box (one_hot_box d) (encode d p).
Proof. exact (encode_in_box d p). Qed.
Print Assumptions C09_encode_in_box.

(* Appending the task cost to the encoding of a valid point is the encoding of (point, cost) in the domain with the task dimension:
   the cost rides along unchanged, in the last column. *)
Theorem C09_encode_with_task_is_encode d opts p c : Forall2 in_component (comps d) p ->
  encode_with_task d p (Some c) = encode (with_task d opts) (p ++ [c]).
Proof. exact (encode_with_task_is_encode d opts p c). Qed.
Print Assumptions C09_encode_with_task_is_encode.

(* Round trip with a task cost: for a valid point and a cost that is one of (at least two distinct) task options, the encoded row lies
   in the relaxed box of the task domain, the deterministic rounding functions do not move it, it has one more column than the one-hot
   dimension, decoding it returns the point followed by its cost (up to Qeq), and snapping that cost to the options returns the cost. *)
Theorem C09_task_roundtrip d opts p c : wf_domain d = true -> list_min opts < list_max opts -> Admissible d p -> In c opts ->
  let x := encode_with_task d p (Some c) in
  in_boxb (one_hot_box (with_task d opts)) x = true /\
  peq (snap_det (with_task d opts) x) x /\
  length x = S (one_hot_dim (comps d)) /\
  (exists q, decode_det (with_task d opts) x = Some q /\ peq q (p ++ [c])) /\
  peq (snap_tasks [c] opts) [c].
Proof. exact (task_roundtrip d opts p c). Qed.
Print Assumptions C09_task_roundtrip.

(* non-vacuity: a discrete-only domain (int, categorical with non-contiguous labels, integer-valued grid), task options 1/10, 3/10, 1 *)
Example C09_task_example :
  let d := {| comps := [Int (-5) 5; Cat [4; 9; 2]%Z; Grid [-4; 1; 2; 16]]; cons := [] |} in
  let opts := [(1#10); (3#10); 1] in
  wf_domain d = true /\ list_min opts < list_max opts /\ admissibleb d [-3; 9; 16] = true /\ In (3#10) opts /\
  encode_with_task d [-3; 9; 16] (Some (3#10)) = [-3; 0; 1; 0; 16; (3#10)] /\
  one_hot_box (with_task d opts) = [(inject_Z (-5), inject_Z 5); (0, 1); (0, 1); (0, 1); (-4, 16); ((1#10), 1)] /\
  decode_det (with_task d opts) [-3; 0; 1; 0; 16; (3#10)] = Some [inject_Z (-3); inject_Z 9; 16; (3#10)] /\
  snap_tasks [(3#10)] opts = [(3#10)].
Proof. vm_compute. repeat split; try reflexivity. right; left; reflexivity. Qed.
