(* C01, "for multitask experiments ... each [task cost] drawn from the supplied task options (by the model-based endpoints with
   probability proportional to exp(-cost), so cheaper tasks are preferred)": statements about Gen.GenSoftmax.Softmax.task_probability,
   the probability vector select_random_task_by_softmax hands to numpy.random.choice over the task options, REGENERATED from
   views/rest/gp_next_points_categorical.py on every run.  Only statements, each closed by `exact`. *)
From Coq Require Import Reals Arith.
From LV Require Import Lib.RBase Gen.GenSoftmax Proofs.SoftmaxGen.
Open Scope R_scope.

(* for every non-empty list of task costs (any real costs): a probability vector - every entry in (0, 1], entries summing to 1 *)
Theorem C01_task_probabilities_are_a_distribution n c : (0 < n)%nat ->
  (forall i, 0 < Softmax.task_probability n c i) /\ (forall i, (i < n)%nat -> Softmax.task_probability n c i <= 1) /\
  bigsum n (Softmax.task_probability n c) = 1.
Proof. exact (fun Hn => conj (fun i => task_probability_pos n c i Hn) (conj (task_probability_le_one n c) (task_probability_sums_to_one n c Hn))). Qed.
Print Assumptions C01_task_probabilities_are_a_distribution.

(* proportional to exp(-cost): p_i = exp(c_j - c_i) p_j for all i, j; hence a cheaper task is never less likely and a strictly
   cheaper one strictly more likely *)
Theorem C01_task_probability_proportional_to_exp_minus_cost n c i j : (0 < n)%nat ->
  Softmax.task_probability n c i = exp (c j - c i) * Softmax.task_probability n c j /\
  (c i <= c j -> Softmax.task_probability n c j <= Softmax.task_probability n c i) /\
  (c i < c j -> Softmax.task_probability n c j < Softmax.task_probability n c i).
Proof. exact (fun Hn => conj (task_probability_ratio n c i j Hn) (task_probability_monotone n c i j Hn)). Qed.
Print Assumptions C01_task_probability_proportional_to_exp_minus_cost.
