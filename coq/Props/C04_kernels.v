(* C04, kernels — every analytic kernel gradient is the derivative of the value it accompanies.
   Statements about Gen.GenCovariance / Gen.GenMultitask (regenerated from covariance.py, covariance_base.py,
   multitask_covariance.py on every run). *)
From Coq Require Import Reals Lra.
From Coquelicot Require Import Coquelicot.
From LV Require Import Lib.RBase Gen.GenCovariance Gen.GenMultitask Proofs.Covariance Proofs.CovarianceGrad.
Open Scope R_scope.

(* gradient with respect to coordinate k0 of the first argument, for ALL point pairs (coincident ones included: there the
   gradient is finite and equal to 0), positive length scales, lsq = ls^2 as set_hyperparameters stores it *)
Theorem C04_grad_covariance dim x z ls lsq lcu alpha i k0 :
  (k0 < dim)%nat -> ls k0 <> 0 -> lsq k0 = ls k0 ^ 2 ->
  is_derive (fun t => SquareExponential.covariance dim (upd x i k0 t) z ls lsq lcu alpha i) (x i k0)
            (SquareExponential.grad_covariance dim x z ls lsq lcu alpha i k0) /\
  is_derive (fun t => C2RadialMatern.covariance dim (upd x i k0 t) z ls lsq lcu alpha i) (x i k0)
            (C2RadialMatern.grad_covariance dim x z ls lsq lcu alpha i k0) /\
  is_derive (fun t => C4RadialMatern.covariance dim (upd x i k0 t) z ls lsq lcu alpha i) (x i k0)
            (C4RadialMatern.grad_covariance dim x z ls lsq lcu alpha i k0).
Proof.
  intros H1 H2 H3. split; [|split].
  - exact (SE_grad_covariance_is_derivative dim x z ls lsq lcu alpha i k0 H1 H2 H3).
  - exact (C2_grad_covariance_is_derivative dim x z ls lsq lcu alpha i k0 H1 H2 H3).
  - exact (C4_grad_covariance_is_derivative dim x z ls lsq lcu alpha i k0 H1 H2 H3).
Qed.
Print Assumptions C04_grad_covariance.

(* gradient with respect to the hyperparameters: column S k0 is d/d l_k0, column 0 is d/d alpha *)
Theorem C04_hyperparameter_grad_covariance dim nh x z ls lsq lcu alpha i k0 :
  (k0 < dim)%nat -> 0 < ls k0 -> lcu k0 = ls k0 ^ 3 ->
  (is_derive (fun l => SquareExponential.covariance dim x z (updl ls k0 l) lsq lcu alpha i) (ls k0)
             (SquareExponential.hyperparameter_grad_covariance dim nh x z ls lsq lcu alpha i (S k0)) /\
   is_derive (fun a => SquareExponential.covariance dim x z ls lsq lcu a i) alpha
             (SquareExponential.hyperparameter_grad_covariance dim nh x z ls lsq lcu alpha i O)) /\
  (is_derive (fun l => C2RadialMatern.covariance dim x z (updl ls k0 l) lsq lcu alpha i) (ls k0)
             (C2RadialMatern.hyperparameter_grad_covariance dim nh x z ls lsq lcu alpha i (S k0)) /\
   is_derive (fun a => C2RadialMatern.covariance dim x z ls lsq lcu a i) alpha
             (C2RadialMatern.hyperparameter_grad_covariance dim nh x z ls lsq lcu alpha i O)) /\
  (is_derive (fun l => C4RadialMatern.covariance dim x z (updl ls k0 l) lsq lcu alpha i) (ls k0)
             (C4RadialMatern.hyperparameter_grad_covariance dim nh x z ls lsq lcu alpha i (S k0)) /\
   is_derive (fun a => C4RadialMatern.covariance dim x z ls lsq lcu a i) alpha
             (C4RadialMatern.hyperparameter_grad_covariance dim nh x z ls lsq lcu alpha i O)).
Proof.
  intros H1 H2 H3. split; [|split].
  - exact (SE_hparam_grad_is_derivative dim nh x z ls lsq lcu alpha i k0 H1 H2 H3).
  - exact (C2_hparam_grad_is_derivative dim nh x z ls lsq lcu alpha i k0 H1 H2 H3).
  - exact (C4_hparam_grad_is_derivative dim nh x z ls lsq lcu alpha i k0 H1 H2 H3).
Qed.
Print Assumptions C04_hyperparameter_grad_covariance.

(* the matrix entry points use the same formulas entry by entry (scalar line lemmas on the eval_radial_kernel family) *)
Theorem C04_radial_entry_gradients dim c z l t : l <> 0 -> 0 < d2of c z l t ->
  is_derive (fun t => SquareExponential.eval_radial_kernel (K2 (d2of c z l t)) O O) t
            (SquareExponential.eval_radial_kernel_grad dim (K2 (d2of c z l t)) (K3 (t - z)) (K1 l) (K1 (l ^ 2)) (K1 (l ^ 3)) 1 O O O) /\
  is_derive (fun t => C2RadialMatern.eval_radial_kernel (K2 (d2of c z l t)) O O) t
            (C2RadialMatern.eval_radial_kernel_grad dim (K2 (d2of c z l t)) (K3 (t - z)) (K1 l) (K1 (l ^ 2)) (K1 (l ^ 3)) 1 O O O) /\
  is_derive (fun t => C4RadialMatern.eval_radial_kernel (K2 (d2of c z l t)) O O) t
            (C4RadialMatern.eval_radial_kernel_grad dim (K2 (d2of c z l t)) (K3 (t - z)) (K1 l) (K1 (l ^ 2)) (K1 (l ^ 3)) 1 O O O).
Proof.
  intros Hl Hp. split; [|split].
  - exact (SE_grad_input dim c z l t Hl).
  - exact (C2_grad_input dim c z l t Hl Hp).
  - exact (C4_grad_input dim c z l t Hl Hp).
Qed.
Print Assumptions C04_radial_entry_gradients.

(* multitask tensor kernel: product rule, physical coordinates and the task coordinate *)
Theorem C04_multitask_product_rule (pvf tvf : R -> R) (dp dt : R) t dimp1 i kk :
  is_derive pvf t dp -> is_derive tvf t dt ->
  ((kk + 1 <> dimp1)%nat ->
     GenMultitask._grad_covariance dimp1 (fun _ => pvf t) (fun _ => tvf t) (fun _ _ => dp) (fun _ => dt) (fun _ _ => 0) (fun _ => 0) i kk
     = dp * tvf t) /\
  ((kk + 1 = dimp1)%nat ->
     GenMultitask._grad_covariance dimp1 (fun _ => pvf t) (fun _ => tvf t) (fun _ _ => dp) (fun _ => dt) (fun _ _ => 0) (fun _ => 0) i kk
     = dt * pvf t) /\
  is_derive (fun u => pvf u * tvf t) t (dp * tvf t) /\ is_derive (fun u => pvf t * tvf u) t (dt * pvf t).
Proof.
  intros Hp Ht. unfold GenMultitask._grad_covariance. split; [|split; [|split]].
  - intros H. destruct (Nat.eqb_spec (kk + 1) dimp1); [contradiction|reflexivity].
  - intros H. destruct (Nat.eqb_spec (kk + 1) dimp1); [reflexivity|contradiction].
  - evar_last. apply (is_derive_scal_l pvf t dp (tvf t)). exact Hp. unfold scal; simpl; unfold mult; simpl; ring.
  - evar_last. apply (is_derive_scal tvf t (pvf t)). exact Ht. ring.
Qed.
Print Assumptions C04_multitask_product_rule.
