(* C09 — one-hot encoding and snapping of mixed parameters are faithful.
   Only statements, each closed by `exact`, with Print Assumptions beneath.  Model: LV.Model.Domain, LV.Model.Decode. *)
From Coq Require Import List QArith ZArith Bool Arith Qround Qabs.
From LV Require Import Model.Domain Model.Decode Proofs.Domain Proofs.Decode.
Import ListNotations.
Open Scope Q_scope.

(* The decidable admissibility test evaluated on the implementation's outputs is the Prop of the theorems (Appendix A). *)
Theorem C09_admissibleb_spec d p : admissibleb d p = true <-> Admissible d p.
Proof. exact (admissibleb_spec d p). Qed.
Print Assumptions C09_admissibleb_spec.

(* Decoding any point of the relaxed box that satisfies the double constraints yields an admissible configuration, for every
   way of choosing the categories that returns a member (every temperature, every uniform draw): doubles unchanged, ints
   rounded half-to-even to a nearest integer, grid values replaced by a nearest element (`decoded`).  Domains without int
   constraints; with int constraints see C09_decode_row_admissible_gen and the snapping theorems. *)
Theorem C09_decode_admissible (powf : Q -> Q -> Q) d T us x q :
  wf_domain d = true -> is_int_constrained d = false -> in_box (one_hot_box d) x -> sat_double_cons d x ->
  decode powf d T us x = Some q -> Admissible d q /\ decoded (comps d) x q.
Proof. exact (decode_row_admissible (choose_draw powf (Some T)) d us x q (choose_draw_member powf (Some T))). Qed.
Print Assumptions C09_decode_admissible.

(* The same for a relaxed point that satisfies all constraints and is integral where an int constraint looks (what the
   integer-feasible snapping establishes). *)
Theorem C09_decode_row_admissible_gen {O} (choose : O -> row -> list Z -> option Z) d os x q :
  choose_member choose -> wf_domain d = true -> in_box (one_hot_box d) x ->
  (forall k, In k (cons d) -> rhs k <= dot (oh_weights (comps d) (weights k)) x) ->
  (forall k, In k (cons d) -> unmoved (cty k) (comps d) (weights k) x) ->
  decode_gen choose (comps d) os x = Some q -> Admissible d q /\ decoded (comps d) x q.
Proof. exact (decode_row_admissible_gen choose d os x q). Qed.
Print Assumptions C09_decode_row_admissible_gen.

(* Encoding a valid point, applying the three deterministic rounding functions and reading the categories off returns the
   same point (up to Qeq); the rounding functions do not move an encoded valid point; the encoding has the one-hot length. *)
Theorem C09_round_roundtrip d p : wf_domain d = true -> Admissible d p ->
  exists q, decode_det d (encode d p) = Some q /\ peq q p /\
            peq (snap_det d (encode d p)) (encode d p) /\ length (encode d p) = one_hot_dim (comps d).
Proof. exact (round_roundtrip d p). Qed.
Print Assumptions C09_round_roundtrip.

(* Deterministic rounding sets a categorical block to the unit vector at its first maximum (numpy.argmax). *)
Theorem C09_round_cat_is_argmax es r x : es <> [] -> (length es <= length x)%nat ->
  let vals := firstn (length es) x in let k := argmax vals in
  round_cat_row (Cat es :: r) x = unit_vec (length es) k ++ round_cat_row r (skipn (length es) x) /\
  (k < length es)%nat /\ (forall j, (j < length es)%nat -> nth j vals 0 <= nth k vals 0) /\
  (forall j, (j < k)%nat -> nth j vals 0 < nth k vals 0).
Proof. exact (round_cat_is_argmax es r x). Qed.
Print Assumptions C09_round_cat_is_argmax.

(* Per-parameter length scales survive categorical -> one-hot -> categorical unchanged. *)
Theorem C09_length_scales_roundtrip cs ls :
  Forall2 (fun c l => length l = width c /\ no_none l = true) cs ls -> ls_to_categorical cs (ls_to_one_hot cs ls) = ls.
Proof. exact (length_scales_roundtrip cs ls). Qed.
Print Assumptions C09_length_scales_roundtrip.

(* A continuous task cost is snapped to a nearest task option. *)
Theorem C09_snap_task_nearest costs options : options <> [] ->
  Forall2 (fun c o => In o options /\ forall e, In e options -> Qabs (c - o) <= Qabs (c - e)) costs (snap_tasks costs options).
Proof. exact (snap_tasks_nearest costs options). Qed.
Print Assumptions C09_snap_task_nearest.

(* The lattice used for integer snapping and by the suggestion endpoint is exactly the set of floor/ceil combinations of the
   masked coordinates (all other coordinates kept), 2^k rows. *)
Theorem C09_int_neighbours_enumerate mask x :
  (forall r, In r (lattice mask x) <-> nbr_of mask x r) /\
  ((length mask <= length x)%nat -> length (lattice mask x) = Nat.pow 2 (count_true mask)).
Proof. exact (conj (lattice_spec mask x) (lattice_length mask x)). Qed.
Print Assumptions C09_int_neighbours_enumerate.

(* Every row returned by snap_one_hot_points_to_integer_feasible satisfies all int constraints and is an input row (its own, or
   for a padded row another one) with the int-constrained coordinates moved to floor or ceiling (hence integers) and all other
   coordinates kept; for every shuffle and every outcome of the random-neighbour branch. *)
Theorem C09_int_feasible_snap_sound d rnds perms xs : Forall (snap_ok d xs) (snap_feasible d rnds perms xs).
Proof. exact (int_feasible_snap_sound d rnds perms xs). Qed.
Print Assumptions C09_int_feasible_snap_sound.

(* non-vacuity: a four-component domain with a negative grid, non-contiguous labels and an int constraint *)
Example C09_example :
  let d := {| comps := [Double (-2) 5; Int (-3) 10; Cat [5; 1; 7]%Z; Grid [(1#4); (-3#2); (5#2)]];
              cons := [{| weights := [0; 1; 0; 0]; rhs := 2; cty := CInt |}] |} in
  wf_domain d = true /\ admissibleb d [(3#2); 3; 7; (5#2)] = true /\
  encode d [(3#2); 3; 7; (5#2)] = [(3#2); 3; 0; 0; 1; (5#2)] /\
  decode_det d (encode d [(3#2); 3; 7; (5#2)]) = Some [(3#2); inject_Z 3; inject_Z 7; (5#2)] /\
  decode_with d [1%Z] [(3#2); (5#2); (1#2); (1#2); (1#4); (-5#8)] = Some [(3#2); inject_Z 2; inject_Z 1; (1#4)] /\
  snap_feasible d [] [[1%nat; 0%nat]] [[0; (3#2); 0; 0; 1; 0]] = [[0; inject_Z 2; 0; 0; 1; 0]].
Proof. vm_compute. repeat split; reflexivity. Qed.
