(* C09 — one-hot encoding and snapping of mixed parameters are faithful.
   Only statements, each closed by `exact`, with Print Assumptions beneath.  Model: LV.Model.Domain, LV.Model.Decode. *)
From Coq Require Import List QArith ZArith Bool Arith Qround Qabs SetoidList Permutation Lia.
From LV Require Import Model.Domain Model.Decode Proofs.Domain Proofs.Decode.
Import ListNotations.
Open Scope Q_scope.

(* The decidable admissibility test evaluated on the implementation's outputs is the Prop of the theorems (Appendix A). *)
Theorem C09_admissibleb_spec d p : admissibleb d p = true <-> Admissible d p.
Proof. exact (admissibleb_spec d p). Qed.
Print Assumptions C09_admissibleb_spec.

(* Decoding any point of the relaxed box that satisfies the double constraints yields an admissible configuration, for every
   way of choosing the categories that returns a member (every temperature, every uniform draw): doubles unchanged, ints
   rounded half-to-even to a nearest integer, grid values replaced by a nearest element (`decoded`).  Domains without int
   constraints; with int constraints see C09_decode_row_admissible_gen and the snapping theorems. *)
Theorem C09_decode_admissible (powf : Q -> Q -> Q) d T us x q :
  wf_domain d = true -> is_int_constrained d = false -> in_box (one_hot_box d) x -> sat_double_cons d x ->
  decode powf d T us x = Some q -> Admissible d q /\ decoded (comps d) x q.
Proof. exact (decode_row_admissible (choose_draw powf (Some T)) d us x q (choose_draw_member powf (Some T))). Qed.
Print Assumptions C09_decode_admissible.

(* The same for a relaxed point that satisfies all constraints and is integral where an int constraint looks (what the
   integer-feasible snapping establishes). *)
Theorem C09_decode_row_admissible_gen {O} (choose : O -> row -> list Z -> option Z) d os x q :
  choose_member choose -> wf_domain d = true -> in_box (one_hot_box d) x ->
  (forall k, In k (cons d) -> rhs k <= dot (oh_weights (comps d) (weights k)) x) ->
  (forall k, In k (cons d) -> unmoved (cty k) (comps d) (weights k) x) ->
  decode_gen choose (comps d) os x = Some q -> Admissible d q /\ decoded (comps d) x q.
Proof. exact (decode_row_admissible_gen choose d os x q). Qed.
Print Assumptions C09_decode_row_admissible_gen.

(* Encoding a valid point, applying the three deterministic rounding functions and reading the categories off returns the
   same point (up to Qeq); the rounding functions do not move an encoded valid point; the encoding has the one-hot length. *)
Theorem C09_round_roundtrip d p : wf_domain d = true -> Admissible d p ->
  exists q, decode_det d (encode d p) = Some q /\ peq q p /\
            peq (snap_det d (encode d p)) (encode d p) /\ length (encode d p) = one_hot_dim (comps d).
Proof. exact (round_roundtrip d p). Qed.
Print Assumptions C09_round_roundtrip.

(* Deterministic rounding sets a categorical block to the unit vector at its first maximum (numpy.argmax). *)
Theorem C09_round_cat_is_argmax es r x : es <> [] -> (length es <= length x)%nat ->
  let vals := firstn (length es) x in let k := argmax vals in
  round_cat_row (Cat es :: r) x = unit_vec (length es) k ++ round_cat_row r (skipn (length es) x) /\
  (k < length es)%nat /\ (forall j, (j < length es)%nat -> nth j vals 0 <= nth k vals 0) /\
  (forall j, (j < k)%nat -> nth j vals 0 < nth k vals 0).
Proof. exact (round_cat_is_argmax es r x). Qed.
Print Assumptions C09_round_cat_is_argmax.

(* Per-parameter length scales survive categorical -> one-hot -> categorical unchanged. *)
Theorem C09_length_scales_roundtrip cs ls :
  Forall2 (fun c l => length l = width c /\ no_none l = true) cs ls -> ls_to_categorical cs (ls_to_one_hot cs ls) = ls.
Proof. exact (length_scales_roundtrip cs ls). Qed.
Print Assumptions C09_length_scales_roundtrip.

(* A continuous task cost is snapped to a nearest task option. *)
Theorem C09_snap_task_nearest costs options : options <> [] ->
  Forall2 (fun c o => In o options /\ forall e, In e options -> Qabs (c - o) <= Qabs (c - e)) costs (snap_tasks costs options).
Proof. exact (snap_tasks_nearest costs options). Qed.
Print Assumptions C09_snap_task_nearest.

(* The lattice used for integer snapping and by the suggestion endpoint is exactly the set of floor/ceil combinations of the
   masked coordinates (all other coordinates kept), 2^k rows. *)
Theorem C09_int_neighbours_enumerate mask x :
  (forall r, In r (lattice mask x) <-> nbr_of mask x r) /\
  ((length mask <= length x)%nat -> length (lattice mask x) = Nat.pow 2 (count_true mask)).
Proof. exact (conj (lattice_spec mask x) (lattice_length mask x)). Qed.
Print Assumptions C09_int_neighbours_enumerate.

(* Every row returned by snap_one_hot_points_to_integer_feasible satisfies all int constraints and is an input row (its own, or
   for a padded row another one) with the int-constrained coordinates moved to floor or ceiling (hence integers) and all other
   coordinates kept; for every shuffle and every outcome of the random-neighbour branch. *)
Theorem C09_int_feasible_snap_sound d rnds perms xs : Forall (snap_ok d xs) (snap_feasible d rnds perms xs).
Proof. exact (int_feasible_snap_sound d rnds perms xs). Qed.
Print Assumptions C09_int_feasible_snap_sound.

(* ------------------------------------------------------------------ the stochastic decode round trip
   What the code does at an exact one-hot vertex: rel_prob_func adds 1e-300 to every weight, so in a block of n = a+1+b
   categories every OTHER category gets probability p0 = 1e-300 / (1 + n*1e-300), which is NOT zero, and the category of the
   vertex gets p1 = (1 + 1e-300) / (1 + n*1e-300).  (Contract on numpy.power: 0 ** e = 0 and 1 ** e = 1 for e > 0.) *)
Theorem C09_onehot_probs powf T a b : pow_contract powf ->
  exists p0 p1, rel_probs powf T (onehot a b) = repeat p0 a ++ p1 :: repeat p0 b /\
                p0 == eps300 / (1 + nQ (a + 1 + b) * eps300) /\ p1 == (1 + eps300) / (1 + nQ (a + 1 + b) * eps300) /\
                0 < p0 /\ 0 < p1.
Proof. exact (rel_probs_onehot powf T a b). Qed.
Print Assumptions C09_onehot_probs.

(* Hence numpy.random.choice (cdf.searchsorted(u, side="right")) returns the category z = es[k] of the vertex exactly for the
   draws u with  k*p0 <= u < k*p0 + p1,  written division-free as
     in_window n k u  :=  k*1e-300 <= u*(1 + n*1e-300)  /\  u*(1 + n*1e-300) < 1 + (k+1)*1e-300 :
   a lower tail [0, k*p0) and an upper tail [k*p0 + p1, 1) are excluded (in double arithmetic 1 + 1e-300 = 1, so the upper tail
   is empty there and the lower tail contains the single double u = 0.0, for k >= 1). *)
Theorem C09_choose_draw_onehot_iff powf T u es k z : pow_contract powf -> NoDup es -> nth_error es k = Some z -> 0 <= u ->
  (choose_draw powf T u (onehot k (length es - k - 1)) es = Some z <-> in_window (length es) k u).
Proof. exact (choose_draw_onehot_iff powf T u es k z). Qed.
Print Assumptions C09_choose_draw_onehot_iff.

(* Round trip of the stochastic decode (Appendix A's `decode powf d T us x` is `decode_row powf d (Some T) us x`): for every
   well-formed domain, every admissible configuration, EVERY temperature (None, 0, below the minimum, anything) and every list of
   draws u >= 0, decoding the one-hot encoding returns the configuration IF AND ONLY IF each draw lies in the window of the
   category its parameter holds (draws_in_window: one draw per categorical parameter, in order, k = position of the value in the
   element list).  So the round trip holds exactly outside the two 1e-300-tails, not for all draws of [0,1). *)
Theorem C09_decode_roundtrip powf d T us p : pow_contract powf -> wf_domain d = true -> Admissible d p ->
  draws_in_window (comps d) p us -> exists q, decode_row powf d T us (encode d p) = Some q /\ peq q p.
Proof. exact (decode_roundtrip powf d T us p). Qed.
Print Assumptions C09_decode_roundtrip.

Theorem C09_decode_roundtrip_iff powf d T us p : pow_contract powf -> wf_domain d = true -> Admissible d p ->
  Forall (fun u => 0 <= u) us ->
  ((exists q, decode_row powf d T us (encode d p) = Some q /\ peq q p) <-> draws_in_window (comps d) p us).
Proof. exact (decode_roundtrip_iff powf d T us p). Qed.
Print Assumptions C09_decode_roundtrip_iff.

(* A uniform sufficient condition: every draw in [m*1e-300, 1 - m*1e-300], m the largest number of categories. *)
Theorem C09_decode_roundtrip_uniform powf d T us p : pow_contract powf -> wf_domain d = true -> Admissible d p ->
  (length (filter is_cat (comps d)) <= length us)%nat ->
  Forall (fun u => nQ (max_cats (comps d)) * eps300 <= u /\ u <= 1 - nQ (max_cats (comps d)) * eps300) us ->
  exists q, decode_row powf d T us (encode d p) = Some q /\ peq q p.
Proof. exact (decode_roundtrip_uniform powf d T us p). Qed.
Print Assumptions C09_decode_roundtrip_uniform.

(* The unrestricted statement ("for every draw of [0,1)") is false of the model and of the code: the draw u = 0 at the vertex of
   the third of three categories returns the first one (replayed on the real code with numpy's generator forced to return 0.0:
   [1.5, 7] is decoded to [1.5, 5] at every temperature). *)
Theorem C09_decode_roundtrip_all_draws_refuted :
  exists d T us p, wf_domain d = true /\ Admissible d p /\ Forall (fun u => 0 <= u /\ u < 1) us /\
    ~ (exists q, decode_row pow_int d T us (encode d p) = Some q /\ peq q p).
Proof. exact decode_roundtrip_all_draws_refuted. Qed.
Print Assumptions C09_decode_roundtrip_all_draws_refuted.

(* ------------------------------------------------------------------ completeness of the integer-feasible snap
   (at most MAX_GRID_DIM = 13 constrained ints, so that the full floor/ceil grid is enumerated; perms_ok: each shuffle is a
   permutation of the positions of its row's feasible neighbours.)  If every row has SOME floor/ceil combination of its
   int-constrained coordinates satisfying the int constraints, no row is deleted or replaced by another row's neighbour: row i of
   the result satisfies every int constraint and is row i with the int-constrained coordinates moved to floor or ceiling. *)
Theorem C09_int_feasible_snap_complete d rnds perms xs :
  (count_true (int_mask d) <= max_grid_dim)%nat -> perms_ok d rnds perms xs -> Forall (has_feasible_vertex d) xs ->
  Forall2 (fun x f => sat_cons (comps d) (int_cons d) f = true /\ nbr_of (int_mask d) x f) xs (snap_feasible d rnds perms xs).
Proof. exact (int_feasible_snap_complete d rnds perms xs). Qed.
Print Assumptions C09_int_feasible_snap_complete.

(* General form (some rows may have no feasible combination): the result is a row-by-row list from which only holes were deleted,
   and a row with a feasible combination of its own is never a hole: it became one of its own feasible combinations. *)
Theorem C09_int_feasible_snap_complete_rows d rnds perms xs :
  (count_true (int_mask d) <= max_grid_dim)%nat -> perms_ok d rnds perms xs ->
  exists filled, snap_feasible d rnds perms xs = somes filled /\
    Forall2 (fun x o => has_feasible_vertex d x ->
               exists f, o = Some f /\ sat_cons (comps d) (int_cons d) f = true /\ nbr_of (int_mask d) x f) xs filled.
Proof. exact (int_feasible_snap_complete_rows d rnds perms xs). Qed.
Print Assumptions C09_int_feasible_snap_complete_rows.

(* The bounds need no test: a floor/ceil combination of the int-constrained coordinates of a point of the relaxed box is in the
   relaxed box (int bounds are integers; int constraints put non-zero weights on int parameters only). *)
Theorem C09_int_neighbour_in_box d x r :
  wf_domain d = true -> in_box (one_hot_box d) x -> nbr_of (int_mask d) x r -> in_box (one_hot_box d) r.
Proof. exact (nbr_in_box d x r). Qed.
Print Assumptions C09_int_neighbour_in_box.

(* ------------------------------------------------------------------ the categorical neighbour lattice
   generate_neighboring_categorical_points enumerates exactly the rows in which every categorical block is a one-hot vertex
   (unit vector at a position of the block) and every other coordinate is the input's (cat_vertex); no row occurs twice, even up
   to Qeq; there are prod |elements| of them. *)
Theorem C09_cat_neighbours_enumerate cs x :
  (forall r, In r (cat_lattice cs x) <-> cat_vertex cs x r) /\ NoDupA peq (cat_lattice cs x) /\
  ((one_hot_dim cs <= length x)%nat -> length (cat_lattice cs x) = cat_count cs).
Proof. exact (conj (cat_lattice_spec cs x) (conj (cat_lattice_NoDup cs x) (cat_lattice_length cs x))). Qed.
Print Assumptions C09_cat_neighbours_enumerate.

Theorem C09_neighboring_cat_points_spec d xs r :
  In r (neighboring_cat_points d xs) <-> exists x, In x xs /\ cat_vertex (comps d) x r.
Proof. exact (neighboring_cat_points_spec d xs r). Qed.
Print Assumptions C09_neighboring_cat_points_spec.

(* non-vacuity: a four-component domain with a negative grid, non-contiguous labels and an int constraint *)
Example C09_example :
  let d := {| comps := [Double (-2) 5; Int (-3) 10; Cat [5; 1; 7]%Z; Grid [(1#4); (-3#2); (5#2)]];
              cons := [{| weights := [0; 1; 0; 0]; rhs := 2; cty := CInt |}] |} in
  wf_domain d = true /\ admissibleb d [(3#2); 3; 7; (5#2)] = true /\
  encode d [(3#2); 3; 7; (5#2)] = [(3#2); 3; 0; 0; 1; (5#2)] /\
  decode_det d (encode d [(3#2); 3; 7; (5#2)]) = Some [(3#2); inject_Z 3; inject_Z 7; (5#2)] /\
  decode_with d [1%Z] [(3#2); (5#2); (1#2); (1#2); (1#4); (-5#8)] = Some [(3#2); inject_Z 2; inject_Z 1; (1#4)] /\
  snap_feasible d [] [[1%nat; 0%nat]] [[0; (3#2); 0; 0; 1; 0]] = [[0; inject_Z 2; 0; 0; 1; 0]].
Proof. vm_compute. repeat split; reflexivity. Qed.

(* non-vacuity of the stochastic round trip: temperature 1/5 (exponent 5), the value 7 sits at position 2 of [5; 1; 7]; the draw
   1/2 is in the window and the decode returns the configuration; the draw 0 is not and the first category comes back *)
Example C09_example_stochastic :
  let d := {| comps := [Double (-2) 5; Int (-3) 10; Cat [5; 1; 7]%Z; Grid [(1#4); (-3#2); (5#2)]]; cons := [] |} in
  let p := [(3#2); 3; 7; (5#2)] in
  pow_contract pow_int /\ wf_domain d = true /\ Admissible d p /\ draws_in_window (comps d) p [1#2] /\
  decode_row pow_int d (Some (1#5)) [1#2] (encode d p) = Some [(3#2); inject_Z 3; inject_Z 7; (5#2)] /\
  ~ draws_in_window (comps d) p [0] /\
  decode_row pow_int d (Some (1#5)) [0] (encode d p) = Some [(3#2); inject_Z 3; inject_Z 5; (5#2)].
Proof.
  cbv zeta. split; [exact pow_int_contract|]. split; [reflexivity|]. split; [apply admissibleb_spec; reflexivity|].
  split; [cbn [draws_in_window comps find_pos length]; unfold in_window; repeat split; vm_compute; congruence|].
  split; [vm_compute; reflexivity|]. split; [|vm_compute; reflexivity].
  cbn [draws_in_window comps find_pos length]. unfold in_window. intros (_ & (H & _) & _). revert H. vm_compute. intros H. apply H. reflexivity.
Qed.

(* non-vacuity of snap completeness: x1 >= 2 as an int constraint, the relaxed value 3/2: the ceiling is feasible, the floor is not *)
Example C09_example_snap_complete :
  let d := {| comps := [Double (-2) 5; Int (-3) 10; Cat [5; 1; 7]%Z; Grid [(1#4); (-3#2); (5#2)]];
              cons := [{| weights := [0; 1; 0; 0]; rhs := 2; cty := CInt |}] |} in
  let xs := [[0; (3#2); 0; 0; 1; 0]; [1; (7#3); 1; 0; 0; (1#4)]] in
  (count_true (int_mask d) <= max_grid_dim)%nat /\ perms_ok d [] [[0%nat]; [1%nat; 0%nat]] xs /\ Forall (has_feasible_vertex d) xs /\
  snap_feasible d [] [[0%nat]; [1%nat; 0%nat]] xs = [[0; inject_Z 2; 0; 0; 1; 0]; [1; inject_Z 3; 1; 0; 0; (1#4)]].
Proof.
  cbv zeta. split; [vm_compute; lia|]. split; [|split; [|vm_compute; reflexivity]].
  - split; [vm_compute; apply Permutation_refl|]. split; [vm_compute; apply perm_swap|exact I].
  - repeat constructor.
    + exists [0; inject_Z 2; 0; 0; 1; 0]. split; vm_compute; intuition.
    + exists [1; inject_Z 3; 1; 0; 0; (1#4)]. split; vm_compute; intuition.
Qed.

(* non-vacuity of the categorical lattice: the example of the docstring of generate_neighboring_categorical_points *)
Example C09_example_cat_lattice :
  let cs := [Double 0 1; Cat [10; 20]%Z; Cat [3; 4]%Z] in
  let x := [(1#10); (9#10); (1#10); (2#5); (1#5)] in
  cat_lattice cs x = [[(1#10); 1; 0; 1; 0]; [(1#10); 1; 0; 0; 1]; [(1#10); 0; 1; 1; 0]; [(1#10); 0; 1; 0; 1]] /\
  cat_count cs = 4%nat /\ cat_vertex cs x [(1#10); 0; 1; 1; 0].
Proof.
  cbv zeta. split; [vm_compute; reflexivity|]. split; [reflexivity|]. apply cat_lattice_spec. vm_compute. auto.
Qed.
