(* C05, batching and incumbents — statements about the executable model Model.Incumbent (tied by correspondence). *)
From Coq Require Import List QArith Bool Arith.
From LV Require Import Model.Pareto Model.Incumbent Proofs.Incumbent.
Import ListNotations.
Open Scope Q_scope.

(* for a pointwise acquisition function the batched evaluation is the map, whatever the batch size *)
Theorem C05_batched_eval_is_map {A B} (g : A -> B) (b : option nat) (pts : list A) :
  (pts <> [] \/ exists k, b = Some (S k)) -> evaluate_at_point_list (map g) b pts = Some (map g pts).
Proof. exact (batched_eval_is_map g b pts). Qed.
Print Assumptions C05_batched_eval_is_map.

Theorem C05_incumbent_plain vals : vals <> [] ->
  let '(i, v) := incumbent_plain vals in
  (i < length vals)%nat /\ v = nth i vals 0 /\ (forall k, (k < length vals)%nat -> v <= nth k vals 0) /\
  (forall k, (k < i)%nat -> v < nth k vals 0).
Proof. exact (incumbent_plain_spec vals). Qed.
Print Assumptions C05_incumbent_plain.

Theorem C05_incumbent_aei q means sds : means <> [] -> length means = length sds ->
  let '(i, v) := incumbent_aei q means sds in
  (i < length means)%nat /\ v = nth i means 0 /\
  (forall k, (k < length means)%nat -> nth i means 0 + q * nth i sds 0 <= nth k means 0 + q * nth k sds 0).
Proof. exact (incumbent_aei_spec q means sds). Qed.
Print Assumptions C05_incumbent_aei.
