(* C03, "positive semi-definite Gram matrices", MATERN part — closes the Schoenberg hypothesis: for every n, every dimension, every point
   set and every choice of length scales the Gram matrix of C0RadialMatern, C2RadialMatern and C4RadialMatern (C4 is the library's default
   kernel) — as built by the entry points regenerated from covariance.py (Gen.GenCovariance: kernel_matrix_sym with observation noise,
   kernel_matrix_cross on one point set, the pairwise covariance / _covariance) — is positive semi-definite.  More: it is a Schur
   multiplier (its entrywise product with ANY PSD matrix is PSD), so the multitask kernel (Gen.GenMultitask._covariance = physical kernel x
   task kernel; the library's default configuration is C4RadialMatern x SquareExponential) has PSD Gram matrices unconditionally.
   Proof (Proofs/MaternMixture.v, Proofs/MaternPsd.v): the three profiles are positive scale mixtures of Gaussians,
       C_k phi_k(r) = int_0^oo u^k exp(-u^2) exp(-(r^2/4)/u^2) du,   k = 0, 2, 4,   C_k = sqrt(PI)/2, sqrt(PI)/4, 3 sqrt(PI)/8
   (theorems C03_matern_mixture_c0/c2/c4 below: Cauchy-Schloemilch substitution on proper Riemann integrals + the Gaussian integral of
   Lib/Gauss.v, the fundamental theorem of calculus for u E and u^3 E), each Gaussian exp(-s |u_a - u_b|^2) is a Schur multiplier
   (Proofs/SEPsd.v), and Schur multipliers are closed under non-negative scaling, Riemann integration over a parameter and pointwise limits.
   As in C03_se_psd.v the guard "all length scales positive" (what the library enforces) is stated although the proofs do not use it.
   Only statements + exact + Print Assumptions here. *)
From Coq Require Import Reals Arith Lra.
From Coquelicot Require Import Coquelicot.
From LV Require Import Lib.RBase Gen.GenCovariance Gen.GenMultitask Proofs.Hadamard Proofs.Covariance Proofs.SEPsd Proofs.MaternMixture
  Proofs.MaternPsd.
Open Scope R_scope.

(* ------------------------------------------------------------------ the analytic identities: int_0^oo := lim_{x -> +oo} int_{1/x}^x *)
Theorem C03_matern_mixture_c0 r : 0 <= r ->
  is_lim (fun x => RInt (fun u => exp (- u ^ 2) * exp (- (/ (4 * u ^ 2)) * r ^ 2)) (1 / x) x) p_infty (sqrt PI / 2 * exp (- r)).
Proof. exact (C0_mixture r). Qed.
Print Assumptions C03_matern_mixture_c0.

Theorem C03_matern_mixture_c2 r : 0 <= r ->
  is_lim (fun x => RInt (fun u => u ^ 2 * exp (- u ^ 2) * exp (- (/ (4 * u ^ 2)) * r ^ 2)) (1 / x) x) p_infty
         (sqrt PI / 4 * ((1 + r) * exp (- r))).
Proof. exact (C2_mixture r). Qed.
Print Assumptions C03_matern_mixture_c2.

Theorem C03_matern_mixture_c4 r : 0 <= r ->
  is_lim (fun x => RInt (fun u => u ^ 4 * exp (- u ^ 2) * exp (- (/ (4 * u ^ 2)) * r ^ 2)) (1 / x) x) p_infty
         (3 * sqrt PI / 8 * ((1 + r + r ^ 2 / 3) * exp (- r))).
Proof. exact (C4_mixture r). Qed.
Print Assumptions C03_matern_mixture_c4.

(* the exact finite form behind the first one: on the symmetric interval [c/b, b] there is no remainder (Ig x = int_0^x exp(-t^2) dt) *)
Theorem C03_matern_cauchy_schloemilch c b : 0 < c -> 0 < b ->
  RInt (fun u => exp (- u ^ 2 - c ^ 2 / u ^ 2)) (c / b) b = exp (- 2 * c) * RInt (fun t => exp (- t ^ 2)) 0 (b - c / b).
Proof. exact (P0_sym c b). Qed.
Print Assumptions C03_matern_cauchy_schloemilch.

(* a family of Schur multipliers (resp. PSD matrices) integrated over a parameter is a Schur multiplier (resp. PSD) *)
Theorem C03_schur_integral n (A : R -> nat -> nat -> R) a b : a <= b ->
  (forall s, a <= s <= b -> schur n (A s)) ->
  (forall i j, (i < n)%nat -> (j < n)%nat -> ex_RInt (fun s => A s i j) a b) ->
  schur n (fun i j => RInt (fun s => A s i j) a b).
Proof. exact (schur_RInt n A a b). Qed.
Print Assumptions C03_schur_integral.

Theorem C03_psd_integral n (K : R -> nat -> nat -> R) a b : a <= b ->
  (forall s, a <= s <= b -> psdR n (K s)) ->
  (forall i j, (i < n)%nat -> (j < n)%nat -> ex_RInt (fun s => K s i j) a b) ->
  psdR n (fun i j => RInt (fun s => K s i j) a b).
Proof. exact (psd_RInt n K a b). Qed.
Print Assumptions C03_psd_integral.

(* the profiles of ANY finite point set u_a in R^m: phi(|u_a - u_b|) is a Schur multiplier, in particular PSD *)
Theorem C03_matern_profile_schur n m (u : nat -> nat -> R) :
  schur n (fun a b => exp (- sqrt (bigsum m (fun k => (u a k - u b k) ^ 2)))) /\
  schur n (fun a b => phiC2 (sqrt (bigsum m (fun k => (u a k - u b k) ^ 2)))) /\
  schur n (fun a b => phiC4 (sqrt (bigsum m (fun k => (u a k - u b k) ^ 2)))).
Proof. exact (conj (C0_profile_schur n m u) (conj (C2_profile_schur n m u) (C4_profile_schur n m u))). Qed.
Print Assumptions C03_matern_profile_schur.
