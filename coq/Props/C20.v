(* C20 — schema validation fails only with library errors, exactly when data is invalid.
   Only statements, each closed by `exact`, with Print Assumptions beneath.  Model: LV.Model.Schema.
   jsonschema is external: it enters as the function `js` with the contract (js_iff, js_wf) written out as premises. *)
From Coq Require Import List ZArith NArith QArith Bool Arith String.
From LV Require Import Model.Schema Proofs.Schema.
Import ListNotations.

(* validate returns silently exactly when the value conforms to the schema — relative to the contract that jsonschema
   raises ValidationError exactly on non-conforming values (the contract itself is decided by correspondence part (i)) *)
Theorem C20_validate_silent_iff_conforms
  (rxm : N -> str -> bool) (js : json -> schema -> js_result)
  (js_iff : forall v s, js v s = JsOk <-> conforms rxm s v = true) v s :
  validate js v s = Silent <-> conforms rxm s v = true.
Proof. exact (validate_silent_iff_conforms rxm js js_iff v s). Qed.
Print Assumptions C20_validate_silent_iff_conforms.

(* ... and otherwise raises one of the library's own error classes (never a raw exception) with a non-empty message,
   for every value and every schema, given that the raised record is well-formed (wf_verr) *)
Theorem C20_validate_raises_lib_only
  (rxm : N -> str -> bool) (js : json -> schema -> js_result)
  (js_iff : forall v s, js v s = JsOk <-> conforms rxm s v = true)
  (js_wf : forall v s e, js v s = JsError e -> wf_verr e = true) v s :
  (validate js v s = Silent /\ conforms rxm s v = true) \/
  (exists le, validate js v s = Raises (Lib le) /\ msg_nonempty (err_msg le) = true /\ conforms rxm s v = false).
Proof. exact (validate_raises_lib_only rxm js js_iff js_wf v s). Qed.
Print Assumptions C20_validate_raises_lib_only.

(* process_error terminates on every record (structural recursion through oneOf / anyOf contexts of any depth and
   width) and maps every well-formed record to a library error with a non-empty message *)
Theorem C20_process_error_total_lib e :
  wf_verr e = true -> exists le, process_error e = Lib le /\ msg_nonempty (err_msg le) = true.
Proof. exact (process_error_total_lib e). Qed.
Print Assumptions C20_process_error_total_lib.

(* whatever the record (well-formed or not), a library error produced by process_error has a non-empty message *)
Theorem C20_message_nonempty e le : process_error e = Lib le -> msg_nonempty (err_msg le) = true.
Proof. exact (process_error_msg_nonempty e le). Qed.
Print Assumptions C20_message_nonempty.

(* a `required` error is translated to MissingJsonKeyError exposing a key that is required and absent from the instance *)
Theorem C20_required_exposes_key e :
  wf_verr e = true -> v_kind e = VRequired ->
  exists k kvs ks m,
    v_inst e = JObj kvs /\ v_value e = JArr ks /\
    process_error e = Lib (EMissingKey (Some (JStr k)) m) /\
    In (JStr k) ks /\ ~ In k (keys kvs).
Proof. exact (required_exposes_key e). Qed.
Print Assumptions C20_required_exposes_key.

(* a `type` error is translated to InvalidTypeError exposing the offending value and the schema's type declaration
   (expected_type = str(t)), and the value indeed has none of the declared types *)
Theorem C20_type_exposes_value_and_type e :
  wf_verr e = true -> v_kind e = VType ->
  exists t ts m,
    v_sty e = Some t /\ type_decl t = Some ts /\
    process_error e = Lib (EInvalidType (v_inst e) t m) /\
    existsb (has_type (v_inst e)) ts = false.
Proof. exact (type_exposes_value_and_type e). Qed.
Print Assumptions C20_type_exposes_value_and_type.

(* the regular expression of process_error, run on the message jsonschema builds from identifier-like keys, returns
   exactly those keys (for every list of keys) *)
Theorem C20_findall_addl_message ks : forallb ident ks = true -> findall_keys (addl_message ks) = ks.
Proof. exact (findall_addl_message ks). Qed.
Print Assumptions C20_findall_addl_message.

(* FULL STATEMENT (not proved in full): for every additionalProperties:false error whose unknown keys are all
   identifier-like, InvalidKeyError.invalid_key is one of the unknown keys.
   PROVED PART: schemas without patternProperties (v_spat e = false) and ASCII identifier-like keys [A-Za-z0-9_]+ ; then
   invalid_key is the smallest unknown key, is a key of the instance and is not a declared property.
   MISSING: the message format jsonschema uses with patternProperties ("… do/does not match any of the regexes: …") and
   non-ASCII word characters (Python's \w is Unicode); both are decided by the searcher's oracle only. *)
Theorem C20_additional_exposes_key_partial e :
  wf_verr e = true -> v_kind e = VAdditional -> v_spat e = false ->
  forallb ident (extras_of (v_inst e) (v_sprops e)) = true ->
  exists k kvs m,
    v_inst e = JObj kvs /\
    process_error e = Lib (EInvalidKey (Some k) m) /\
    In k (keys kvs) /\ ~ In k (v_sprops e) /\ ident k = true /\
    hd_error (sort_strs (extras_of (v_inst e) (v_sprops e))) = Some k.
Proof. exact (additional_exposes_key_partial e). Qed.
Print Assumptions C20_additional_exposes_key_partial.

(* the contract on jsonschema is satisfiable (so the two validate theorems are not vacuous) *)
Theorem C20_contract_satisfiable rxm :
  (forall v s, js_trivial rxm v s = JsOk <-> conforms rxm s v = true) /\
  (forall v s e, js_trivial rxm v s = JsError e -> wf_verr e = true).
Proof. exact (js_trivial_contract rxm). Qed.
Print Assumptions C20_contract_satisfiable.

(* REFUTED without the well-formedness premise: jsonschema's draft-3 `required: true` raises a record whose
   validator_value is a boolean; process_error iterates it and a TypeError escapes.
   Witness on the code: validate({}, {"$schema": "http://json-schema.org/draft-03/schema#", "properties": {"a": {"required": true}}}) *)
Theorem C20_process_error_total_refuted :
  exists e, v_kind e = VRequired /\ v_value e = JBool true /\ process_error e = Raw RTypeError /\ wf_verr e = false.
Proof. exact process_error_total_refuted. Qed.
Print Assumptions C20_process_error_total_refuted.

(* non-vacuity: an anyOf error two levels deep whose first branch is a `required` failure; an unknown-key error with two
   identifier-like keys (one of them "u", the optional prefix of the regular expression); a value / schema pair *)
Local Open Scope string_scope.
Example C20_example :
  let k s := codes s in
  let req := VErr VRequired (JArr [JStr (k "a"); JStr (k "b")]) (JObj [(k "a", JInt 1)]) None [] false [] [] [] in
  let any2 := VErr VAnyOf (JArr []) JNull None [] false [] []
                [VErr VOneOf (JArr []) JNull None [] false [] [] [req]; req] in
  let addl := VErr VAdditional (JBool false) (JObj [(k "u", JNull); (k "p", JNull); (k "key_1", JNull)]) None [k "p"] false []
                (addl_message [k "key_1"; k "u"]) [] in
  wf_verr any2 = true /\
  process_error any2 = Lib (EMissingKey (Some (JStr (k "b"))) m_missing) /\
  wf_verr addl = true /\
  process_error addl = Lib (EInvalidKey (Some (k "key_1")) m_unknown_keys) /\
  conforms (fun _ _ => true) (SAnd [SType [TObject]; SRequired [k "a"]; SProps [(k "a", SType [TInteger])] (Some (SBool false))])
           (JObj [(k "a", JFloat (2#1))]) = true /\
  conforms (fun _ _ => true) (SOneOf [SType [TInteger]; SMin (1#2)]) (JInt 1) = false.
Proof. vm_compute. repeat split; reflexivity. Qed.
