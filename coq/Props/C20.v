(* C20 — schema validation fails only with library errors, exactly when data is invalid.
   Only statements, each closed by `exact`, with Print Assumptions beneath.  Model: LV.Model.Schema.
   jsonschema is external: it enters as the function `js` with the contract (js_iff, js_wf) written out as premises. *)
From Coq Require Import List ZArith NArith QArith Bool Arith String.
From LV Require Import Model.Schema Proofs.Schema.
Import ListNotations.

(* validate returns silently exactly when the value conforms to the schema — relative to the contract that jsonschema
   raises ValidationError exactly on non-conforming values (the contract itself is decided by correspondence part (i)) *)
Theorem C20_validate_silent_iff_conforms
  (rxm : N -> str -> bool) (pm : list str -> str -> bool) (js : json -> schema -> js_result)
  (js_iff : forall v s, js v s = JsOk <-> conforms rxm pm s v = true) v s :
  validate js v s = Silent <-> conforms rxm pm s v = true.
Proof. exact (validate_silent_iff_conforms rxm pm js js_iff v s). Qed.
Print Assumptions C20_validate_silent_iff_conforms.

(* ... and otherwise raises one of the library's own error classes (never a raw exception) with a non-empty message,
   for every value and every schema, given that the raised record is well-formed (wf_verr) *)
Theorem C20_validate_raises_lib_only
  (rxm : N -> str -> bool) (pm : list str -> str -> bool) (js : json -> schema -> js_result)
  (js_iff : forall v s, js v s = JsOk <-> conforms rxm pm s v = true)
  (js_wf : forall v s e, js v s = JsError e -> wf_verr pm e = true) v s :
  (validate js v s = Silent /\ conforms rxm pm s v = true) \/
  (exists le, validate js v s = Raises (Lib le) /\ msg_nonempty (err_msg le) = true /\ conforms rxm pm s v = false).
Proof. exact (validate_raises_lib_only rxm pm js js_iff js_wf v s). Qed.
Print Assumptions C20_validate_raises_lib_only.

(* process_error terminates on every record (structural recursion through oneOf / anyOf contexts of any depth and
   width) and maps every well-formed record to a library error with a non-empty message; wf_verr covers the draft-3
   `required` record (boolean validator value, the missing key at the end of the path) as well *)
Theorem C20_process_error_total_lib pm e :
  wf_verr pm e = true -> exists le, process_error e = Lib le /\ msg_nonempty (err_msg le) = true.
Proof. exact (process_error_total_lib pm e). Qed.
Print Assumptions C20_process_error_total_lib.

(* whatever the record (well-formed or not), a library error produced by process_error has a non-empty message *)
Theorem C20_message_nonempty e le : process_error e = Lib le -> msg_nonempty (err_msg le) = true.
Proof. exact (process_error_msg_nonempty e le). Qed.
Print Assumptions C20_message_nonempty.

(* a `required` error is translated to MissingJsonKeyError exposing a key that is required and absent from the instance:
   one of the listed keys (draft 4 and later: the validator value is the list of required keys), or - draft 3, where the
   validator value is the boolean `required: true` of the property's own sub-schema - the declared property whose name
   ends the error's path *)
Theorem C20_required_exposes_key pm e :
  wf_verr pm e = true -> v_kind e = VRequired ->
  exists k kvs m,
    v_inst e = JObj kvs /\
    process_error e = Lib (EMissingKey (Some (JStr k)) m) /\
    ~ In k (keys kvs) /\
    ((exists ks, v_value e = JArr ks /\ In (JStr k) ks) \/
     (v_value e = JBool true /\ last_part (v_path e) = Some (PKey k) /\ In k (v_sprops e))).
Proof. exact (required_exposes_key pm e). Qed.
Print Assumptions C20_required_exposes_key.

(* the draft-3 shape alone: every well-formed `required` record with a boolean validator value (it is then `true`) has a
   path  front ++ [key]  and is translated to MissingJsonKeyError exposing that key - a declared property of the
   record's schema that the instance lacks *)
Theorem C20_required_draft3_exposes_path_key pm e b :
  wf_verr pm e = true -> v_kind e = VRequired -> v_value e = JBool b ->
  exists k kvs m front,
    b = true /\ v_inst e = JObj kvs /\ v_path e = front ++ [PKey k] /\
    process_error e = Lib (EMissingKey (Some (JStr k)) m) /\
    ~ In k (keys kvs) /\ In k (v_sprops e).
Proof. exact (required_draft3_exposes_path_key pm e b). Qed.
Print Assumptions C20_required_draft3_exposes_path_key.

(* a `type` error is translated to InvalidTypeError exposing the offending value and the schema's type declaration
   (expected_type = str(t)), and the value indeed has none of the declared types *)
Theorem C20_type_exposes_value_and_type pm e :
  wf_verr pm e = true -> v_kind e = VType ->
  exists t ts m,
    v_sty e = Some t /\ type_decl t = Some ts /\
    process_error e = Lib (EInvalidType (v_inst e) t m) /\
    existsb (has_type (v_inst e)) ts = false.
Proof. exact (type_exposes_value_and_type pm e). Qed.
Print Assumptions C20_type_exposes_value_and_type.

(* ... also when the record's path is EMPTY: a type error on the document itself (root), or the first branch of a oneOf /
   anyOf whose own `type` fails (the path of a context record is relative to its parent, and a combinator record is
   translated as its first context record).  InvalidTypeError then builds its message without a key - and exposes the
   offending value and the expected type all the same *)
Theorem C20_type_keyless_exposes_value_and_type pm e :
  wf_verr pm e = true -> v_kind e = VType -> v_path e = [] ->
  exists t ts,
    v_sty e = Some t /\ type_decl t = Some ts /\
    process_error e = Lib (EInvalidType (v_inst e) t (m_type false)) /\
    existsb (has_type (v_inst e)) ts = false.
Proof. exact (type_keyless_exposes_value_and_type pm e). Qed.
Print Assumptions C20_type_keyless_exposes_value_and_type.

Theorem C20_combinator_translates_first_context e c rest :
  (v_kind e = VOneOf \/ v_kind e = VAnyOf) -> v_ctx e = c :: rest -> process_error e = process_error c.
Proof. exact (combinator_translates_first_context e c rest). Qed.
Print Assumptions C20_combinator_translates_first_context.

(* non-vacuity: validate([1], {"type": "object"}) - the document itself is an array; and an anyOf under the key "a" whose
   first branch is {"type": ["integer", "null"]}: the context record has the empty (relative) path *)
Example C20_type_keyless_example :
  let root := VErr VType (JStr (codes "object")) (JArr [JInt 1]) (Some (JStr (codes "object"))) [] false [] [] [] [] in
  let tl := JArr [JStr (codes "integer"); JStr (codes "null")] in
  let branch := VErr VType tl (JStr (codes "x")) (Some tl) [] false [] [] [] [] in
  let any := VErr VAnyOf (JArr []) (JStr (codes "x")) None [] false [] [PKey (codes "a")] [] [branch; root] in
  wf_verr (fun _ _ => false) root = true /\
  process_error root = Lib (EInvalidType (JArr [JInt 1]) (JStr (codes "object")) (m_type false)) /\
  wf_verr (fun _ _ => false) any = true /\
  process_error any = Lib (EInvalidType (JStr (codes "x")) tl (m_type false)).
Proof. vm_compute. repeat split; reflexivity. Qed.

(* the regular expression of process_error, run on the message jsonschema builds from identifier-like keys, returns
   exactly those keys (for every list of keys) *)
Theorem C20_findall_addl_message ks : forallb ident ks = true -> findall_keys (addl_message ks) = ks.
Proof. exact (findall_addl_message ks). Qed.
Print Assumptions C20_findall_addl_message.

(* FULL STATEMENT (not proved in full): for every additionalProperties:false error whose unknown keys are all
   identifier-like (Python's \w+, which is Unicode), InvalidKeyError.invalid_key is one of the unknown keys.
   PROVED (the two theorems below): the statement for ASCII identifier-like keys [A-Za-z0-9_]+, for schemas without
   (first theorem) and with or without (second theorem) patternProperties, whatever the patterns are.
   MISSING: non-ASCII word characters only (Python's \w is Unicode; the model's wordchar is ASCII); they are decided by
   the searcher's oracle only.

   Unknown keys = instance keys that are neither declared properties nor matched by the joined patterns
   (jsonschema._utils.find_additional_properties; pm is the regular-expression oracle; extras_pat).  jsonschema lists
   them sorted; with patternProperties its message is  "'a', 'b' do not match any of the regexes: 'p1', 'p2'", and the
   regular expression u?'(\w+)',? of process_error returns the keys FOLLOWED by whatever quoted words the pattern part
   contains (C20_findall_addl_message_pat: exactly the identifier-like patterns, when the patterns have plain reprs). *)
Theorem C20_additional_exposes_key_partial pm e :
  wf_verr pm e = true -> v_kind e = VAdditional -> v_spat e = false ->
  forallb ident (extras_of (v_inst e) (v_sprops e)) = true ->
  exists k kvs m,
    v_inst e = JObj kvs /\
    process_error e = Lib (EInvalidKey (Some k) m) /\
    In k (keys kvs) /\ ~ In k (v_sprops e) /\ ident k = true /\
    hd_error (sort_strs (extras_of (v_inst e) (v_sprops e))) = Some k.
Proof. exact (additional_exposes_key_partial pm e). Qed.
Print Assumptions C20_additional_exposes_key_partial.

(* with or without patternProperties, whatever the patterns: invalid_key is the smallest unknown key - a key of the
   instance that is not a declared property and that the patterns do not match; the regular expression returns the
   sorted unknown keys first (and nothing else when the schema has no patternProperties).
   The premise wf_verr contains "there is an unknown key": jsonschema yields this error only `elif not aP and extras`,
   so a raised error always has one; see C20_additional_no_unknown_key_* for records without. *)
Theorem C20_additional_exposes_key_patterns_partial pm e :
  wf_verr pm e = true -> v_kind e = VAdditional ->
  forallb ident (extras_pat pm (v_inst e) (v_sprops e) (v_spats e)) = true ->
  exists k kvs m rest,
    v_inst e = JObj kvs /\
    process_error e = Lib (EInvalidKey (Some k) m) /\
    In k (keys kvs) /\ ~ In k (v_sprops e) /\ pat_matched pm (v_spats e) k = false /\ ident k = true /\
    hd_error (sort_strs (extras_pat pm (v_inst e) (v_sprops e) (v_spats e))) = Some k /\
    findall_keys (v_message e) = sort_strs (extras_pat pm (v_inst e) (v_sprops e) (v_spats e)) ++ rest /\
    (v_spat e = false -> rest = []).
Proof. exact (additional_exposes_key_patterns pm e). Qed.
Print Assumptions C20_additional_exposes_key_patterns_partial.

(* the whole list the regular expression returns on the patternProperties message, for every list of identifier-like
   keys (empty included) and every list of patterns with plain reprs (printable ASCII, no single quote, no backslash):
   the keys, then exactly the identifier-like patterns (e.g. `abc`, `_`) *)
Theorem C20_findall_addl_message_pat ks pats :
  forallb ident ks = true -> forallb plain_pat pats = true ->
  exists m, addl_message_pat ks pats = Some m /\ findall_keys m = ks ++ filter ident pats.
Proof. exact (findall_addl_message_pat ks pats). Qed.
Print Assumptions C20_findall_addl_message_pat.

(* a record WITHOUT unknown key (never raised by jsonschema; outside wf_verr) with the patternProperties message
   exposes a PATTERN: the first identifier-like one in sorted order - or None when there is none *)
Theorem C20_additional_no_unknown_key_general vv inst sty sp pts path ctx m :
  is_false vv = true -> forallb plain_pat pts = true -> addl_message_pat [] pts = Some m ->
  process_error (VErr VAdditional vv inst sty sp true pts path m ctx) =
  Lib (EInvalidKey (hd_error (filter ident pts)) m_unknown_keys).
Proof. exact (additional_no_unknown_key_general vv inst sty sp pts path ctx m). Qed.
Print Assumptions C20_additional_no_unknown_key_general.

(* ... concretely: instance {"abc1": null}, patternProperties {"abc": ...}: no unknown key, invalid_key = "abc" (a
   pattern, not a key of the instance); the record is not well-formed *)
Theorem C20_additional_no_unknown_key_exposes_pattern :
  let pm := fun _ _ => true in
  v_kind no_unknown_key_error = VAdditional /\
  extras_pat pm (v_inst no_unknown_key_error) (v_sprops no_unknown_key_error) (v_spats no_unknown_key_error) = [] /\
  addl_message_pat [] (v_spats no_unknown_key_error) = Some (v_message no_unknown_key_error) /\
  process_error no_unknown_key_error = Lib (EInvalidKey (Some (codes "abc"%string)) m_unknown_keys) /\
  In (codes "abc"%string) (v_spats no_unknown_key_error) /\
  wf_verr pm no_unknown_key_error = false.
Proof. exact additional_no_unknown_key_exposes_pattern. Qed.
Print Assumptions C20_additional_no_unknown_key_exposes_pattern.

(* the contract on jsonschema is satisfiable (so the two validate theorems are not vacuous) *)
Theorem C20_contract_satisfiable rxm pm :
  (forall v s, js_trivial rxm pm v s = JsOk <-> conforms rxm pm s v = true) /\
  (forall v s e, js_trivial rxm pm v s = JsError e -> wf_verr pm e = true).
Proof. exact (js_trivial_contract rxm pm). Qed.
Print Assumptions C20_contract_satisfiable.

(* the record of the repaired defect: jsonschema's draft-3 `required: true` raises a record whose validator_value is a
   boolean; it is well-formed and is translated to MissingJsonKeyError exposing "a" (process_error used to iterate the
   boolean: TypeError).
   On the code: validate({}, {"$schema": "http://json-schema.org/draft-03/schema#", "properties": {"a": {"required": true}}}) *)
Theorem C20_draft3_required_translated :
  (forall pm, wf_verr pm draft3_required_error = true) /\
  process_error draft3_required_error = Lib (EMissingKey (Some (JStr (codes "a"%string))) m_missing).
Proof. exact draft3_required_translated. Qed.
Print Assumptions C20_draft3_required_translated.

(* non-vacuity: an anyOf error two levels deep whose first branch is a `required` failure; an unknown-key error with two
   identifier-like keys (one of them "u", the optional prefix of the regular expression); the same with
   patternProperties {"^x", "_", "abc"}: two keys are allowed by a pattern, the unknown ones are b and u, and the regular
   expression returns b, u and then the identifier-like patterns _ and abc; a value / schema pair with patternProperties;
   a draft-3 `required` record two levels down (under key "b c", array position 1) inside an anyOf context, its key "it's"
   exposed; draft-3 flags: `required: false` constrains nothing, `required: true` rejects the object lacking the property *)
Local Open Scope string_scope.
Example C20_example :
  let k s := codes s in
  let pm := fun (_ : list str) (key : str) =>
              (match key with c :: _ => N.eqb c 120 | [] => false end || existsb (N.eqb 95) key)%bool in
  let req := VErr VRequired (JArr [JStr (k "a"); JStr (k "b")]) (JObj [(k "a", JInt 1)]) None [] false [] [] [] [] in
  let any2 := VErr VAnyOf (JArr []) JNull None [] false [] [] []
                [VErr VOneOf (JArr []) JNull None [] false [] [] [] [req]; req] in
  let req3 := VErr VRequired (JBool true) (JObj [(k "x", JInt 1)]) None [k "x"; k "it's"] false []
                [PKey (k "b c"); PIdx 1; PKey (k "it's")] (k """it's"" is a required property") [] in
  let any3 := VErr VAnyOf (JArr []) JNull None [] false [] [] [] [req3] in
  let addl := VErr VAdditional (JBool false) (JObj [(k "u", JNull); (k "p", JNull); (k "key_1", JNull)]) None [k "p"] false [] []
                (addl_message [k "key_1"; k "u"]) [] in
  let pats := [k "^x"; k "_"; k "abc"] in
  let addlp := VErr VAdditional (JBool false)
                 (JObj [(k "x1", JNull); (k "u", JNull); (k "p", JNull); (k "key_1", JNull); (k "b", JNull)]) None [k "p"] true pats []
                 (k "'b', 'u' do not match any of the regexes: '^x', '_', 'abc'") [] in
  wf_verr pm any2 = true /\
  process_error any2 = Lib (EMissingKey (Some (JStr (k "b"))) m_missing) /\
  wf_verr pm any3 = true /\
  process_error any3 = Lib (EMissingKey (Some (JStr (k "it's"))) m_missing) /\
  conforms (fun _ _ => true) pm
           (SAnd [SProps [(k "a", SAnd [SType [TInteger]; SAnnot]); (k "b", SAnd [SAnnot])] [] None; SRequired3 [(k "a", true); (k "b", false)]])
           (JObj [(k "a", JInt 3)]) = true /\
  conforms (fun _ _ => true) pm
           (SAnd [SProps [(k "a", SAnd [SType [TInteger]; SAnnot]); (k "b", SAnd [SAnnot])] [] None; SRequired3 [(k "a", true); (k "b", false)]])
           (JObj [(k "b", JInt 3)]) = false /\
  wf_verr pm addl = true /\
  process_error addl = Lib (EInvalidKey (Some (k "key_1")) m_unknown_keys) /\
  wf_verr pm addlp = true /\
  extras_pat pm (v_inst addlp) (v_sprops addlp) (v_spats addlp) = [k "u"; k "b"] /\
  addl_message_pat [k "b"; k "u"] pats = Some (v_message addlp) /\
  findall_keys (v_message addlp) = [k "b"; k "u"; k "_"; k "abc"] /\
  process_error addlp = Lib (EInvalidKey (Some (k "b")) m_unknown_keys) /\
  conforms (fun _ _ => true) pm
           (SAnd [SType [TObject]; SRequired [k "a"]; SProps [(k "a", SType [TInteger])] [(k "^x", SType [TString])] (Some (SBool false))])
           (JObj [(k "a", JFloat (2#1)); (k "x1", JStr (k "s"))]) = true /\
  conforms (fun _ _ => true) pm
           (SProps [(k "a", SType [TInteger])] [(k "^x", SType [TString])] (Some (SBool false)))
           (JObj [(k "x1", JStr (k "s")); (k "b", JNull)]) = false /\
  conforms (fun _ _ => true) pm (SOneOf [SType [TInteger]; SMin (1#2)]) (JInt 1) = false.
Proof. vm_compute. repeat split; reflexivity. Qed.
