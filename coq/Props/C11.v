(* C11 -- Hyperparameter fitting scores the right likelihood and returns usable values (all clauses except the likelihood
   VALUE, which is Props/C11_loglik.v on definitions regenerated from the source).
   Only statements, each closed by `exact`, with Print Assumptions beneath.  Model: LV.Model.HyperOpt
   (ll_set / ll_get = GaussianProcessLogMarginalLikelihood.set_hyperparameters / get_hyperparameters,
    hp_box = form_one_hot_hyperparameter_domain, hyperopt_view = GpHyperOptMultimetricView.view, unpack = the tail of
    call_hyperopt_per_metric, multistart_opt = MultistartOptimizer(SLSQP, 10).optimize(selected_starts=[current_point])
    through Model.Multistart of C07; value scaling is Model.Midpoint.preprocess of C12; one-hot rows are Model.Decode of C09).
   Validity conditions of a request: grid (quantized) elements listed in increasing order; at least one successful
   observation (otherwise the model, like the code, returns an error). *)
From Coq Require Import List QArith ZArith Bool Arith.
From LV Require Import Model.Domain Model.HyperOpt Proofs.HyperOpt.
From LV Require Model.Decode Model.Midpoint Model.Optim Model.Multistart.
Import ListNotations.
Open Scope Q_scope.

(* Setting then reading hyperparameters is the identity: in the linear and in the log parameterisation, with and without
   the nugget slot (s is ANY state of the object: ll_auto s, ll_log s arbitrary).  E, L stand for numpy.exp / numpy.log;
   the only fact used is log (exp a) = a.  In the linear parameterisation the vector read is literally the vector set. *)
Theorem C11_hyper_set_get_id (E L : Q -> Q) (D : Type) (s s' : @ll D) hp :
  (forall a, L (E a) == a) -> ll_set E s hp = Ok s' ->
  exists hp', ll_get L s' = Some hp' /\ Forall2 Qeq hp' hp.
Proof. exact (set_get_id E L D s hp s'). Qed.
Print Assumptions C11_hyper_set_get_id.

Theorem C11_hyper_set_get_id_linear (E L : Q -> Q) (D : Type) (s s' : @ll D) hp :
  ll_log s = false -> ll_set E s hp = Ok s' -> ll_get L s' = Some hp.
Proof. exact (set_get_id_linear E L D s hp s'). Qed.
Print Assumptions C11_hyper_set_get_id_linear.

(* ... and reading then setting leaves the object (covariance hyperparameters, nugget, data) as it is. *)
Theorem C11_hyper_get_set_id_linear (E L : Q -> Q) (D : Type) (s : @ll D) hp :
  ll_log s = false -> length (ll_cov s) = S (ll_dim s) -> forallb pos_b (ll_cov s) = true ->
  (ll_auto s = false -> ll_tik s = None) -> ll_get L s = Some hp -> ll_set E s hp = Ok s.
Proof. exact (get_set_id_linear E L D s hp). Qed.
Print Assumptions C11_hyper_get_set_id_linear.

(* The value in the log parameterisation at a equals the value in the linear parameterisation at exp a: both calls build
   the same GaussianProcess (same covariance hyperparameters, nugget, data), and one fails iff the other does.  V is the
   number the GP yields (its meaning: C11_loglik_value / C11_residual_noise / C11_residual_nugget). *)
Theorem C11_loglik_param_invariant (E : Q -> Q) (D : Type) (V : list Q -> option Q -> D -> Q) (scale : Q) (s : @ll D) a :
  match ll_set E (with_log true s) a, ll_set E (with_log false s) (map E a) with
  | Ok s1, Ok s2 => ll_cov s1 = ll_cov s2 /\ ll_tik s1 = ll_tik s2 /\ ll_data s1 = ll_data s2 /\
                    ll_value V scale s1 = ll_value V scale s2
  | Err e1, Err e2 => e1 = e2
  | _, _ => False
  end.
Proof. exact (param_invariant E D V scale s a). Qed.
Print Assumptions C11_loglik_param_invariant.

(* The search box: alpha in [0.001, 10] * max(var, 1e-10) of the fitted values; per category [dll, 1.01]; per double
   [0.001, 1] * width; per int [max(dll, 0.001 width), width]; per grid [max(0.25 * smallest gap, 0.001 width), width]; task
   length [0.43, 1.01]; nugget [1e-4, 100] * max(var, 1e-10) -- every entry positive with lo < hi, one entry per coordinate,
   for every well-formed domain (grids increasing), every value list, 0 < dll < 1. *)
Theorem C11_search_box_spec cs vals auto mt dll : 0 < dll -> dll < 1 ->
  Forall (fun c => wf_component c = true) cs -> Forall grid_increasing cs ->
  Forall (fun lh => 0 < fst lh /\ fst lh < snd lh) (hp_box cs vals auto mt dll) /\
  length (hp_box cs vals auto mt dll) = S (Decode.one_hot_dim cs + b2n mt + b2n auto).
Proof. exact (search_box_spec cs vals auto mt dll). Qed.
Print Assumptions C11_search_box_spec.

(* Why "grids increasing" is a hypothesis (documentation, not a finding: sorted grids are a validity condition): *)
Theorem C11_search_box_unsorted_grid_refuted :
  exists cs vals, Forall (fun c => wf_component c = true) cs /\ box_ok_b (hp_box cs vals false false DLL) = false.
Proof. exact search_box_unsorted_grid_refuted. Qed.
Print Assumptions C11_search_box_unsorted_grid_refuted.

(* Packing of the result: a vector of the right length always unpacks; the dictionary has one length scale per numeric
   parameter and one per category (all present), a nugget iff one is fitted, a task length iff multitask; and packing the
   dictionary gives the vector back (no value lost, moved or duplicated). *)
Theorem C11_unpack_structure cs mt auto v :
  length v = S (Decode.one_hot_dim cs + b2n mt + b2n auto) ->
  exists d, unpack cs mt auto v = Some d /\ structure_b cs mt auto d = true /\ pack d = v /\ length (h_ls d) = length cs.
Proof. exact (unpack_structure cs mt auto v). Qed.
Print Assumptions C11_unpack_structure.

(* The multistart (C07's model) started from [x0] returns an end point inside the box, or x0 itself -- never one of its
   random starts, whatever the SLSQP runs (`run`) and the random starts (`gen`) are. *)
Theorem C11_result_in_box_or_start run gen k f p : multistart_opt run gen k f = Ok p ->
  in_boxb (f_box f) p = true \/ p = f_x0 f.
Proof. exact (multistart_opt_in_box_or_start run gen k f p). Qed.
Print Assumptions C11_result_in_box_or_start.

(* x0 consists of the supplied alpha, length scales (None entries read as 1.0) and task length; its nugget slot, present iff
   a nugget was supplied, holds 1e-10 and not the supplied nugget. *)
Theorem C11_start_vector cs h :
  (forall t, h_tik h = Some t -> start_vector cs h = cov_vector cs h ++ [DEFAULT_TIK]) /\
  (h_tik h = None -> start_vector cs h = cov_vector cs h).
Proof. exact (conj (fun t H => proj1 (start_vector_nugget_slot cs h t H)) (start_vector_no_nugget cs h)). Qed.
Print Assumptions C11_start_vector.

(* KNOWN FINDING C11:endpoint:fallback-nugget-is-default-1e-10 -- the strict reading "in the box or equal to the supplied
   values" is false in the nugget slot: supplied nugget 1/100, every SLSQP run failing => returned nugget 1e-10, outside
   the box. *)
Theorem C11_fallback_nugget_refuted :
  exists cs points vals vars fails objs hps out tr d f,
    hyperopt_view cs points None vals vars fails objs [0%nat] [] hps (multistart_opt all_fail_run no_gen) = Ok (out, tr) /\
    nth_error hps 0 = Some (mkhp 1 [[Some 1]] None (Some (1 # 100))) /\
    nth_error out 0 = Some d /\ tr = [f] /\
    h_tik d = Some DEFAULT_TIK /\ ~ DEFAULT_TIK == 1 # 100 /\ in_boxb (f_box f) (pack d) = false.
Proof. exact fallback_nugget_refuted. Qed.
Print Assumptions C11_fallback_nugget_refuted.

(* The endpoint, for ANY behaviour of the optimiser (opt k f = what the multistart returns on the k-th constructed fit):
   - as many dictionaries as supplied;
   - per-metric data: every constructed fit f belongs to one job (index, v, w) -- fit_ok: v, w are f's values and variances,
     the box is hp_box of v, the start vector comes from the supplied dictionary of metric `index`, the rows are the one-hot
     points at the successful observations, and v is not constant -- and every job is column i of the scaled values /
     variances (Midpoint.preprocess, C12_view_law) of the optimised or of the constraint family, restricted to the
     successful observations, with index = ix[i]  (view_jobs_in below);
   - others_untouched: a dictionary whose index is in neither family (stored metric) is returned as supplied;
   - skip_rule: a metric whose scaled successful values span <= 1e-10 is returned as supplied;
   - packing: the dictionary returned for a fitted metric is the unpacked optimiser result of ITS fit. *)
Theorem C11_view_spec cs points tasks vals vars fails objs opt_ix con_ix hps opt out tr :
  hyperopt_view cs points tasks vals vars fails objs opt_ix con_ix hps opt = Ok (out, tr) ->
  let mt := negb (is_none tasks) in
  let rows := Midpoint.select (map negb fails) (one_hot_rows cs points tasks) in
  exists jobs, view_jobs vals vars fails objs opt_ix con_ix = Some jobs /\ map idx jobs = opt_ix ++ con_ix /\
    length out = length hps /\
    Forall (fit_ok cs mt rows hps jobs) tr /\
    (forall k, ~ In k (map f_metric tr) -> nth_error out k = nth_error hps k) /\
    (forall k, ~ In k (opt_ix ++ con_ix) -> nth_error out k = nth_error hps k) /\
    (NoDup (opt_ix ++ con_ix) -> forall index v w d, In (index, v, w) jobs -> ptp v = Some d -> d <= MINVAR ->
        nth_error out index = nth_error hps index) /\
    (NoDup (opt_ix ++ con_ix) -> forall i f, nth_error tr i = Some f -> (f_metric f < length hps)%nat ->
        exists x dd, opt i f = Ok x /\ unpack cs mt (f_auto f) x = Some dd /\ nth_error out (f_metric f) = Some dd).
Proof. exact (hyperopt_view_spec cs points tasks vals vars fails objs opt_ix con_ix hps opt out tr). Qed.
Print Assumptions C11_view_spec.

Theorem C11_per_metric_data vals vars fails objs opt_ix con_ix jobs index v w :
  view_jobs vals vars fails objs opt_ix con_ix = Some jobs -> In (index, v, w) jobs ->
  exists ix o i, (ix = opt_ix \/ ix = con_ix) /\
    Midpoint.preprocess ix vals vars fails objs (repeat None (length objs)) = Some o /\
    nth_error ix i = Some index /\
    v = Midpoint.select (map negb fails) (Midpoint.column i (Midpoint.v_values o)) /\
    w = Midpoint.select (map negb fails) (Midpoint.column i (Midpoint.v_vars o)).
Proof. exact (view_jobs_in vals vars fails objs opt_ix con_ix jobs index v w). Qed.
Print Assumptions C11_per_metric_data.

(* ... and, composing with C12's view law: WHICH RAW COLUMN.  For index lists in ANY order (non-ascending, interleaved with
   stored metrics; no NoDup or sortedness hypothesis), the job carrying metric `index` -- position k of
   optimized_metrics_index or of constraint_metrics_index, where index = list[k] -- is fitted on raw column `index` of the
   request's values, normalised by THAT column's own midpoint info under THAT metric's objective (Midpoint.smmi of the
   column: C12), at the successful observations only, in observation order. *)
Theorem C11_fit_on_own_raw_column vals vars fails objs opt_ix con_ix jobs index v w :
  length fails = length vals ->
  view_jobs vals vars fails objs opt_ix con_ix = Some jobs -> In (index, v, w) jobs ->
  exists i, Midpoint.smmi (Midpoint.column index vals) fails (nth index objs Midpoint.NoObjective) = Some i /\
    v = map (Midpoint.rel_value i) (Midpoint.select (map negb fails) (Midpoint.column index vals)).
Proof. exact (job_on_own_raw_column vals vars fails objs opt_ix con_ix jobs index v w). Qed.
Print Assumptions C11_fit_on_own_raw_column.

(* non-vacuity: metric 1 optimised, constraint metrics listed as [2; 0] (non-ascending), one failed observation: the jobs
   come in the order 1, 2, 0 and the job of metric 2 holds column 2 (minimised: 1, 3, 2 -> -0.1, 0.1, 0), the job of
   metric 0 holds column 0 (maximised: 0, 4, 2 -> 0.1, -0.1, 0) *)
Example C11_example_index_order :
  let vals := [[0; 5; 1]; [4; 5; 3]; [9; 9; 9]; [2; 6; 2]] in
  let vars := [[0; 0; 0]; [0; 0; 0]; [0; 0; 0]; [0; 0; 0]] in
  exists jobs v2 w2 v0 w0,
    view_jobs vals vars [false; false; true; false] [Midpoint.Maximize; Midpoint.Minimize; Midpoint.Minimize] [1%nat] [2%nat; 0%nat]
      = Some jobs /\
    map idx jobs = [1; 2; 0]%nat /\ nth_error jobs 1 = Some (2%nat, v2, w2) /\ nth_error jobs 2 = Some (0%nat, v0, w0) /\
    forall2b Qeq_bool v2 [-(1 # 10); 1 # 10; 0] = true /\ forall2b Qeq_bool v0 [1 # 10; -(1 # 10); 0] = true.
Proof. do 5 eexists. vm_compute. repeat split; reflexivity. Qed.

(* A fitted dictionary (optimiser result inside the box or equal to the start vector, as C11_result_in_box_or_start gives):
   supplied structure, packs to the optimiser's vector, every value positive, and lies in the data-derived box or equals the
   start vector built from the supplied dictionary. *)
Theorem C11_fitted_dict_spec cs mt rows hps jobs f x dd :
  Forall (fun c => wf_component c = true) cs -> Forall grid_increasing cs ->
  fit_ok cs mt rows hps jobs f ->
  (in_boxb (f_box f) x = true \/ x = f_x0 f) ->
  unpack cs mt (f_auto f) x = Some dd ->
  (forall h, nth_error hps (f_metric f) = Some h ->
     length (start_vector cs h) = S (Decode.one_hot_dim cs + b2n mt + b2n (f_auto f))) ->
  structure_b cs mt (f_auto f) dd = true /\ pack dd = x /\ all_pos_b dd = true /\
  (in_boxb (f_box f) (pack dd) = true \/
   exists h, nth_error hps (f_metric f) = Some h /\ pack dd = start_vector cs h).
Proof. exact (fitted_dict_spec cs mt rows hps jobs f x dd). Qed.
Print Assumptions C11_fitted_dict_spec.

(* non-vacuity: a double, a 3-category and a grid parameter, two metrics (one optimised and fitted, one stored), one failed
   observation; a scripted optimiser whose first run ends in the box *)
Example C11_example :
  let cs := [Double 0 4; Cat [1; 2; 5]%Z; Grid [1; 3; 10]] in
  let hps := [mkhp 1 [[Some 1]; [Some (1#2); None; Some (1#2)]; [Some 2]] None (Some (1#100));
              mkhp 2 [[Some 3]; [Some 1; Some 1; Some 1]; [Some 4]] None None] in
  let x := [1#100; 2; 1#2; 1#4; 1; 5; 1#1000] in
  let run (_ k : nat) (p : list Q) := if Nat.eqb k 0 then Multistart.mkoc false true x (Some 1) else Multistart.mkoc false false p None in
  exists out tr f,
    hyperopt_view cs [[0; 1; 1]; [4; 5; 10]; [2; 2; 3]; [1; 1; 1]] None [[0; 7]; [1; 7]; [9; 7]; [3; 7]] [[0; 0]; [0; 0]; [0; 0]; [0; 0]]
                  [false; false; true; false] [Midpoint.Maximize; Midpoint.Minimize] [0%nat] [] hps
                  (multistart_opt run (fun _ k => repeat x k)) = Ok (out, tr) /\
    tr = [f] /\ length (f_vals f) = 3%nat /\ box_ok_b (f_box f) = true /\
    nth_error out 0 = Some (mkhp (1#100) [[Some 2]; [Some (1#2); Some (1#4); Some 1]; [Some 5]] None (Some (1#1000))) /\
    nth_error out 1 = nth_error hps 1.
Proof. eexists. eexists. eexists. vm_compute. repeat split; reflexivity. Qed.
