(* C15 — pending-point bookkeeping and request data stay consistent over any history.
   Only statements, each closed by `exact`, with Print Assumptions beneath.  Model: LV.Model.Lies.
   Aliasing clauses ("leave the caller's acquisition function, models and request data unchanged") cannot be stated
   about a pure model; they are decided by the deep comparisons of tools/props/C15.py on every run. *)
From Coq Require Import List QArith Qabs Bool Arith.
From LV Require Import Model.Lies Proofs.Lies.
Import ListNotations.
Open Scope Q_scope.

(* One append to a GP, from any consistent state: the data grow by exactly the lie block - the given locations, each
   carrying the worst observed value of that moment (max for constant_liar_min, min for constant_liar_max, the mean
   for constant_liar_mean) and the lie noise; the memoised best index is dropped. *)
Theorem C15_gp_append_carries_worst g locs m : hist_wf (g_hist g) -> dims_ok (h_dim (g_hist g)) locs ->
  exists v, worst m (h_vals (g_hist g)) v /\
    let g' := fst (gp_append g locs m) in
    snd (gp_append g locs m) = None /\ g_best g' = None /\
    h_dim (g_hist g') = h_dim (g_hist g) /\
    h_pts (g_hist g') = h_pts (g_hist g) ++ locs /\
    h_vals (g_hist g') = h_vals (g_hist g) ++ repeat v (length locs) /\
    h_noise (g_hist g') = h_noise (g_hist g) ++ repeat lie_noise (length locs).
Proof. exact (gp_append_spec g locs m). Qed.
Print Assumptions C15_gp_append_carries_worst.

(* Any history of appends, accessor reads and predictions keeps points, values and noise of equal length (and
   non-empty, with a consistent best-index memo); the accessors called in between are irrelevant to the data. *)
Theorem C15_gp_lie_invariant g0 ops : gp_wf g0 -> Forall (gop_ok (h_dim (g_hist g0))) ops ->
  let g := run gp_step g0 ops in
  (length (h_vals (g_hist g)) = length (h_pts (g_hist g)) /\ length (h_noise (g_hist g)) = length (h_pts (g_hist g)) /\
   h_vals (g_hist g) <> []) /\
  g_hist g = g_hist (run gp_step g0 (filter is_gappend ops)) /\
  (* every accessor reports the data as they are now; best_observed_value is a minimum of the current values *)
  snd (gp_step g GNum) = ONat (length (h_pts (g_hist g))) /\
  snd (gp_step g GPts) = OPts (h_pts (g_hist g)) /\
  snd (gp_step g GVals) = OVec (h_vals (g_hist g)) /\
  snd (gp_step g GNoise) = OVec (h_noise (g_hist g)) /\
  exists v, snd (gp_step g GBest) = OVal v /\ In v (h_vals (g_hist g)) /\ forall y, In y (h_vals (g_hist g)) -> v <= y.
Proof. exact (gp_lie_invariant g0 ops). Qed.
Print Assumptions C15_gp_lie_invariant.

(* With the library's lie method (constant_liar_min): after any history the data are the initial data followed by every
   appended location in order, all carrying the maximum of the initial values, with the lie noise. *)
Theorem C15_gp_history_closed_form g0 ops w : gp_wf g0 -> Forall (gop_ok (h_dim (g_hist g0))) ops -> Forall only_liemin ops ->
  lie_value LieMin (h_vals (g_hist g0)) = Some w ->
  let g := run gp_step g0 ops in let k := length (appended ops) in
  h_pts (g_hist g) = h_pts (g_hist g0) ++ appended ops /\
  h_vals (g_hist g) = h_vals (g_hist g0) ++ repeat w k /\
  h_noise (g_hist g) = h_noise (g_hist g0) ++ repeat lie_noise k.
Proof. exact (gp_liemin_closed_form ops g0 w). Qed.
Print Assumptions C15_gp_history_closed_form.

(* Sum of GPs: after any history every read returns the weighted sums (weights w for values, w^2 for noise) over the
   components' CURRENT data, of the current length; each component went through the same appends. *)
Theorem C15_gpsum_fresh_reads ops d s0 : sum_wf d s0 -> c_vals s0 = None -> c_noise s0 = None -> c_best s0 = None ->
  Forall (sop_ok d) ops ->
  let s := run (s_step true) s0 ops in
  snd (s_step true s SNum) = ONat (s_num s) /\
  snd (s_step true s SVals) = OVec (fresh_vals s) /\
  snd (s_step true s SNoise) = OVec (fresh_noise s) /\
  (exists v, snd (s_step true s SBest) = OVal v /\ In v (fresh_vals s) /\ forall y, In y (fresh_vals s) -> v <= y) /\
  length (fresh_vals s) = s_num s /\ length (fresh_noise s) = s_num s /\
  (forall i, (i < s_num s)%nat ->
     nth i (fresh_vals s) 0 == dot i (combine (s_weights s0) (map (fun g => h_vals (g_hist g)) (s_comps s))) /\
     nth i (fresh_noise s) 0 == dot i (combine (map (fun w => w * w) (s_weights s0)) (map (fun g => h_noise (g_hist g)) (s_comps s)))) /\
  s_comps s = map (fun g => run gp_step g (map sop_gop ops)) (s_comps s0).
Proof. exact (gpsum_reads ops d s0). Qed.
Print Assumptions C15_gpsum_fresh_reads.

(* Documentation of the repaired defect: the same machine without the cache reset in append_lie_data (the code before
   commit 1aeae01) violates the statement on [read values; append; read values]. *)
Theorem C15_gpsum_refuted_without_reset : ~ reads_fresh false.
Proof. exact gpsum_fresh_reads_refuted_without_reset. Qed.
Print Assumptions C15_gpsum_refuted_without_reset.

(* Parzen estimator: any interleaving of append, clear, stash and recover leaves exactly base points ++ current lies. *)
Theorem C15_parzen_lie_invariant ops s0 : p_lower_lies s0 = [] -> p_greater_lies s0 = [] -> Forall (pop_ok (p_dim s0)) ops ->
  let s := run pz_step s0 ops in
  p_lower s = p_lower s0 ++ p_lower_lies s /\ p_greater s = p_greater s0 ++ p_greater_lies s.
Proof. exact (parzen_lie_invariant ops s0). Qed.
Print Assumptions C15_parzen_lie_invariant.

(* ... and what "the current lies" are after each operation. *)
Theorem C15_parzen_lies_semantics blo bgr s : pz_inv blo bgr s ->
  (forall lies lower, dims_ok (p_dim s) lies ->
     let s' := fst (pz_step s (PAppend lies lower)) in
     p_lower_lies s' = (if lower then p_lower_lies s ++ lies else p_lower_lies s) /\
     p_greater_lies s' = (if lower then p_greater_lies s else p_greater_lies s ++ lies)) /\
  (p_lower_lies (fst (pz_step s PClear)) = [] /\ p_greater_lies (fst (pz_step s PClear)) = []) /\
  (pz_step s PStash = (s, OStash (p_lower_lies s) (p_greater_lies s))) /\
  (forall lo gr, dims_ok (p_dim s) lo -> dims_ok (p_dim s) gr ->
     let s' := fst (pz_step s (PRecover lo gr)) in
     p_lower_lies s' = lo /\ p_greater_lies s' = gr /\ p_lower s' = blo ++ lo /\ p_greater s' = bgr ++ gr).
Proof. exact (parzen_lies_semantics blo bgr s). Qed.
Print Assumptions C15_parzen_lies_semantics.

(* Stash, then anything valid, then recover: lies and point sets are those of the stash moment. *)
Theorem C15_recover_restores blo bgr s ops : pz_inv blo bgr s -> Forall (pop_ok (p_dim s)) ops ->
  let s' := fst (pz_step (run pz_step s ops) (PRecover (p_lower_lies s) (p_greater_lies s))) in
  p_lower_lies s' = p_lower_lies s /\ p_greater_lies s' = p_greater_lies s /\ p_lower s' = p_lower s /\ p_greater s' = p_greater s.
Proof. exact (recover_restores blo bgr s ops). Qed.
Print Assumptions C15_recover_restores.

(* Constant liar, any optimiser, any predictor type: pick i is the optimiser's answer on the copy after lies at picks 0..i-1. *)
Theorem C15_constant_liar_conditions_on_previous {St} (append1 : St -> point -> St) (pick : St -> point) n s :
  length (fst (cl_loop append1 pick n s)) = n /\ length (snd (cl_loop append1 pick n s)) = n /\
  forall i, (i < n)%nat ->
    let si := fold_left append1 (firstn i (fst (cl_loop append1 pick n s))) s in
    nth_error (snd (cl_loop append1 pick n s)) i = Some si /\ nth_error (fst (cl_loop append1 pick n s)) i = Some (pick si).
Proof. exact (cl_loop_spec append1 pick n s). Qed.
Print Assumptions C15_constant_liar_conditions_on_previous.

(* ... and for a GP predictor those lies sit at the previous picks with the maximum observed value and the lie noise. *)
Theorem C15_constant_liar_gp (pick : gp -> point) n g0 w : gp_wf g0 -> lie_value LieMin (h_vals (g_hist g0)) = Some w ->
  (forall g, length (pick g) = h_dim (g_hist g0)) ->
  let picks := fst (cl_loop gp_append1 pick n g0) in let seen := snd (cl_loop gp_append1 pick n g0) in
  length picks = n /\
  forall i, (i < n)%nat -> exists gi, nth_error seen i = Some gi /\ nth_error picks i = Some (pick gi) /\
    h_pts (g_hist gi) = h_pts (g_hist g0) ++ firstn i picks /\
    h_vals (g_hist gi) = h_vals (g_hist g0) ++ repeat w i /\
    h_noise (g_hist gi) = h_noise (g_hist g0) ++ repeat lie_noise i.
Proof. exact (constant_liar_gp pick n g0 w). Qed.
Print Assumptions C15_constant_liar_gp.

(* ... and for the Parzen estimator (SPENextPoints.suggest_next_points_constant_liar), on an estimator in ANY consistent state -
   in particular one that already holds lies, the request's pending points: every pick is optimised against the caller's
   estimator (base points and the lies it held, untouched) plus lies at the previous picks of the batch, and the caller gets
   its estimator back exactly as it was - the batch's lies gone, the lies held before still there. *)
Theorem C15_parzen_constant_liar blo bgr (pick : pz -> point) n s :
  pz_inv blo bgr s -> (forall t, length (pick t) = p_dim s) ->
  let '(picks, seen, final) := pz_constant_liar pick n s in
  length picks = n /\
  (forall i, (i < n)%nat -> exists si, nth_error seen i = Some si /\ nth_error picks i = Some (pick si) /\
     p_dim si = p_dim s /\ p_lower si = p_lower s /\ p_lower_lies si = p_lower_lies s /\
     p_greater si = p_greater s ++ firstn i picks /\ p_greater_lies si = p_greater_lies s ++ firstn i picks) /\
  final = s.
Proof. exact (parzen_constant_liar blo bgr pick n s). Qed.
Print Assumptions C15_parzen_constant_liar.

(* Search: pick i is optimised with the previous picks (mapped to the search cube) among the repulsors and the i-th
   drawn distance value; the caller's acquisition function is handed back with its repulsors and distance value. *)
Theorem C15_search_picks_become_repulsors_and_state_restored to_cube pick draws n a : (n <= length draws)%nat ->
  let '(picks, seen, final) := search_loop to_cube pick draws n a in
  length picks = n /\
  (forall i, (i < n)%nat -> exists ai, nth_error seen i = Some ai /\ nth_error picks i = Some (pick ai) /\
     repulsors ai = repulsors a ++ map to_cube (firstn i picks) /\ dist_par ai = nth i (dist_par a :: draws) 0) /\
  final = a.
Proof. exact (search_picks_become_repulsors to_cube pick draws n a). Qed.
Print Assumptions C15_search_picks_become_repulsors_and_state_restored.

(* Endpoints.  GP endpoint, for every GP of the acquisition function's predictor, every history, pending set and all four
   combinations of parallelism and multitask: the optimiser is handed a model whose data END WITH THE PENDING POINTS AS LIES (one
   value, the lie noise; the constant-liar optimiser runs), or parallel EI is handed EXACTLY THE PENDING POINTS AS ITS PENDING SET
   over the data as built.  Which of the two, and which lie value:
     constant liar (single task or multitask)  lies with the lie value the view supplies (worst non-failed value of the request);
     qEI, single task, something pending        pending set of parallel EI;
     qEI, multitask, something pending          lies appended by append_lie_locations before the optimiser runs (the repair of
                                                the defect `qEI + multitask drops the pending points`): the lie value is the worst
                                                (maximal) value of the model's OWN data, the view's lie value is not used.
   The Parzen model receives them as lies of the greater set; search as repulsors. *)
Theorem C15_pending_points_fed :
  (forall par mt h pending lie, hist_wf h -> dims_ok (h_dim h) pending ->
     exists f, feed_gp par mt h pending lie = inl f /\ pending_fed h pending f) /\
  (forall mt h pending lie, dims_ok (h_dim h) pending ->
     exists f, feed_gp ConstantLiar mt h pending lie = inl f /\ fed_as_lies h pending lie f) /\
  (forall h pending lie, pending <> [] ->
     exists f, feed_gp QEI false h pending lie = inl f /\ fed_as_pending_set h pending f) /\
  (forall h pending lie, hist_wf h -> dims_ok (h_dim h) pending -> pending <> [] ->
     exists v f, worst LieMin (h_vals h) v /\ feed_gp QEI true h pending lie = inl f /\ fed_as_lies h pending v f) /\
  (forall s pending, dims_ok (p_dim s) pending ->
     let s' := fst (feed_parzen s pending) in
     snd (feed_parzen s pending) = None /\ p_greater s' = p_greater s ++ pending /\
     p_greater_lies s' = p_greater_lies s ++ pending /\ p_lower s' = p_lower s /\ p_lower_lies s' = p_lower_lies s) /\
  (forall to_cube sampled pending d,
     repulsors (feed_search to_cube sampled pending d) = map to_cube sampled ++ map to_cube pending).
Proof. exact pending_points_fed. Qed.
Print Assumptions C15_pending_points_fed.

(* The Parzen endpoint beyond the moment of feeding (create_spe_suggestions, then draw_samples): the optimiser that finds
   max_location runs against the formed estimator plus the pending points as lies, and the estimator on which max_value and
   every expected-improvement evaluation of the rejection sampler are computed afterwards is that same state - the
   constant-liar pick inside draw_samples does not cost the model its pending points. *)
Theorem C15_parzen_endpoint_keeps_pending blo bgr (pick : pz -> point) s pending :
  pz_inv blo bgr s -> dims_ok (p_dim s) pending -> (forall t, length (pick t) = p_dim s) ->
  exists seen, spe_sampling pick s pending = inl (pick seen, seen, seen) /\ seen = fst (feed_parzen s pending) /\
    p_greater seen = p_greater s ++ pending /\ p_greater_lies seen = p_greater_lies s ++ pending /\
    p_lower seen = p_lower s /\ p_lower_lies seen = p_lower_lies s.
Proof. exact (spe_sampling_keeps_pending blo bgr pick s pending). Qed.
Print Assumptions C15_parzen_endpoint_keeps_pending.

(* The meaning of the three predicates above, unfolded (so that the statement can be read without Proofs/Lies.v). *)
Theorem C15_pending_fed_meaning h pending f :
  pending_fed h pending f <->
  ((exists v, f_use_qei f = false /\ f_pending_set f = [] /\ h_dim (f_hist f) = h_dim h /\
      h_pts (f_hist f) = h_pts h ++ pending /\
      h_vals (f_hist f) = h_vals h ++ repeat v (length pending) /\
      h_noise (f_hist f) = h_noise h ++ repeat lie_noise (length pending))
   \/ (f_use_qei f = true /\ f_pending_set f = pending /\ f_hist f = h)).
Proof. exact (pending_fed_meaning h pending f). Qed.
Print Assumptions C15_pending_fed_meaning.

(* The GPs under the failure model (constraint metrics, epsilon-constraint thresholds) are built by the same
   form_single_gaussian_process: lies with the view's lie value under constant liar; under qEI they stay as built (parallel EI with
   failures samples them at its pending set; in the multitask fall-back append_lie_locations reaches the predictor only, as it does
   for the picks inside the constant-liar loop). *)
Theorem C15_failure_model_gps :
  (forall h pending lie, dims_ok (h_dim h) pending ->
     exists h', feed_failure_gp ConstantLiar h pending lie = inl h' /\ h_dim h' = h_dim h /\
       h_pts h' = h_pts h ++ pending /\ h_vals h' = h_vals h ++ repeat lie (length pending) /\
       h_noise h' = h_noise h ++ repeat lie_noise (length pending)) /\
  (forall h pending lie, feed_failure_gp QEI h pending lie = inl h).
Proof. exact failure_gp_feed. Qed.
Print Assumptions C15_failure_model_gps.

(* non-vacuity: the hypotheses are satisfiable and the machines move *)
Example C15_example :
  let g0 := mkGp (mkHist 1 [[0]; [1]; [3]] [1; 4; 2] [1#2; 1#4; 1#8]) None in
  gp_wf g0 /\
  g_hist (run gp_step g0 [GBest; GAppend [[2]; [5]] LieMin; GVals; GAppend [[7]] LieMin]) =
    mkHist 1 [[0]; [1]; [3]; [2]; [5]; [7]] [1; 4; 2; 4; 4; 4] [1#2; 1#4; 1#8; lie_noise; lie_noise; lie_noise] /\
  snd (gp_step (run gp_step g0 [GBest; GAppend [[2]] LieMax]) GBest) = OVal 1 /\
  sum_wf 1 stale_witness /\
  (match snd (s_step true (run (s_step true) stale_witness [SVals; SBest; SAppend [[1#2]] LieMin]) SVals) with
   | OVec v => vec_eqb v [3#2; 5#2; 5#2] | _ => false end) = true /\
  p_greater (run pz_step (mkPz 1 [[0]] [[5]; [6]] [] []) [PAppend [[7]] false; PAppend [[8]] true; PClear; PRecover [[9]] [[7]]]) = [[5]; [6]; [7]] /\
  Qabs (lie_noise - (1 # 1000000000000)) < 1 # 10000000000000000000000000000 /\
  (* Parzen constant liar on an estimator holding a pending-point lie [7]: both picks see it, the second also the first pick; restored *)
  (let s := mkPz 1 [[0]] [[5]; [6]; [7]] [] [[7]] in
   pz_constant_liar (fun t => [inject_Z (Z.of_nat (length (p_greater t)))]) 2 s =
     ([[3]; [4]], [s; mkPz 1 [[0]] [[5]; [6]; [7]; [3]] [] [[7]; [3]]], s)) /\
  (* the input of the repaired defect (qEI, multitask, one pending point; the view's lie value 7 is NOT what is appended) *)
  feed_gp QEI true (mkHist 2 [[0; 1]; [1; 1#4]] [1; 2] [0; 0]) [[5#2; 1]] 7 =
    inl (mkFeed (mkHist 2 [[0; 1]; [1; 1#4]; [5#2; 1]] [1; 2; 2] [0; 0; lie_noise]) [] false).
Proof.
  cbv zeta. split; [|split; [|split; [|split; [|split; [|split; [|split; [|split]]]]]]]; try (vm_compute; reflexivity).
  - unfold gp_wf, hist_wf, gp_cache_ok. cbn. repeat split; try discriminate. left. reflexivity.
  - unfold sum_wf, stale_witness, comp_ok, gp_wf, hist_wf, gp_cache_ok. cbn. repeat split; try discriminate; try (left; reflexivity).
    repeat constructor; cbn; try discriminate; try (left; reflexivity).
Qed.
