(* C01, clause "every valid request gets a response holding the requested number of points, fewer only when a fully discrete
   or int-constrained domain cannot supply them": FALSE of the GP (and search) view as written.  The tail returns fewer points
   on an int-constrained domain (allowed), but the view's own assertion only tolerates a short batch on a fully discrete
   domain.  Witness: ints x1, x2 in 0..10 and a double, int constraints 3 x1 - 2 x2 >= 0.9 and -3 x1 + 2 x2 >= -1.1; the
   relaxed point (7/3, 3, 1/2) satisfies both relaxed constraints but neither neighbour (2,3), (3,3) does.
   Finding "C01:gp-search:int-constrained-short-batch-assertion-error"; replayed on the real endpoint by tools/props/C01.py. *)
From Coq Require Import List QArith ZArith Bool Arith.
From LV Require Import Model.Domain Model.Decode Model.EndpointTail Model.EndpointTailCorr.
Import ListNotations.
Open Scope Q_scope.

Definition band_dom : domain :=
  {| comps := [Int 0 10; Int 0 10; Double 0 1];
     cons := [{| weights := [3; -2; 0]; rhs := 9 # 10; cty := CInt |}; {| weights := [-3; 2; 0]; rhs := -(11 # 10); cty := CInt |}] |}.
Definition band_orc : gporc :=
  {| g_dec := {| o_rnds := []; o_perms := [[0%nat; 1%nat]]; o_cats := [[]] |}; g_hdec := {| o_rnds := []; o_perms := []; o_cats := [] |};
     g_choice := []; g_q := {| q_cols := []; q_rows := []; q_dec := {| o_rnds := []; o_perms := []; o_cats := [] |} |} |}.

Theorem C01_gp_short_batch_refuted :
  exists d af xs hist o,
    wf_domain d = true /\ is_int_constrained d = true /\ admissibleb d [1; 1; 1 # 2] = true /\
    forallb (relaxed_okb d) xs = true /\ forallb (sat_cons (comps d) (int_cons d)) xs = true /\
    gp_tail d [] false af xs hist [] o = Some {| r_points := []; r_costs := None |} /\
    resp_okb d [] (length xs) {| r_points := []; r_costs := None |} = true /\
    gp_view d [] false af xs hist [] o = None.
Proof.
  exists band_dom, (fun _ => 0), [[7 # 3; 3; 1 # 2]], [[1; 1; 1 # 2]], band_orc. vm_compute. repeat split; reflexivity.
Qed.
Print Assumptions C01_gp_short_batch_refuted.
