(* C02, "a polynomial mean with GLS coefficients": the matrix P the GP hands to the GLS fit and to the predictor is built by
   python_utils.build_polynomial_matrix (model LV.Model.Poly, written once over an arbitrary carrier, run against the code at Q,
   reasoned about here at R).  Only statements, each closed by `exact`, with Print Assumptions beneath. *)
From Coq Require Import List Reals Arith.
From LV Require Import Model.Poly Proofs.Poly.
Import ListNotations.
Open Scope R_scope.

(* for every non-empty index list (constant, linear, custom monomials - the constant-mean shortcut included) and points of the
   right dimension, entry (i, j) of the matrix is the monomial  prod_d x_i[d] ^ idx_j[d]  *)
Theorem C02_polynomial_matrix_entries dim idx pts : idx <> [] -> List.Forall (fun p => length p = dim) pts ->
  polymatR dim idx pts = map (fun p => map (monoR p) idx) pts /\ (forall x e, monoR x e = mono_spec x e).
Proof. exact (fun H1 H2 => conj (polymat_entries dim idx pts H1 H2) mono_closed_form). Qed.
Print Assumptions C02_polynomial_matrix_entries.

(* the zero mean is one column of zeros (so the mean term P b vanishes whatever b is) *)
Theorem C02_polynomial_matrix_zero_mean dim pts : polymatR dim [] pts = map (fun _ => [0]) pts.
Proof. exact (eq_refl _). Qed.
Print Assumptions C02_polynomial_matrix_zero_mean.

Example C02_polynomial_matrix_example :
  polymatR 2 [[0; 0]; [1; 2]]%nat [[2; 3]; [4; 1]; [0; 8]] = [[1 * 1 * 1; 1 * (2 * 1) * (3 * (3 * 1))]; [1 * 1 * 1; 1 * (4 * 1) * (1 * (1 * 1))]; [1 * 1 * 1; 1 * (0 * 1) * (8 * (8 * 1))]].
Proof. reflexivity. Qed.
