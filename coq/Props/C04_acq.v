(* C04, acquisition functions and success probabilities — statements about Gen.GenAcq (regenerated from predictor.py,
   expected_improvement.py, probabilistic_failures.py, multitask_acquisition_function.py, sigopt_parzen_estimator.py). *)
From Coq Require Import Reals Lra.
From Coquelicot Require Import Coquelicot.
From LV Require Import Lib.RBase Gen.GenAcq Proofs.Acq Proofs.ParzenGrad.
Open Scope R_scope.

(* expected improvement: for differentiable posterior mean mu(t) and variance v(t) > 0 along a coordinate, where the
   clamp max(0, .) is inactive (z Phi(z) + pdf(z) > 0), the generated gradient is the derivative of the generated value *)
Theorem C04_ei_grad (mu v dmu dv : R -> R) best dim x t i k :
  (forall t, is_derive mu t (dmu t)) -> (forall t, is_derive v t (dv t)) -> (forall t, 0 < v t) ->
  0 < G ((best - mu t) / sqrt (v t)) ->
  is_derive (fun t => EI.value dim x (C1 (mu t)) (C1 (v t)) (C2 0) (C2 0) best i) t
            (EI.grad dim x (C1 (mu t)) (C1 (v t)) (C2 (dmu t)) (C2 (dv t)) best i k).
Proof. intros H1 H2 H3 H4. exact (ei_grad_is_derivative mu v dmu dv best dim x H1 H2 H3 t i k H4). Qed.
Print Assumptions C04_ei_grad.

(* joint value-and-gradient entry points return the same terms as the separate ones (projections of the core components) *)
Theorem C04_joint_equals_separate dim x mean var gmean gvar best i k gsv dimp1 xx af g :
  EI.value dim x mean var gmean gvar best i =
    EI.normalized dim mean var (Core.func_z dim x mean var gmean gvar best) (Core.func_sqrt_var dim x mean var gmean gvar best)
                  (Core.func_cdf_z dim x mean var gmean gvar best) (Core.func_pdf_z dim x mean var gmean gvar best) gmean gvar gsv i /\
  EI.grad dim x mean var gmean gvar best i k =
    EI.grad_normalized dim mean var (Core.grad_z dim x mean var gmean gvar best) (Core.grad_sqrt_var dim x mean var gmean gvar best)
                  (Core.grad_cdf_z dim x mean var gmean gvar best) (Core.grad_pdf_z dim x mean var gmean gvar best) gmean gvar
                  (Core.grad_grad_sqrt_var dim x mean var gmean gvar best) i k /\
  MultitaskAF.joint_value dimp1 xx af g i = MultitaskAF.value dimp1 xx af g i.
Proof. split; [reflexivity|split; reflexivity]. Qed.
Print Assumptions C04_joint_equals_separate.

(* augmented EI penalty 1 - sqrt(nu/(v+nu)) and its gradient; failure-weighted EI is a product with the product rule *)
Theorem C04_penalties (v dv : R -> R) nu t dim i k mean var z sv cdf pdfz gmean gvar gsv pen gpen :
  0 < nu -> 0 <= v t -> is_derive v t (dv t) ->
  is_derive (fun t => AEI.penalty_value dim (C1 0) (C1 (v t)) (C1 0) (C1 0) (C1 0) (C1 0) (C2 0) (C2 0) (C2 0) nu i) t
            (AEI.penalty_grad dim (C1 0) (C1 (v t)) (C1 0) (C1 0) (C1 0) (C1 0) (C2 0) (C2 (dv t)) (C2 0) nu i k) /\
  EIP.grad_penalty dim mean var z sv cdf pdfz gmean gvar gsv pen gpen i k =
    EI.grad_normalized dim mean var z sv cdf pdfz gmean gvar gsv i k * pen i
    + EI.normalized dim mean var z sv cdf pdfz gmean gvar gsv i * gpen i k /\
  (forall (f g : R -> R) df dg, is_derive f t df -> is_derive g t dg -> is_derive (fun t => f t * g t) t (df * g t + f t * dg)).
Proof.
  intros H1 H2 H3. split; [exact (aei_penalty_grad_is_derivative v dv nu t dim i k H1 H2 H3)|split; [reflexivity|]].
  intros f g df dg. exact (product_rule_derive f g t df dg).
Qed.
Print Assumptions C04_penalties.

(* success probabilities: logistic model below the exponent cap, normal-CDF model, and the product of a list of models *)
Theorem C04_success_probabilities (m dm v dv : R -> R) kappa thr t dim x i k nq (p dp : nat -> R -> R) :
  (kappa * (m t - thr) < 40 -> is_derive m t (dm t) ->
   is_derive (fun t => Logistic.value dim x (C1 (m t)) (C1 0) (C2 0) (C2 0) kappa thr i) t
             (Logistic.grad dim x (C1 (m t)) (C1 0) (C2 (dm t)) (C2 0) kappa thr i k)) /\
  ((forall t, is_derive m t (dm t)) -> (forall t, is_derive v t (dv t)) -> (forall t, 0 < v t) ->
   is_derive (fun t => CDF.value dim x (C1 (m t)) (C1 (v t)) (C2 0) (C2 0) thr i) t
             (CDF.grad dim x (C1 (m t)) (C1 (v t)) (C2 (dm t)) (C2 (dv t)) thr i k)) /\
  ((forall q, (q < nq)%nat -> is_derive (p q) t (dp q t)) ->
   is_derive (fun t => Product.value nq (fun q _ => p q t) i) t
             (Product.grad dim nq (fun q _ => p q t) (fun q _ _ => dp q t) i k)).
Proof.
  split; [|split].
  - intros H1 H2. exact (logistic_grad_is_derivative m dm kappa thr t dim x i k H1 H2).
  - intros H1 H2 H3. exact (cdf_grad_is_derivative m v dm dv thr dim x H1 H2 H3 t i k).
  - intros H. exact (product_grad_is_derivative nq p dp t dim i k H).
Qed.
Print Assumptions C04_success_probabilities.

(* cost-scaled multitask acquisition: quotient rule, including the special last (task) coordinate *)
Theorem C04_multitask_af dimp1 x af g i kk :
  ((kk + 1 <> dimp1)%nat -> MultitaskAF.joint_grad dimp1 x af g i kk = g i kk / x i (dimp1 - 1)%nat) /\
  ((1 <= dimp1)%nat -> MultitaskAF.joint_grad dimp1 x af g i (dimp1 - 1) =
     (g i (dimp1 - 1)%nat - af i / x i (dimp1 - 1)%nat) / x i (dimp1 - 1)%nat) /\
  (forall (a : R -> R) da c, c <> 0 -> is_derive a c da -> is_derive (fun c => a c / c) c ((da - a c / c) / c)) /\
  (forall (a : R -> R) t da c, c <> 0 -> is_derive a t da -> is_derive (fun t => a t / c) t (da / c)).
Proof.
  split; [exact (multitask_grad_physical dimp1 x af g i kk)|split; [exact (multitask_grad_task dimp1 x af g i)|split]].
  - exact quotient_rule_cost.
  - exact quotient_rule_physical.
Qed.
Print Assumptions C04_multitask_af.

(* Parzen-estimator improvement ratio: d(1/(gamma + (1-gamma) g/l)) = -ratio^2 (1-gamma) (l g' - g l') / l^2 *)
Theorem C04_parzen_ratio (l g dl dg : R -> R) gamma t :
  0 < l t -> gamma + g t / l t * (1 - gamma) <> 0 -> is_derive l t (dl t) -> is_derive g t (dg t) ->
  is_derive (fun t => 1 / (gamma + g t / l t * (1 - gamma))) t
            (- (1 / (gamma + g t / l t * (1 - gamma))) ^ 2 * (1 - gamma) * (l t * dg t - g t * dl t) / l t ^ 2).
Proof. exact (ratio_grad_is_derivative l g dl dg gamma t). Qed.
Print Assumptions C04_parzen_ratio.

(* the same statement on the generated value/gradient pair of the estimator: densities are kernel means over the lower and
   greater sets (the lower one floored by 1e-10), kernel entries differentiable along the coordinate *)
Theorem C04_parzen_grad_generated dim ng nl x (kl kg : nat -> R -> R) (dkl dkg : nat -> R) Gl0 Gg0 gamma t i k :
  (0 < nl)%nat -> (0 < ng)%nat -> 0 < gamma < 1 ->
  (forall j, (j < nl)%nat -> is_derive (kl j) t (dkl j)) -> (forall j, (j < ng)%nat -> is_derive (kg j) t (dkg j)) ->
  (forall j, 0 <= kl j t) -> (forall j, 0 <= kg j t) ->
  is_derive (fun t => Parzen.ei_ratio dim ng nl x (fun _ j => kl j t) Gl0 (fun _ j => kg j t) Gg0 gamma i) t
            (Parzen.grad_ei dim ng nl x (fun _ j => kl j t) (fun _ j _ => dkl j) (fun _ j => kg j t) (fun _ j _ => dkg j) gamma i k).
Proof. exact (parzen_grad_is_derivative dim ng nl x kl kg dkl dkg Gl0 Gg0 gamma t i k). Qed.
Print Assumptions C04_parzen_grad_generated.
