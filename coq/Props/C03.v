(* C03 — covariance kernels are valid, correctly parameterised kernels.
   Statements about the definitions REGENERATED from /repo (Gen.GenCovariance, Gen.GenMultitask) and about the
   hyperparameter model (Model.Hyper).  Only statements + exact + Print Assumptions here. *)
From Coq Require Import Reals List QArith.
From LV Require Import Lib.RBase Gen.GenCovariance Gen.GenMultitask Model.Hyper Proofs.Covariance Proofs.Hyper.
Import ListNotations.
Open Scope R_scope.

(* documented closed forms: covariance(x,z)[i] = alpha * phi(r), r the length-scale-weighted distance of rows i *)
Theorem C03_closed_forms dim x z ls lsq lcu alpha i :
  SquareExponential.covariance dim x z ls lsq lcu alpha i = alpha * exp (- (rw dim x z ls i i ^ 2) / 2) /\
  C0RadialMatern.covariance dim x z ls lsq lcu alpha i = alpha * exp (- rw dim x z ls i i) /\
  C2RadialMatern.covariance dim x z ls lsq lcu alpha i = alpha * ((1 + rw dim x z ls i i) * exp (- rw dim x z ls i i)) /\
  C4RadialMatern.covariance dim x z ls lsq lcu alpha i
    = alpha * ((1 + rw dim x z ls i i + rw dim x z ls i i ^ 2 / 3) * exp (- rw dim x z ls i i)).
Proof.
  exact (conj (SE_closed_form dim x z ls lsq lcu alpha i) (conj (C0_closed_form dim x z ls lsq lcu alpha i)
        (conj (C2_closed_form dim x z ls lsq lcu alpha i) (C4_closed_form dim x z ls lsq lcu alpha i)))).
Qed.
Print Assumptions C03_closed_forms.

(* the clamped expansion used by the cross-matrix path equals the sum of squared differences *)
Theorem C03_dist_matrix_identity dim x z i j :
  Geometry.compute_distance_matrix_squared dim x z i j = bigsum dim (fun k => (x i k - z j k) ^ 2).
Proof. exact (dist_matrix_identity dim x z i j). Qed.
Print Assumptions C03_dist_matrix_identity.

(* cross-matrix and symmetric-matrix entry points agree with the pairwise closed form; noise enters on the diagonal only *)
Theorem C03_entry_points_agree dim xe xs ls lsq lcu noise alpha i j j2 : (forall k, ls k <> 0) ->
  SquareExponential.kernel_matrix_cross dim xs xe ls lsq lcu alpha i j = alpha * phiSE (rw dim xe xs ls i j) /\
  C0RadialMatern.kernel_matrix_cross dim xs xe ls lsq lcu alpha i j = alpha * phiC0 (rw dim xe xs ls i j) /\
  C2RadialMatern.kernel_matrix_cross dim xs xe ls lsq lcu alpha i j = alpha * phiC2 (rw dim xe xs ls i j) /\
  C4RadialMatern.kernel_matrix_cross dim xs xe ls lsq lcu alpha i j = alpha * phiC4 (rw dim xe xs ls i j) /\
  SquareExponential.kernel_matrix_sym dim xs noise ls lsq lcu alpha j j2
    = alpha * phiSE (rw dim xs xs ls j j2) + (if Nat.eqb j j2 then noise j else 0) /\
  C0RadialMatern.kernel_matrix_sym dim xs noise ls lsq lcu alpha j j2
    = alpha * phiC0 (rw dim xs xs ls j j2) + (if Nat.eqb j j2 then noise j else 0) /\
  C2RadialMatern.kernel_matrix_sym dim xs noise ls lsq lcu alpha j j2
    = alpha * phiC2 (rw dim xs xs ls j j2) + (if Nat.eqb j j2 then noise j else 0) /\
  C4RadialMatern.kernel_matrix_sym dim xs noise ls lsq lcu alpha j j2
    = alpha * phiC4 (rw dim xs xs ls j j2) + (if Nat.eqb j j2 then noise j else 0).
Proof.
  intros H. repeat split.
  - exact (SE_cross dim xe xs ls lsq lcu alpha H i j).
  - exact (C0_cross dim xe xs ls lsq lcu alpha H i j).
  - exact (C2_cross dim xe xs ls lsq lcu alpha H i j).
  - exact (C4_cross dim xe xs ls lsq lcu alpha H i j).
  - exact (SE_sym dim xs ls lsq lcu noise alpha H j j2).
  - exact (C0_sym dim xs ls lsq lcu noise alpha H j j2).
  - exact (C2_sym dim xs ls lsq lcu noise alpha H j j2).
  - exact (C4_sym dim xs ls lsq lcu noise alpha H j j2).
Qed.
Print Assumptions C03_entry_points_agree.

(* k(x,x) = alpha; symmetric; translation invariant; 0 < k <= alpha; every 2x2 Gram matrix (+ noise) is PSD —
   for any kernel alpha * phi(r) with phi 0 = 1 and 0 < phi <= 1, instantiated by the four profiles below *)
Theorem C03_kernel_laws (phi : R -> R) dim ls alpha :
  phi 0 = 1 -> (forall r, 0 <= r -> 0 < phi r <= 1) -> 0 < alpha ->
  (forall x i, kern phi dim ls alpha x x i i = alpha) /\
  (forall x z i j, kern phi dim ls alpha x z i j = kern phi dim ls alpha z x j i) /\
  (forall x z t i j, kern phi dim ls alpha (fun a k => x a k + t k) (fun a k => z a k + t k) i j = kern phi dim ls alpha x z i j) /\
  (forall x z i j, 0 < kern phi dim ls alpha x z i j <= alpha) /\
  (forall x z i j n1 n2 u v, 0 <= n1 -> 0 <= n2 ->
     0 <= (kern phi dim ls alpha x x i i + n1) * u ^ 2 + 2 * kern phi dim ls alpha x z i j * u * v
          + (kern phi dim ls alpha z z j j + n2) * v ^ 2).
Proof.
  intros H0 Hr Ha. repeat split.
  - intros. apply kern_diag. exact H0.
  - intros. apply kern_symmetric.
  - intros. apply kern_translation_invariant.
  - apply kern_bounded; assumption.
  - apply kern_bounded; assumption.
  - intros. apply kern_psd_2x2; assumption.
Qed.
Print Assumptions C03_kernel_laws.

Theorem C03_profiles :
  (phiSE 0 = 1 /\ phiC0 0 = 1 /\ phiC2 0 = 1 /\ phiC4 0 = 1) /\
  (forall r, 0 <= r -> 0 < phiSE r <= 1) /\ (forall r, 0 <= r -> 0 < phiC0 r <= 1) /\
  (forall r, 0 <= r -> 0 < phiC2 r <= 1) /\ (forall r, 0 <= r -> 0 < phiC4 r <= 1) /\
  (forall r1 r2, 0 <= r1 -> r1 <= r2 -> phiSE r2 <= phiSE r1) /\ (forall r1 r2, 0 <= r1 -> r1 <= r2 -> phiC0 r2 <= phiC0 r1) /\
  (forall r1 r2, 0 <= r1 -> r1 <= r2 -> phiC2 r2 <= phiC2 r1) /\ (forall r1 r2, 0 <= r1 -> r1 <= r2 -> phiC4 r2 <= phiC4 r1).
Proof.
  repeat split; try (intros; first [apply phiSE_range|apply phiC0_range|apply phiC2_range|apply phiC4_range]; assumption).
  - exact phiSE_0. - exact phiC0_0. - exact phiC2_0. - exact phiC4_0.
  - exact phiSE_nonincreasing. - exact phiC0_nonincreasing. - exact phiC2_nonincreasing. - exact phiC4_nonincreasing.
Qed.
Print Assumptions C03_profiles.

(* the multitask kernel is the product of its physical and task kernels *)
Theorem C03_multitask_is_product pv tv pg tg ph th i :
  GenMultitask._covariance pv tv pg tg ph th i = pv i * tv i.
Proof. reflexivity. Qed.
Print Assumptions C03_multitask_is_product.

(* hyperparameters: rejected exactly when some entry is <= 0, NaN or infinite; read back as set *)
Theorem C03_hyper_rejects hp : hp <> [] -> (radial_set hp = None <-> exists h, In h hp /\ Bad h).
Proof. exact (hyper_rejects hp). Qed.
Print Assumptions C03_hyper_rejects.
Theorem C03_hyper_rejects_multitask hp : (2 <= length hp)%nat -> (multitask_set hp = None <-> exists h, In h hp /\ Bad h).
Proof. exact (hyper_rejects_multitask hp). Qed.
Print Assumptions C03_hyper_rejects_multitask.
Theorem C03_hyper_roundtrip hp k km :
  (radial_set hp = Some k -> hp <> [] -> radial_get k = hp) /\
  (multitask_set hp = Some km -> (2 <= length hp)%nat -> multitask_get km = hp).
Proof. exact (conj (hyper_roundtrip_radial hp k) (hyper_roundtrip_multitask hp km)). Qed.
Print Assumptions C03_hyper_roundtrip.

(* ---- LIVE kernel objects: hyperparameters assigned (accepted or rejected), read back and used, in any order, on ONE object ----
   (Model.Hyper: radial_assign / multitask_assign follow set_hyperparameters statement by statement, including what has already been
   assigned when HyperparameterInvalidError is raised; tied to the running classes by the op-sequence cases CLiveRadial / CLiveMulti) *)

(* an assignment is rejected exactly when some entry is <= 0, NaN or infinite (valid hp = false <-> exists a Bad entry) ... *)
Theorem C03_hyper_valid_false_iff_bad hp : valid hp = false <-> exists h, In h hp /\ Bad h.
Proof. exact (valid_false_iff_bad hp). Qed.
Print Assumptions C03_hyper_valid_false_iff_bad.

(* ... an accepted vector reads back, and a REJECTED ASSIGNMENT LEAVES A RADIAL KERNEL UNCHANGED (every field) *)
Theorem C03_hyper_live_radial_assignment k hp :
  snd (radial_assign k hp) = valid hp /\
  (valid hp = true -> radial_get (fst (radial_assign k hp)) = hp) /\
  (valid hp = false -> fst (radial_assign k hp) = k).
Proof. exact (radial_assign_spec k hp). Qed.
Print Assumptions C03_hyper_live_radial_assignment.
Theorem C03_hyper_live_rejected_leaves_radial_unchanged k hp k' : radial_assign k hp = (k', false) -> k' = k.
Proof. exact (radial_rejected_unchanged k hp k'). Qed.
Print Assumptions C03_hyper_live_rejected_leaves_radial_unchanged.

(* for every sequence of operations on a constructed radial kernel: it reads back exactly the process variance and length scales it
   computes with, these are admissible, and they are the last vector that was accepted *)
Theorem C03_hyper_live_radial_history hp0 k ops : radial_set hp0 = Some k -> hp0 <> [] -> nonempty_sets ops ->
  let k' := fst (run radial_step k ops) in
  (r_hp k' = r_alpha k' :: r_ls k' /\ valid (r_hp k') = true) /\ radial_get k' = last_accepted hp0 ops.
Proof. exact (radial_life_coherent hp0 k ops). Qed.
Print Assumptions C03_hyper_live_radial_history.
Theorem C03_hyper_live_radial_readback k ops1 ops2 :
  nth (length ops1) (snd (run radial_step k (ops1 ++ HGet :: ops2))) (OSet false) = OGet (last_accepted (radial_get k) ops1).
Proof. exact (radial_history_readback k ops1 ops2). Qed.
Print Assumptions C03_hyper_live_radial_readback.
(* every use of the kernel in a history: k(x,x) is the process variance of the last accepted vector, all entry points those of a kernel
   freshly built from what is read back *)
Theorem C03_hyper_live_radial_use k ops1 ops2 : RCoh k -> nonempty_sets ops1 ->
  exists a ls, last_accepted (radial_get k) ops1 = a :: ls /\
  nth (length ops1) (snd (run radial_step k (ops1 ++ HProbe :: ops2))) (OSet false) = OProbe a true.
Proof. exact (radial_history_probe k ops1 ops2). Qed.
Print Assumptions C03_hyper_live_radial_use.
(* the decidable specification the correspondence evaluates on the implementation's own outputs holds of the model *)
Theorem C03_hyper_live_radial_spec ops k : RCoh k -> nonempty_sets ops -> spec_outs true (radial_get k) ops (snd (run radial_step k ops)) = true.
Proof. exact (radial_model_meets_spec ops k). Qed.
Print Assumptions C03_hyper_live_radial_spec.

(* the tensor kernel (its setter builds the component kernels before it assigns anything - repair 65c6caf): accepted iff every entry is
   admissible, an accepted vector reads back, and a REJECTED ASSIGNMENT - inadmissible process variance, physical length scale or task
   length scale - LEAVES THE KERNEL UNCHANGED: what it reads back and what it computes with (every field) *)
Theorem C03_hyper_live_multitask_assignment k hp : (2 <= length hp)%nat ->
  snd (multitask_assign k hp) = valid hp /\ (valid hp = true -> multitask_get (fst (multitask_assign k hp)) = hp) /\
  (valid hp = false -> fst (multitask_assign k hp) = k).
Proof. exact (multitask_assign_spec k hp). Qed.
Print Assumptions C03_hyper_live_multitask_assignment.
Theorem C03_hyper_live_multitask_rejected_leaves_unchanged k hp k' : multitask_assign k hp = (k', false) -> k' = k.
Proof. exact (multitask_rejected_unchanged k hp k'). Qed.
Print Assumptions C03_hyper_live_multitask_rejected_leaves_unchanged.
(* for every sequence of operations on a constructed tensor kernel: it computes with the process variance it reads back and with component
   kernels of process variance 1 that read back their own length scales (MCoh), what it reads back is admissible, and it is the last vector
   that was accepted *)
Theorem C03_hyper_live_multitask_history hp0 k ops : multitask_set hp0 = Some k -> (2 <= length hp0)%nat -> long_sets ops ->
  let k' := fst (run multitask_step k ops) in
  MCoh k' /\ valid (multitask_get k') = true /\ multitask_get k' = last_accepted hp0 ops.
Proof. exact (multitask_life_coherent hp0 k ops). Qed.
Print Assumptions C03_hyper_live_multitask_history.
Theorem C03_hyper_live_multitask_spec ops k : MCoh k -> long_sets ops ->
  spec_outs true (multitask_get k) ops (snd (run multitask_step k ops)) = true.
Proof. exact (multitask_model_meets_spec ops k). Qed.
Print Assumptions C03_hyper_live_multitask_spec.

(* a concrete history (hypotheses satisfiable): construct, reject a vector with a negative length scale, use, read back, accept another *)
Example C03_hyper_live_example :
  match radial_set [Fin 2; Fin (1#2)] with
  | Some k => snd (run radial_step k [HSet [Fin 1; Fin (-1)]; HProbe; HGet; HSet [Fin 3; Fin 4]; HGet])
              = [OSet false; OProbe (Fin 2) true; OGet [Fin 2; Fin (1#2)]; OSet true; OGet [Fin 3; Fin 4]]
  | None => False
  end.
Proof. vm_compute. reflexivity. Qed.
(* the same for the tensor kernel - the input that showed the repaired defect: [1.5, 0.5, 2, 0.25], then [3, 1, 1, 0] is rejected for its task
   length scale and nothing of it is taken *)
Example C03_hyper_live_multitask_example :
  match multitask_set [Fin (3#2); Fin (1#2); Fin 2; Fin (1#4)] with
  | Some k => snd (run multitask_step k [HSet [Fin 3; Fin 1; Fin 1; Fin 0]; HGet; HProbe; HSet [Fin 3; Fin 1; Fin 1; Fin 2]; HGet])
              = [OSet false; OGet [Fin (3#2); Fin (1#2); Fin 2; Fin (1#4)]; OProbe (Fin (3#2)) true; OSet true; OGet [Fin 3; Fin 1; Fin 1; Fin 2]]
  | None => False
  end.
Proof. vm_compute. reflexivity. Qed.
