(* C04, expected improvement — C04_ei_grad of Props/C04_acq.v without its side condition 0 < G z: G z = z Phi z + pdf z is
   positive everywhere (Gaussian tail bound, Proofs/AcqGauss.v), so the clamp max(0, .) is never active. *)
From Coq Require Import Reals Lra.
From Coquelicot Require Import Coquelicot.
From LV Require Import Lib.RBase Gen.GenAcq Proofs.Acq Proofs.AcqGauss.
Open Scope R_scope.

Theorem C04_ei_grad_unconditional (mu v dmu dv : R -> R) best dim x t i k :
  (forall t, is_derive mu t (dmu t)) -> (forall t, is_derive v t (dv t)) -> (forall t, 0 < v t) ->
  is_derive (fun t => EI.value dim x (C1 (mu t)) (C1 (v t)) (C2 0) (C2 0) best i) t
            (EI.grad dim x (C1 (mu t)) (C1 (v t)) (C2 (dmu t)) (C2 (dv t)) best i k).
Proof. exact (ei_grad_is_derivative_unconditional mu v dmu dv best dim x t i k). Qed.
Print Assumptions C04_ei_grad_unconditional.
