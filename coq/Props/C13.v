(* C13 — Pareto frontier and epsilon-constraint thresholds are exact.
   Only statements, each closed by `exact`, with Print Assumptions beneath. Model: LV.Model.Pareto. *)
From Coq Require Import List QArith Bool Arith.
From LV Require Import Model.Pareto Proofs.Pareto.
Import ListNotations.
Open Scope Q_scope.

(* The two returned lists are exactly the labels of the non-dominated and of the dominated rows, in order, every copy of
   a tied row kept; non-dominated means: no row is >= in every metric and > in one. *)
Theorem C13_pareto_partition_exact {A} (vals : list (list Q)) (width : nat) (obs : list A) (dflt : A) :
  (forall r, In r vals -> length r = width) -> length obs = length vals ->
  let ix := seq 0 (length vals) in
  pareto_split vals obs =
  (map (fun j => nth j obs dflt) (filter (nondominated_b vals) ix),
   map (fun j => nth j obs dflt) (filter (fun j => negb (nondominated_b vals j)) ix))
  /\ forall j, (j < length vals)%nat ->
       (nondominated_b vals j = true <->
        ~ exists k, (k < length vals)%nat /\ Dominates (nth k vals []) (nth j vals [])).
Proof. exact (@pareto_partition_exact A vals width obs dflt). Qed.
Print Assumptions C13_pareto_partition_exact.

(* Without thresholds: convex combination of the constrained metric's values at the two single-metric optima
   (first minimum of each column). *)
Theorem C13_epsilon_no_bounds eps cm vals : vals <> [] ->
  let b0 := argmin (col 0 vals) in let b1 := argmin (col 1 vals) in
  (b0 < length vals)%nat /\ (b1 < length vals)%nat /\
  (forall k, (k < length vals)%nat -> at_ vals b0 0 <= at_ vals k 0) /\
  (forall k, (k < length vals)%nat -> at_ vals b1 1 <= at_ vals k 1) /\
  (forall k, (k < b0)%nat -> at_ vals b0 0 < at_ vals k 0) /\
  (forall k, (k < b1)%nat -> at_ vals b1 1 < at_ vals k 1) /\
  find_eps eps cm vals None None =
    (1 - eps) * Qminb (at_ vals b0 cm) (at_ vals b1 cm) + eps * Qmaxb (at_ vals b0 cm) (at_ vals b1 cm).
Proof. exact (epsilon_no_bounds eps cm vals). Qed.
Print Assumptions C13_epsilon_no_bounds.

(* With any thresholds (none, one, both; any values) the result stays in the range of that metric over the observations. *)
Theorem C13_epsilon_with_bounds_in_range eps cm vals t0 t1 lo hi :
  0 < eps -> eps < 1 -> vals <> [] -> (forall r, In r vals -> lo <= nth cm r 0 <= hi) ->
  lo <= find_eps eps cm vals t0 t1 <= hi.
Proof. exact (epsilon_with_bounds_in_range eps cm vals t0 t1 lo hi). Qed.
Print Assumptions C13_epsilon_with_bounds_in_range.

(* The repair clears only failures, reaches max(before, min(5, n)) successes and clears lowest-valued failures. *)
Theorem C13_min_successes om vals fails : length vals = length fails ->
  let out := force_min om vals fails in
  let succ l := count_true (map negb l) in
  length out = length fails /\
  (forall j, nth j out false = true -> nth j fails false = true) /\
  succ out = Nat.max (succ fails) (Nat.min 5 (length fails)) /\
  (forall a b, nth a fails false = true -> nth a out false = false -> nth b out false = true ->
     at_ vals a om <= at_ vals b om).
Proof. exact (min_successes om vals fails). Qed.
Print Assumptions C13_min_successes.

(* Labelling by the epsilon threshold never leaves fewer than five (or all, when fewer exist) successful points. *)
Theorem C13_labelling_keeps_minimum eps om cm vals fails : length vals = length fails ->
  (Nat.min 5 (length fails) <= count_true (map negb (eps_labelling eps om cm vals fails)))%nat.
Proof. exact (labelling_keeps_minimum eps om cm vals fails). Qed.
Print Assumptions C13_labelling_keeps_minimum.

(* non-vacuity: a 4-row instance with a tie and a dominated row *)
Example C13_example :
  pareto_split [[1;2]; [2;1]; [1;1]; [1;2]] [10;11;12;13]%nat = ([10;11;13]%nat, [12]%nat) /\
  find_eps (1#4) 1 [[1;5]; [3;2]; [2;4]] None None == (1 - (1#4)) * 2 + (1#4) * 5 /\
  force_min 0 [[3;0]; [1;0]; [2;0]; [5;0]; [4;0]; [0;0]; [9;0]] [true; true; true; false; true; true; true]
    = [false; false; false; false; true; false; true].
Proof. vm_compute. repeat split; reflexivity. Qed.
