(* C13 — Pareto frontier and epsilon-constraint thresholds are exact.
   Only statements, each closed by `exact`, with Print Assumptions beneath. Models: LV.Model.Pareto; LV.Model.Filters for the
   two wrappers that consume the labelling (filter_multimetric_points_sampled, filter_multimetric_points_sampled_spe). *)
From Coq Require Import List QArith Bool Arith Permutation Sorted.
From LV Require Import Model.Pareto Proofs.Pareto Model.Phases Model.Filters Proofs.Filters.
Import ListNotations.
Open Scope Q_scope.

(* The two returned lists are exactly the labels of the non-dominated and of the dominated rows, in order, every copy of
   a tied row kept; non-dominated means: no row is >= in every metric and > in one. *)
Theorem C13_pareto_partition_exact {A} (vals : list (list Q)) (width : nat) (obs : list A) (dflt : A) :
  (forall r, In r vals -> length r = width) -> length obs = length vals ->
  let ix := seq 0 (length vals) in
  pareto_split vals obs =
  (map (fun j => nth j obs dflt) (filter (nondominated_b vals) ix),
   map (fun j => nth j obs dflt) (filter (fun j => negb (nondominated_b vals j)) ix))
  /\ forall j, (j < length vals)%nat ->
       (nondominated_b vals j = true <->
        ~ exists k, (k < length vals)%nat /\ Dominates (nth k vals []) (nth j vals [])).
Proof. exact (@pareto_partition_exact A vals width obs dflt). Qed.
Print Assumptions C13_pareto_partition_exact.

(* The frontier sorted along the first metric, as the threshold-clipped epsilon routine consumes it
   (_find_sorted_pareto_frontier_values_minimization): a rearrangement of exactly the rows that no row dominates under
   minimisation - every copy of a tied row kept - in non-decreasing order of the first metric. *)
Theorem C13_sorted_frontier_exact (vals : list (list Q)) (width : nat) :
  (forall r, In r vals -> length r = width) ->
  let nv := neg_rows vals in
  Permutation (sorted_pareto_min vals)
              (map (fun j => nth j vals []) (filter (nondominated_b nv) (seq 0 (length vals)))) /\
  StronglySorted (fun a b => nth 0 a 0 <= nth 0 b 0) (sorted_pareto_min vals) /\
  forall j, (j < length vals)%nat ->
    (nondominated_b nv j = true <->
     ~ exists k, (k < length vals)%nat /\ Dominates (nth k nv []) (nth j nv [])).
Proof. exact (sorted_frontier_exact vals width). Qed.
Print Assumptions C13_sorted_frontier_exact.

(* Without thresholds: convex combination of the constrained metric's values at the two single-metric optima
   (first minimum of each column). *)
Theorem C13_epsilon_no_bounds eps cm vals : vals <> [] ->
  let b0 := argmin (col 0 vals) in let b1 := argmin (col 1 vals) in
  (b0 < length vals)%nat /\ (b1 < length vals)%nat /\
  (forall k, (k < length vals)%nat -> at_ vals b0 0 <= at_ vals k 0) /\
  (forall k, (k < length vals)%nat -> at_ vals b1 1 <= at_ vals k 1) /\
  (forall k, (k < b0)%nat -> at_ vals b0 0 < at_ vals k 0) /\
  (forall k, (k < b1)%nat -> at_ vals b1 1 < at_ vals k 1) /\
  find_eps eps cm vals None None =
    (1 - eps) * Qminb (at_ vals b0 cm) (at_ vals b1 cm) + eps * Qmaxb (at_ vals b0 cm) (at_ vals b1 cm).
Proof. exact (epsilon_no_bounds eps cm vals). Qed.
Print Assumptions C13_epsilon_no_bounds.

(* With any thresholds (none, one, both; any values) the result stays in the range of that metric over the observations. *)
Theorem C13_epsilon_with_bounds_in_range eps cm vals t0 t1 lo hi :
  0 < eps -> eps < 1 -> vals <> [] -> (forall r, In r vals -> lo <= nth cm r 0 <= hi) ->
  lo <= find_eps eps cm vals t0 t1 <= hi.
Proof. exact (epsilon_with_bounds_in_range eps cm vals t0 t1 lo hi). Qed.
Print Assumptions C13_epsilon_with_bounds_in_range.

(* The repair clears only failures, reaches max(before, min(5, n)) successes and clears lowest-valued failures. *)
Theorem C13_min_successes om vals fails : length vals = length fails ->
  let out := force_min om vals fails in
  let succ l := count_true (map negb l) in
  length out = length fails /\
  (forall j, nth j out false = true -> nth j fails false = true) /\
  succ out = Nat.max (succ fails) (Nat.min 5 (length fails)) /\
  (forall a b, nth a fails false = true -> nth a out false = false -> nth b out false = true ->
     at_ vals a om <= at_ vals b om).
Proof. exact (min_successes om vals fails). Qed.
Print Assumptions C13_min_successes.

(* Labelling by the epsilon threshold never leaves fewer than five (or all, when fewer exist) successful points. *)
Theorem C13_labelling_keeps_minimum eps om cm vals fails : length vals = length fails ->
  (Nat.min 5 (length fails) <= count_true (map negb (eps_labelling eps om cm vals fails)))%nat.
Proof. exact (labelling_keeps_minimum eps om cm vals fails). Qed.
Print Assumptions C13_labelling_keeps_minimum.

(* ---- the guaranteed minimum at the consumers of the labelling (epsilon-constraint method) -------------------- *)
(* GP path (filter_multimetric_points_sampled): for EVERY failure mask - any number of reported failures, fewer than five
   good observations, n < 5, every observation a reported failure, ties - at least min(5, n) rows reach the Gaussian
   process; points, values and variances are equally long and are the rows kept, in order. *)
Theorem C13_wrapper_gp_keeps_minimum eps om cm n pts vals vars fails lie : aligned n pts vals vars fails ->
  let o := filter_gp (EpsC om cm eps) pts vals vars fails lie in
  (Nat.min 5 n <= length (o_pts o))%nat /\
  length (o_pts o) = arr_len (o_vals o) /\ arr_len (o_vals o) = arr_len (o_vars o) /\
  exists keepm, length keepm = n /\ count_true keepm = length (o_pts o) /\
    o_pts o = select keepm pts /\ o_vals o = A1 (select keepm (col om vals)) /\ o_vars o = A1 (select keepm (col om vars)).
Proof. exact (wrapper_gp_keeps_minimum eps om cm n pts vals vars fails lie). Qed.
Print Assumptions C13_wrapper_gp_keeps_minimum.

(* Parzen-estimator path (filter_multimetric_points_sampled_spe), again for EVERY failure mask: points untouched, every row
   carries its own optimising value or the lie value, at least min(5, n) rows carry their own value, and when the lie
   value differs from every observed value at least min(5, n) rows are not the lie - nothing after the repair re-marks a
   promoted row. *)
Theorem C13_wrapper_spe_keeps_minimum eps om cm n pts vals fails lie : aligned n pts vals vals fails ->
  let o := filter_spe (EpsC om cm eps) pts vals fails lie in
  fst o = pts /\ length (snd o) = n /\
  (forall j, (j < n)%nat -> nth j (snd o) 0 = at_ vals j om \/ nth j (snd o) 0 = nth om lie 0) /\
  (Nat.min 5 n <= own_count (col om vals) (snd o))%nat /\
  ((forall j, (j < n)%nat -> ~ at_ vals j om == nth om lie 0) ->
   (Nat.min 5 n <= not_lie_count (nth om lie 0%Q) (snd o))%nat).
Proof. exact (wrapper_spe_keeps_minimum eps om cm n pts vals fails lie). Qed.
Print Assumptions C13_wrapper_spe_keeps_minimum.

(* The mask that marks every observation (the repaired defect: the code used to raise ValueError): nothing is labelled by
   the threshold, the GP is handed all n rows, and on the Parzen path exactly min(5, n) rows are not the lie. *)
Theorem C13_wrapper_all_failed eps om cm n pts vals vars lie : aligned n pts vals vars (repeat true n) ->
  let fails := repeat true n in
  eps_failures eps cm vals fails = repeat false n /\
  o_pts (filter_gp (EpsC om cm eps) pts vals vars fails lie) = pts /\
  ((forall j, (j < n)%nat -> ~ at_ vals j om == nth om lie 0) ->
   not_lie_count (nth om lie 0%Q) (snd (filter_spe (EpsC om cm eps) pts vals fails lie)) = Nat.min 5 n).
Proof. exact (wrapper_all_failed eps om cm n pts vals vars lie). Qed.
Print Assumptions C13_wrapper_all_failed.

(* non-vacuity: a 4-row instance with a tie and a dominated row *)
Example C13_example :
  pareto_split [[1;2]; [2;1]; [1;1]; [1;2]] [10;11;12;13]%nat = ([10;11;13]%nat, [12]%nat) /\
  find_eps (1#4) 1 [[1;5]; [3;2]; [2;4]] None None == (1 - (1#4)) * 2 + (1#4) * 5 /\
  force_min 0 [[3;0]; [1;0]; [2;0]; [5;0]; [4;0]; [0;0]; [9;0]] [true; true; true; false; true; true; true]
    = [false; false; false; false; true; false; true] /\
  sorted_pareto_min [[1;9]; [1;2]; [5;5]; [1;2]; [7;1]; [7;1]; [8;8]] = [[1;2]; [1;2]; [7;1]; [7;1]].
Proof. vm_compute. repeat split; reflexivity. Qed.

(* non-vacuity of the wrapper theorems: three good observations and four reported failures (carrying the value 9); the
   repair promotes two reported failures, five of seven rows keep their value on the Parzen path (lie value 77) and five
   rows reach the GP.  The all-failed witness (seven rows, every one a reported failure): nothing is labelled by the
   threshold, the five lowest rows of the optimising metric keep their value on the Parzen path and all seven reach the GP. *)
Example C13_wrapper_example :
  let vals := [[0;6]; [9;9]; [3;3]; [9;9]; [6;0]; [9;9]; [9;9]] in
  let fails := [false; true; false; true; false; true; true] in
  let all_failed := [true; true; true; true; true; true; true] in
  let vals2 := [[4;6]; [1;9]; [3;3]; [8;2]; [6;0]; [2;5]; [7;7]] in
  let pts := [[0];[1];[2];[3];[4];[5];[6]] in
  (let '(p, v) := filter_spe (EpsC 0 1 (1#2)) pts vals fails [77; 99] in
   list_eqb (list_eqb Qeq_bool) p pts && list_eqb Qeq_bool v [0; 9; 3; 9; 6; 77; 77]
   && Nat.eqb (not_lie_count 77 v) 5 && Nat.eqb (own_count (col 0 vals) v) 5) = true /\
  (let o := filter_gp (EpsC 0 1 (1#2)) pts vals vals fails [77; 99] in
   arr_eqb (o_vals o) (A1 [0; 9; 3; 9; 6]) && Nat.eqb (length (o_pts o)) 5) = true /\
  eps_failures (1#2) 1 vals2 all_failed = [false; false; false; false; false; false; false] /\
  eps_labelling (1#2) 0 1 vals2 all_failed = [false; false; false; true; false; false; true] /\
  (let '(p, v) := filter_spe (EpsC 0 1 (1#2)) pts vals2 all_failed [77; 99] in
   list_eqb Qeq_bool v [4; 1; 3; 77; 6; 2; 77] && Nat.eqb (not_lie_count 77 v) 5) = true /\
  (let o := filter_gp (EpsC 0 1 (1#2)) pts vals2 vals2 all_failed [77; 99] in
   arr_eqb (o_vals o) (A1 [4; 1; 3; 8; 6; 2; 7]) && Nat.eqb (length (o_pts o)) 7) = true.
Proof. vm_compute. repeat split; reflexivity. Qed.
