(* C03, "positive semi-definite Gram matrices", multitask part: statements about Gen.GenMultitask._covariance (regenerated from
   multitask_covariance.py).  The Gram matrix of the multitask kernel over n points is the entrywise product of the physical and the task Gram
   matrices (times the process variance, which the code puts into the physical factor); it is positive semi-definite whenever the physical
   Gram matrix has a factor P = L L' (the form in which a PSD matrix is used throughout, cf. C17) and the task Gram matrix is PSD.
   PSD of the SquareExponential Gram matrices (any n, any dimension) and of the one-dimensional C0 Gram matrices is proved in
   Props/C03_se_psd.v / Props/C03_c0_1d_psd.v; for the other Matern cases it stays a hypothesis (Schoenberg; eigenvalue search of the plug-in). *)
From Coq Require Import Reals Arith.
From LV Require Import Lib.RBase Gen.GenMultitask Proofs.Hadamard.
Open Scope R_scope.

Theorem C03_multitask_gram_psd n m (P T L : nat -> nat -> R) pg tg ph th :
  factored n m P L -> psdR n T ->
  psdR n (fun a b => GenMultitask._covariance (fun _ => P a b) (fun _ => T a b) pg tg ph th 0%nat).
Proof. exact (hadamard_psd n m P L T). Qed.
Print Assumptions C03_multitask_gram_psd.

(* a matrix with a factor is PSD (so the hypothesis on P is a strengthening of "P is PSD" by the existence of a factor, which is what
   C17 proves the library can compute for every symmetric PSD matrix) *)
Theorem C03_factored_is_psd n m (A L : nat -> nat -> R) : factored n m A L -> psdR n A.
Proof. exact (factored_psd n m A L). Qed.
Print Assumptions C03_factored_is_psd.

(* scaling by the (positive) process variance keeps PSD *)
Theorem C03_psd_scaled_by_process_variance n alpha K : 0 <= alpha -> psdR n K -> psdR n (fun a b => alpha * K a b).
Proof. exact (psd_scale n alpha K). Qed.
Print Assumptions C03_psd_scaled_by_process_variance.

(* non-vacuity: a 2 x 2 instance (P = L L' with L = [[1,0],[1,1]], T = [[1, 1/2],[1/2, 1]]) *)
Example C03_multitask_gram_psd_example :
  factored 2 2 (fun a b => match a, b with O, O => 1 | O, _ => 1 | _, O => 1 | _, _ => 2 end)
               (fun a k => match a, k with O, O => 1 | O, _ => 0 | _, _ => 1 end).
Proof. intros a b Ha Hb. destruct a as [|[|a]]; destruct b as [|[|b]]; try (exfalso; apply (Nat.lt_irrefl 2); eauto using Nat.lt_trans; fail); simpl; try ring;
  exfalso; repeat match goal with H : (S (S _) < 2)%nat |- _ => apply Nat.succ_lt_mono in H; apply Nat.succ_lt_mono in H; inversion H end. Qed.
