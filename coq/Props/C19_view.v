(* C19, view level - "the search acquisition value equals the modelled probability of satisfying ALL metric constraints".
   Only statements, each closed by `exact`, with Print Assumptions beneath.  Model: LV.Model.SearchView (on Model.Wiring, C06, and
   Model.Midpoint, C12).  The modelled probability is the product of one CDF model per constraint metric of the request; which
   numbers each of those models is built from is what the search view (two index-selecting sites: filter_points_sampled and
   View._preprocess_constraint_metrics, then the per-model hyperparameter lookup) has to get right for index lists in ANY order,
   interleaved with stored metrics. *)
From Coq Require Import List QArith ZArith Bool Arith.
From LV Require Import Model.Domain Model.Decode Model.Midpoint Model.Phases Model.Wiring Model.SearchView.
From LV Require Import Proofs.Wiring Proofs.SearchView.
Import ListNotations.
Open Scope Q_scope.

(* Whenever the search view builds its failure model (a request without optimised metrics, with at least one constraint metric,
   no tasks): one CDF member per entry of the constraint index list, in the order of the list.  Member k, with m = the k-th listed
   metric, is built from metric m and nothing else: the hyperparameters (and nugget) are entry m of model_info.hyperparameters; with
   i = C12's scaling object of RAW COLUMN m (the request's failure mask, metric m's objective) and l its constant-liar-min lie, the
   threshold is metric m's own user threshold mapped by i, and the data of the member's Gaussian process is a list of
   (encoded observation j, value) pairs whose value is the scaled lie when observation j failed and i applied to values[j][m]
   otherwise (row_pair), followed - under constant liar only - by the encoded pending points with the scaled lie. *)
Theorem C19_search_view_models_own_metric r pfs : search_view_pfs r = Some pfs ->
  q_opt_ix r = [] /\ q_con_ix r <> [] /\
  exists pts pend,
    encode_rows (q_dom r) false (q_points r) [] = Some pts /\ encode_rows (q_dom r) false (q_pending r) [] = Some pend /\
    length pfs = length (q_con_ix r) /\
    forall k, (k < length (q_con_ix r))%nat ->
      let p := nth k pfs dpf in let m := nth k (q_con_ix r) O in
      p_kind p = PfCdf /\ g_metric (p_gp p) = m /\
      exists h i l t,
        nth_error (q_hypers r) m = Some h /\ hyper_vec (comps (q_dom r)) h = Some (g_hyp (p_gp p)) /\
        g_tik (p_gp p) = hp_tik h /\
        smmi (column m (q_values r)) (q_fails r) (nth m (q_objs r) NoObjective) = Some i /\
        lie_value i LieMin = Some l /\
        nth m (q_thr r) None = Some t /\ p_thr p = rel_value i t /\
        exists dp dv, length dp = length dv /\
          g_pts (p_gp p) = lied r dp pend /\ g_vals (p_gp p) = lied r dv (repeat (rel_value i l) (length pend)) /\
          Forall (row_pair r pts m i l) (combine dp dv) /\
          Forall (fun y => y <= rel_value i l) (g_vals (p_gp p)).
Proof. exact (search_view_models r pfs). Qed.
Print Assumptions C19_search_view_models_own_metric.

(* non-vacuity: one double in [0,4], four observations, three metrics (minimise / maximise / maximise); the constraint metrics are
   listed as [2; 0] - descending, with the stored metric 1 between them - with thresholds 25 (metric 2) and 1 (metric 0); one
   pending point under constant liar.  Member 0 is on metric 2: kernel [3; 1/2], its column 10,30,20,40 maximised -> 0.1,-0.033,
   0.033,-0.1 and the lie 0.1 for the pending point, threshold 25 -> 0; member 1 is on metric 0: kernel [1; 2], column 0,2,1,4
   minimised -> -0.1,0,-0.05,0.1 and the lie 0.1, threshold 1 -> -0.05. *)
Example C19_example_search_view :
  let r := mkreq {| comps := [Double 0 4]; cons := [] |}
        [[0]; [4]; [1]; [3]]
        [[0; 7; 10]; [2; 7; 30]; [1; 9; 20]; [4; 8; 40]] [[0;0;0]; [0;0;0]; [0;0;0]; [0;0;0]] [false; false; false; false] []
        [Minimize; Maximize; Maximize] [] [2%nat; 0%nat] [Some 1; None; Some 25] false
        [mkhyper 1 [[Some 2]] None None; mkhyper 2 [[Some 3]] None None; mkhyper 3 [[Some (1#2)]] None None]
        [[2]] [] [[2]] [] ConstantLiar [] MeanZero None 0%Z NotMM in
  option_map (map (fun p => (g_metric (p_gp p), p_thr p, g_hyp (p_gp p), g_vals (p_gp p)))) (search_view_pfs r) =
  Some [(2%nat, 0 # 600, [3; 1 # 2], [60 # 600; -20 # 600; 20 # 600; -60 # 600; 60 # 600]);
        (0%nat, -4 # 80, [1; 2], [-8 # 80; 0 # 80; -4 # 80; 8 # 80; 8 # 80])].
Proof. vm_compute. reflexivity. Qed.
