(* C05, Monte-Carlo parallel expected improvement WITH FAILURE MODELS — statements about the executable model Model.ParallelEIF of
   ExpectedParallelImprovementWithFailures._evaluate_at_point_list / evaluate_at_point_list (tied to the running code by the
   in-Coq correspondence Model.ParallelEIFCorr: stub predictors, stub failure models inside the real product model, prescribed
   factors, scripted draws; the incumbent of the class is tied there to Model.Incumbent.incumbent_failures, whose theorems are in
   Props/C05_incumbent.v).  Only statements, each closed by `exact`.

   Notation of the model: a call evaluates the candidate sets `fsets`; set k = ((mk, Lk), fails, probs):
     mk, Lk  objective means of its q points, rows of the factor of the objective covariance of set k ++ pending (C17: Lk Lk' = cov),
     fails   for each failure model i the pair (means of the q points under model i, factor of model i's covariance of set k ++ pending),
     probs   for each failure model i its probability of success at the FIRST point of set k;  prodQ probs = their product;
   `fms` = for each failure model i (its means of the p pending points, its threshold t_i);  `mp` = objective means of the pending
   points;  c = q + p;  `stream` = the standard normal draws in the order numpy.random.normal hands them out;  N, B =
   num_mc_iterations, num_mc_iterations_per_loop.  qeif_wf = the shapes agree (q means per set and model, one entry per failure
   model, p pending means per model).  Lz c L z j = sum_{l<c} L[j][l] z[l];  qltb a b = (a < b);  amin = minimum of a non-empty list.

   What the code computes (reading of theorem (a)).  ONE array of draws per pass of the loop: the same vector z drives the
   objective sample y = m + L z and the sample f_i = m_i + L_i z of EVERY failure model (the models are not sampled independently
   of each other or of the objective).  Point j of draw z is FEASIBLE when f_i[j] < t_i STRICTLY for EVERY failure model i — the
   test is per point (candidate and pending points alike) and the indicator arrays are multiplied (a conjunction).  The
   contribution of draw z to set k is max(0, best - min over the feasible points j of y_j), 0 when no point is feasible
   (masked_improvement).  A pass (block of b = min(B, N) draws) in which this is zero for EVERY candidate set of the call at EVERY
   draw of the block is replaced as a whole: each set then gets, per draw, fmax(0, amax_j((best - y_j) * prodQ probs)), which for a
   success probability >= 0 is prodQ probs * max(0, best - min_j y_j) over ALL points (weighted_improvement).  The sum is divided
   by the number of executed draws (n_exec: the least multiple of b reaching N, Props/C05_qei.v). *)
From Coq Require Import List QArith Bool Arith.
From LV Require Import Model.ParallelEI Model.ParallelEIF Proofs.ParallelEI Proofs.ParallelEIF.
Import ListNotations.
Open Scope Q_scope.

(* the blocks one call executes are the executed draws of Props/C05_qei.v cut into passes of b = min(B, N) rows *)
Theorem C05_qeif_blocks_are_the_executed_draws N B c stream :
  concat (executed_blocks N B c stream) = executed_draws N B c stream /\
  length (executed_blocks N B c stream) = passes N (Nat.min B N) N 0 /\
  (forall blk, In blk (executed_blocks N B c stream) -> length blk = Nat.min B N).
Proof.
  exact (conj (executed_blocks_concat N B c stream)
              (conj (blocks_length c (Nat.min B N) (passes N (Nat.min B N) N 0) stream) (blocks_each c (Nat.min B N) (passes N (Nat.min B N) N 0) stream))).
Qed.
Print Assumptions C05_qeif_blocks_are_the_executed_draws.

(* (a) the estimate of candidate set k, for all inputs of the right shapes: over the blocks of the call,
     block_term = sum over the draws of the block of masked_improvement, or of fallback_gain when the block falls back
                  (block_falls_back: masked_improvement == 0 for every set of the call at every draw of the block),
     fset_estimate = (sum of the block terms) / (number of executed draws) *)
Theorem C05_qeif_estimate q fsets fms mp best N B stream k :
  qeif_wf q fsets fms mp -> (k < length fsets)%nat ->
  let c := (q + length mp)%nat in
  let blks := executed_blocks N B c stream in
  nth k (qeif q fsets fms mp best N B stream) 0 ==
  sumQ (map (fun blk => if block_falls_back c fsets fms mp best blk
                        then sumQ (map (fallback_gain c (nth k fsets dfset) mp best) blk)
                        else sumQ (map (masked_improvement c (nth k fsets dfset) fms mp best) blk)) blks)
  / ofnat (length (concat blks)).
Proof. exact (qeif_estimate q fsets fms mp best N B stream k). Qed.
Print Assumptions C05_qeif_estimate.

(* ... the masked improvement of one draw, written out: y = m + L z, m = mk ++ mp; point j feasible iff for every failure model i
   (m_i + L_i z)_j < t_i strictly, m_i = (means of the set under model i) ++ (pending means under model i), the SAME z *)
Theorem C05_qeif_masked_improvement c mk Lk fails probs fms mp best z :
  masked_improvement c ((mk, Lk), fails, probs) fms mp best z =
  match filter (fun j => forallb (fun i => qltb (nth j (fst (nth i fails dcset) ++ fst (nth i fms dfmod)) 0 + Lz c (snd (nth i fails dcset)) z j)
                                              (snd (nth i fms dfmod))) (seq 0 (length fms))) (seq 0 c) with
  | [] => 0
  | js => qmax 0 (best - amin (map (fun j => nth j (mk ++ mp) 0 + Lz c Lk z j) js))
  end.
Proof. exact (masked_improvement_explicit c mk Lk fails probs fms mp best z). Qed.
Print Assumptions C05_qeif_masked_improvement.

(* ... and the fallback term, for a success probability >= 0: probability * plain improvement of the lowest sample of all points *)
Theorem C05_qeif_fallback_is_weighted_improvement c s mp best z : (0 < c)%nat -> 0 <= prodQ (s_probs s) ->
  fallback_gain c s mp best z == prodQ (s_probs s) * qmax 0 (best - amin (fsample c (s_obj s) mp z)).
Proof. exact (fallback_gain_weighted c s mp best z). Qed.
Print Assumptions C05_qeif_fallback_is_weighted_improvement.

(* (a) again with the weighted reading (this is the form evaluated on the implementation's output by the correspondence) *)
Theorem C05_qeif_estimate_weighted q fsets fms mp best N B stream k :
  qeif_wf q fsets fms mp -> (0 < q + length mp)%nat -> (k < length fsets)%nat -> 0 <= prodQ (s_probs (nth k fsets dfset)) ->
  nth k (qeif q fsets fms mp best N B stream) 0 ==
  fset_estimate_w (q + length mp) fsets fms mp best (nth k fsets dfset) (executed_blocks N B (q + length mp) stream).
Proof. exact (qeif_estimate_weighted q fsets fms mp best N B stream k). Qed.
Print Assumptions C05_qeif_estimate_weighted.

(* (b) one estimate per candidate set, each non-negative (nothing required) ... *)
Theorem C05_qeif_nonneg q fsets fms mp best N B stream : Forall (fun e => 0 <= e) (qeif q fsets fms mp best N B stream).
Proof. exact (qeif_nonneg q fsets fms mp best N B stream). Qed.
Print Assumptions C05_qeif_nonneg.

Theorem C05_qeif_one_estimate_per_set q fsets fms mp best N B stream : length (qeif q fsets fms mp best N B stream) = length fsets.
Proof. exact (qeif_length q fsets fms mp best N B stream). Qed.
Print Assumptions C05_qeif_one_estimate_per_set.

(* ... and at most the plain parallel EI (Model.ParallelEI.qei, Props/C05_qei.v) of the same objective means and factors on the
   NEGATED draws, when the success probability of the set's first point is in [0,1].  (The plain class forms L z + best - m, sample
   m - L z; this class forms best - (L z + m), sample m + L z: the two classes read the same draw with opposite signs.) *)
Theorem C05_qeif_le_plain_on_negated_draws q fsets fms mp best N B stream k :
  qeif_wf q fsets fms mp -> (0 < q + length mp)%nat -> (0 < N)%nat -> (0 < B)%nat -> (k < length fsets)%nat ->
  0 <= prodQ (s_probs (nth k fsets dfset)) <= 1 ->
  nth k (qeif q fsets fms mp best N B stream) 0 <= nth k (qei q (map s_obj fsets) mp best N B (map Qopp stream)) 0.
Proof. exact (qeif_le_plain q fsets fms mp best N B stream k). Qed.
Print Assumptions C05_qeif_le_plain_on_negated_draws.

(* on the draws themselves the comparison is false (one set, every sample feasible, draw -1: 1 against 0) *)
Theorem C05_qeif_le_plain_on_same_draws_refuted :
  exists q fsets fms mp best N B stream k,
    qeif_wf q fsets fms mp /\ (0 < q + length mp)%nat /\ (0 < N)%nat /\ (0 < B)%nat /\ (k < length fsets)%nat /\
    0 <= prodQ (s_probs (nth k fsets dfset)) <= 1 /\
    ~ nth k (qeif q fsets fms mp best N B stream) 0 <= nth k (qei q (map s_obj fsets) mp best N B stream) 0.
Proof. exact qeif_le_plain_on_same_draws_refuted. Qed.
Print Assumptions C05_qeif_le_plain_on_same_draws_refuted.

(* (c) set independence as in C05_qei_set_independent is FALSE here: the fallback test looks at the whole block, i.e. at all the
   candidate sets of the call.  Witness (replayed on the real class by the correspondence): a set whose only point is never
   feasible gets 1/2 * improvement = 1/2 when evaluated alone, and 0 next to a set with a feasible improving sample. *)
Theorem C05_qeif_set_independent_refuted :
  exists q fsets fsets' fms mp best N B stream k k',
    qeif_wf q fsets fms mp /\ qeif_wf q fsets' fms mp /\ (0 < q + length mp)%nat /\ (0 < N)%nat /\ (0 < B)%nat /\
    (k < length fsets)%nat /\ (k' < length fsets')%nat /\ nth k fsets dfset = nth k' fsets' dfset /\
    ~ nth k (qeif q fsets fms mp best N B stream) 0 == nth k' (qeif q fsets' fms mp best N B stream) 0.
Proof. exact qeif_set_independent_refuted. Qed.
Print Assumptions C05_qeif_set_independent_refuted.

(* for the same reason the estimate is not a function of the executed draws alone (as the plain estimator is, C05_qei_executed_draws):
   the same two draws as one block of two or as two blocks of one give different estimates *)
Theorem C05_qeif_block_size_matters :
  exists q fsets fms mp best N B B' stream,
    qeif_wf q fsets fms mp /\ (0 < q + length mp)%nat /\ (0 < N)%nat /\ (0 < B)%nat /\ (0 < B')%nat /\
    executed_draws N B (q + length mp) stream = executed_draws N B' (q + length mp) stream /\
    ~ nth 0 (qeif q fsets fms mp best N B stream) 0 == nth 0 (qeif q fsets fms mp best N B' stream) 0.
Proof. exact qeif_block_size_matters. Qed.
Print Assumptions C05_qeif_block_size_matters.

(* what is true: in a call none of whose blocks falls back, the estimate is the mean over the executed draws of the masked
   improvement of the set - it depends only on the set's own data, the failure models, the pending means, best, N, B and the draws *)
Theorem C05_qeif_no_fallback_is_mean_masked_improvement q fsets fms mp best N B stream k :
  qeif_wf q fsets fms mp -> (k < length fsets)%nat ->
  no_fallback (q + length mp) fsets fms mp best (executed_blocks N B (q + length mp) stream) = true ->
  let zs := executed_draws N B (q + length mp) stream in
  nth k (qeif q fsets fms mp best N B stream) 0 ==
  sumQ (map (masked_improvement (q + length mp) (nth k fsets dfset) fms mp best) zs) / ofnat (length zs).
Proof. exact (qeif_no_fallback_explicit q fsets fms mp best N B stream k). Qed.
Print Assumptions C05_qeif_no_fallback_is_mean_masked_improvement.

Theorem C05_qeif_set_independent_without_fallback q fsets fsets' fms mp best N B stream k k' :
  qeif_wf q fsets fms mp -> qeif_wf q fsets' fms mp -> (k < length fsets)%nat -> (k' < length fsets')%nat ->
  no_fallback (q + length mp) fsets fms mp best (executed_blocks N B (q + length mp) stream) = true ->
  no_fallback (q + length mp) fsets' fms mp best (executed_blocks N B (q + length mp) stream) = true ->
  nth k fsets dfset = nth k' fsets' dfset ->
  nth k (qeif q fsets fms mp best N B stream) 0 == nth k' (qeif q fsets' fms mp best N B stream) 0.
Proof. exact (qeif_set_independent q fsets fsets' fms mp best N B stream k k'). Qed.
Print Assumptions C05_qeif_set_independent_without_fallback.

(* in particular a set that has a non-zero masked improvement in every block (set_active: a condition on the set alone) has the
   same estimate in every call that contains it as when it is evaluated alone *)
Theorem C05_qeif_set_alone q fsets fms mp best N B stream k :
  qeif_wf q fsets fms mp -> (k < length fsets)%nat ->
  set_active (q + length mp) (nth k fsets dfset) fms mp best (executed_blocks N B (q + length mp) stream) = true ->
  nth k (qeif q fsets fms mp best N B stream) 0 == nth 0 (qeif q [nth k fsets dfset] fms mp best N B stream) 0.
Proof. exact (qeif_set_alone q fsets fms mp best N B stream k). Qed.
Print Assumptions C05_qeif_set_alone.

(* the public entry point evaluate_at_point_list(points, batch_size): the estimate of candidate set k is the estimate (a) of the
   call made for ITS batch - the candidate sets of that batch (they decide which blocks fall back), the stream moved on by the
   n_exec * c draws of each earlier batch.  Unlike the plain estimator the value therefore depends on the batch size. *)
Theorem C05_qeif_public_batches batch q fsets fms mp best N B stream k :
  qeif_wf q fsets fms mp -> (k < length fsets)%nat ->
  let bs := match batch with Some b0 => if (b0 =? 0)%nat then length fsets else b0 | None => length fsets end in
  let c := (q + length mp)%nat in
  nth k (qeif_public batch q fsets fms mp best N B stream) 0 ==
  fset_estimate c (firstn bs (skipn ((k / bs) * bs) fsets)) fms mp best (nth k fsets dfset)
                (executed_blocks N B c (skipn ((k / bs) * (n_exec N B * c)) stream)).
Proof. exact (qeif_public_estimate batch q fsets fms mp best N B stream k). Qed.
Print Assumptions C05_qeif_public_batches.

(* (d) thresholds that every executed sample of the set satisfies (all_feasible: every point of every executed draw feasible) and
   a success probability >= 0: the estimate is the plain parallel EI of the objective data on the negated draws ... *)
Theorem C05_qeif_all_feasible_is_plain q fsets fms mp best N B stream k :
  qeif_wf q fsets fms mp -> (0 < q + length mp)%nat -> (0 < N)%nat -> (0 < B)%nat -> (k < length fsets)%nat ->
  0 <= prodQ (s_probs (nth k fsets dfset)) ->
  all_feasible (q + length mp) (nth k fsets dfset) fms (executed_draws N B (q + length mp) stream) = true ->
  nth k (qeif q fsets fms mp best N B stream) 0 == nth k (qei q (map s_obj fsets) mp best N B (map Qopp stream)) 0.
Proof. exact (qeif_all_feasible_is_plain q fsets fms mp best N B stream k). Qed.
Print Assumptions C05_qeif_all_feasible_is_plain.

(* ... in particular with no failure model at all (the real product model asserts at least one; the model does not need it) *)
Theorem C05_qeif_no_failure_models_is_plain q fsets mp best N B stream k :
  qeif_wf q fsets [] mp -> (0 < q + length mp)%nat -> (0 < N)%nat -> (0 < B)%nat -> (k < length fsets)%nat ->
  nth k (qeif q fsets [] mp best N B stream) 0 == nth k (qei q (map s_obj fsets) mp best N B (map Qopp stream)) 0.
Proof. exact (qeif_no_failure_models_is_plain q fsets mp best N B stream k). Qed.
Print Assumptions C05_qeif_no_failure_models_is_plain.

(* a concrete non-trivial instance (hypotheses satisfiable): two candidate sets of two points, one pending point, one failure model
   with threshold 1/2, three requested draws executed as two blocks of two; the first block keeps its masked improvements, the
   second falls back to the weighted improvements (success probabilities 1/2 and 3/4) *)
Example C05_qeif_example :
  let e1 : fset := (([1; 0], [[1; 0; 0]; [1#2; 1; 0]; [0; 1#2; 1]]), [([0; 1], [[1; 0; 0]; [0; 1; 0]; [0; 0; 1]])], [1#2]) in
  let e2 : fset := (([-1; 2], [[2; 0; 0]; [0; 0; 0]; [1; -1; 1#2]]), [([1; -1], [[1#2; 0; 0]; [1; 1; 0]; [0; 0; 2]])], [3#4]) in
  let fms : list fmod := [([1#2], 1#2)] in
  let stream := [1; 0; -1;   -1; 1; 0;   1; 2; 1;   0; 0; 1;   7; 7; 7] in
  map Qred (qeif 2 [e1; e2] fms [1#2] (1#4) 3 2 stream) = [9 # 32; 9 # 32]
  /\ map (block_falls_back 3 [e1; e2] fms [1#2] (1#4)) (executed_blocks 3 2 3 stream) = [false; true]
  /\ map Qred (qei 2 [s_obj e1; s_obj e2] [1#2] (1#4) 3 2 (map Qopp stream)) = [5 # 16; 19 # 16]
  /\ qeif_wf 2 [e1; e2] fms [1#2].
Proof.
  cbv zeta. split; [vm_compute; reflexivity|]. split; [vm_compute; reflexivity|]. split; [vm_compute; reflexivity|].
  split.
  - intros s [<-|[<-|[]]]; (repeat split; try reflexivity; intros f [<-|[]]; reflexivity).
  - intros fm [<-|[]]. reflexivity.
Qed.
