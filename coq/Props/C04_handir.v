(* C04, tie of the two hand-written IR units: statements about Gen.GenAcq (regenerated on every run).  The hand-written forms
   (the masked-product gradient and the per-hyperparameter likelihood-gradient loop), about which C04_product_rule / C04_loglik_*
   are stated, are equal to the definitions translated from the source loops themselves. *)
From Coq Require Import Reals.
From LV Require Import Lib.RBase Gen.GenAcq Proofs.HandIR.
Open Scope R_scope.

Theorem C04_product_grad_hand_is_translated dim nq poss gposs i k :
  Product.grad dim nq poss gposs i k = Product.grad_loop dim nq poss gposs i k.
Proof. exact (product_grad_hand_is_translated dim nq poss gposs i k). Qed.
Print Assumptions C04_product_grad_hand_is_translated.

Theorem C04_loglik_grad_hand_is_translated n nh a dK Kinv s hyp h :
  LogLikGrad.grad n nh a dK Kinv s (fun _ => 1) h = LogLikGrad.grad_linear n nh a dK s hyp Kinv h /\
  LogLikGrad.grad n nh a dK Kinv s (fun h => exp (hyp h)) h = LogLikGrad.grad_logdom n nh a dK s hyp Kinv h.
Proof.
  split; [exact (loglik_grad_hand_is_translated_linear n nh a dK Kinv s hyp h)
         |exact (loglik_grad_hand_is_translated_logdom n nh a dK Kinv s hyp h)].
Qed.
Print Assumptions C04_loglik_grad_hand_is_translated.
